import IstioModel.C10.Theorems
import IstioModel.C10.Inbound

/-!
# C10 - property theorems, part 2: the generated inbound configuration enforces the mode

The model (`Inbound.lean`) of `getFilterChainMatchOptions` together with
`FilterChainMatchOptions.ToTransportSocket` / `BuildInboundTLS` gives, for an mTLS mode and a listener
protocol, the list of inbound filter chains as (transport_protocol match, terminates TLS?, HTTP or
TCP proxy, ALPN class, transport socket).  `GenTie.lean` proves this table equal to the one the
harness regenerates from the real functions on every run; the stream `inbound` compares the model of
the whole virtualInbound listener with the listener the real LDS generator builds.

Envoy semantics used (from the Envoy documentation, not observed): a connection is handed to a
filter chain whose `filter_chain_match.transport_protocol` equals what the TLS inspector detected
(`tls` / `raw_buffer`) and, if the chain lists application protocols, whose list contains the
connection's ALPN; a chain with a DownstreamTlsContext with `require_client_certificate` completes
the handshake only with a client certificate (mutual TLS); a chain without transport socket does not
terminate TLS.
-/
namespace IstioModel.C10

/-! ## inbound_enforces -/

/-- **STRICT accepts only mutual TLS**: for HTTP, TCP and sniffed ports every chain matches `tls`
    only, terminates it and requires a client certificate: there is no chain for plaintext and no
    TLS pass-through. -/
theorem inbound_enforces_strict (proto : LProto) :
    ∀ c ∈ chains .strict proto, c.acceptsPlaintext = false ∧ c.terminatesMTLS = true ∧ c.terminate = true := by
  cases proto <;> decide

/-- STRICT has a chain at all (mutual TLS is accepted). -/
theorem inbound_strict_nonempty (proto : LProto) : (chains .strict proto) ≠ [] := by
  cases proto <;> decide

/-- **DISABLE terminates no TLS**: every chain matches `raw_buffer` and has no transport socket. -/
theorem inbound_enforces_disable (proto : LProto) :
    ∀ c ∈ chains .disable proto, c.terminatesTLS = false ∧ c.transportTLS = false ∧ c.acceptsPlaintext = true := by
  cases proto <;> decide

theorem inbound_disable_nonempty (proto : LProto) : (chains .disable proto) ≠ [] := by
  cases proto <;> decide

/-- **PERMISSIVE accepts both**: some chain accepts plaintext without terminating TLS, some chain
    terminates Istio mutual TLS; and every chain that terminates TLS requires a client certificate and
    only takes connections with an Istio ALPN (TLS that is not Istio's is passed through, never
    terminated). -/
theorem inbound_enforces_permissive (proto : LProto) :
    (∃ c ∈ chains .permissive proto, c.acceptsPlaintext = true ∧ c.terminatesTLS = false) ∧
    (∃ c ∈ chains .permissive proto, c.terminatesMTLS = true) ∧
    (∀ c ∈ chains .permissive proto, c.terminatesTLS = true →
      c.sock = .mtls ∧ c.alpn ≠ [] ∧ c.alpn.all (fun a => Alpn.allIstio.contains a) = true ∧ c.transportTLS = true) := by
  cases proto <;> decide

/-- In no mode and for no protocol does a chain of the mTLS table terminate TLS without requiring a
    client certificate.  In the *model* this holds by construction (`sockFor` never yields `Sock.tls`);
    its content comes from the ties: `chains_model_eq_impl` checks the socket column against the real
    `ToTransportSocket`/`BuildInboundTLS` result (`require_client_certificate` and a validation
    context present) for all 16 cells, and the `inbound` stream observes the same on the real listener.
    One-way TLS does occur in the listener model, for Sidecar ingress listeners with user TLS settings:
    see `inbound_user_tls_only_under_disable`. -/
theorem inbound_never_one_way_tls (mode : MTLS) (proto : LProto) :
    ∀ c ∈ chains mode proto, c.terminatesOneWayTLS = false := by
  cases mode <;> cases proto <;> decide

/-- The `TLS` flag and the transport socket are consistent. -/
theorem inbound_terminate_iff_sock (mode : MTLS) (proto : LProto) (h : mode = .strict ∨ mode = .permissive) :
    ∀ c ∈ chains mode proto, c.terminate = c.terminatesTLS := by
  rcases h with rfl | rfl <;> cases proto <;> decide

/-! ## Per client: which chain Envoy selects (transport protocol, then application protocols) -/

/-- **inbound_enforces_per_client.**  For every mode a resolver can return, every listener protocol and
    every kind of client, with the REAL application-protocol lists of the chains (tied by
    `chains_model_eq_impl`) and Envoy's selection stages:
    * an Istio sidecar originating mutual TLS (TCP with or without metadata exchange, HTTP/1.0, 1.1, 2) is,
      under STRICT and PERMISSIVE, handed to at least one chain and only to chains terminating mutual TLS
      - it never falls into the TLS pass-through chain;
    * a plaintext client is, under PERMISSIVE and DISABLE, handed to a plaintext chain that terminates
      nothing, and under STRICT to no chain at all;
    * under STRICT whatever is selected terminates mutual TLS; under PERMISSIVE TLS that is not Istio's is
      never terminated; under DISABLE nothing is terminated. -/
theorem inbound_enforces_per_client (mode : MTLS) (hm : mode ≠ .unknown) (proto : LProto) (k : Client) :
    (k.isMTLS = true → mode ≠ .disable →
      selectChains (chains mode proto) k.conn ≠ [] ∧
      ∀ c ∈ selectChains (chains mode proto) k.conn, c.terminatesMTLS = true) ∧
    (k.isPlain = true → mode ≠ .strict →
      selectChains (chains mode proto) k.conn ≠ [] ∧
      ∀ c ∈ selectChains (chains mode proto) k.conn, c.acceptsPlaintext = true ∧ c.terminatesTLS = false) ∧
    (k.isPlain = true → mode = .strict → selectChains (chains mode proto) k.conn = []) ∧
    (mode = .strict → ∀ c ∈ selectChains (chains mode proto) k.conn, c.terminatesMTLS = true) ∧
    (mode = .permissive → k.isMTLS = false → ∀ c ∈ selectChains (chains mode proto) k.conn, c.terminatesTLS = false) ∧
    (mode = .disable → ∀ c ∈ selectChains (chains mode proto) k.conn, c.terminatesTLS = false) := by
  cases mode with
  | unknown => exact absurd rfl hm
  | disable => cases proto <;> cases k <;> decide
  | permissive => cases proto <;> cases k <;> decide
  | strict => cases proto <;> cases k <;> decide

/-- On a sniffed (auto) port an Istio HTTP client gets the HTTP chain and an Istio TCP client the TCP chain. -/
theorem inbound_auto_protocol_split (mode : MTLS) (hm : mode = .strict ∨ mode = .permissive) :
    (∀ k ∈ [Client.mtlsHTTP10, .mtlsHTTP11, .mtlsH2], ∀ c ∈ selectChains (chains mode .auto) k.conn, c.http = true) ∧
    (∀ k ∈ [Client.mtlsTCP, .mtlsTCPNoMx], ∀ c ∈ selectChains (chains mode .auto) k.conn, c.http = false) := by
  rcases hm with rfl | rfl <;> decide

/-- The filter chain matches of one cell are pairwise different (transport protocol, application protocols). -/
theorem cell_matches_distinct (mode : MTLS) (proto : LProto) :
    (chains mode proto).Pairwise (fun a b => (a.transportTLS, a.alpn) ≠ (b.transportTLS, b.alpn)) := by
  cases mode <;> cases proto <;> decide

/-- **inbound_enforces**, tied to the effective mode: the filter chains generated for a workload
    port (mode = the resolver's mode for that port, which is `effectiveMode`) admit plaintext iff
    the effective mode is not STRICT, terminate mutual TLS iff it is not DISABLE, never terminate
    one-way TLS, and under STRICT every chain terminates mutual TLS (no TLS pass-through either). -/
theorem inbound_enforces {ps : List PA} (hu : UniqueKeys ps) (root : String) (w : Workload)
    (hs : w.svcNs = []) (port : Nat) (proto : LProto) :
    let cs := chains (workloadMode root ps w port) proto
    (cs.any Chain.acceptsPlaintext = true ↔ effectiveMode ps root w port ≠ .strict) ∧
    (cs.any Chain.terminatesMTLS = true ↔ effectiveMode ps root w port ≠ .disable) ∧
    (cs.any Chain.terminatesOneWayTLS = false) ∧
    (effectiveMode ps root w port = .strict → ∀ c ∈ cs, c.terminatesMTLS = true) := by
  rw [compose_eq_spec hu root w hs]
  have ht := effectiveMode_total ps root w port
  cases hm : effectiveMode ps root w port with
  | unknown => exact absurd hm ht
  | disable => cases proto <;> decide
  | permissive => cases proto <;> decide
  | strict => cases proto <;> decide

end IstioModel.C10
