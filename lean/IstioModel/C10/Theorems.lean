import IstioModel.C10.Lemmas

/-!
# C10 - property theorems, part 1: precedence = specification (sidecar / xDS side and client side)

"For every workload port the effective peer-authentication mode is the one given by precedence
(port-level over workload-selector over namespace over mesh, oldest policy winning within a level,
UNSET inheriting from the next wider level, default PERMISSIVE) ... Every component that derives
this mode agrees: sidecar inbound listeners and client-side automatic mTLS use the same mode per
port."

All theorems quantify over *all* policy lists (any number of policies per level, any creation
times including ties, any list order), all workloads and all ports.  The only hypotheses are
`UniqueKeys` (Kubernetes: (namespace, name) identifies a resource) and, for the workload resolvers,
`w.svcNs = []` (no waypoint service namespaces: the sidecar case).
-/
set_option linter.unusedSimpArgs false

namespace IstioModel.C10

/-! ## `initAuthenticationPolicies` in closed form -/

theorem initAuthn_kept_ns (root n : String) (ps : List PA) :
    (initAuthn root ps).peerAuths.filter (isNsPol n) = ((sortByCreation ps).find? (isNsPol n)).toList := by
  simp [initAuthn, addLoop_kept_ns, AddSt.init]

theorem initAuthn_kept_sel (root : String) (R : PA → Bool) (ps : List PA) :
    (initAuthn root ps).peerAuths.filter (fun p => !p.nsLevel && R p) =
      (sortByCreation ps).filter (fun p => !p.nsLevel && R p) := by
  simp [initAuthn, addLoop_kept_sel, AddSt.init]

theorem initAuthn_global (root : String) (ps : List PA) :
    (initAuthn root ps).globalMode = globalFrom ((sortByCreation ps).find? (isNsPol root)) .unknown := by
  simp [initAuthn, addLoop_global, AddSt.init]

theorem initAuthn_root (root : String) (ps : List PA) : (initAuthn root ps).rootNs = root := rfl

theorem initAuthn_nsMode_root (root : String) (ps : List PA) :
    (initAuthn root ps).nsMode.lookup root = none := by
  simp [initAuthn, lookup_map_resolveNs, addLoop_found_root, AddSt.init]

theorem initAuthn_nsMode (root n : String) (h : n ≠ root) (ps : List PA) :
    (initAuthn root ps).nsMode.lookup n =
      ((sortByCreation ps).find? (isNsPol n)).map
        (fun c => if c.mtls = .unset then inheritedOf (initAuthn root ps).globalMode else conv c.mtls) := by
  simp only [initAuthn, lookup_map_resolveNs, addLoop_found root n h, AddSt.init]
  cases (sortByCreation ps).find? (isNsPol n) <;> simp [foundFrom]

/-! ## `getConfigsForWorkload` without service namespaces -/

theorem selects_of_nsLevel {c : PA} (w : Workload) (h : c.nsLevel = true) : selects c w = true := by
  unfold selects PA.matchLabels subsetOf
  unfold PA.nsLevel at h
  cases hs : c.selector with
  | none => simp
  | some l => rw [hs] at h; simp only at h; simp [h]

theorem configsFor_root {a : Authn} {w : Workload} (hs : w.svcNs = []) (hr : w.ns = a.rootNs) :
    a.configsFor w = a.forNs w a.rootNs := by
  simp [Authn.configsFor, hs, dedup, dedupAux, hr]

theorem configsFor_nonroot {a : Authn} {w : Workload} (hs : w.svcNs = []) (hr : w.ns ≠ a.rootNs) :
    a.configsFor w = a.forNs w w.ns ++ a.forNs w a.rootNs := by
  have hr' : ¬ a.rootNs = w.ns := fun h => hr h.symm
  simp [Authn.configsFor, hs, dedup, dedupAux, hr']

theorem forNs_filter_isNsPol (a : Authn) (w : Workload) (n m : String) :
    (a.forNs w n).filter (isNsPol m) = if n = m then a.peerAuths.filter (isNsPol m) else [] := by
  unfold Authn.forNs
  rw [List.filter_filter, List.filter_filter]
  by_cases h : n = m
  · subst h
    simp only [if_true]
    apply List.filter_congr
    intro c _
    cases hq : isNsPol n c with
    | false => simp
    | true =>
      have h1 : c.nsLevel = true ∧ c.ns = n := by simpa [isNsPol] using hq
      simp [selects_of_nsLevel w h1.1, h1.2]
  · simp only [h, if_false]
    rw [List.filter_eq_nil_iff]
    intro c _
    by_cases h1 : c.ns = n
    · have h2 : c.ns ≠ m := fun h2 => h (h1.symm.trans h2)
      simp [isNsPol, h2]
    · simp [h1]

theorem forNs_filter_nsQ (a : Authn) (w : Workload) (n root : String) :
    (a.forNs w n).filter (nsQ root) = if n = root then [] else a.peerAuths.filter (isNsPol n) := by
  unfold Authn.forNs
  rw [List.filter_filter, List.filter_filter]
  by_cases h : n = root
  · simp only [h, if_true]
    rw [List.filter_eq_nil_iff]
    intro c _
    by_cases h1 : c.ns = root
    · simp [nsQ, h1]
    · simp [h1]
  · simp only [h, if_false]
    apply List.filter_congr
    intro c _
    cases hn : c.nsLevel with
    | false => simp [nsQ, isNsPol, hn]
    | true =>
      by_cases hc : c.ns = n
      · simp [nsQ, isNsPol, hn, hc, h, selects_of_nsLevel w hn]
      · have hb : (c.ns == n) = false := by simp [hc]
        simp [nsQ, isNsPol, hn, hb]

theorem forNs_filter_wlQ (a : Authn) (w : Workload) (n root : String) :
    (a.forNs w n).filter (wlQ root) =
      if n = root then [] else a.peerAuths.filter (fun p => !p.nsLevel && (p.ns == n && selects p w)) := by
  unfold Authn.forNs
  rw [List.filter_filter, List.filter_filter]
  by_cases h : n = root
  · simp only [h, if_true]
    rw [List.filter_eq_nil_iff]
    intro c _
    by_cases h1 : c.ns = root
    · simp [wlQ, h1]
    · simp [h1]
  · simp only [h, if_false]
    apply List.filter_congr
    intro c _
    cases hn : c.nsLevel with
    | true => simp [wlQ, hn]
    | false =>
      by_cases hc : c.ns = n
      · simp [wlQ, hn, hc, h]
      · have hb : (c.ns == n) = false := by simp [hc]
        simp [wlQ, hn, hb]

/-! ## What the selection loop of `ComposePeerAuthentication` picks -/

/-- The workload-level candidates of the specification. -/
def wlCand (w : Workload) (p : PA) : Bool := !p.nsLevel && (p.ns == w.ns && selects p w)

theorem sel_mesh (root : String) (ps : List PA) (w : Workload) (hs : w.svcNs = []) :
    (composeSel root ((initAuthn root ps).configsFor w)).mesh = (sortByCreation ps).find? (isNsPol root) := by
  rw [composeSel_eq]
  simp only
  by_cases hr : w.ns = root
  · rw [configsFor_root hs (by rw [initAuthn_root]; exact hr), initAuthn_root, forNs_filter_isNsPol]
    simp [initAuthn_kept_ns, pick_toList]
  · rw [configsFor_nonroot hs (by rw [initAuthn_root]; exact hr), initAuthn_root, List.filter_append,
      forNs_filter_isNsPol, forNs_filter_isNsPol]
    simp [hr, initAuthn_kept_ns, pick_toList]

theorem sel_ns (root : String) (ps : List PA) (w : Workload) (hs : w.svcNs = []) :
    (composeSel root ((initAuthn root ps).configsFor w)).ns =
      if w.ns = root then none else (sortByCreation ps).find? (isNsPol w.ns) := by
  rw [composeSel_eq]
  simp only
  by_cases hr : w.ns = root
  · rw [configsFor_root hs (by rw [initAuthn_root]; exact hr), initAuthn_root, forNs_filter_nsQ]
    simp [hr, pick]
  · rw [configsFor_nonroot hs (by rw [initAuthn_root]; exact hr), initAuthn_root, List.filter_append,
      forNs_filter_nsQ, forNs_filter_nsQ]
    simp [hr, initAuthn_kept_ns, pick_toList]

theorem sel_wl (root : String) (ps : List PA) (w : Workload) (hs : w.svcNs = []) :
    (composeSel root ((initAuthn root ps).configsFor w)).wl =
      if w.ns = root then none else (sortByCreation ps).find? (wlCand w) := by
  rw [composeSel_eq]
  simp only
  by_cases hr : w.ns = root
  · rw [configsFor_root hs (by rw [initAuthn_root]; exact hr), initAuthn_root, forNs_filter_wlQ]
    simp [hr, pick]
  · rw [configsFor_nonroot hs (by rw [initAuthn_root]; exact hr), initAuthn_root, List.filter_append,
      forNs_filter_wlQ, forNs_filter_wlQ]
    simp only [hr, if_false, if_true, List.append_nil]
    rw [initAuthn_kept_sel root (fun p => p.ns == w.ns && selects p w) ps]
    rw [pick_sorted ((sorted_pairwise ps).filter _), List.head?_filter]
    rfl

/-! ## The specification's policies are the first matches of the sorted list -/

theorem meshPolicy_eq {ps : List PA} (hu : UniqueKeys ps) (root : String) :
    meshPolicy ps root = (sortByCreation ps).find? (isNsPol root) := by
  rw [find_sorted_eq_oldest hu]; rfl

theorem nsPolicy_eq {ps : List PA} (hu : UniqueKeys ps) (root ns : String) :
    nsPolicy ps root ns = if ns = root then none else (sortByCreation ps).find? (isNsPol ns) := by
  rw [find_sorted_eq_oldest hu]; rfl

theorem wlPolicy_eq {ps : List PA} (hu : UniqueKeys ps) (root : String) (w : Workload) :
    wlPolicy ps root w = if w.ns = root then none else (sortByCreation ps).find? (wlCand w) := by
  rw [find_sorted_eq_oldest hu]
  unfold wlPolicy
  congr 2
  apply List.filter_congr
  intro p _
  simp [wlCand, Bool.and_assoc]

theorem overrideBy_eq (c : Option PA) (parent : MTLS) : overrideBy c parent = inheritFrom c parent := by
  cases c <;> rfl

theorem lookup_map_portEntry (m : MTLS) (port : Nat) (l : List (Nat × PMode)) :
    (l.map (portEntry m)).lookup port = (l.lookup port).map (fun e => inherit e m) := by
  induction l with
  | nil => simp
  | cons e es ih =>
    cases e with
    | mk k v =>
      simp only [List.map_cons, List.lookup_cons, portEntry]
      cases h : port == k <;> simp [ih, inherit]

theorem compose_perPort (root : String) (cfgs : List PA) :
    (compose root cfgs).perPort =
      match (composeSel root cfgs).wl with
      | none => []
      | some p => p.ports.map (portEntry (compose root cfgs).mode) := rfl

/-- The merged workload mode (`MergedPeerAuthentication.Mode`) is the specification's. -/
theorem compose_mode_eq_spec {ps : List PA} (hu : UniqueKeys ps) (root : String) (w : Workload)
    (hs : w.svcNs = []) :
    (compose root ((initAuthn root ps).configsFor w)).mode = wlModeSpec ps root w := by
  simp only [compose, sel_mesh root ps w hs, sel_ns root ps w hs, sel_wl root ps w hs, overrideBy_eq,
    wlModeSpec, nsModeSpec, meshMode, meshPolicy_eq hu, nsPolicy_eq hu, wlPolicy_eq hu]

/-! ## Clause 1: precedence = specification -/

/-- **compose_eq_spec.**  For every list of policies (any order, any number per level, any creation
    times incl. ties), every workload and every port, the mode obtained through
    `initAuthenticationPolicies` + `getConfigsForWorkload` + `ComposePeerAuthentication` +
    `GetMutualTLSModeForPort` is `effectiveMode`. -/
theorem compose_eq_spec {ps : List PA} (hu : UniqueKeys ps) (root : String) (w : Workload)
    (hs : w.svcNs = []) (port : Nat) :
    workloadMode root ps w port = effectiveMode ps root w port := by
  unfold workloadMode Merged.modeForPort
  rw [compose_perPort, compose_mode_eq_spec hu root w hs, sel_wl root ps w hs]
  unfold effectiveMode
  rw [wlPolicy_eq hu]
  cases (if w.ns = root then none else (sortByCreation ps).find? (wlCand w)) with
  | none => simp
  | some p =>
    simp only [lookup_map_portEntry]
    cases p.ports.lookup port <;> simp

/-! ## The specification itself -/

/-- `oldest` returns a least element for the (creation time, name, namespace) order. -/
theorem oldest_is_least {l : List PA} {x : PA} (h : oldest l = some x) :
    x ∈ l ∧ ∀ y ∈ l, cfgLe x y = true := oldest_spec h

theorem oldest_none_iff {l : List PA} : oldest l = none ↔ l = [] := oldest_eq_none

theorem inherit_ne_unknown (m : PMode) {parent : MTLS} (h : parent ≠ .unknown) : inherit m parent ≠ .unknown := by
  unfold inherit
  cases m <;> simp [conv, h]

theorem inheritFrom_ne_unknown (p : Option PA) {parent : MTLS} (h : parent ≠ .unknown) :
    inheritFrom p parent ≠ .unknown := by
  cases p with
  | none => exact h
  | some q => exact inherit_ne_unknown _ h

/-- Totality: the effective mode is always one of DISABLE / PERMISSIVE / STRICT. -/
theorem effectiveMode_total (ps : List PA) (root : String) (w : Workload) (port : Nat) :
    effectiveMode ps root w port ≠ .unknown := by
  have h1 : meshMode ps root ≠ .unknown := inheritFrom_ne_unknown _ (by decide)
  have h2 : nsModeSpec ps root w.ns ≠ .unknown := inheritFrom_ne_unknown _ h1
  have h3 : wlModeSpec ps root w ≠ .unknown := inheritFrom_ne_unknown _ h2
  unfold effectiveMode
  cases wlPolicy ps root w with
  | none => exact h3
  | some p =>
    simp only
    cases p.ports.lookup port with
    | none => exact h3
    | some m => exact inherit_ne_unknown _ h3

theorem uniqueKeys_filter {ps : List PA} (hu : UniqueKeys ps) (P : PA → Bool) : UniqueKeys (ps.filter P) :=
  List.Pairwise.filter _ hu

/-- The oldest policy does not depend on the order in which the policies are listed. -/
theorem oldest_perm {l l' : List PA} (hu : UniqueKeys l) (hp : l.Perm l') : oldest l = oldest l' := by
  cases h : oldest l with
  | none =>
    rw [oldest_eq_none.mp h] at hp
    rw [List.nil_perm.mp hp]
    rfl
  | some x =>
    have hx := oldest_spec h
    cases h' : oldest l' with
    | none =>
      rw [oldest_eq_none.mp h'] at hp
      rw [List.perm_nil.mp hp] at hx
      cases hx.1
    | some y =>
      have hy := oldest_spec h'
      have hyl : y ∈ l := hp.mem_iff.mpr hy.1
      have hxl' : x ∈ l' := hp.mem_iff.mp hx.1
      rw [min_unique hu hx.1 hyl (hx.2 y hyl) (hy.2 x hxl')]

/-- Determinism: the effective mode is a function of the *set* of policies - neither the order of
    `List` results of the config store nor Go's map iteration order can influence it. -/
theorem effectiveMode_order_independent {ps ps' : List PA} (hu : UniqueKeys ps) (hp : ps.Perm ps')
    (root : String) (w : Workload) (port : Nat) :
    effectiveMode ps root w port = effectiveMode ps' root w port := by
  have e1 : meshPolicy ps root = meshPolicy ps' root :=
    oldest_perm (uniqueKeys_filter hu _) (hp.filter _)
  have e2 : nsPolicy ps root w.ns = nsPolicy ps' root w.ns := by
    unfold nsPolicy
    split
    · rfl
    · exact oldest_perm (uniqueKeys_filter hu _) (hp.filter _)
  have e3 : wlPolicy ps root w = wlPolicy ps' root w := by
    unfold wlPolicy
    split
    · rfl
    · exact oldest_perm (uniqueKeys_filter hu _) (hp.filter _)
  unfold effectiveMode wlModeSpec nsModeSpec meshMode
  rw [e1, e2, e3]

theorem uniqueKeys_perm {ps ps' : List PA} (hu : UniqueKeys ps) (hp : ps.Perm ps') : UniqueKeys ps' :=
  by
    unfold UniqueKeys at *
    exact (hp.pairwise_iff (fun h h' => h ⟨h'.1.symm, h'.2.symm⟩)).mp hu

/-- The real resolver inherits the determinism. -/
theorem workloadMode_order_independent {ps ps' : List PA} (hu : UniqueKeys ps) (hp : ps.Perm ps')
    (root : String) (w : Workload) (hs : w.svcNs = []) (port : Nat) :
    workloadMode root ps w port = workloadMode root ps' w port := by
  rw [compose_eq_spec hu root w hs, compose_eq_spec (uniqueKeys_perm hu hp) root w hs,
    effectiveMode_order_independent hu hp]

/-! ## The two notions the specification shares with the model, characterised independently

`Spec.lean` uses the model's comparator `cfgLe` and selector test `selects`.  These theorems say
what they are without reference to the code's shape, so that the specification can be read on its own. -/

/-- "Older" is the lexicographic order on (creation time, name, namespace). -/
theorem cfgLe_is_lexicographic (a b : PA) : cfgLe a b = true ↔
    a.time < b.time ∨ (a.time = b.time ∧ (a.name < b.name ∨ (a.name = b.name ∧ a.ns ≤ b.ns))) :=
  cfgLe_iff a b

theorem lookup_some_mem_keys {l : Labels} {k v : String} (h : l.lookup k = some v) : k ∈ l.map (fun e => e.1) := by
  induction l with
  | nil => simp at h
  | cons e t ih =>
    cases e with
    | mk a b =>
      simp only [List.lookup_cons] at h
      cases hk : k == a with
      | true => have : k = a := by simpa using hk
                simp [this]
      | false => rw [hk] at h; exact List.mem_cons_of_mem _ (ih h)

/-- A selector (a map: distinct keys) selects a workload iff every selector label is a label of the
    workload with the same value; the length pre-checks of `labels.Instance.SubsetOf` add nothing. -/
theorem selects_iff (p : PA) (w : Workload) (hn : (p.matchLabels.map (fun e => e.1)).Nodup) :
    selects p w = true ↔ ∀ kv ∈ p.matchLabels, w.labels.lookup kv.1 = some kv.2 := by
  unfold selects subsetOf
  generalize p.matchLabels = i at hn
  by_cases hi : i.isEmpty = true
  · have : i = [] := by simpa using hi
    subst this; simp
  · simp only [hi, Bool.false_eq_true, if_false]
    constructor
    · intro h
      split at h
      · cases h
      · intro kv hkv
        have := (List.all_eq_true.mp h) kv hkv
        simpa using this
    · intro h
      have hsub : i.map (fun e => e.1) ⊆ w.labels.map (fun e => e.1) := by
        intro k hk
        obtain ⟨kv, hkv, rfl⟩ := List.mem_map.mp hk
        exact lookup_some_mem_keys (h kv hkv)
      have hlen := List.Nodup.length_le_of_subset hn hsub
      simp only [List.length_map] at hlen
      have hne : w.labels.isEmpty = false := by
        cases hw : w.labels with
        | nil => rw [hw] at hlen; cases i <;> simp_all
        | cons _ _ => rfl
      have hlt : ¬ w.labels.length < i.length := by omega
      simp only [hne, Bool.false_or, decide_eq_true_eq, hlt, if_false]
      rw [List.all_eq_true]
      intro kv hkv
      simp [h kv hkv]

/-! ## Readable precedence clauses (corollaries about the specification) -/

/-- No policy at all: PERMISSIVE. -/
theorem default_permissive (root : String) (w : Workload) (port : Nat) :
    effectiveMode [] root w port = .permissive := by
  simp [effectiveMode, wlPolicy, wlModeSpec, nsModeSpec, nsPolicy, meshMode, meshPolicy, oldest, inheritFrom]

/-- A port-level mode other than UNSET of the selected workload policy wins over everything. -/
theorem port_level_wins {ps : List PA} {root : String} {w : Workload} {p : PA} {port : Nat} {m : PMode}
    (hw : wlPolicy ps root w = some p) (hp : p.ports.lookup port = some m) (hm : m ≠ .unset) :
    effectiveMode ps root w port = conv m := by
  simp [effectiveMode, hw, hp, inherit, hm]

/-- A workload mode other than UNSET wins over namespace and mesh on ports without port-level entry. -/
theorem workload_over_namespace {ps : List PA} {root : String} {w : Workload} {p : PA} {port : Nat}
    (hw : wlPolicy ps root w = some p) (hp : p.ports.lookup port = none) (hm : p.mtls ≠ .unset) :
    effectiveMode ps root w port = conv p.mtls := by
  simp [effectiveMode, hw, hp, wlModeSpec, inheritFrom, inherit, hm]

/-- Without a selecting workload policy, a namespace mode other than UNSET wins over the mesh. -/
theorem namespace_over_mesh {ps : List PA} {root : String} {w : Workload} {p : PA} {port : Nat}
    (hw : wlPolicy ps root w = none) (hn : nsPolicy ps root w.ns = some p) (hm : p.mtls ≠ .unset) :
    effectiveMode ps root w port = conv p.mtls := by
  simp [effectiveMode, hw, wlModeSpec, nsModeSpec, hn, inheritFrom, inherit, hm]

/-- UNSET at every narrower level: the mesh policy's mode (PERMISSIVE if that is UNSET too). -/
theorem mesh_level_default {ps : List PA} {root : String} {w : Workload} {port : Nat}
    (hw : wlPolicy ps root w = none) (hn : nsPolicy ps root w.ns = none) :
    effectiveMode ps root w port = meshMode ps root := by
  simp [effectiveMode, hw, wlModeSpec, nsModeSpec, hn, inheritFrom]

/-- A policy with a selector in the root namespace is never the workload policy (of any workload). -/
theorem root_selector_policy_ignored {ps : List PA} {root : String} {w : Workload} {p : PA}
    (hw : wlPolicy ps root w = some p) : p.ns ≠ root ∧ p.nsLevel = false ∧ selects p w = true := by
  unfold wlPolicy at hw
  split at hw
  · cases hw
  · rename_i hr
    have := (oldest_spec hw).1
    simp only [List.mem_filter, Bool.and_eq_true, Bool.not_eq_true', beq_iff_eq] at this
    exact ⟨fun h => hr (this.2.1.2 ▸ h), this.2.1.1, this.2.2⟩

/-! ## Clause 2a: the namespace view used by clients agrees -/

/-- No policy with a selector selects the workload (e.g. a workload without labels). -/
def NoSelectorMatch (ps : List PA) (w : Workload) : Prop :=
  ∀ p ∈ ps, p.nsLevel = false → selects p w = false

theorem noSelectorMatch_of_no_labels (ps : List PA) (ns : String) :
    NoSelectorMatch ps { ns := ns, labels := [] } := by
  intro p _ hn
  unfold selects subsetOf PA.matchLabels
  unfold PA.nsLevel at hn
  cases hs : p.selector with
  | none => rw [hs] at hn; cases hn
  | some l => rw [hs] at hn; simp only at hn; simp [hn]

theorem wlPolicy_none_of_noSelectorMatch {ps : List PA} {w : Workload} (h : NoSelectorMatch ps w)
    (root : String) : wlPolicy ps root w = none := by
  unfold wlPolicy
  split
  · rfl
  · rw [oldest_eq_none, List.filter_eq_nil_iff]
    intro p hp
    cases hn : p.nsLevel with
    | true => simp
    | false => simp [h p hp hn]

theorem globalOf_eq (c : PA) : globalOf c = inherit c.mtls .permissive := rfl

theorem inheritedOf_global_eq {ps : List PA} (hu : UniqueKeys ps) (root : String) :
    inheritedOf (initAuthn root ps).globalMode = meshMode ps root := by
  rw [initAuthn_global, meshMode, meshPolicy_eq hu]
  cases (sortByCreation ps).find? (isNsPol root) with
  | none => rfl
  | some c =>
    have : inherit c.mtls .permissive ≠ .unknown := inherit_ne_unknown _ (by decide)
    simp [inheritFrom, globalFrom, globalOf_eq, inheritedOf, this]

/-- **namespace_mode_agrees.**  The namespace-level view that client-side auto-mTLS uses
    (`BestEffortInferServiceMTLSMode`, i.e. `GetNamespaceMutualTLSMode` with UNKNOWN read as
    PERMISSIVE) equals the effective mode, on every port, of a workload of that namespace that no
    selector policy selects. -/
theorem namespace_mode_agrees {ps : List PA} (hu : UniqueKeys ps) (root : String) (w : Workload)
    (hn : NoSelectorMatch ps w) (port : Nat) :
    bestEffortServiceMode (initAuthn root ps) w.ns = effectiveMode ps root w port := by
  have hmesh := inheritedOf_global_eq hu root
  have hw := wlPolicy_none_of_noSelectorMatch hn root
  simp only [effectiveMode, hw, wlModeSpec, inheritFrom, nsModeSpec]
  unfold bestEffortServiceMode Authn.namespaceMode
  by_cases hr : w.ns = root
  · rw [hr, initAuthn_nsMode_root]
    simp only [nsPolicy, if_true, inheritFrom]
    rw [← hmesh]
    unfold inheritedOf
    cases (initAuthn root ps).globalMode <;> rfl
  · rw [initAuthn_nsMode root w.ns hr, nsPolicy_eq hu]
    simp only [hr, if_false]
    cases (sortByCreation ps).find? (isNsPol w.ns) with
    | none =>
      simp only [Option.map_none, inheritFrom]
      rw [← hmesh]
      unfold inheritedOf
      cases (initAuthn root ps).globalMode <;> rfl
    | some c =>
      simp only [Option.map_some, inheritFrom, inherit, hmesh]
      by_cases hc : c.mtls = .unset
      · simp only [hc, if_true]
        have : meshMode ps root ≠ .unknown := inheritFrom_ne_unknown _ (by decide)
        cases hm : meshMode ps root <;> simp_all
      · simp only [hc, if_false]
        cases hm : c.mtls <;> simp_all [conv]

/-- `GetNamespaceMutualTLSMode` is UNKNOWN exactly when there is neither a namespace-level policy
    for the namespace nor a mesh-level policy. -/
theorem namespaceMode_unknown_iff {ps : List PA} (hu : UniqueKeys ps) (root ns : String) :
    (initAuthn root ps).namespaceMode ns = .unknown ↔
      (nsPolicy ps root ns = none ∧ meshPolicy ps root = none) := by
  have hmesh := inheritedOf_global_eq hu root
  have hne : inheritedOf (initAuthn root ps).globalMode ≠ .unknown := by
    rw [hmesh]; exact inheritFrom_ne_unknown _ (by decide)
  have hg : (initAuthn root ps).globalMode = .unknown ↔ meshPolicy ps root = none := by
    rw [initAuthn_global, meshPolicy_eq hu]
    cases (sortByCreation ps).find? (isNsPol root) with
    | none => simp [globalFrom]
    | some c =>
      simp only [globalFrom, globalOf_eq, reduceCtorEq, iff_false]
      exact inherit_ne_unknown _ (by decide)
  unfold Authn.namespaceMode
  by_cases hr : ns = root
  · rw [hr, initAuthn_nsMode_root]
    simp [nsPolicy, hg]
  · rw [initAuthn_nsMode root ns hr, nsPolicy_eq hu]
    simp only [hr, if_false]
    cases (sortByCreation ps).find? (isNsPol ns) with
    | none => simp [hg]
    | some c =>
      simp only [Option.map_some, reduceCtorEq, false_and, iff_false]
      by_cases hc : c.mtls = .unset
      · simp only [hc, if_true]; exact hne
      · simp only [hc, if_false]; cases hm : c.mtls <;> simp_all [conv]

/-! ## Clause 2b: client-side auto-mTLS agrees with the effective mode -/

/-- **client_agrees.**  Without a DestinationRule TLS override and for an endpoint with a sidecar,
    the EDS generator enables auto-mTLS towards an endpoint exactly when the endpoint port's
    effective mode is not DISABLE. -/
theorem client_agrees {ps : List PA} (hu : UniqueKeys ps) (root : String) (w : Workload)
    (hs : w.svcNs = []) (port : Nat) :
    checkMtlsEnabled root ps none true w port = true ↔ effectiveMode ps root w port ≠ .disable := by
  simp [checkMtlsEnabled, compose_eq_spec hu root w hs]

/-- A DestinationRule TLS mode overrides the PeerAuthentication-derived decision. -/
theorem client_destination_rule_overrides (ps : List PA) (root : String) (w : Workload) (port : Nat)
    (m : DRMode) (epTLS : Bool) :
    checkMtlsEnabled root ps (some m) epTLS w port = (m == .istioMutual) := rfl

/-- An endpoint without sidecar (`tlsMode` label not `istio`) is never sent mTLS. -/
theorem client_plain_endpoint (ps : List PA) (root : String) (w : Workload) (port : Nat) :
    checkMtlsEnabled root ps none false w port = false := rfl

/-! ## Clause 2c: the per-proxy filtered view (`SidecarScope.selectAuthnPolicies`) loses nothing

Production does not hand the client-side code the full `AuthenticationPolicies` but
`FilterPeerAuthenticationNamespaces(client namespace, root namespace, namespaces of imported services)`.
The filter preserves every resolver for workloads / services of the kept namespaces. -/

theorem modeFor_initAuthn (root : String) (ps : List PA) (w : Workload) (port : Nat) :
    (initAuthn root ps).modeFor w port = workloadMode root ps w port := rfl

theorem filterNs_forNs (a : Authn) (nss : List String) (w : Workload) (n : String) (hn : n ∈ nss) :
    (a.filterNs nss).forNs w n = a.forNs w n := by
  unfold Authn.forNs Authn.filterNs
  simp only [List.filter_filter]
  apply List.filter_congr
  intro c _
  by_cases hc : c.ns = n
  · have : nss.contains c.ns = true := by rw [hc]; simpa using hn
    simp [hc, this, hn]
  · have : (c.ns == n) = false := by simp [hc]
    simp [this]

/-- The filtered view returns the same configs for a workload of a kept namespace. -/
theorem filterNs_configsFor (a : Authn) (nss : List String) (w : Workload) (hs : w.svcNs = [])
    (h1 : w.ns ∈ nss) (h2 : a.rootNs ∈ nss) : (a.filterNs nss).configsFor w = a.configsFor w := by
  have hr : (a.filterNs nss).rootNs = a.rootNs := rfl
  by_cases hroot : w.ns = a.rootNs
  · rw [configsFor_root hs (by rw [hr]; exact hroot), configsFor_root hs hroot, hr, filterNs_forNs a nss w _ h2]
  · rw [configsFor_nonroot hs (by rw [hr]; exact hroot), configsFor_nonroot hs hroot, hr,
      filterNs_forNs a nss w _ h1, filterNs_forNs a nss w _ h2]

theorem filterNs_modeFor (a : Authn) (nss : List String) (w : Workload) (hs : w.svcNs = [])
    (h1 : w.ns ∈ nss) (h2 : a.rootNs ∈ nss) (port : Nat) :
    (a.filterNs nss).modeFor w port = a.modeFor w port := by
  unfold Authn.modeFor
  rw [filterNs_configsFor a nss w hs h1 h2]
  rfl

theorem lookup_filter_key {β : Type} (l : List (String × β)) (nss : List String) (n : String) (hn : n ∈ nss) :
    (l.filter (fun e => nss.contains e.1)).lookup n = l.lookup n := by
  induction l with
  | nil => rfl
  | cons e t ih =>
    cases e with
    | mk k v =>
      have ih2 : List.lookup n (List.filter (fun e => decide (e.fst ∈ nss)) t) = List.lookup n t := by
        simpa using ih
      by_cases hk : n = k
      · subst hk
        simp [List.filter_cons, hn, List.lookup_cons]
      · have hb : (n == k) = false := by simp [hk]
        by_cases hc : k ∈ nss <;> simp [List.filter_cons, hc, List.lookup_cons, hb, ih2]

theorem filterNs_namespaceMode (a : Authn) (nss : List String) (n : String) (hn : n ∈ nss) :
    (a.filterNs nss).namespaceMode n = a.namespaceMode n := by
  unfold Authn.namespaceMode Authn.filterNs
  simp only [lookup_filter_key a.nsMode nss n hn]

/-- **client_agrees_scoped.**  `checkMtlsEnabled` evaluated on the client proxy's filtered view - as the
    EDS generator does - enables auto-mTLS towards an endpoint exactly when the endpoint port's
    effective mode is not DISABLE, provided the endpoint's namespace is one of the namespaces the
    sidecar scope keeps (client namespace, root namespace, namespaces of imported services). -/
theorem client_agrees_scoped {ps : List PA} (hu : UniqueKeys ps) (root clientNs : String) (importedNs : List String)
    (w : Workload) (hs : w.svcNs = []) (hw : w.ns ∈ clientNs :: root :: importedNs) (port : Nat) :
    checkMtlsEnabledIn (sidecarView root ps clientNs importedNs) none true w port = true ↔
      effectiveMode ps root w port ≠ .disable := by
  unfold checkMtlsEnabledIn sidecarView
  rw [filterNs_modeFor _ _ w hs hw (by simp [initAuthn_root]), modeFor_initAuthn, compose_eq_spec hu root w hs]
  simp

/-- The namespace view the cluster builder uses on the filtered view is the unfiltered one. -/
theorem client_service_mode_scoped (ps : List PA) (root clientNs : String) (importedNs : List String)
    (ns : String) (hn : ns ∈ clientNs :: root :: importedNs) :
    bestEffortServiceMode (sidecarView root ps clientNs importedNs) ns =
      bestEffortServiceMode (initAuthn root ps) ns := by
  unfold bestEffortServiceMode sidecarView
  rw [filterNs_namespaceMode _ _ ns hn]

/-! ## Clause 2d: the COMPOSED client decision (cluster TLS socket AND endpoint label)

`client_agrees` / `client_agrees_scoped` are about `checkMtlsEnabled` alone.  What the client proxy
does is the conjunction with the cluster-side decision, which is taken from the namespace/mesh level
only (`BestEffortInferServiceMTLSMode`).  The full statement is FALSE for the code (finding F13, a
known limitation of the "best effort" inference): see `client_agrees_full_witness`. -/

/-- The namespace-level mode: the effective mode of a workload of the namespace no selector policy selects. -/
def nsLevelMode (ps : List PA) (root ns : String) : MTLS := effectiveMode ps root { ns := ns, labels := [] } 0

/-- Closed form of the composed decision. -/
theorem clientSendsMTLS_eq {ps : List PA} (hu : UniqueKeys ps) (root clientNs : String) (importedNs : List String)
    (w : Workload) (hs : w.svcNs = []) (hw : w.ns ∈ clientNs :: root :: importedNs) (port : Nat) :
    clientSendsMTLS (sidecarView root ps clientNs importedNs) w port = true ↔
      (nsLevelMode ps root w.ns ≠ .disable ∧ effectiveMode ps root w port ≠ .disable) := by
  unfold clientSendsMTLS
  rw [Bool.and_eq_true, client_agrees_scoped hu root clientNs importedNs w hs hw port,
    client_service_mode_scoped ps root clientNs importedNs w.ns hw]
  have hbe := namespace_mode_agrees hu root { ns := w.ns, labels := [] } (noSelectorMatch_of_no_labels ps w.ns) 0
  simp only at hbe
  rw [hbe]
  have hne : effectiveMode ps root { ns := w.ns, labels := [] } 0 ≠ .unknown := effectiveMode_total _ _ _ _
  unfold nsLevelMode clusterHasAutoMTLS
  cases hm : effectiveMode ps root { ns := w.ns, labels := [] } 0 <;> simp_all

/-- The full statement of "client-side automatic mTLS uses the same mode per port" for the composed decision. -/
def ClientAgreesFull : Prop :=
  ∀ (ps : List PA) (root clientNs : String) (importedNs : List String) (w : Workload) (port : Nat),
    UniqueKeys ps → w.svcNs = [] → w.ns ∈ clientNs :: root :: importedNs →
    (clientSendsMTLS (sidecarView root ps clientNs importedNs) w port = true ↔ effectiveMode ps root w port ≠ .disable)

/-- Proved part 1 (soundness): the client never originates mutual TLS towards a DISABLE port. -/
theorem client_agrees_composed_sound {ps : List PA} (hu : UniqueKeys ps) (root clientNs : String)
    (importedNs : List String) (w : Workload) (hs : w.svcNs = []) (hw : w.ns ∈ clientNs :: root :: importedNs)
    (port : Nat) (h : clientSendsMTLS (sidecarView root ps clientNs importedNs) w port = true) :
    effectiveMode ps root w port ≠ .disable :=
  ((clientSendsMTLS_eq hu root clientNs importedNs w hs hw port).mp h).2

/-- Proved part 2: full agreement whenever the namespace-level mode is not DISABLE. -/
theorem client_agrees_composed_partial {ps : List PA} (hu : UniqueKeys ps) (root clientNs : String)
    (importedNs : List String) (w : Workload) (hs : w.svcNs = []) (hw : w.ns ∈ clientNs :: root :: importedNs)
    (port : Nat) (hns : nsLevelMode ps root w.ns ≠ .disable) :
    clientSendsMTLS (sidecarView root ps clientNs importedNs) w port = true ↔ effectiveMode ps root w port ≠ .disable := by
  rw [clientSendsMTLS_eq hu root clientNs importedNs w hs hw port]
  exact ⟨fun h => h.2, fun h => ⟨hns, h⟩⟩

/-- F13 witness: namespace policy DISABLE, workload policy STRICT. -/
def f13Policies : List PA :=
  [ { name := "default", ns := "ns1", time := 100, selector := none, mtls := .disable, ports := [] },
    { name := "wl", ns := "ns1", time := 200, selector := some [("app", "a")], mtls := .strict, ports := [] } ]

/-- **The full statement is false** (F13): with a namespace-level DISABLE policy and a narrower STRICT
    workload policy the server's port 80 is STRICT, EDS keeps the endpoint's tlsMode label, but the cluster
    has no TLS transport socket: the client sends plaintext and the STRICT inbound listener rejects it. -/
theorem client_agrees_full_witness : ¬ ClientAgreesFull := by
  intro h
  have hw : ({ ns := "ns1", labels := [("app", "a")] } : Workload).ns ∈ "ns2" :: "istio-system" :: ["ns1"] := by decide
  have h1 := h f13Policies "istio-system" "ns2" ["ns1"] { ns := "ns1", labels := [("app", "a")] } 80 (by decide) rfl hw
  have h2 := (clientSendsMTLS_eq (ps := f13Policies) (by decide) "istio-system" "ns2" ["ns1"]
    { ns := "ns1", labels := [("app", "a")] } rfl hw 80).mp (h1.mpr (by decide))
  exact h2.1 (by decide)

/-! ## Clause 2e: the version (`GetVersion`, part of the EDS and CDS cache keys) tracks the policies

`aggregateVersion` is a hash of the multiset of `UID.ResourceVersion` of the configs.  Assumptions,
both outside the model: the hash is collision-free on what it is fed, and Kubernetes never reuses a
(UID, ResourceVersion) for a different content (`RvDeterminesContent`).  Then: equal versions imply
the same set of policies and hence the same effective mode everywhere - a cached client-side
decision keyed by the version is never stale. -/

/-- Same (namespace, name, resourceVersion) means same object. -/
def RvDeterminesContent (ps ps' : List PA) : Prop :=
  ∀ p ∈ ps, ∀ q ∈ ps', p.ns = q.ns → p.name = q.name → p.rv = q.rv → p = q

theorem uniqueKeys_nodup {ps : List PA} (hu : UniqueKeys ps) : ps.Nodup := by
  unfold UniqueKeys at hu
  exact List.Pairwise.imp (fun {a b} h hab => h (by rw [hab]; exact ⟨rfl, rfl⟩)) hu

theorem mem_of_version_subset {ps ps' : List PA} (root : String)
    (hrv : RvDeterminesContent ps ps')
    (hv : ∀ k, k ∈ (initAuthn root ps).version → k ∈ (initAuthn root ps').version) :
    ∀ p ∈ ps, p ∈ ps' := by
  intro p hp
  have hk : (p.ns, p.name, p.rv) ∈ (initAuthn root ps).version := by
    simp only [initAuthn, versionKeys, List.mem_map]
    exact ⟨p, mem_sorted.mpr hp, rfl⟩
  have := hv _ hk
  simp only [initAuthn, versionKeys, List.mem_map, Prod.mk.injEq] at this
  obtain ⟨q, hq, h1, h2, h3⟩ := this
  have hq' : q ∈ ps' := mem_sorted.mp hq
  rw [hrv p hp q hq' h1.symm h2.symm h3.symm]
  exact hq'

/-- **version_tracks_spec.**  If two policy sets get the same version, they are the same set, and every
    resolver returns the same mode for every workload and port. -/
theorem version_tracks_spec {ps ps' : List PA} (hu : UniqueKeys ps) (hu' : UniqueKeys ps') (root : String)
    (hrv : RvDeterminesContent ps ps')
    (hv : ((initAuthn root ps).version).Perm ((initAuthn root ps').version)) :
    ps.Perm ps' ∧ ∀ (w : Workload) (port : Nat), effectiveMode ps root w port = effectiveMode ps' root w port := by
  have hrv' : RvDeterminesContent ps' ps := fun q hq p hp h1 h2 h3 => (hrv p hp q hq h1.symm h2.symm h3.symm).symm
  have h1 := mem_of_version_subset root hrv (fun k hk => hv.mem_iff.mp hk)
  have h2 := mem_of_version_subset root hrv' (fun k hk => hv.mem_iff.mpr hk)
  have hperm : ps.Perm ps' :=
    (List.perm_ext_iff_of_nodup (uniqueKeys_nodup hu) (uniqueKeys_nodup hu')).mpr (fun a => ⟨h1 a, h2 a⟩)
  exact ⟨hperm, fun w port => effectiveMode_order_independent hu hperm root w port⟩

/-- A spec edit (with the resource-version bump Kubernetes performs) changes the version. -/
theorem version_changes_on_edit {ps ps' : List PA} (hu : UniqueKeys ps) (hu' : UniqueKeys ps') (root : String)
    (hrv : RvDeterminesContent ps ps') (w : Workload) (port : Nat)
    (hdiff : effectiveMode ps root w port ≠ effectiveMode ps' root w port) :
    ¬ ((initAuthn root ps).version).Perm ((initAuthn root ps').version) :=
  fun hv => hdiff ((version_tracks_spec hu hu' root hrv hv).2 w port)

/-- The filtered view's version covers exactly the configs it keeps. -/
theorem filterNs_version (a : Authn) (nss : List String) :
    (a.filterNs nss).version = versionKeys (a.filterNs nss).peerAuths := rfl

/-! ### The version production reads is the one of the FILTERED per-proxy view

Both production readers (`endpoint_builder.go` EDS cache key, `cluster_cache.go` CDS cache key) take
`proxy.SidecarScope.AuthnPolicies.GetVersion()`, i.e. the version `FilterPeerAuthenticationNamespaces`
recomputes over the kept configs.  THAT these readers put the version into their cache keys is property
C06's subject (cache-key completeness); here: the filtered version determines every client-side decision
about workloads of the kept namespaces. -/

theorem addLoop_kept_sublist (root : String) (l : List PA) (st : AddSt) :
    ∃ k, (addLoop root st l).kept = st.kept ++ k ∧ k.Sublist l := by
  induction l generalizing st with
  | nil => exact ⟨[], by simp [addLoop_nil], List.Sublist.refl _⟩
  | cons c cs ih =>
    rw [addLoop_cons]
    have keep : ∀ st', st'.kept = st.kept ++ [c] →
        ∃ k, (addLoop root st' cs).kept = st.kept ++ k ∧ k.Sublist (c :: cs) := by
      intro st' h'
      obtain ⟨k, hk, hs⟩ := ih st'
      exact ⟨c :: k, by rw [hk, h']; simp, hs.cons_cons c⟩
    cases hn : c.nsLevel with
    | false => rw [addStep_sel hn]; exact keep _ rfl
    | true =>
      by_cases hsn : c.ns ∈ st.seen
      · rw [addStep_skip hn hsn]
        obtain ⟨k, hk, hs⟩ := ih st
        exact ⟨k, hk, hs.cons c⟩
      · by_cases hr : c.ns = root
        · rw [addStep_root hn hsn hr]; exact keep _ rfl
        · rw [addStep_ns hn hsn hr]; exact keep _ rfl

theorem initAuthn_peerAuths_sublist (root : String) (ps : List PA) :
    (initAuthn root ps).peerAuths.Sublist (sortByCreation ps) := by
  obtain ⟨k, hk, hs⟩ := addLoop_kept_sublist root (sortByCreation ps) AddSt.init
  have : (initAuthn root ps).peerAuths = k := by
    show (addLoop root AddSt.init (sortByCreation ps)).kept = k
    rw [hk]; simp [AddSt.init]
  rw [this]; exact hs

theorem modeFor_congr (a b : Authn) (h1 : a.peerAuths = b.peerAuths) (h2 : a.rootNs = b.rootNs)
    (w : Workload) (port : Nat) : a.modeFor w port = b.modeFor w port := by
  unfold Authn.modeFor Authn.configsFor Authn.forNs
  rw [h1, h2]

/-- The configs a sidecar view keeps: sorted, without duplicates, all from the input. -/
theorem sidecarView_peerAuths (root : String) (ps : List PA) (clientNs : String) (importedNs : List String) :
    (sidecarView root ps clientNs importedNs).peerAuths.Sublist (sortByCreation ps) :=
  List.Sublist.trans List.filter_sublist (initAuthn_peerAuths_sublist root ps)

theorem mem_of_versionKeys_subset {A B qs qs' : List PA} (hA : ∀ p ∈ A, p ∈ qs) (hB : ∀ p ∈ B, p ∈ qs')
    (hr : RvDeterminesContent qs qs') (hk : ∀ k, k ∈ versionKeys A → k ∈ versionKeys B) : ∀ p ∈ A, p ∈ B := by
  intro p hp
  have : (p.ns, p.name, p.rv) ∈ versionKeys B := hk _ (List.mem_map.mpr ⟨p, hp, rfl⟩)
  simp only [versionKeys, List.mem_map, Prod.mk.injEq] at this
  obtain ⟨q, hq, h1, h2, h3⟩ := this
  rw [hr p (hA p hp) q (hB q hq) h1.symm h2.symm h3.symm]
  exact hq

/-- **filtered_version_tracks_spec.**  If the per-proxy views (`proxy.SidecarScope.AuthnPolicies`) of two policy
    sets have the same version (`GetVersion()`), the views hold the same configs, and the effective mode of
    every workload of a kept namespace (client namespace, root namespace, namespaces of imported services)
    is the same on every port: a client-side artefact cached under that version is never stale. -/
theorem filtered_version_tracks_spec {ps ps' : List PA} (hu : UniqueKeys ps) (hu' : UniqueKeys ps')
    (root clientNs : String) (importedNs : List String) (hrv : RvDeterminesContent ps ps')
    (hv : ((sidecarView root ps clientNs importedNs).version).Perm ((sidecarView root ps' clientNs importedNs).version)) :
    (sidecarView root ps clientNs importedNs).peerAuths = (sidecarView root ps' clientNs importedNs).peerAuths ∧
    ∀ (w : Workload), w.svcNs = [] → w.ns ∈ clientNs :: root :: importedNs → ∀ port : Nat,
      effectiveMode ps root w port = effectiveMode ps' root w port := by
  have hsl := sidecarView_peerAuths root ps clientNs importedNs
  have hsl' := sidecarView_peerAuths root ps' clientNs importedNs
  have hver : (sidecarView root ps clientNs importedNs).version =
      versionKeys (sidecarView root ps clientNs importedNs).peerAuths := rfl
  have hver' : (sidecarView root ps' clientNs importedNs).version =
      versionKeys (sidecarView root ps' clientNs importedNs).peerAuths := rfl
  rw [hver, hver'] at hv
  have hin : ∀ p ∈ (sidecarView root ps clientNs importedNs).peerAuths, p ∈ ps :=
    fun p hp => mem_sorted.mp (hsl.subset hp)
  have hin' : ∀ p ∈ (sidecarView root ps' clientNs importedNs).peerAuths, p ∈ ps' :=
    fun p hp => mem_sorted.mp (hsl'.subset hp)
  have hrv' : RvDeterminesContent ps' ps := fun q hq p hp h1 h2 h3 => (hrv p hp q hq h1.symm h2.symm h3.symm).symm
  have h12 := mem_of_versionKeys_subset hin hin' hrv (fun k hk => hv.mem_iff.mp hk)
  have h21 := mem_of_versionKeys_subset hin' hin hrv' (fun k hk => hv.mem_iff.mpr hk)
  have hnd : ∀ qs : List PA, UniqueKeys qs → (sortByCreation qs).Nodup := fun qs h =>
    (List.Perm.nodup_iff (List.mergeSort_perm qs _)).mpr (uniqueKeys_nodup h)
  have hperm : ((sidecarView root ps clientNs importedNs).peerAuths).Perm
      (sidecarView root ps' clientNs importedNs).peerAuths :=
    (List.perm_ext_iff_of_nodup ((hnd ps hu).sublist hsl) ((hnd ps' hu').sublist hsl')).mpr
      (fun a => ⟨h12 a, h21 a⟩)
  have heq : (sidecarView root ps clientNs importedNs).peerAuths =
      (sidecarView root ps' clientNs importedNs).peerAuths :=
    List.Perm.eq_of_pairwise (le := fun a b => cfgLe a b = true)
      (fun a b ha hb hab hba => UniqueKeys.eq_of_key hu (hin a ha) (hin b (h21 b hb)) (cfgLe_antisymm hab hba))
      ((sorted_pairwise ps).sublist hsl) ((sorted_pairwise ps').sublist hsl') hperm
  refine ⟨heq, fun w hs hw port => ?_⟩
  have e1 : (sidecarView root ps clientNs importedNs).modeFor w port = effectiveMode ps root w port := by
    unfold sidecarView
    rw [filterNs_modeFor _ _ w hs hw (by simp [initAuthn_root]), modeFor_initAuthn, compose_eq_spec hu root w hs]
  have e2 : (sidecarView root ps' clientNs importedNs).modeFor w port = effectiveMode ps' root w port := by
    unfold sidecarView
    rw [filterNs_modeFor _ _ w hs hw (by simp [initAuthn_root]), modeFor_initAuthn, compose_eq_spec hu' root w hs]
  rw [← e1, ← e2]
  exact modeFor_congr _ _ heq rfl w port


/-- An edit that changes the effective mode of a workload of a kept namespace changes the filtered version. -/
theorem filtered_version_changes_on_edit {ps ps' : List PA} (hu : UniqueKeys ps) (hu' : UniqueKeys ps')
    (root clientNs : String) (importedNs : List String) (hrv : RvDeterminesContent ps ps')
    (w : Workload) (hs : w.svcNs = []) (hw : w.ns ∈ clientNs :: root :: importedNs) (port : Nat)
    (hdiff : effectiveMode ps root w port ≠ effectiveMode ps' root w port) :
    ¬ ((sidecarView root ps clientNs importedNs).version).Perm ((sidecarView root ps' clientNs importedNs).version) :=
  fun hv => hdiff ((filtered_version_tracks_spec hu hu' root clientNs importedNs hrv hv).2 w hs hw port)

/-- The filtered statement is not a corollary of `version_tracks_spec`: the filtered version has keys of
    the kept namespaces only (an edit elsewhere leaves it as it is), the unfiltered one has a key for
    every config. -/
theorem filtered_version_only_kept (root : String) (ps : List PA) (clientNs : String) (importedNs : List String) :
    (∀ k ∈ (sidecarView root ps clientNs importedNs).version, k.1 ∈ clientNs :: root :: importedNs) ∧
    (∀ p ∈ ps, (p.ns, p.name, p.rv) ∈ (initAuthn root ps).version) := by
  refine ⟨fun k hk => ?_, fun p hp => ?_⟩
  · have hk' : k ∈ versionKeys ((initAuthn root ps).peerAuths.filter
        (fun c => (clientNs :: root :: importedNs).contains c.ns)) := hk
    simp only [versionKeys, List.mem_map, List.mem_filter] at hk'
    obtain ⟨q, ⟨_, hq⟩, rfl⟩ := hk'
    simpa using hq
  · simp only [initAuthn, versionKeys, List.mem_map]
    exact ⟨p, mem_sorted.mpr hp, rfl⟩

/-! ### Push propagation: the configs the decision reads are config dependencies of the proxy -/

theorem mem_sidecarView_peerAuths {root : String} {ps : List PA} {clientNs : String} {importedNs : List String} {p : PA}
    (h1 : p ∈ (initAuthn root ps).peerAuths) (h2 : p.ns ∈ clientNs :: root :: importedNs) :
    p ∈ (sidecarView root ps clientNs importedNs).peerAuths := by
  show p ∈ (initAuthn root ps).peerAuths.filter (fun c => (clientNs :: root :: importedNs).contains c.ns)
  exact List.mem_filter.mpr ⟨h1, by simpa using h2⟩

/-- **dependencies_cover_spec.**  Every policy the specification reads for a workload of a kept namespace - the
    mesh policy, the namespace policy, the workload policy - is a config dependency of the client proxy: a
    change of any of them is pushed to it (`DependsOnConfig`). -/
theorem dependencies_cover_spec {ps : List PA} (hu : UniqueKeys ps) (root clientNs : String) (importedNs : List String)
    (w : Workload) (hw : w.ns ∈ clientNs :: root :: importedNs) (p : PA)
    (h : meshPolicy ps root = some p ∨ nsPolicy ps root w.ns = some p ∨ wlPolicy ps root w = some p) :
    (p.ns, p.name) ∈ sidecarDeps root ps clientNs importedNs := by
  refine List.mem_map.mpr ⟨p, ?_, rfl⟩
  have hnsPol : ∀ n, (sortByCreation ps).find? (isNsPol n) = some p → n ∈ clientNs :: root :: importedNs →
      p ∈ (sidecarView root ps clientNs importedNs).peerAuths := by
    intro n hf hn
    have hm : p ∈ (initAuthn root ps).peerAuths.filter (isNsPol n) := by
      rw [initAuthn_kept_ns, hf]; simp
    have hp := List.mem_filter.mp hm
    have hns : p.ns = n := by
      have := hp.2; simp only [isNsPol, Bool.and_eq_true, beq_iff_eq] at this; exact this.2
    exact mem_sidecarView_peerAuths hp.1 (hns ▸ hn)
  rcases h with h | h | h
  · rw [meshPolicy_eq hu] at h
    exact hnsPol root h (by simp)
  · rw [nsPolicy_eq hu] at h
    by_cases hr : w.ns = root
    · simp [hr] at h
    · simp only [hr, if_false] at h
      exact hnsPol w.ns h hw
  · rw [wlPolicy_eq hu] at h
    by_cases hr : w.ns = root
    · simp [hr] at h
    · simp only [hr, if_false] at h
      have hc := List.find?_some h
      have hmem := List.mem_of_find?_eq_some h
      have hm : p ∈ (initAuthn root ps).peerAuths.filter (fun q => !q.nsLevel && (fun _ => true) q) := by
        rw [initAuthn_kept_sel root (fun _ => true) ps]
        refine List.mem_filter.mpr ⟨hmem, ?_⟩
        simp only [wlCand, Bool.and_eq_true] at hc
        simp [hc.1]
      have hns : p.ns = w.ns := by
        simp only [wlCand, Bool.and_eq_true, beq_iff_eq] at hc; exact hc.2.1
      exact mem_sidecarView_peerAuths (List.mem_filter.mp hm).1 (hns ▸ hw)

/-! ## Non-vacuity: concrete policies meeting the hypotheses, with ties and several per level -/

def exPolicies : List PA :=
  [ { name := "m2", ns := "istio-system", time := 100, selector := none, mtls := .disable, ports := [] },
    { name := "m1", ns := "istio-system", time := 100, selector := none, mtls := .strict, ports := [] },
    { name := "nsb", ns := "ns1", time := 200, selector := none, mtls := .unset, ports := [] },
    { name := "wl2", ns := "ns1", time := 200, selector := some [("app", "a")], mtls := .permissive,
      ports := [(80, .strict)] },
    { name := "wl1", ns := "ns1", time := 200, selector := some [("app", "a")], mtls := .unset,
      ports := [(80, .disable), (8080, .unset)] },
    { name := "rootsel", ns := "istio-system", time := 50, selector := some [("app", "a")], mtls := .disable,
      ports := [] } ]

def exWorkload : Workload := { ns := "ns1", labels := [("app", "a"), ("ver", "1")] }

example : UniqueKeys exPolicies := by decide
/-- tie on (time) between m1/m2 resolved by name; wl1 wins over wl2 by name; UNSET inherits through
    the namespace policy to the mesh policy; the root-namespace selector policy is ignored. -/
example : effectiveMode exPolicies "istio-system" exWorkload 80 = .disable := by decide
example : effectiveMode exPolicies "istio-system" exWorkload 8080 = .strict := by decide
example : workloadMode "istio-system" exPolicies exWorkload 80 = .disable := by
  rw [compose_eq_spec (by decide) _ _ rfl]; decide
example : workloadMode "istio-system" exPolicies exWorkload 9999 = .strict := by
  rw [compose_eq_spec (by decide) _ _ rfl]; decide
example : bestEffortServiceMode (initAuthn "istio-system" exPolicies) "ns1" = .strict := by
  rw [show "ns1" = ({ ns := "ns1", labels := [] } : Workload).ns from rfl,
    namespace_mode_agrees (by decide) _ _ (noSelectorMatch_of_no_labels _ _) 0]; decide

end IstioModel.C10
