import IstioModel.Common.Wire
import IstioModel.C10.Model

/-!
C10 - executable model of the ambient (ztunnel) side.

Go sources modelled (istio/istio, pilot/pkg/serviceregistry/ambient):
  workloads.go      fetchPeerAuthentications (which policies are handed to the key computation)
  authorization.go  getOldestPeerAuthn, convertedSelectorPeerAuthentications,
                    effectivePeerAuthenticationKeys, convertPeerAuthentication
  policies.go       PeerAuthDerivedPolicies (choice of nsCfg / rootCfg), DefaultPolicy (static STRICT)

krt `Fetch` returns objects in no particular order; the model takes the enumeration order as an
explicit input: the order of the policy list.

The `Fixes` parameter selects the behaviour before (`false`) / after (`true`) each of the five
`fix:` commits for findings F2, F3, F10, F11, F12 (see notes/C10.md); `Fixes.all` is the code in
/repo, `Fixes.none` the pinned tree 8d5216c.

ztunnel semantics (`Authz.matches`, `denied`) are modelled from pkg/workloadapi/security/authorization.proto
and ztunnel's documented evaluation: groups OR-ed, rules of a group AND-ed, matches of a rule OR-ed,
fields of a match AND-ed (empty field = no constraint, `not_` field = none of the values may match);
a connection is rejected iff some attached DENY policy matches it.
-/
namespace IstioModel.C10

/-- Which of the repairs are applied. -/
structure Fixes where
  f2  : Bool   -- `A || (B && (C || D))` instead of `A || (B && C || D)` in convertPeerAuthentication
  f3  : Bool   -- DISABLE ports count as exemptions in the UNSET / inherited-STRICT branch of the keys
  f10 : Bool   -- a namespace policy with mode UNSET is treated as absent by convertPeerAuthentication
  f11 : Bool   -- creation-time ties are broken by (name, namespace) (`peerAuthnOlder`) instead of by krt order
  f12 : Bool   -- a selector without labels counts as no selector everywhere (not only a nil selector)
  deriving DecidableEq, Repr

def Fixes.all : Fixes := ⟨true, true, true, true, true⟩
def Fixes.none : Fixes := ⟨false, false, false, false, false⟩

/-! ## ztunnel authorization policy (the subset emitted for PeerAuthentication) -/

/-- `security.Match` restricted to the fields the conversion sets. -/
structure AMatch where
  notPrincipalPresence : Bool := false        -- not_principals: [presence]
  dstPorts             : List Nat := []       -- destination_ports
  notDstPorts          : List Nat := []       -- not_destination_ports
  deriving DecidableEq, Repr

abbrev ARule := List AMatch      -- security.Rules.matches
abbrev AGroup := List ARule      -- security.Group.rules
/-- A DENY `security.Authorization` (its groups). -/
abbrev Authz := List AGroup

/-- A connection as far as these policies can see it: does the peer present an identity, and the
    destination port. -/
def AMatch.matches (m : AMatch) (authenticated : Bool) (port : Nat) : Bool :=
  (!m.notPrincipalPresence || !authenticated) &&
  (m.dstPorts.isEmpty || m.dstPorts.contains port) &&
  (m.notDstPorts.isEmpty || !m.notDstPorts.contains port)

def ARule.matches (r : ARule) (a : Bool) (port : Nat) : Bool := r.any (fun m => m.matches a port)
def AGroup.matches (g : AGroup) (a : Bool) (port : Nat) : Bool := g.all (fun r => ARule.matches r a port)
def Authz.matches (p : Authz) (a : Bool) (port : Nat) : Bool := p.any (fun g => AGroup.matches g a port)

/-- The rule "peer has no identity". -/
def ruleNP : ARule := [{ notPrincipalPresence := true }]

/-- `DefaultPolicy`: the static STRICT policy (`istio_converted_static_strict`). -/
def staticStrict : Authz := [[ruleNP]]

/-! ## fetchPeerAuthentications -/

/-- "has no selector": `Selector == nil` on the pinned tree, `len(GetSelector().GetMatchLabels()) == 0`
    after the repair of F12. -/
def selNilG (fx : Fixes) (p : PA) : Bool := if fx.f12 then p.nsLevel else p.selector.isNone

/-- `peerAuthnOlder a b` (repair of F11): strictly older, ties broken by name, then namespace. -/
def olderThan (a b : PA) : Bool :=
  if a.time ≠ b.time then decide (a.time < b.time)
  else if a.name ≠ b.name then decide (a.name < b.name)
  else decide (a.ns < b.ns)

/-- `cur == nil || <cfg older than cur>`: `CreationTimestamp.Before` on the pinned tree. -/
def takesG (fx : Fixes) (c : PA) (cur : Option PA) : Bool :=
  match cur with
  | none => true
  | some o => if fx.f11 then olderThan c o else decide (c.time < o.time)

/-- Own-namespace policies without selector or with a matching selector, then (for a workload
    outside the root namespace) the root-namespace policies whose selector is nil. -/
def ambientFetchG (fx : Fixes) (root : String) (pas : List PA) (w : Workload) : List PA :=
  pas.filter (fun p => p.ns == w.ns &&
      (match p.selector with
       | none => true
       | some l => subsetOf l w.labels)) ++
  (if w.ns ≠ root then pas.filter (fun p => p.ns == root && selNilG fx p) else [])

/-! ## convertedSelectorPeerAuthentications -/

/-- The keys attached to the workload: the static STRICT policy and/or the converted workload policy. -/
structure AKeys where
  static : Bool
  wl     : Option PA
  deriving Repr

def portsAny (p : PA) (f : PMode → Bool) : Bool := p.ports.any (fun e => f e.2)

/-- The selection loop of `convertedSelectorPeerAuthentications` (a copy of the one in
    `ComposePeerAuthentication`, with the ambient comparison). -/
def ambientSelStep (fx : Fixes) (root : String) (s : Sel) (c : PA) : Sel :=
  if c.nsLevel then
    if c.ns = root then (if takesG fx c s.mesh then { s with mesh := some c } else s)
    else (if takesG fx c s.ns then { s with ns := some c } else s)
  else if c.ns ≠ root then (if takesG fx c s.wl then { s with wl := some c } else s)
  else s

def ambientSel (fx : Fixes) (root : String) (configs : List PA) : Sel :=
  configs.foldl (ambientSelStep fx root) {}

/-- `convertedSelectorPeerAuthentications`.  `fx.f3`: the UNSET-workload / inherited-STRICT
    branch also looks for DISABLE ports. -/
def ambientKeysG (fx : Fixes) (root : String) (configs : List PA) : AKeys :=
  let s := ambientSel fx root configs
  let e0 := match s.mesh with
    | some m => m.mtls == .strict
    | none => false
  let e1 := match s.ns with
    | some n => if n.mtls ≠ .unset then n.mtls == .strict else e0
    | none => e0
  match s.wl with
  | none => { static := e1, wl := none }
  | some wl =>
    let e2 := if wl.mtls == .strict then true else e1
    let e3 := if wl.mtls == .permissive || wl.mtls == .disable then false else e2
    match wl.mtls with
    | .strict =>
      if portsAny wl (fun m => m == .permissive || m == .disable) then { static := false, wl := some wl }
      else { static := e3, wl := none }
    | .permissive | .disable =>
      if portsAny wl (fun m => m == .strict) then { static := e3, wl := some wl }
      else { static := e3, wl := none }
    | .unset =>
      if e3 then
        if portsAny wl (fun m => m == .permissive || (fx.f3 && m == .disable)) then { static := false, wl := some wl }
        else { static := e3, wl := none }
      else
        if portsAny wl (fun m => m == .strict) then { static := false, wl := some wl }
        else { static := false, wl := none }

/-! ## convertPeerAuthentication -/

def optStrict (c : Option PA) : Bool :=
  match c with
  | some p => p.mtls == .strict
  | none => false

def optUnsetOrNil (c : Option PA) : Bool :=
  match c with
  | some p => p.mtls == .unset
  | none => true

/-- Loop state of the port loop. -/
structure ConvSt where
  groups   : List AGroup
  rules    : List ARule
  foundNon : Bool
  deriving Repr

/-- "the parent policy already enforces this STRICT port".  Pinned tree: `A || (B && C || D)`;
    repaired (`fixF2`): `A || (B && (C || D))`. -/
def strictPortSkipped (fixF2 : Bool) (cfg : PA) (nsCfg rootCfg : Option PA) : Bool :=
  let a := cfg.mtls == .strict
  let b := cfg.mtls == .unset
  let c := optStrict nsCfg
  let d := optUnsetOrNil nsCfg && optStrict rootCfg
  if fixF2 then a || (b && (c || d)) else a || ((b && c) || d)

/-- "not STRICT and the effective policy is not STRICT": second `continue` of the non-strict port case. -/
def nonStrictPortIgnored (cfg : PA) (nsCfg rootCfg : Option PA) : Bool :=
  cfg.mtls == .unset &&
    ((nsCfg.isSome && !optStrict nsCfg) ||
     (nsCfg.isNone && rootCfg.isSome && !optStrict rootCfg) ||
     (nsCfg.isNone && rootCfg.isNone))

def convStep (fixF2 : Bool) (cfg : PA) (nsCfg rootCfg : Option PA) (st : ConvSt) (e : Nat × PMode) : ConvSt :=
  match e.2 with
  | .strict =>
    if strictPortSkipped fixF2 cfg nsCfg rootCfg then st
    else { st with groups := st.groups ++ [[[{ notPrincipalPresence := true, dstPorts := [e.1] }]]] }
  | .permissive | .disable =>
    if cfg.mtls == .permissive || cfg.mtls == .disable then st
    else if nonStrictPortIgnored cfg nsCfg rootCfg then st
    else { st with foundNon := true, rules := st.rules ++ [[{ notDstPorts := [e.1] }]] }
  | .unset => st

/-- `maps.SeqStable`: iteration in increasing port order. -/
def sortPorts (l : List (Nat × PMode)) : List (Nat × PMode) :=
  l.mergeSort (fun a b => decide (a.1 ≤ b.1))

def shouldMergeStrict (nsCfg rootCfg : Option PA) : Bool :=
  if optStrict rootCfg && (optUnsetOrNil nsCfg || optStrict nsCfg) then true
  else optStrict nsCfg

/-- Repair of F10: `if nsCfg != nil && isMtlsModeUnset(nsCfg.Spec.Mtls) { nsCfg = nil }`. -/
def dropUnset (c : Option PA) : Option PA :=
  match c with
  | some p => if p.mtls == .unset then none else some p
  | none => none

/-- `convertPeerAuthentication` (`none` = nil: nothing is sent for this policy). -/
def convertPAG (fx : Fixes) (root : String) (cfg : PA) (nsCfg0 rootCfg : Option PA) : Option Authz :=
  let fixF2 := fx.f2
  let nsCfg := if fx.f10 then dropUnset nsCfg0 else nsCfg0
  if cfg.ns == root || selNilG fx cfg || cfg.ports.isEmpty then none
  else
    let st0 : ConvSt := { groups := [], rules := if cfg.mtls == .strict then [ruleNP] else [], foundNon := false }
    let st := (sortPorts cfg.ports).foldl (convStep fixF2 cfg nsCfg rootCfg) st0
    if cfg.mtls == .strict && !st.foundNon then none
    else if st.rules.isEmpty && st.groups.isEmpty then none
    else
      let rules := if shouldMergeStrict nsCfg rootCfg && st.foundNon then st.rules ++ [ruleNP] else st.rules
      some (if rules.isEmpty then st.groups else st.groups ++ [rules])

/-! ## PeerAuthDerivedPolicies -/

/-- `getOldestPeerAuthn`: first policy of minimal creation time in enumeration order. -/
def getOldestG (fx : Fixes) (l : List PA) : Option PA :=
  l.foldl (fun acc p => if takesG fx p acc then some p else acc) none

/-- The policy sent to ztunnel for PeerAuthentication `i` (`PeerAuthByNamespace` indexes only
    policies whose selector is nil). -/
def derivedPolicyG (fx : Fixes) (root : String) (pas : List PA) (i : PA) : Option Authz :=
  convertPAG fx root i
    (getOldestG fx (pas.filter (fun p => p.ns == i.ns && selNilG fx p)))
    (getOldestG fx (pas.filter (fun p => p.ns == root && selNilG fx p)))

/-! ## What ztunnel enforces for a workload -/

/-- The DENY policies a workload references that exist in what istiod sends. -/
def attachedG (fx : Fixes) (root : String) (pas : List PA) (w : Workload) : List Authz :=
  let k := ambientKeysG fx root (ambientFetchG fx root pas w)
  (if k.static then [staticStrict] else []) ++
  (match k.wl with
   | none => []
   | some p =>
     match derivedPolicyG fx root pas p with
     | none => []                 -- referenced but never sent: nothing to enforce
     | some a => [a])

/-- ztunnel rejects the connection iff some attached DENY policy matches. -/
def deniedG (fx : Fixes) (root : String) (pas : List PA) (w : Workload)
    (authenticated : Bool) (port : Nat) : Bool :=
  (attachedG fx root pas w).any (fun p => p.matches authenticated port)

/-- The code in /repo (after the `fix:` commits). -/
abbrev ambientFetch := ambientFetchG Fixes.all
abbrev ambientKeys := ambientKeysG Fixes.all
abbrev convertPA := convertPAG Fixes.all
abbrev derivedPolicy := derivedPolicyG Fixes.all
abbrev attached := attachedG Fixes.all
abbrev denied := deniedG Fixes.all

/-! ## Printing (used by the driver) -/

def AMatch.show (m : AMatch) : String :=
  ".".intercalate ((if m.notPrincipalPresence then ["np"] else []) ++
    m.dstPorts.map (fun p => s!"dp{p}") ++ m.notDstPorts.map (fun p => s!"ndp{p}"))

def Authz.show (a : Authz) : String :=
  "|".intercalate (a.map (fun g => "&".intercalate (g.map (fun r => "+".intercalate (r.map AMatch.show)))))

def sortStrings (l : List String) : List String := l.mergeSort (fun a b => decide (a ≤ b))

def showAmbientG (fx : Fixes) (root : String) (pas : List PA) (w : Workload) (ports : List Nat) : String :=
  let fetched := ambientFetchG fx root pas w
  let k := ambientKeysG fx root fetched
  let f := IstioModel.Wire.encList (sortStrings (fetched.map (fun c => s!"{c.ns}/{c.name}")))
  let keys := (if k.static then [s!"{root}/istio_converted_static_strict"] else []) ++
    (match k.wl with
     | none => []
     | some p => [s!"{p.ns}/converted_peer_authentication_{p.name}"])
  let ks := IstioModel.Wire.encList (sortStrings keys)
  let pol := match k.wl with
    | none => "-"
    | some p =>
      match derivedPolicyG fx root pas p with
      | none => "nil"
      | some a => Authz.show a
  let d := if ports.isEmpty then "-" else
    ",".intercalate (ports.map (fun p =>
      s!"{p}:{if deniedG fx root pas w false p then 1 else 0}{if deniedG fx root pas w true p then 1 else 0}"))
  s!"F={f} K={ks} P={pol} D={d}"

def showAmbient := showAmbientG Fixes.all

end IstioModel.C10
