import IstioModel.Common.Wire
import IstioModel.C10.Model

/-!
C10 - executable model of the ambient (ztunnel) side.

Go sources modelled (istio/istio, pilot/pkg/serviceregistry/ambient):
  workloads.go      fetchPeerAuthentications (which policies are handed to the key computation)
  authorization.go  getOldestPeerAuthn, convertedSelectorPeerAuthentications,
                    effectivePeerAuthenticationKeys, convertPeerAuthentication
  policies.go       PeerAuthDerivedPolicies (choice of nsCfg / rootCfg), DefaultPolicy (static STRICT)

krt `Fetch` returns objects in no particular order; the model takes the enumeration order as an
explicit input: the order of the policy list.

The two Boolean parameters select the behaviour before (`false`) / after (`true`) the `fix:`
commits for findings F2 and F3 (see notes/C10.md); `true true` is the code in /repo.

ztunnel semantics (`Authz.matches`, `denied`) are modelled from pkg/workloadapi/security/authorization.proto
and ztunnel's documented evaluation: groups OR-ed, rules of a group AND-ed, matches of a rule OR-ed,
fields of a match AND-ed (empty field = no constraint, `not_` field = none of the values may match);
a connection is rejected iff some attached DENY policy matches it.
-/
namespace IstioModel.C10

/-! ## ztunnel authorization policy (the subset emitted for PeerAuthentication) -/

/-- `security.Match` restricted to the fields the conversion sets. -/
structure AMatch where
  notPrincipalPresence : Bool := false        -- not_principals: [presence]
  dstPorts             : List Nat := []       -- destination_ports
  notDstPorts          : List Nat := []       -- not_destination_ports
  deriving DecidableEq, Repr

abbrev ARule := List AMatch      -- security.Rules.matches
abbrev AGroup := List ARule      -- security.Group.rules
/-- A DENY `security.Authorization` (its groups). -/
abbrev Authz := List AGroup

/-- A connection as far as these policies can see it: does the peer present an identity, and the
    destination port. -/
def AMatch.matches (m : AMatch) (authenticated : Bool) (port : Nat) : Bool :=
  (!m.notPrincipalPresence || !authenticated) &&
  (m.dstPorts.isEmpty || m.dstPorts.contains port) &&
  (m.notDstPorts.isEmpty || !m.notDstPorts.contains port)

def ARule.matches (r : ARule) (a : Bool) (port : Nat) : Bool := r.any (fun m => m.matches a port)
def AGroup.matches (g : AGroup) (a : Bool) (port : Nat) : Bool := g.all (fun r => ARule.matches r a port)
def Authz.matches (p : Authz) (a : Bool) (port : Nat) : Bool := p.any (fun g => AGroup.matches g a port)

/-- The rule "peer has no identity". -/
def ruleNP : ARule := [{ notPrincipalPresence := true }]

/-- `DefaultPolicy`: the static STRICT policy (`istio_converted_static_strict`). -/
def staticStrict : Authz := [[ruleNP]]

/-! ## fetchPeerAuthentications -/

def selNil (p : PA) : Bool := p.selector.isNone

/-- Own-namespace policies without selector or with a matching selector, then (for a workload
    outside the root namespace) the root-namespace policies whose selector is nil. -/
def ambientFetch (root : String) (pas : List PA) (w : Workload) : List PA :=
  pas.filter (fun p => p.ns == w.ns &&
      (match p.selector with
       | none => true
       | some l => subsetOf l w.labels)) ++
  (if w.ns ≠ root then pas.filter (fun p => p.ns == root && selNil p) else [])

/-! ## convertedSelectorPeerAuthentications -/

/-- The keys attached to the workload: the static STRICT policy and/or the converted workload policy. -/
structure AKeys where
  static : Bool
  wl     : Option PA
  deriving Repr

def portsAny (p : PA) (f : PMode → Bool) : Bool := p.ports.any (fun e => f e.2)

/-- `convertedSelectorPeerAuthentications`; the selection loop is the same code as in
    `ComposePeerAuthentication` (`composeSel`).  `fixF3`: the UNSET-workload / inherited-STRICT
    branch also looks for DISABLE ports. -/
def ambientKeysG (fixF3 : Bool) (root : String) (configs : List PA) : AKeys :=
  let s := composeSel root configs
  let e0 := match s.mesh with
    | some m => m.mtls == .strict
    | none => false
  let e1 := match s.ns with
    | some n => if n.mtls ≠ .unset then n.mtls == .strict else e0
    | none => e0
  match s.wl with
  | none => { static := e1, wl := none }
  | some wl =>
    let e2 := if wl.mtls == .strict then true else e1
    let e3 := if wl.mtls == .permissive || wl.mtls == .disable then false else e2
    match wl.mtls with
    | .strict =>
      if portsAny wl (fun m => m == .permissive || m == .disable) then { static := false, wl := some wl }
      else { static := e3, wl := none }
    | .permissive | .disable =>
      if portsAny wl (fun m => m == .strict) then { static := e3, wl := some wl }
      else { static := e3, wl := none }
    | .unset =>
      if e3 then
        if portsAny wl (fun m => m == .permissive || (fixF3 && m == .disable)) then { static := false, wl := some wl }
        else { static := e3, wl := none }
      else
        if portsAny wl (fun m => m == .strict) then { static := false, wl := some wl }
        else { static := false, wl := none }

/-! ## convertPeerAuthentication -/

def optStrict (c : Option PA) : Bool :=
  match c with
  | some p => p.mtls == .strict
  | none => false

def optUnsetOrNil (c : Option PA) : Bool :=
  match c with
  | some p => p.mtls == .unset
  | none => true

/-- Loop state of the port loop. -/
structure ConvSt where
  groups   : List AGroup
  rules    : List ARule
  foundNon : Bool
  deriving Repr

/-- "the parent policy already enforces this STRICT port".  Pinned tree: `A || (B && C || D)`;
    repaired (`fixF2`): `A || (B && (C || D))`. -/
def strictPortSkipped (fixF2 : Bool) (cfg : PA) (nsCfg rootCfg : Option PA) : Bool :=
  let a := cfg.mtls == .strict
  let b := cfg.mtls == .unset
  let c := optStrict nsCfg
  let d := optUnsetOrNil nsCfg && optStrict rootCfg
  if fixF2 then a || (b && (c || d)) else a || ((b && c) || d)

/-- "not STRICT and the effective policy is not STRICT": second `continue` of the non-strict port case. -/
def nonStrictPortIgnored (cfg : PA) (nsCfg rootCfg : Option PA) : Bool :=
  cfg.mtls == .unset &&
    ((nsCfg.isSome && !optStrict nsCfg) ||
     (nsCfg.isNone && rootCfg.isSome && !optStrict rootCfg) ||
     (nsCfg.isNone && rootCfg.isNone))

def convStep (fixF2 : Bool) (cfg : PA) (nsCfg rootCfg : Option PA) (st : ConvSt) (e : Nat × PMode) : ConvSt :=
  match e.2 with
  | .strict =>
    if strictPortSkipped fixF2 cfg nsCfg rootCfg then st
    else { st with groups := st.groups ++ [[[{ notPrincipalPresence := true, dstPorts := [e.1] }]]] }
  | .permissive | .disable =>
    if cfg.mtls == .permissive || cfg.mtls == .disable then st
    else if nonStrictPortIgnored cfg nsCfg rootCfg then st
    else { st with foundNon := true, rules := st.rules ++ [[{ notDstPorts := [e.1] }]] }
  | .unset => st

/-- `maps.SeqStable`: iteration in increasing port order. -/
def sortPorts (l : List (Nat × PMode)) : List (Nat × PMode) :=
  l.mergeSort (fun a b => decide (a.1 ≤ b.1))

def shouldMergeStrict (nsCfg rootCfg : Option PA) : Bool :=
  if optStrict rootCfg && (optUnsetOrNil nsCfg || optStrict nsCfg) then true
  else optStrict nsCfg

/-- `convertPeerAuthentication` (`none` = nil: nothing is sent for this policy). -/
def convertPAG (fixF2 : Bool) (root : String) (cfg : PA) (nsCfg rootCfg : Option PA) : Option Authz :=
  if cfg.ns == root || selNil cfg || cfg.ports.isEmpty then none
  else
    let st0 : ConvSt := { groups := [], rules := if cfg.mtls == .strict then [ruleNP] else [], foundNon := false }
    let st := (sortPorts cfg.ports).foldl (convStep fixF2 cfg nsCfg rootCfg) st0
    if cfg.mtls == .strict && !st.foundNon then none
    else if st.rules.isEmpty && st.groups.isEmpty then none
    else
      let rules := if shouldMergeStrict nsCfg rootCfg && st.foundNon then st.rules ++ [ruleNP] else st.rules
      some (if rules.isEmpty then st.groups else st.groups ++ [rules])

/-! ## PeerAuthDerivedPolicies -/

/-- `getOldestPeerAuthn`: first policy of minimal creation time in enumeration order. -/
def getOldest (l : List PA) : Option PA :=
  l.foldl (fun acc p => if takes p acc then some p else acc) none

/-- The policy sent to ztunnel for PeerAuthentication `i` (`PeerAuthByNamespace` indexes only
    policies whose selector is nil). -/
def derivedPolicyG (fixF2 : Bool) (root : String) (pas : List PA) (i : PA) : Option Authz :=
  convertPAG fixF2 root i
    (getOldest (pas.filter (fun p => p.ns == i.ns && selNil p)))
    (getOldest (pas.filter (fun p => p.ns == root && selNil p)))

/-! ## What ztunnel enforces for a workload -/

/-- The DENY policies a workload references that exist in what istiod sends. -/
def attachedG (fixF2 fixF3 : Bool) (root : String) (pas : List PA) (w : Workload) : List Authz :=
  let k := ambientKeysG fixF3 root (ambientFetch root pas w)
  (if k.static then [staticStrict] else []) ++
  (match k.wl with
   | none => []
   | some p =>
     match derivedPolicyG fixF2 root pas p with
     | none => []                 -- referenced but never sent: nothing to enforce
     | some a => [a])

/-- ztunnel rejects the connection iff some attached DENY policy matches. -/
def deniedG (fixF2 fixF3 : Bool) (root : String) (pas : List PA) (w : Workload)
    (authenticated : Bool) (port : Nat) : Bool :=
  (attachedG fixF2 fixF3 root pas w).any (fun p => p.matches authenticated port)

/-- The code in /repo (after the `fix:` commits). -/
abbrev ambientKeys := ambientKeysG true
abbrev convertPA := convertPAG true
abbrev derivedPolicy := derivedPolicyG true
abbrev attached := attachedG true true
abbrev denied := deniedG true true

/-! ## Printing (used by the driver) -/

def AMatch.show (m : AMatch) : String :=
  ".".intercalate ((if m.notPrincipalPresence then ["np"] else []) ++
    m.dstPorts.map (fun p => s!"dp{p}") ++ m.notDstPorts.map (fun p => s!"ndp{p}"))

def Authz.show (a : Authz) : String :=
  "|".intercalate (a.map (fun g => "&".intercalate (g.map (fun r => "+".intercalate (r.map AMatch.show)))))

def sortStrings (l : List String) : List String := l.mergeSort (fun a b => decide (a ≤ b))

def showAmbientG (fixF2 fixF3 : Bool) (root : String) (pas : List PA) (w : Workload) (ports : List Nat) : String :=
  let fetched := ambientFetch root pas w
  let k := ambientKeysG fixF3 root fetched
  let f := IstioModel.Wire.encList (sortStrings (fetched.map (fun c => s!"{c.ns}/{c.name}")))
  let keys := (if k.static then [s!"{root}/istio_converted_static_strict"] else []) ++
    (match k.wl with
     | none => []
     | some p => [s!"{p.ns}/converted_peer_authentication_{p.name}"])
  let ks := IstioModel.Wire.encList (sortStrings keys)
  let pol := match k.wl with
    | none => "-"
    | some p =>
      match derivedPolicyG fixF2 root pas p with
      | none => "nil"
      | some a => Authz.show a
  let d := if ports.isEmpty then "-" else
    ",".intercalate (ports.map (fun p =>
      s!"{p}:{if deniedG fixF2 fixF3 root pas w false p then 1 else 0}{if deniedG fixF2 fixF3 root pas w true p then 1 else 0}"))
  s!"F={f} K={ks} P={pol} D={d}"

def showAmbient := showAmbientG false false

end IstioModel.C10
