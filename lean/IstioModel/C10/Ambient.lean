import IstioModel.Common.Wire
import IstioModel.C10.Model
import IstioModel.C10.Spec

/-!
C10 - executable model of the ambient (ztunnel) side.

Go sources modelled (istio/istio, pilot/pkg/serviceregistry/ambient):
  workloads.go      fetchPeerAuthentications (which policies are handed to the key computation)
  authorization.go  getOldestPeerAuthn, convertedSelectorPeerAuthentications,
                    effectivePeerAuthenticationKeys, convertPeerAuthentication
  policies.go       PeerAuthDerivedPolicies (choice of nsCfg / rootCfg), DefaultPolicy (static STRICT)

krt `Fetch` returns objects in no particular order; the model takes the enumeration order as an
explicit input: the order of the policy list.

The `Fixes` parameter selects the behaviour before (`false`) / after (`true`) each of the five
`fix:` commits for findings F2, F3, F10, F11, F12 (see notes/C10.md); `Fixes.all` is the code in
/repo, `Fixes.none` the pinned tree 8d5216c.

ztunnel semantics (`Authz.matches`, `denied`) are modelled from pkg/workloadapi/security/authorization.proto
and ztunnel's documented evaluation: groups OR-ed, rules of a group AND-ed, matches of a rule OR-ed,
fields of a match AND-ed (empty field = no constraint, `not_` field = none of the values may match);
a connection is rejected iff some attached DENY policy matches it.
-/
namespace IstioModel.C10

/-- Which of the repairs are applied. -/
structure Fixes where
  f2  : Bool   -- `A || (B && (C || D))` instead of `A || (B && C || D)` in convertPeerAuthentication
  f3  : Bool   -- DISABLE ports count as exemptions in the UNSET / inherited-STRICT branch of the keys
  f10 : Bool   -- a namespace policy with mode UNSET is treated as absent by convertPeerAuthentication
  f11 : Bool   -- creation-time ties are broken by (name, namespace) (`peerAuthnOlder`) instead of by krt order
  f12 : Bool   -- a selector without labels counts as no selector everywhere (not only a nil selector)
  f15 : Bool := true  -- inline ServiceEntry endpoints are matched with the ENDPOINT's labels, not the resource's
  deriving DecidableEq, Repr

def Fixes.all : Fixes := ⟨true, true, true, true, true, true⟩
def Fixes.none : Fixes := ⟨false, false, false, false, false, false⟩

/-! ## ztunnel authorization policy (the subset emitted for PeerAuthentication) -/

/-- `security.Match` restricted to the fields the conversion sets. -/
structure AMatch where
  notPrincipalPresence : Bool := false        -- not_principals: [presence]
  dstPorts             : List Nat := []       -- destination_ports
  notDstPorts          : List Nat := []       -- not_destination_ports
  deriving DecidableEq, Repr

abbrev ARule := List AMatch      -- security.Rules.matches
abbrev AGroup := List ARule      -- security.Group.rules
/-- A DENY `security.Authorization` (its groups). -/
abbrev Authz := List AGroup

/-- A connection as far as these policies can see it: does the peer present an identity, and the
    destination port. -/
def AMatch.matches (m : AMatch) (authenticated : Bool) (port : Nat) : Bool :=
  (!m.notPrincipalPresence || !authenticated) &&
  (m.dstPorts.isEmpty || m.dstPorts.contains port) &&
  (m.notDstPorts.isEmpty || !m.notDstPorts.contains port)

def ARule.matches (r : ARule) (a : Bool) (port : Nat) : Bool := r.any (fun m => m.matches a port)
def AGroup.matches (g : AGroup) (a : Bool) (port : Nat) : Bool := g.all (fun r => ARule.matches r a port)
def Authz.matches (p : Authz) (a : Bool) (port : Nat) : Bool := p.any (fun g => AGroup.matches g a port)

/-- The rule "peer has no identity". -/
def ruleNP : ARule := [{ notPrincipalPresence := true }]

/-- `DefaultPolicy`: the static STRICT policy (`istio_converted_static_strict`). -/
def staticStrict : Authz := [[ruleNP]]

/-! ## fetchPeerAuthentications -/

/-- "has no selector": `Selector == nil` on the pinned tree, `len(GetSelector().GetMatchLabels()) == 0`
    after the repair of F12. -/
def selNilG (fx : Fixes) (p : PA) : Bool := if fx.f12 then p.nsLevel else p.selector.isNone

/-- `peerAuthnOlder a b` (repair of F11): strictly older, ties broken by name, then namespace. -/
def olderThan (a b : PA) : Bool :=
  if a.time ≠ b.time then decide (a.time < b.time)
  else if a.name ≠ b.name then decide (a.name < b.name)
  else decide (a.ns < b.ns)

/-- `cur == nil || <cfg older than cur>`: `CreationTimestamp.Before` on the pinned tree. -/
def takesG (fx : Fixes) (c : PA) (cur : Option PA) : Bool :=
  match cur with
  | none => true
  | some o => if fx.f11 then olderThan c o else decide (c.time < o.time)

/-- Own-namespace policies without selector or with a matching selector, then (for a workload
    outside the root namespace) the root-namespace policies whose selector is nil. -/
def ambientFetchG (fx : Fixes) (root : String) (pas : List PA) (w : Workload) : List PA :=
  pas.filter (fun p => p.ns == w.ns &&
      (match p.selector with
       | none => true
       | some l => subsetOf l w.labels)) ++
  (if w.ns ≠ root then pas.filter (fun p => p.ns == root && selNilG fx p) else [])

/-! ## convertedSelectorPeerAuthentications -/

/-- The keys attached to the workload: the static STRICT policy and/or the converted workload policy. -/
structure AKeys where
  static : Bool
  wl     : Option PA
  deriving Repr

/-- The selection loop of `convertedSelectorPeerAuthentications` (a copy of the one in
    `ComposePeerAuthentication`, with the ambient comparison). -/
def ambientSelStep (fx : Fixes) (root : String) (s : Sel) (c : PA) : Sel :=
  if c.nsLevel then
    if c.ns = root then (if takesG fx c s.mesh then { s with mesh := some c } else s)
    else (if takesG fx c s.ns then { s with ns := some c } else s)
  else if c.ns ≠ root then (if takesG fx c s.wl then { s with wl := some c } else s)
  else s

def ambientSel (fx : Fixes) (root : String) (configs : List PA) : Sel :=
  configs.foldl (ambientSelStep fx root) {}

/-- Mode of an optional policy (`none` = the `*PeerAuthentication` is nil). -/
def modeOf (c : Option PA) : Option PMode := c.map (fun p => p.mtls)

/-- `cfg != nil && isMtlsModeStrict(cfg.Spec.Mtls)`. -/
def mStrict (m : Option PMode) : Bool := m == some .strict

/-- `cfg == nil || isMtlsModeUnset(cfg.Spec.Mtls)`. -/
def mUnsetOrNil (m : Option PMode) : Bool := m == none || m == some .unset

def portsAny (ports : List (Nat × PMode)) (f : PMode → Bool) : Bool := ports.any (fun e => f e.2)

/-- `isEffectiveStrictPolicy` after the mesh and namespace steps. -/
def inheritedStrict (meshM nsM : Option PMode) : Bool :=
  let e0 := mStrict meshM
  match nsM with
  | some n => if n ≠ .unset then n == .strict else e0
  | none => e0

structure KeyBits where
  static : Bool      -- reference the static STRICT policy
  ref    : Bool      -- reference the converted workload policy
  deriving DecidableEq, Repr

/-- The workload-policy part of `convertedSelectorPeerAuthentications`, on modes.  `fx.f3`: the
    UNSET-workload / inherited-STRICT branch also looks for DISABLE ports. -/
def keysCore (fx : Fixes) (meshM nsM : Option PMode) (wlM : PMode) (ports : List (Nat × PMode)) : KeyBits :=
  let e1 := inheritedStrict meshM nsM
  let e2 := if wlM == .strict then true else e1
  let e3 := if wlM == .permissive || wlM == .disable then false else e2
  match wlM with
  | .strict =>
    if portsAny ports (fun m => m == .permissive || m == .disable) then { static := false, ref := true }
    else { static := e3, ref := false }
  | .permissive | .disable =>
    if portsAny ports (fun m => m == .strict) then { static := e3, ref := true }
    else { static := e3, ref := false }
  | .unset =>
    if e3 then
      if portsAny ports (fun m => m == .permissive || (fx.f3 && m == .disable)) then { static := false, ref := true }
      else { static := e3, ref := false }
    else
      if portsAny ports (fun m => m == .strict) then { static := false, ref := true }
      else { static := false, ref := false }

/-- The part of `convertedSelectorPeerAuthentications` after the selection loop. -/
def keysOfSel (fx : Fixes) (s : Sel) : AKeys :=
  match s.wl with
  | none => { static := inheritedStrict (modeOf s.mesh) (modeOf s.ns), wl := none }
  | some wl =>
    let k := keysCore fx (modeOf s.mesh) (modeOf s.ns) wl.mtls wl.ports
    { static := k.static, wl := if k.ref then some wl else none }

/-- `convertedSelectorPeerAuthentications`. -/
def ambientKeysG (fx : Fixes) (root : String) (configs : List PA) : AKeys :=
  keysOfSel fx (ambientSel fx root configs)

/-! ## convertPeerAuthentication -/

/-- Loop state of the port loop. -/
structure ConvSt where
  groups   : List AGroup
  rules    : List ARule
  foundNon : Bool
  deriving Repr

/-- "the parent policy already enforces this STRICT port".  Pinned tree: `A || (B && C || D)`;
    repaired (`fixF2`): `A || (B && (C || D))`. -/
def strictPortSkipped (fixF2 : Bool) (mode : PMode) (nsM rootM : Option PMode) : Bool :=
  let a := mode == .strict
  let b := mode == .unset
  let c := mStrict nsM
  let d := mUnsetOrNil nsM && mStrict rootM
  if fixF2 then a || (b && (c || d)) else a || ((b && c) || d)

/-- "not STRICT and the effective policy is not STRICT": second `continue` of the non-strict port case. -/
def nonStrictPortIgnored (mode : PMode) (nsM rootM : Option PMode) : Bool :=
  mode == .unset &&
    ((nsM.isSome && !mStrict nsM) ||
     (nsM.isNone && rootM.isSome && !mStrict rootM) ||
     (nsM.isNone && rootM.isNone))

/-- Group emitted for a STRICT port. -/
def gOf (port : Nat) : AGroup := [[{ notPrincipalPresence := true, dstPorts := [port] }]]

/-- Rule emitted for an exempted (PERMISSIVE / DISABLE) port. -/
def rOf (port : Nat) : ARule := [{ notDstPorts := [port] }]

def convStep (fixF2 : Bool) (mode : PMode) (nsM rootM : Option PMode) (st : ConvSt) (e : Nat × PMode) : ConvSt :=
  match e.2 with
  | .strict =>
    if strictPortSkipped fixF2 mode nsM rootM then st
    else { st with groups := st.groups ++ [gOf e.1] }
  | .permissive | .disable =>
    if mode == .permissive || mode == .disable then st
    else if nonStrictPortIgnored mode nsM rootM then st
    else { st with foundNon := true, rules := st.rules ++ [rOf e.1] }
  | .unset => st

/-- `maps.SeqStable`: iteration in increasing port order. -/
def sortPorts (l : List (Nat × PMode)) : List (Nat × PMode) :=
  l.mergeSort (fun a b => decide (a.1 ≤ b.1))

def shouldMergeStrict (nsM rootM : Option PMode) : Bool :=
  if mStrict rootM && (mUnsetOrNil nsM || mStrict nsM) then true
  else mStrict nsM

/-- Repair of F10: `if nsCfg != nil && isMtlsModeUnset(nsCfg.Spec.Mtls) { nsCfg = nil }`. -/
def dropUnset (m : Option PMode) : Option PMode :=
  match m with
  | some .unset => none
  | x => x

/-- The body of `convertPeerAuthentication` after the early return, on modes
    (`none` = nil: nothing is sent for this policy). -/
def convCore (fx : Fixes) (mode : PMode) (ports : List (Nat × PMode)) (nsM0 rootM : Option PMode) : Option Authz :=
  let nsM := if fx.f10 then dropUnset nsM0 else nsM0
  let st0 : ConvSt := { groups := [], rules := if mode == .strict then [ruleNP] else [], foundNon := false }
  let st := (sortPorts ports).foldl (convStep fx.f2 mode nsM rootM) st0
  if mode == .strict && !st.foundNon then none
  else if st.rules.isEmpty && st.groups.isEmpty then none
  else
    let rules := if shouldMergeStrict nsM rootM && st.foundNon then st.rules ++ [ruleNP] else st.rules
    some (if rules.isEmpty then st.groups else st.groups ++ [rules])

/-- `convertPeerAuthentication`. -/
def convertPAG (fx : Fixes) (root : String) (cfg : PA) (nsCfg rootCfg : Option PA) : Option Authz :=
  if cfg.ns == root || selNilG fx cfg || cfg.ports.isEmpty then none
  else convCore fx cfg.mtls cfg.ports (modeOf nsCfg) (modeOf rootCfg)

/-! ## PeerAuthDerivedPolicies -/

/-- `getOldestPeerAuthn`: first policy of minimal creation time in enumeration order. -/
def getOldestG (fx : Fixes) (l : List PA) : Option PA :=
  l.foldl (fun acc p => if takesG fx p acc then some p else acc) none

/-- The policy sent to ztunnel for PeerAuthentication `i` (`PeerAuthByNamespace` indexes only
    policies whose selector is nil). -/
def derivedPolicyG (fx : Fixes) (root : String) (pas : List PA) (i : PA) : Option Authz :=
  convertPAG fx root i
    (getOldestG fx (pas.filter (fun p => p.ns == i.ns && selNilG fx p)))
    (getOldestG fx (pas.filter (fun p => p.ns == root && selNilG fx p)))

/-! ## What ztunnel enforces for a workload -/

/-- The DENY policies behind a workload's keys that exist in what istiod sends. -/
def attachedOf (fx : Fixes) (root : String) (pas : List PA) (k : AKeys) : List Authz :=
  (if k.static then [staticStrict] else []) ++
  (match k.wl with
   | none => []
   | some p =>
     match derivedPolicyG fx root pas p with
     | none => []                 -- referenced but never sent: nothing to enforce
     | some a => [a])

/-- The DENY policies a workload references that exist in what istiod sends. -/
def attachedG (fx : Fixes) (root : String) (pas : List PA) (w : Workload) : List Authz :=
  attachedOf fx root pas (ambientKeysG fx root (ambientFetchG fx root pas w))

/-- ztunnel rejects the connection iff some attached DENY policy matches. -/
def deniedG (fx : Fixes) (root : String) (pas : List PA) (w : Workload)
    (authenticated : Bool) (port : Nat) : Bool :=
  (attachedG fx root pas w).any (fun p => p.matches authenticated port)

/-- The code in /repo (after the `fix:` commits). -/
abbrev ambientFetch := ambientFetchG Fixes.all
abbrev ambientKeys := ambientKeysG Fixes.all
abbrev convertPA := convertPAG Fixes.all
abbrev derivedPolicy := derivedPolicyG Fixes.all
abbrev attached := attachedG Fixes.all
abbrev denied := deniedG Fixes.all

/-! ## The callers of `buildWorkloadPolicies`: which labels stand for the workload -/

/-- `maps.MergeCopy(spec.labels, metadata.labels)`: metadata labels win. -/
def mergeLabels (spec mlabels : Labels) : Labels :=
  mlabels ++ spec.filter (fun kv => (mlabels.lookup kv.1).isNone)

/-- The labels handed to `buildWorkloadPolicies`: pod labels; for a WorkloadEntry the merge of spec and
    metadata labels (`ConvertClientWorkloadEntry`); for an inline ServiceEntry endpoint the endpoint's labels
    (pinned tree, `f15 = false`: the ServiceEntry resource's metadata labels, finding F15). -/
def workloadLabelsFor (fx : Fixes) (k : WKind) (labels mlabels : Labels) : Labels :=
  match k with
  | .pod => labels
  | .workloadEntry => if labels.isEmpty then mlabels else mergeLabels labels mlabels
  | .serviceEntryEndpoint => if fx.f15 then labels else mlabels

/-- The keys the ambient index attaches to a workload of the given kind. -/
def workloadKeysG (fx : Fixes) (root : String) (pas : List PA) (k : WKind) (ns : String) (labels mlabels : Labels) : AKeys :=
  ambientKeysG fx root (ambientFetchG fx root pas { ns := ns, labels := workloadLabelsFor fx k labels mlabels })

/-- ztunnel's decision for a workload of the ambient index (keys as the index attaches them). -/
def workloadDeniedG (fx : Fixes) (root : String) (pas : List PA) (k : WKind) (ns : String) (labels mlabels : Labels)
    (authenticated : Bool) (port : Nat) : Bool :=
  (attachedOf fx root pas (workloadKeysG fx root pas k ns labels mlabels)).any (fun p => p.matches authenticated port)

/-! ## Printing (used by the driver) -/

def AMatch.show (m : AMatch) : String :=
  ".".intercalate ((if m.notPrincipalPresence then ["np"] else []) ++
    m.dstPorts.map (fun p => s!"dp{p}") ++ m.notDstPorts.map (fun p => s!"ndp{p}"))

def Authz.show (a : Authz) : String :=
  "|".intercalate (a.map (fun g => "&".intercalate (g.map (fun r => "+".intercalate (r.map AMatch.show)))))

def sortStrings (l : List String) : List String := l.mergeSort (fun a b => decide (a ≤ b))

def showAmbientG (fx : Fixes) (root : String) (pas : List PA) (w : Workload) (ports : List Nat) : String :=
  let fetched := ambientFetchG fx root pas w
  let k := ambientKeysG fx root fetched
  let f := IstioModel.Wire.encList (sortStrings (fetched.map (fun c => s!"{c.ns}/{c.name}")))
  let keys := (if k.static then [s!"{root}/istio_converted_static_strict"] else []) ++
    (match k.wl with
     | none => []
     | some p => [s!"{p.ns}/converted_peer_authentication_{p.name}"])
  let ks := IstioModel.Wire.encList (sortStrings keys)
  let pol := match k.wl with
    | none => "-"
    | some p =>
      match derivedPolicyG fx root pas p with
      | none => "nil"
      | some a => Authz.show a
  let d := if ports.isEmpty then "-" else
    ",".intercalate (ports.map (fun p =>
      s!"{p}:{if deniedG fx root pas w false p then 1 else 0}{if deniedG fx root pas w true p then 1 else 0}"))
  -- S: every referenced policy is among what istiod serves (also when requested by its key)
  let served := match k.wl with
    | none => true
    | some p => (derivedPolicyG fx root pas p).isSome
  s!"F={f} K={ks} P={pol} D={d} S={if served then 1 else 0}"

def showAmbient := showAmbientG Fixes.all

end IstioModel.C10
