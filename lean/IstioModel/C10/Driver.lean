import IstioModel.Common.Wire
import IstioModel.C10.Model
import IstioModel.C10.Ambient
import IstioModel.C10.Inbound

/-! Line-protocol driver for C10 (streams `compose`, `ambient`). See harness/c10/main.go. -/
namespace IstioModel.C10
open IstioModel.Wire

structure DState where
  root : String := "istio-system"
  pas  : List PA := []
  fx   : Fixes := Fixes.all
  vers : List (List String) := []     -- versions seen in this case, in order of first appearance

/-- Optional 5th token of a `case` line, `fx=<f2><f3><f10><f11><f12>` (bits): which repairs the
    ambient model applies; default all (= the code in /repo).  Only used to validate the model of
    the pinned, unrepaired tree against a scratch worktree of that tree. -/
def parseFx (t : String) : Fixes :=
  match t.toList with
  | 'f' :: 'x' :: '=' :: a :: b :: c :: d :: e :: _ =>
    { f2 := a == '1', f3 := b == '1', f10 := c == '1', f11 := d == '1', f12 := e == '1', f15 := e == '1' }
  | _ => Fixes.all

def PMode.ofTok : String → PMode
  | "DISABLE" => .disable
  | "PERMISSIVE" => .permissive
  | "STRICT" => .strict
  | _ => .unset            -- "nil" and "UNSET"

def MTLS.tok : MTLS → String
  | .unknown => "UNKNOWN"
  | .disable => "DISABLE"
  | .permissive => "PERMISSIVE"
  | .strict => "STRICT"

/-- `strings.Cut(s, sep)`. -/
def cut (s sep : String) : String × String :=
  match s.splitOn sep with
  | [] => ("", "")
  | [a] => (a, "")
  | a :: rest => (a, sep.intercalate rest)

def parseLabels (t : String) : Labels :=
  (decList t).map (fun kv => cut kv "=")

def parsePorts (t : String) : List (Nat × PMode) :=
  (decList t).map (fun e => let c := cut e ":"; (c.1.toNat?.getD 0, PMode.ofTok c.2))

def parsePortList (t : String) : List Nat :=
  (decList t).map (fun e => e.toNat?.getD 0)

def parseSel (t : String) : Option Labels :=
  if t == "nil" then none else some (parseLabels t)

def joinOrDash (l : List String) : String :=
  if l.isEmpty then "-" else ",".intercalate l

def sortByPort {β : Type} (l : List (Nat × β)) : List (Nat × β) :=
  l.mergeSort (fun a b => decide (a.1 ≤ b.1))

/-- Canonical form of a version (a multiset of UID.ResourceVersion). -/
def canonVersion (v : List VersionKey) : List String :=
  (v.map (fun k => s!"{k.1}/{k.2.1}.{k.2.2}")).mergeSort (fun a b => decide (a ≤ b))

/-- The harness cannot show the hash; both sides print the index of the version among the distinct
    versions seen so far in the case (equal versions <-> equal index). -/
def versionIndex (seen : List (List String)) (v : List String) : Nat × List (List String) :=
  match seen.findIdx? (· == v) with
  | some i => (i, seen)
  | none => (seen.length, seen ++ [v])

def showQuery (root : String) (pas : List PA) (w : Workload) (ports : List Nat) : String :=
  let a := initAuthn root pas
  let cfgs := a.configsFor w
  let m := compose root cfgs
  let pp := joinOrDash ((sortByPort m.perPort).map (fun e => s!"{e.1}:{e.2.tok}"))
  let q := joinOrDash (ports.map (fun p => s!"{p}:{(m.modeForPort p).tok}"))
  let cfg := joinOrDash (cfgs.map (fun c => s!"{c.ns}/{c.name}"))
  s!"M={m.mode.tok} PP={pp} Q={q} NS={(a.namespaceMode w.ns).tok} G={a.globalMode.tok} BE={(bestEffortServiceMode a w.ns).tok} CFG={cfg}"

def DRMode.ofTok : String → Option DRMode
  | "DISABLE" => some .disable
  | "SIMPLE" => some .simple
  | "MUTUAL" => some .mutual
  | "ISTIO_MUTUAL" => some .istioMutual
  | _ => none

/-- The services of the `inbound` stream's proxy: 80 HTTP, 8080 TCP, 9090 unnamed (auto), and service
    port 81 with target port 8081 (HTTP). -/
def inboundSvcPorts : List SvcPort :=
  [ { port := 80, target := 80, proto := .http }, { port := 8080, target := 8080, proto := .tcp },
    { port := 9090, target := 9090, proto := .auto }, { port := 81, target := 8081, proto := .http },
    -- a second service on target port 8080 with another protocol: a conflict, the first one wins
    { port := 8082, target := 8080, proto := .http } ]

/-- `<port>:<http|tcp|auto>:<userTLS 0|1>:<captureMode NONE 0|1>,...`: the ingress listeners of a Sidecar (no targetPort in that API). -/
def parseIngress (t : String) : List SvcPort :=
  (decList t).filterMap fun e =>
    match e.splitOn ":" with
    | [p, proto, tls, cap] =>
      let n := p.toNat?.getD 0
      let lp : LProto := if proto == "http" then .http else if proto == "tcp" then .tcp else .auto
      some { port := n, target := n, proto := lp, userTLS := tls == "1", bind := cap == "1" }
    | _ => none

/-- One letter per application-protocol list the code uses (anything else shows as `?`). -/
def alpnCode (a : Alpn) : String :=
  if a == Alpn.any then "0"
  else if a == Alpn.mtlsHTTP then "H"
  else if a == Alpn.allIstio then "A"
  else if a == Alpn.mtlsTCPMxc then "T"
  else if a == Alpn.plainHTTP then "P"
  else "?"

def LChain.show (c : LChain) : String :=
  let dst := match c.dst with
    | none => "*"
    | some p => toString p
  let alpn := alpnCode c.chain.alpn
  let sock := match c.chain.sock with
    | .none => "0"
    | .tls => "1"
    | .mtls => "2"
  let lst := match c.lst with
    | none => ""
    | some p => s!"L{p}/"
  s!"{lst}{dst}:{boolTok c.chain.transportTLS}.{alpn}.{boolTok c.chain.http}.{sock}"

def Sock.tok : Sock → String
  | .none => "0"
  | .tls => "1"
  | .mtls => "2"

/-- HBONE chains: the transport-protocol match is cleared (`sanitizeFilterChainForHBONE`). -/
def LChain.showHbone (c : LChain) : String :=
  let dst := match c.dst with
    | none => "*"
    | some p => toString p
  let alpn := alpnCode c.chain.alpn
  s!"{dst}:{alpn}.{boolTok c.chain.http}.{c.chain.sock.tok}"

def showHbone (root : String) (pas : List PA) (w : Workload) (svc : List SvcPort) : String :=
  let m := compose root ((initAuthn root pas).configsFor w)
  let fm := forHBONEMode m
  let inner := joinOrDash (sortStrings ((hboneInnerChains svc).map LChain.showHbone))
  s!"H={hboneTerminateSock.tok} F={fm.tok}.{(sockFor fm true).tok}.{(sockFor fm true).tok} I={inner}"

/-- The destination ports the harness looks at. -/
def inboundDests : List Nat := [80, 8080, 9090, 8081, 81, 9000, 7777]

/-- `name:name:name:name`: the protocols of the services on 80, 8080, 9090, 81->8081 (`none` = no such service). -/
def lprotoOf (n : String) : Option LProto :=
  if n == "none" then none
  else if n == "HTTP" || n == "HTTP2" || n == "GRPC" || n == "GRPC-Web" then some .http
  else if n == "TCP" || n == "HTTPS" || n == "TLS" || n == "Mongo" || n == "Redis" || n == "MySQL" then some .tcp
  else if n == "UDP" then some .unknown
  else some .auto

def servicesOf (t : String) : List SvcPort :=
  match (t.splitOn ":").map lprotoOf with
  | [a, b, c, d] =>
    (match a with | some p => [({ port := 80, target := 80, proto := p } : SvcPort)] | none => []) ++
    (match b with | some p => [({ port := 8080, target := 8080, proto := p } : SvcPort)] | none => []) ++
    (match c with | some p => [({ port := 9090, target := 9090, proto := p } : SvcPort)] | none => []) ++
    (match d with | some p => [({ port := 81, target := 8081, proto := p } : SvcPort)] | none => [])
  | _ => inboundSvcPorts

def showInboundWith (root : String) (pas : List PA) (w : Workload) (services ingress : List SvcPort) (merge icNone : Bool) : String :=
  let cfgs := chainConfigs services ingress merge
  let l := if icNone then inboundChainsNone root pas w ingress
           else inboundChains root pas w cfgs (declaredPorts services ingress merge)
  let dup := if dupMatches l == 0 then [] else [s!"dupmatch:{dupMatches l}"]
  let ti := (inboundDests.filter (tlsInspectorOn l)).map (fun d => s!"ti:{d}")
  joinOrDash (sortStrings ((if icNone then [] else ["bh:15006.0"]) ++ dup ++ ti ++ l.map LChain.show))

def showInbound (root : String) (pas : List PA) (w : Workload) (ingress : List SvcPort) (merge : Bool) : String :=
  let cfgs := chainConfigs inboundSvcPorts ingress merge
  -- "bh:15006.0": the blackhole chain for the listener's own port, always there
  let l := inboundChains root pas w cfgs (declaredPorts inboundSvcPorts ingress merge)
  -- "dupmatch:n": n chains repeat the filter chain match of another chain (Envoy rejects such a listener)
  let dup := if dupMatches l == 0 then [] else [s!"dupmatch:{dupMatches l}"]
  -- "ti:<d>": the TLS inspector is enabled for destination port d (of the ports the harness looks at)
  let ti := (inboundDests.filter (tlsInspectorOn l)).map (fun d => s!"ti:{d}")
  joinOrDash (sortStrings ("bh:15006.0" :: dup ++ ti ++ l.map LChain.show))

def showKeys (root : String) (k : AKeys) : String :=
  encList (sortStrings ((if k.static then [s!"{root}/istio_converted_static_strict"] else []) ++
    (match k.wl with
     | none => []
     | some p => [s!"{p.ns}/converted_peer_authentication_{p.name}"])))

def optDR (t : String) : Option DRMode := if t == "-" || t == "nil" then none else DRMode.ofTok t

/-- `p=M;p=nil` or `-`. -/
def parseTPorts (t : String) : List (Nat × Option DRMode) :=
  if t == "-" || t == "" then [] else
  (t.splitOn ";").map (fun e => let c := cut e "="; (c.1.toNat?.getD 0, optDR c.2))

/-- DestinationRule token of `chk`: `nil`, a bare TLS mode (rule-level `tls` only), or
    `<tls|->/<ports>/<subset~tls~ports+...|->/<selected subset|->`; result: (rule, subset name). -/
def parseDR (t : String) : Option DRule × String :=
  if t == "nil" then (none, "") else
  match t.splitOn "/" with
  | [tls, ports, subsets, sel] =>
    let top : Option TPolicy := if tls == "-" && ports == "-" then none else some { tls := optDR tls, ports := parseTPorts ports }
    let subs := if subsets == "-" then [] else
      (subsets.splitOn "+").map (fun e =>
        match e.splitOn "~" with
        | [n, stls, sports] =>
          (n, (if stls == "-" && sports == "-" then none else some { tls := optDR stls, ports := parseTPorts sports } : Option TPolicy))
        | _ => (e, none))
    (some { top := top, subsets := subs }, if sel == "-" then "" else sel)
  | _ => (some { top := some { tls := DRMode.ofTok t, ports := [] }, subsets := [] }, "")

/-- Op `cl` / `hc`: the composed client decision end to end (CDS + EDS on the client, LDS on the server). -/
def clLine (s : DState) (ns labels clientNs kind port : String) : String :=
  -- the composed client decision end to end (CDS + EDS on the client, LDS on the server), one HTTP service on
  -- `port` (service port 81 has TARGET port 8081)
  let w : Workload := { ns := dec ns, labels := parseLabels labels }
  let p := port.toNat?.getD 80
  let tp := if p == 81 then 8081 else p
  let view := sidecarView s.root s.pas (dec clientNs) [w.ns]
  let external := kind == "external"
  let passthrough := kind == "passthrough" || kind == "ptdisabled" || kind == "ptnoistio" || kind == "drpassthrough" || kind == "drptdisabled"
  let epDisabled := kind == "ptdisabled" || kind == "drptdisabled" || kind == "ptnoistio"
  let be := bestEffortFull view w.ns external passthrough [epDisabled]
  -- an explicit DestinationRule TLS mode (rule level, or of the selected subset, or the rule level a subset
  -- without TLS settings falls back to) decides both the cluster socket and the endpoint label
  let dr : Option DRMode :=
    if kind == "drdisable" || kind == "drsubsetdisable" then some .disable
    else if kind == "dristio" || kind == "drsubsetfallback" then some .istioMutual else none
  let c := match dr with
    | some m => m == .istioMutual
    | none => !external && kind != "noauto" && clusterHasAutoMTLS be   -- noauto: MeshConfig.enableAutoMtls = false
  let noEds := passthrough   -- resolution NONE / PASSTHROUGH load balancer: an ORIGINAL_DST cluster, no EDS endpoints
  let sidecar := kind != "noistio" && kind != "k8snoistio" && !epDisabled   -- k8s / k8snoistio: a Kubernetes Service + pod
  let e := if noEds then "-" else boolTok (checkMtlsEnabledIn view dr sidecar w tp)
  let sv := joinOrDash (sortStrings (((inboundChains s.root s.pas w [{ port := p, target := tp, proto := .http }]).filter
    (fun c => c.dst == some tp)).map LChain.show))
  -- X: the transport socket Envoy selects for the endpoint is TLS (first matching transport socket match)
  let x := if noEds then "-" else
    match dr with
    | some m => boolTok (m == .istioMutual)
    | none => boolTok (c && checkMtlsEnabledIn view none sidecar w tp)
  -- kind `two:<labels>`: a second endpoint with labels of its own, one decision per endpoint
  if kind.startsWith "two:" then
    let w2 : Workload := { ns := w.ns, labels := parseLabels (kind.drop 4).toString }
    let e2 := boolTok (checkMtlsEnabledIn view dr true w2 tp)
    let x2 := boolTok (c && checkMtlsEnabledIn view none true w2 tp)
    s!"C={boolTok c} E={e}{e2} X={x}{x2} BE={be.tok} S={sv}"
  else s!"C={boolTok c} E={e} X={x} BE={be.tok} S={sv}"

def step (s : DState) (toks : List String) : DState × String :=
  match toks with
  | "case" :: _ :: _ :: root :: fx :: _ => ({ root := dec root, pas := [], fx := parseFx fx }, "ok")
  | "case" :: _ :: _ :: root :: _ => ({ root := dec root, pas := [] }, "ok")
  | "case" :: _ => ({ root := "istio-system", pas := [] }, "ok")
  | ["pa", name, ns, time, sel, mtls, ports] =>
    let p : PA := { name := dec name, ns := dec ns, time := time.toNat?.getD 0, selector := parseSel sel,
                    mtls := PMode.ofTok mtls, ports := parsePorts ports }
    ({ s with pas := s.pas ++ [p] }, "ok")
  | ["q", ns, labels, svc, ports] =>
    let w : Workload := { ns := dec ns, labels := parseLabels labels, svcNs := (decList svc).take 1 }
    let vi := versionIndex s.vers (canonVersion (initAuthn s.root s.pas).version)
    ({ s with vers := vi.2 }, s!"{showQuery s.root s.pas w (parsePortList ports)} V={vi.1}")
  | ["pu", idx, mtls, ports] =>
    -- edit of a policy's spec: Kubernetes bumps the resource version
    let i := idx.toNat?.getD 0
    let pas := s.pas.mapIdx (fun k p => if k == i then { p with mtls := PMode.ofTok mtls, ports := parsePorts ports, rv := p.rv + 1 } else p)
    ({ s with pas := pas }, "ok")
  | ["chk", ns, labels, port, epTLS, dr, clientNs, imported, _wp] =>
    -- the client side as production runs it: on the client proxy's filtered view
    let w : Workload := { ns := dec ns, labels := parseLabels labels }
    let view := sidecarView s.root s.pas (dec clientNs) (decList imported)
    let d := parseDR dr
    -- the service port of the cluster is 80 in the harness
    let r := checkMtlsEnabledIn view (drTLSMode d.1 d.2 80) (tokBool epTLS) w (port.toNat?.getD 0)
    let vi := versionIndex s.vers (canonVersion view.version)
    ({ s with vers := vi.2 },
     let dp := joinOrDash (sortStrings ((sidecarDeps s.root s.pas (dec clientNs) (decList imported)).map (fun k => s!"{k.1}/{k.2}")))
     s!"{boolTok r} BE={(bestEffortServiceMode view w.ns).tok} NS={(view.namespaceMode w.ns).tok} V={vi.1} DP={dp}")
  | ["cv", i, j, k] =>
    -- direct call of convertPeerAuthentication on policies picked by index
    match s.pas[i.toNat?.getD 0]? with
    | none => (s, "bad-op")
    | some cfg =>
      let pick (t : String) : Option PA := if t == "-" then none else s.pas[t.toNat?.getD 0]?
      (s, match convertPAG s.fx s.root cfg (pick j) (pick k) with
          | none => "nil"
          | some a => Authz.show a)
  | ["ks", idx] =>
    -- direct call of convertedSelectorPeerAuthentications on an arbitrary list of policies
    let l := (decList idx).filterMap (fun t => s.pas[t.toNat?.getD 0]?)
    (s, showKeys s.root (ambientKeysG s.fx s.root l))
  | ["go", idx] =>
    let l := (decList idx).filterMap (fun t => s.pas[t.toNat?.getD 0]?)
    (s, match getOldestG s.fx l with
        | none => "nil"
        | some p => s!"{p.ns}/{p.name}")
  | ["il", ns, labels] =>
    let w : Workload := { ns := dec ns, labels := parseLabels labels }
    (s, showInbound s.root s.pas w [] false)
  | ["cl", ns, labels, clientNs, kind, port] => (s, clLine s ns labels clientNs kind port)
  | ["hc", ns, labels, clientNs, kind, port] =>
    -- the same reading on a world that lives through the edits of the case: every component follows every edit
    (s, clLine s ns labels clientNs kind port)
  | ["pd", i] =>
    ({ s with pas := s.pas.eraseIdx (i.toNat?.getD s.pas.length) }, "ok")
  | ["ilh", ns, labels] =>
    let w : Workload := { ns := dec ns, labels := parseLabels labels }
    (s, s!"{showInbound s.root s.pas w [] false} {showHbone s.root s.pas w (chainConfigs inboundSvcPorts [] false)}")
  | ["ils", ns, labels, ingress, merge] =>
    let w : Workload := { ns := dec ns, labels := parseLabels labels }
    (s, showInbound s.root s.pas w (parseIngress ingress) (merge == "1"))
  | ["ils", ns, labels, ingress, merge, icNone] =>
    let w : Workload := { ns := dec ns, labels := parseLabels labels }
    (s, showInboundWith s.root s.pas w inboundSvcPorts (parseIngress ingress) (merge == "1") (icNone == "1"))
  | ["ils", ns, labels, ingress, merge, icNone, unpriv] =>
    -- interception NONE and an unprivileged proxy: ingress listeners on privileged ports are skipped (CanBindToPort)
    let w : Workload := { ns := dec ns, labels := parseLabels labels }
    let ing := parseIngress ingress
    let ing' := if icNone == "1" then ing.filter (canBindIngress (unpriv == "1")) else ing
    (s, showInboundWith s.root s.pas w inboundSvcPorts ing' (merge == "1") (icNone == "1"))
  | ["ilt", ns, labels] =>
    -- interception mode TPROXY: the same filter chains as with REDIRECT
    let w : Workload := { ns := dec ns, labels := parseLabels labels }
    (s, showInbound s.root s.pas w [] false)
  | ["ilr", ns, labels, svcs] =>
    -- arbitrary services `port:target:PROTOCOL`, also on reserved target ports: such a service gets no chain
    -- config (CanBindToPort) and still counts as a service target for needPerPortPassthroughFilterChain
    let w : Workload := { ns := dec ns, labels := parseLabels labels }
    let services : List SvcPort := (decList svcs).filterMap fun e =>
      match e.splitOn ":" with
      | [p, t, proto] => (lprotoOf proto).map (fun lp => ({ port := p.toNat?.getD 0, target := t.toNat?.getD 0, proto := lp } : SvcPort))
      | _ => none
    let l := inboundChains s.root s.pas w (chainConfigs (services.filter canBindService) [] false) (declaredPorts services [])
    let dup := if dupMatches l == 0 then [] else [s!"dupmatch:{dupMatches l}"]
    let ti := (inboundDests.filter (tlsInspectorOn l)).map (fun d => s!"ti:{d}")
    (s, joinOrDash (sortStrings ("bh:15006.0" :: dup ++ ti ++ l.map LChain.show)))
  | ["ilp", ns, labels, protos] =>
    -- other service protocols / fewer or no services
    let w : Workload := { ns := dec ns, labels := parseLabels labels }
    (s, showInboundWith s.root s.pas w (servicesOf protos) [] false false)
  | ["aw", kind, ns, labels, mlabels] =>
    let k : WKind := if kind == "pod" then .pod else if kind == "we" then .workloadEntry else .serviceEntryEndpoint
    let keys := showKeys s.root (workloadKeysG s.fx s.root s.pas k (dec ns) (parseLabels labels) (parseLabels mlabels))
    (s, s!"K={keys}")
  | ["aq", ns, labels, ports] =>
    let w : Workload := { ns := dec ns, labels := parseLabels labels }
    (s, showAmbientG s.fx s.root s.pas w (parsePortList ports))
  | _ => (s, "bad-op")

end IstioModel.C10
