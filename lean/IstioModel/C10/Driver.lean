import IstioModel.Common.Wire
import IstioModel.C10.Model
import IstioModel.C10.Ambient
import IstioModel.C10.Inbound

/-! Line-protocol driver for C10 (streams `compose`, `ambient`). See harness/c10/main.go. -/
namespace IstioModel.C10
open IstioModel.Wire

structure DState where
  root : String := "istio-system"
  pas  : List PA := []
  fx   : Fixes := Fixes.all
  vers : List (List String) := []     -- versions seen in this case, in order of first appearance

/-- Optional 5th token of a `case` line, `fx=<f2><f3><f10><f11><f12>` (bits): which repairs the
    ambient model applies; default all (= the code in /repo).  Only used to validate the model of
    the pinned, unrepaired tree against a scratch worktree of that tree. -/
def parseFx (t : String) : Fixes :=
  match t.toList with
  | 'f' :: 'x' :: '=' :: a :: b :: c :: d :: e :: _ =>
    { f2 := a == '1', f3 := b == '1', f10 := c == '1', f11 := d == '1', f12 := e == '1' }
  | _ => Fixes.all

def PMode.ofTok : String → PMode
  | "DISABLE" => .disable
  | "PERMISSIVE" => .permissive
  | "STRICT" => .strict
  | _ => .unset            -- "nil" and "UNSET"

def MTLS.tok : MTLS → String
  | .unknown => "UNKNOWN"
  | .disable => "DISABLE"
  | .permissive => "PERMISSIVE"
  | .strict => "STRICT"

/-- `strings.Cut(s, sep)`. -/
def cut (s sep : String) : String × String :=
  match s.splitOn sep with
  | [] => ("", "")
  | [a] => (a, "")
  | a :: rest => (a, sep.intercalate rest)

def parseLabels (t : String) : Labels :=
  (decList t).map (fun kv => cut kv "=")

def parsePorts (t : String) : List (Nat × PMode) :=
  (decList t).map (fun e => let c := cut e ":"; (c.1.toNat?.getD 0, PMode.ofTok c.2))

def parsePortList (t : String) : List Nat :=
  (decList t).map (fun e => e.toNat?.getD 0)

def parseSel (t : String) : Option Labels :=
  if t == "nil" then none else some (parseLabels t)

def joinOrDash (l : List String) : String :=
  if l.isEmpty then "-" else ",".intercalate l

def sortByPort {β : Type} (l : List (Nat × β)) : List (Nat × β) :=
  l.mergeSort (fun a b => decide (a.1 ≤ b.1))

/-- Canonical form of a version (a multiset of UID.ResourceVersion). -/
def canonVersion (v : List VersionKey) : List String :=
  (v.map (fun k => s!"{k.1}/{k.2.1}.{k.2.2}")).mergeSort (fun a b => decide (a ≤ b))

/-- The harness cannot show the hash; both sides print the index of the version among the distinct
    versions seen so far in the case (equal versions <-> equal index). -/
def versionIndex (seen : List (List String)) (v : List String) : Nat × List (List String) :=
  match seen.findIdx? (· == v) with
  | some i => (i, seen)
  | none => (seen.length, seen ++ [v])

def showQuery (root : String) (pas : List PA) (w : Workload) (ports : List Nat) : String :=
  let a := initAuthn root pas
  let cfgs := a.configsFor w
  let m := compose root cfgs
  let pp := joinOrDash ((sortByPort m.perPort).map (fun e => s!"{e.1}:{e.2.tok}"))
  let q := joinOrDash (ports.map (fun p => s!"{p}:{(m.modeForPort p).tok}"))
  let cfg := joinOrDash (cfgs.map (fun c => s!"{c.ns}/{c.name}"))
  s!"M={m.mode.tok} PP={pp} Q={q} NS={(a.namespaceMode w.ns).tok} G={a.globalMode.tok} BE={(bestEffortServiceMode a w.ns).tok} CFG={cfg}"

def DRMode.ofTok : String → Option DRMode
  | "DISABLE" => some .disable
  | "SIMPLE" => some .simple
  | "MUTUAL" => some .mutual
  | "ISTIO_MUTUAL" => some .istioMutual
  | _ => none

/-- The services of the `inbound` stream's proxy: 80 HTTP, 8080 TCP, 9090 unnamed (auto), and service
    port 81 with target port 8081 (HTTP). -/
def inboundSvcPorts : List SvcPort :=
  [ { port := 80, target := 80, proto := .http }, { port := 8080, target := 8080, proto := .tcp },
    { port := 9090, target := 9090, proto := .auto }, { port := 81, target := 8081, proto := .http } ]

/-- `<port>:<http|tcp>:<0|1>,...`: the ingress listeners of a Sidecar (no targetPort in that API). -/
def parseIngress (t : String) : List SvcPort :=
  (decList t).filterMap fun e =>
    match e.splitOn ":" with
    | [p, proto, tls] =>
      let n := p.toNat?.getD 0
      some { port := n, target := n, proto := if proto == "http" then .http else .tcp, userTLS := tls == "1" }
    | _ => none

def LChain.show (c : LChain) : String :=
  let dst := match c.dst with
    | none => "*"
    | some p => toString p
  let alpn := match c.chain.alpn with
    | .any => "0"
    | .istio => "1"
    | .plain => "2"
  let sock := match c.chain.sock with
    | .none => "0"
    | .tls => "1"
    | .mtls => "2"
  s!"{dst}:{boolTok c.chain.transportTLS}.{alpn}.{boolTok c.chain.http}.{sock}"

def showInbound (root : String) (pas : List PA) (w : Workload) (svc : List SvcPort) : String :=
  joinOrDash (sortStrings ((inboundChains root pas w svc).map LChain.show))

def showKeys (root : String) (k : AKeys) : String :=
  encList (sortStrings ((if k.static then [s!"{root}/istio_converted_static_strict"] else []) ++
    (match k.wl with
     | none => []
     | some p => [s!"{p.ns}/converted_peer_authentication_{p.name}"])))

def step (s : DState) (toks : List String) : DState × String :=
  match toks with
  | "case" :: _ :: _ :: root :: fx :: _ => ({ root := dec root, pas := [], fx := parseFx fx }, "ok")
  | "case" :: _ :: _ :: root :: _ => ({ root := dec root, pas := [] }, "ok")
  | "case" :: _ => ({ root := "istio-system", pas := [] }, "ok")
  | ["pa", name, ns, time, sel, mtls, ports] =>
    let p : PA := { name := dec name, ns := dec ns, time := time.toNat?.getD 0, selector := parseSel sel,
                    mtls := PMode.ofTok mtls, ports := parsePorts ports }
    ({ s with pas := s.pas ++ [p] }, "ok")
  | ["q", ns, labels, svc, ports] =>
    let w : Workload := { ns := dec ns, labels := parseLabels labels, svcNs := (decList svc).take 1 }
    let vi := versionIndex s.vers (canonVersion (initAuthn s.root s.pas).version)
    ({ s with vers := vi.2 }, s!"{showQuery s.root s.pas w (parsePortList ports)} V={vi.1}")
  | ["pu", idx, mtls, ports] =>
    -- edit of a policy's spec: Kubernetes bumps the resource version
    let i := idx.toNat?.getD 0
    let pas := s.pas.mapIdx (fun k p => if k == i then { p with mtls := PMode.ofTok mtls, ports := parsePorts ports, rv := p.rv + 1 } else p)
    ({ s with pas := pas }, "ok")
  | ["chk", ns, labels, port, epTLS, dr, clientNs, imported, _wp] =>
    -- the client side as production runs it: on the client proxy's filtered view
    let w : Workload := { ns := dec ns, labels := parseLabels labels }
    let view := sidecarView s.root s.pas (dec clientNs) (decList imported)
    let r := checkMtlsEnabledIn view (DRMode.ofTok dr) (tokBool epTLS) w (port.toNat?.getD 0)
    let vi := versionIndex s.vers (canonVersion view.version)
    ({ s with vers := vi.2 },
     s!"{boolTok r} BE={(bestEffortServiceMode view w.ns).tok} NS={(view.namespaceMode w.ns).tok} V={vi.1}")
  | ["cv", i, j, k] =>
    -- direct call of convertPeerAuthentication on policies picked by index
    match s.pas[i.toNat?.getD 0]? with
    | none => (s, "bad-op")
    | some cfg =>
      let pick (t : String) : Option PA := if t == "-" then none else s.pas[t.toNat?.getD 0]?
      (s, match convertPAG s.fx s.root cfg (pick j) (pick k) with
          | none => "nil"
          | some a => Authz.show a)
  | ["ks", idx] =>
    -- direct call of convertedSelectorPeerAuthentications on an arbitrary list of policies
    let l := (decList idx).filterMap (fun t => s.pas[t.toNat?.getD 0]?)
    (s, showKeys s.root (ambientKeysG s.fx s.root l))
  | ["go", idx] =>
    let l := (decList idx).filterMap (fun t => s.pas[t.toNat?.getD 0]?)
    (s, match getOldestG s.fx l with
        | none => "nil"
        | some p => s!"{p.ns}/{p.name}")
  | ["il", ns, labels] =>
    let w : Workload := { ns := dec ns, labels := parseLabels labels }
    (s, showInbound s.root s.pas w inboundSvcPorts)
  | ["ils", ns, labels, ingress] =>
    let w : Workload := { ns := dec ns, labels := parseLabels labels }
    (s, showInbound s.root s.pas w (parseIngress ingress))
  | ["aq", ns, labels, ports] =>
    let w : Workload := { ns := dec ns, labels := parseLabels labels }
    (s, showAmbientG s.fx s.root s.pas w (parsePortList ports))
  | _ => (s, "bad-op")

end IstioModel.C10
