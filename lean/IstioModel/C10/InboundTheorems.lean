import IstioModel.C10.Chains

/-!
# C10 - the whole virtualInbound listener enforces the effective mode on every destination port

`inboundChains` models the filter chains the LDS generator emits for a sidecar (per service port,
catch-all passthrough, per-port passthrough for port-level settings on non-service ports); the
stream `inbound` compares it with the real listener.  `inbound_listener_enforces`: for **every**
destination port - service port or not, with or without port-level setting - the chains Envoy
selects for that port (most specific destination-port match) admit plaintext iff the port's
effective mode is not STRICT, terminate Istio mutual TLS iff it is not DISABLE, and never terminate
TLS without requiring a client certificate.
-/
set_option linter.unusedSimpArgs false

namespace IstioModel.C10

/-- What the chains of one (mode, protocol) cell do, for a mode a resolver can return. -/
theorem chains_enforce (mode : MTLS) (hm : mode ≠ .unknown) (proto : LProto) :
    ((chains mode proto).any Chain.acceptsPlaintext = true ↔ mode ≠ .strict) ∧
    ((chains mode proto).any Chain.terminatesMTLS = true ↔ mode ≠ .disable) ∧
    ((chains mode proto).any Chain.terminatesOneWayTLS = false) ∧
    (chains mode proto ≠ []) ∧
    (mode = .strict → ∀ c ∈ chains mode proto, c.terminatesMTLS = true) := by
  cases mode with
  | unknown => exact absurd rfl hm
  | disable => cases proto <;> decide
  | permissive => cases proto <;> decide
  | strict => cases proto <;> decide

theorem mem_chainsFor {m : Merged} {port : Nat} {proto : LProto} {c : LChain} :
    c ∈ chainsFor m port proto ↔ c.dst = dstOf port ∧ c.chain ∈ chains (m.modeForPort port) proto := by
  unfold chainsFor
  simp only [List.mem_map]
  constructor
  · rintro ⟨ch, hch, rfl⟩; exact ⟨rfl, hch⟩
  · rintro ⟨h1, h2⟩; exact ⟨c.chain, h2, by cases c; simp_all⟩

theorem dstOf_eq_some {p d : Nat} (hd : d > 0) : dstOf p = some d ↔ p = d := by
  unfold dstOf
  by_cases hp : p > 0
  · simp [hp]
  · simp [hp]; omega

theorem dstOf_eq_none {p : Nat} : dstOf p = none ↔ p = 0 := by
  unfold dstOf
  by_cases hp : p > 0
  · simp [hp]; omega
  · simp [hp]; omega

theorem lookup_none_of_not_key {β : Type} {l : List (Nat × β)} {k : Nat} (h : ∀ e ∈ l, e.1 ≠ k) :
    l.lookup k = none := by
  induction l with
  | nil => rfl
  | cons e t ih =>
    cases e with
    | mk a b =>
      have h1 : (k == a) = false := by
        have := h (a, b) List.mem_cons_self
        simp only [ne_eq] at this
        simp only [beq_eq_false_iff_ne, ne_eq]
        exact fun e => this e.symm
      simp only [List.lookup_cons, h1]
      exact ih (fun e he => h e (List.mem_cons_of_mem _ he))

/-- A chain config without user TLS (or whose mode is not DISABLE) yields the regular cell. -/
theorem entryChains_regular {m : Merged} {sp : SvcPort} (h : sp.userTLS = false) :
    entryChains m sp = chainsFor m sp.target sp.proto := by
  simp [entryChains, h]

/-- Membership in the three parts of the listener. -/
theorem mem_inboundChains_iff {root : String} {ps : List PA} {w : Workload} {svcPorts : List SvcPort} {c : LChain} :
    c ∈ inboundChains root ps w svcPorts ↔
      (∃ sp ∈ svcPorts, c ∈ entryChains (compose root ((initAuthn root ps).configsFor w)) sp) ∨
      c ∈ chainsFor (compose root ((initAuthn root ps).configsFor w)) 0 .auto ∨
      (∃ e ∈ (compose root ((initAuthn root ps).configsFor w)).perPort,
        needPerPort svcPorts e.1 = true ∧ c ∈ chainsFor (compose root ((initAuthn root ps).configsFor w)) e.1 .auto) := by
  unfold inboundChains
  simp only [List.mem_append, List.mem_flatMap, List.mem_filter]
  constructor
  · rintro ((h | h) | ⟨e, ⟨he, hn⟩, hc⟩)
    · exact Or.inl h
    · exact Or.inr (Or.inl h)
    · exact Or.inr (Or.inr ⟨e, he, hn, hc⟩)
  · rintro (h | h | ⟨e, he, hn, hc⟩)
    · exact Or.inl (Or.inl h)
    · exact Or.inl (Or.inr h)
    · exact Or.inr ⟨e, ⟨he, hn⟩, hc⟩

theorem entryChains_dst {m : Merged} {sp : SvcPort} {c : LChain} (h : c ∈ entryChains m sp) :
    c.dst = dstOf sp.target := by
  unfold entryChains at h
  split at h
  · simp only [List.mem_singleton] at h; rw [h]
  · exact (mem_chainsFor.mp h).1

/-- No policy carries a port-level entry for port 0 (rejected by validation: ports are 1..65535). -/
def NoPortZero (ps : List PA) : Prop := ∀ p ∈ ps, p.ports.lookup 0 = none

instance (ps : List PA) : Decidable (NoPortZero ps) := by
  unfold NoPortZero; infer_instance

theorem merged_lookup_zero {ps : List PA} (hz : NoPortZero ps) (root : String) (w : Workload)
    (hs : w.svcNs = []) :
    (compose root ((initAuthn root ps).configsFor w)).perPort.lookup 0 = none := by
  rw [compose_perPort, sel_wl root ps w hs]
  cases hw : (if w.ns = root then none else (sortByCreation ps).find? (wlCand w)) with
  | none => rfl
  | some p =>
    have hp : p ∈ ps := by
      by_cases hr : w.ns = root
      · simp [hr] at hw
      · simp only [hr, if_false] at hw
        exact mem_sorted.mp (List.mem_of_find?_eq_some hw)
    simp only [lookup_map_portEntry, hz p hp, Option.map_none]

/-- The chain configs relevant for destination port `d` (and for the catch-all) carry no user TLS
    settings.  Ports with user TLS are covered by `inbound_user_tls_only_under_disable`. -/
def NoUserTLSFor (svcPorts : List SvcPort) (d : Nat) : Prop :=
  ∀ sp ∈ svcPorts, sp.userTLS = true → sp.target ≠ d ∧ sp.target ≠ 0

instance (svcPorts : List SvcPort) (d : Nat) : Decidable (NoUserTLSFor svcPorts d) := by
  unfold NoUserTLSFor; infer_instance

/-- **inbound_listener_enforces.**  For every destination port `d` of the sidecar - target port of a
    service (whatever the service port), Sidecar ingress port, or neither; with or without port-level
    setting - the filter chains of the generated virtualInbound listener that Envoy selects for `d`
    enforce `effectiveMode d`: plaintext is admitted iff the mode is not STRICT, Istio mutual TLS is
    terminated iff the mode is not DISABLE, TLS is never terminated without a client certificate, and
    under STRICT **every** selected chain terminates mutual TLS (no plaintext chain, no TLS pass-through). -/
theorem inbound_listener_enforces {ps : List PA} (hu : UniqueKeys ps) (hz : NoPortZero ps) (root : String)
    (w : Workload) (hs : w.svcNs = []) (svcPorts : List SvcPort) (d : Nat) (hd : d > 0)
    (hU : NoUserTLSFor svcPorts d) :
    let cs := applicable (inboundChains root ps w svcPorts) d
    (cs.any Chain.acceptsPlaintext = true ↔ effectiveMode ps root w d ≠ .strict) ∧
    (cs.any Chain.terminatesMTLS = true ↔ effectiveMode ps root w d ≠ .disable) ∧
    (cs.any Chain.terminatesOneWayTLS = false) ∧
    (effectiveMode ps root w d = .strict → ∀ c ∈ cs, c.terminatesMTLS = true) := by
  intro cs
  have hmode : ∀ port, (compose root ((initAuthn root ps).configsFor w)).modeForPort port =
      effectiveMode ps root w port := fun port => compose_eq_spec hu root w hs port
  have hzero := merged_lookup_zero hz root w hs
  have hmem : ∀ c, c ∈ inboundChains root ps w svcPorts ↔ _ := fun c => mem_inboundChains_iff (c := c)
  generalize hM : compose root ((initAuthn root ps).configsFor w) = m at hmode hzero hmem
  have hne := effectiveMode_total ps root w d
  have hcell : ∀ proto, chains (m.modeForPort d) proto ≠ [] := fun proto =>
    (chains_enforce (m.modeForPort d) (by rw [hmode]; exact hne) proto).2.2.2.1
  -- every chain whose destination port is `d` lies in a cell of mode `effectiveMode d`
  have hspecific : ∀ lc ∈ inboundChains root ps w svcPorts, lc.dst = some d →
      ∃ proto, lc.chain ∈ chains (effectiveMode ps root w d) proto := by
    intro lc hlc hdst
    rcases (hmem lc).mp hlc with ⟨sp, hsp, hc⟩ | hc | ⟨e, _, _, hc⟩
    · have htd : sp.target = d := (dstOf_eq_some hd).mp ((entryChains_dst hc) ▸ hdst)
      have hut : sp.userTLS = false := by
        cases h : sp.userTLS with
        | false => rfl
        | true => exact absurd htd (hU sp hsp h).1
      rw [entryChains_regular hut] at hc
      have := (mem_chainsFor.mp hc).2
      rw [htd, hmode] at this
      exact ⟨sp.proto, this⟩
    · have := mem_chainsFor.mp hc
      have h0 : (0 : Nat) = d := (dstOf_eq_some hd).mp (this.1 ▸ hdst)
      omega
    · have := mem_chainsFor.mp hc
      have hed : e.1 = d := (dstOf_eq_some hd).mp (this.1 ▸ hdst)
      have h2 := this.2
      rw [hed, hmode] at h2
      exact ⟨.auto, h2⟩
  -- if no chain has destination port `d`: `d` is no target port and has no port-level setting
  have hnone : ((inboundChains root ps w svcPorts).filter (fun c => c.dst == some d)).isEmpty = true →
      m.modeForPort 0 = effectiveMode ps root w d := by
    intro hsp
    have hspec : ∀ x ∈ inboundChains root ps w svcPorts, ¬ (x.dst == some d) = true :=
      List.filter_eq_nil_iff.mp (List.isEmpty_iff.mp hsp)
    have hd_none : m.perPort.lookup d = none := by
      apply lookup_none_of_not_key
      intro e he hed
      by_cases hsvc : needPerPort svcPorts d = true
      · obtain ⟨ch, hchm⟩ := List.exists_mem_of_ne_nil _ (hcell .auto)
        have hx : ({ dst := dstOf d, chain := ch } : LChain) ∈ inboundChains root ps w svcPorts :=
          (hmem _).mpr (Or.inr (Or.inr ⟨e, he, by rw [hed]; exact hsvc, by rw [hed]; exact mem_chainsFor.mpr ⟨rfl, hchm⟩⟩))
        exact hspec _ hx (by simp [(dstOf_eq_some hd).mpr rfl])
      · have hany : svcPorts.any (fun sp => sp.target == d) = true := by
          unfold needPerPort at hsvc
          cases h : svcPorts.any (fun sp => sp.target == d) <;> simp_all
        obtain ⟨sp, hspm, hspd'⟩ := List.any_eq_true.mp hany
        have hspd : sp.target = d := by simpa using hspd'
        have hut : sp.userTLS = false := by
          cases h : sp.userTLS with
          | false => rfl
          | true => exact absurd hspd (hU sp hspm h).1
        obtain ⟨ch, hchm⟩ := List.exists_mem_of_ne_nil _ (hcell sp.proto)
        have hx : ({ dst := dstOf d, chain := ch } : LChain) ∈ inboundChains root ps w svcPorts :=
          (hmem _).mpr (Or.inl ⟨sp, hspm, by
            rw [entryChains_regular hut, hspd]; exact mem_chainsFor.mpr ⟨rfl, hchm⟩⟩)
        exact hspec _ hx (by simp [(dstOf_eq_some hd).mpr rfl])
    have e0 : m.modeForPort 0 = m.mode := by simp [Merged.modeForPort, hzero]
    have ed : m.modeForPort d = m.mode := by simp [Merged.modeForPort, hd_none]
    rw [e0, ← ed, hmode]
  -- (1) soundness: every selected chain lies in a cell of mode `effectiveMode d`
  have hsound : ∀ c ∈ cs, ∃ proto, c ∈ chains (effectiveMode ps root w d) proto := by
    intro c hc
    simp only [cs, applicable, List.mem_map] at hc
    obtain ⟨lc, hlc, rfl⟩ := hc
    by_cases hsp : ((inboundChains root ps w svcPorts).filter (fun c => c.dst == some d)).isEmpty = true
    · simp only [hsp, if_true, List.mem_filter, beq_iff_eq] at hlc
      have h0 := hnone hsp
      rcases (hmem lc).mp hlc.1 with ⟨sp, hspm, hc⟩ | hc | ⟨e, he, _, hc⟩
      · have ht0 : sp.target = 0 := dstOf_eq_none.mp ((entryChains_dst hc) ▸ hlc.2)
        have hut : sp.userTLS = false := by
          cases h : sp.userTLS with
          | false => rfl
          | true => exact absurd ht0 (hU sp hspm h).2
        rw [entryChains_regular hut] at hc
        have := (mem_chainsFor.mp hc).2
        rw [ht0, h0] at this
        exact ⟨sp.proto, this⟩
      · have := (mem_chainsFor.mp hc).2
        rw [h0] at this
        exact ⟨.auto, this⟩
      · have hm := mem_chainsFor.mp hc
        have he0 : e.1 = 0 := dstOf_eq_none.mp (hm.1 ▸ hlc.2)
        have := hm.2
        rw [he0, h0] at this
        exact ⟨.auto, this⟩
    · simp only [hsp, Bool.false_eq_true, if_false, List.mem_filter, beq_iff_eq] at hlc
      exact hspecific lc hlc.1 hlc.2
  -- (2) completeness: some whole cell of that mode is selected
  have hcomplete : ∃ proto, ∀ c ∈ chains (effectiveMode ps root w d) proto, c ∈ cs := by
    by_cases hsp : ((inboundChains root ps w svcPorts).filter (fun c => c.dst == some d)).isEmpty = true
    · refine ⟨.auto, ?_⟩
      intro c hc
      simp only [cs, applicable, hsp, if_true, List.mem_map, List.mem_filter, beq_iff_eq]
      refine ⟨{ dst := none, chain := c }, ⟨?_, rfl⟩, rfl⟩
      apply (hmem _).mpr
      right; left
      apply mem_chainsFor.mpr
      refine ⟨by simp [dstOf], ?_⟩
      rw [hnone hsp]
      exact hc
    · have hnil : (inboundChains root ps w svcPorts).filter (fun c => c.dst == some d) ≠ [] := by
        intro h; exact hsp (by simp [h])
      obtain ⟨lc, hlc⟩ := List.exists_mem_of_ne_nil _ hnil
      simp only [List.mem_filter, beq_iff_eq] at hlc
      have key : ∀ (port : Nat) (proto : LProto), lc.dst = dstOf port →
          (∀ ch ∈ chains (m.modeForPort port) proto,
            ({ dst := dstOf port, chain := ch } : LChain) ∈ inboundChains root ps w svcPorts) →
          ∃ proto, ∀ c ∈ chains (effectiveMode ps root w d) proto, c ∈ cs := by
        intro port proto hdst hall
        have hpd : port = d := (dstOf_eq_some hd).mp (hdst ▸ hlc.2)
        refine ⟨proto, ?_⟩
        intro c hc
        simp only [cs, applicable, hsp, Bool.false_eq_true, if_false, List.mem_map, List.mem_filter, beq_iff_eq]
        refine ⟨{ dst := dstOf port, chain := c }, ⟨?_, ?_⟩, rfl⟩
        · apply hall; rw [hpd, hmode]; exact hc
        · rw [hpd]; exact (dstOf_eq_some hd).mpr rfl
      rcases (hmem lc).mp hlc.1 with ⟨sp, hspm, hc⟩ | hc | ⟨e, he, hneed, hc⟩
      · have hdst := entryChains_dst hc
        have htd : sp.target = d := (dstOf_eq_some hd).mp (hdst ▸ hlc.2)
        have hut : sp.userTLS = false := by
          cases h : sp.userTLS with
          | false => rfl
          | true => exact absurd htd (hU sp hspm h).1
        apply key sp.target sp.proto hdst
        intro ch hch
        exact (hmem _).mpr (Or.inl ⟨sp, hspm, by rw [entryChains_regular hut]; exact mem_chainsFor.mpr ⟨rfl, hch⟩⟩)
      · apply key 0 .auto (mem_chainsFor.mp hc).1
        intro ch hch
        exact (hmem _).mpr (Or.inr (Or.inl (mem_chainsFor.mpr ⟨rfl, hch⟩)))
      · apply key e.1 .auto (mem_chainsFor.mp hc).1
        intro ch hch
        exact (hmem _).mpr (Or.inr (Or.inr ⟨e, he, hneed, mem_chainsFor.mpr ⟨rfl, hch⟩⟩))
  -- conclude from the cell facts
  obtain ⟨proto0, hall⟩ := hcomplete
  refine ⟨?_, ?_, ?_, ?_⟩
  · constructor
    · intro h
      obtain ⟨c, hc, hp⟩ := List.any_eq_true.mp h
      obtain ⟨proto, hcm⟩ := hsound c hc
      exact (chains_enforce _ hne proto).1.mp (List.any_eq_true.mpr ⟨c, hcm, hp⟩)
    · intro h
      obtain ⟨c, hc, hp⟩ := List.any_eq_true.mp ((chains_enforce _ hne proto0).1.mpr h)
      exact List.any_eq_true.mpr ⟨c, hall c hc, hp⟩
  · constructor
    · intro h
      obtain ⟨c, hc, hp⟩ := List.any_eq_true.mp h
      obtain ⟨proto, hcm⟩ := hsound c hc
      exact (chains_enforce _ hne proto).2.1.mp (List.any_eq_true.mpr ⟨c, hcm, hp⟩)
    · intro h
      obtain ⟨c, hc, hp⟩ := List.any_eq_true.mp ((chains_enforce _ hne proto0).2.1.mpr h)
      exact List.any_eq_true.mpr ⟨c, hall c hc, hp⟩
  · rw [List.any_eq_false]
    intro c hc
    obtain ⟨proto, hcm⟩ := hsound c hc
    have := (chains_enforce _ hne proto).2.2.1
    rw [List.any_eq_false] at this
    exact this c hcm
  · intro hstrict c hc
    obtain ⟨proto, hcm⟩ := hsound c hc
    exact (chains_enforce _ hne proto).2.2.2.2 hstrict c hcm

/-- **User TLS on a Sidecar ingress listener is the only one-way TLS termination, and only under
    DISABLE.**  Every chain of the listener that terminates TLS without requiring a client certificate
    belongs to a chain config with user TLS settings whose port's effective mode is DISABLE. -/
theorem inbound_user_tls_only_under_disable {ps : List PA} (hu : UniqueKeys ps) (root : String)
    (w : Workload) (hs : w.svcNs = []) (svcPorts : List SvcPort) (c : LChain)
    (hc : c ∈ inboundChains root ps w svcPorts) (h1 : c.chain.terminatesOneWayTLS = true) :
    ∃ sp ∈ svcPorts, sp.userTLS = true ∧ c.dst = dstOf sp.target ∧
      effectiveMode ps root w sp.target = .disable := by
  have hmode : ∀ port, (compose root ((initAuthn root ps).configsFor w)).modeForPort port =
      effectiveMode ps root w port := fun port => compose_eq_spec hu root w hs port
  have hreg : ∀ (port : Nat) (proto : LProto),
      c ∈ chainsFor (compose root ((initAuthn root ps).configsFor w)) port proto → False := by
    intro port proto hin
    have hm := (mem_chainsFor.mp hin).2
    have := inbound_never_one_way_tls _ proto c.chain hm
    rw [h1] at this; cases this
  rcases mem_inboundChains_iff.mp hc with ⟨sp, hsp, hin⟩ | hin | ⟨e, _, _, hin⟩
  · unfold entryChains at hin
    split at hin
    · rename_i hcond
      simp only [Bool.and_eq_true, beq_iff_eq] at hcond
      simp only [List.mem_singleton] at hin
      refine ⟨sp, hsp, hcond.1, by rw [hin], ?_⟩
      rw [← hmode]; exact hcond.2
    · exact absurd (hreg _ _ hin) id
  · exact absurd (hreg _ _ hin) id
  · exact absurd (hreg _ _ hin) id

/-! ## Non-vacuity -/

/-- The fixture of the `inbound` stream: a service whose port (81) differs from its target port (8081). -/
def exSvcPorts : List SvcPort :=
  [ { port := 80, target := 80, proto := .http }, { port := 8080, target := 8080, proto := .tcp },
    { port := 9090, target := 9090, proto := .auto }, { port := 81, target := 8081, proto := .http } ]

example : NoPortZero exPolicies ∧ UniqueKeys exPolicies ∧ NoUserTLSFor exSvcPorts 80 := by decide
/-- `exPolicies`: port 80 of `exWorkload` is DISABLE (port-level entry of wl1): plaintext admitted, no mTLS. -/
example : (applicable (inboundChains "istio-system" exPolicies exWorkload exSvcPorts) 80).any Chain.acceptsPlaintext = true :=
  (inbound_listener_enforces (by decide) (by decide) "istio-system" exWorkload rfl exSvcPorts 80 (by decide) (by decide)).1.mpr
    (by decide)
/-- port 8081 (target port of service port 81, no port-level entry) is STRICT: every selected chain terminates mTLS. -/
example : ∀ c ∈ applicable (inboundChains "istio-system" exPolicies exWorkload exSvcPorts) 8081, c.terminatesMTLS = true :=
  (inbound_listener_enforces (by decide) (by decide) "istio-system" exWorkload rfl exSvcPorts 8081 (by decide) (by decide)).2.2.2
    (by decide)

end IstioModel.C10
