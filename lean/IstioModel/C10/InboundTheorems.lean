import IstioModel.C10.Chains

/-!
# C10 - the whole virtualInbound listener enforces the effective mode on every destination port

`inboundChains` models the filter chains the LDS generator emits for a sidecar (per service port,
catch-all passthrough, per-port passthrough for port-level settings on non-service ports); the
stream `inbound` compares it with the real listener.  `inbound_listener_enforces`: for **every**
destination port - service port or not, with or without port-level setting - the chains Envoy
selects for that port (most specific destination-port match) admit plaintext iff the port's
effective mode is not STRICT, terminate Istio mutual TLS iff it is not DISABLE, and never terminate
TLS without requiring a client certificate.
-/
set_option linter.unusedSimpArgs false

namespace IstioModel.C10

/-- What the chains of one (mode, protocol) cell do, for a mode a resolver can return. -/
theorem chains_enforce (mode : MTLS) (hm : mode ≠ .unknown) (proto : LProto) :
    ((chains mode proto).any Chain.acceptsPlaintext = true ↔ mode ≠ .strict) ∧
    ((chains mode proto).any Chain.terminatesMTLS = true ↔ mode ≠ .disable) ∧
    ((chains mode proto).any Chain.terminatesOneWayTLS = false) ∧
    (chains mode proto ≠ []) := by
  cases mode with
  | unknown => exact absurd rfl hm
  | disable => cases proto <;> decide
  | permissive => cases proto <;> decide
  | strict => cases proto <;> decide

theorem mem_chainsFor {m : Merged} {port : Nat} {proto : LProto} {c : LChain} :
    c ∈ chainsFor m port proto ↔ c.dst = dstOf port ∧ c.chain ∈ chains (m.modeForPort port) proto := by
  unfold chainsFor
  simp only [List.mem_map]
  constructor
  · rintro ⟨ch, hch, rfl⟩; exact ⟨rfl, hch⟩
  · rintro ⟨h1, h2⟩; exact ⟨c.chain, h2, by cases c; simp_all⟩

theorem dstOf_eq_some {p d : Nat} (hd : d > 0) : dstOf p = some d ↔ p = d := by
  unfold dstOf
  by_cases hp : p > 0
  · simp [hp]
  · simp [hp]; omega

theorem dstOf_eq_none {p : Nat} : dstOf p = none ↔ p = 0 := by
  unfold dstOf
  by_cases hp : p > 0
  · simp [hp]; omega
  · simp [hp]; omega

theorem lookup_none_of_not_key {β : Type} {l : List (Nat × β)} {k : Nat} (h : ∀ e ∈ l, e.1 ≠ k) :
    l.lookup k = none := by
  induction l with
  | nil => rfl
  | cons e t ih =>
    cases e with
    | mk a b =>
      have h1 : (k == a) = false := by
        have := h (a, b) List.mem_cons_self
        simp only [ne_eq] at this
        simp only [beq_eq_false_iff_ne, ne_eq]
        exact fun e => this e.symm
      simp only [List.lookup_cons, h1]
      exact ih (fun e he => h e (List.mem_cons_of_mem _ he))

/-- Every chain of the listener belongs to the cell (mode of its port, some protocol). -/
theorem mem_inboundChains {root : String} {ps : List PA} {w : Workload} {svcPorts : List (Nat × LProto)}
    {c : LChain} (h : c ∈ inboundChains root ps w svcPorts) :
    ∃ port proto, c.dst = dstOf port ∧
      c.chain ∈ chains ((compose root ((initAuthn root ps).configsFor w)).modeForPort port) proto ∧
      (port = 0 ∨ (∃ sp ∈ svcPorts, sp.1 = port) ∨
        (∃ e ∈ (compose root ((initAuthn root ps).configsFor w)).perPort, e.1 = port)) := by
  unfold inboundChains at h
  simp only [List.mem_append, List.mem_flatMap, List.mem_filter] at h
  rcases h with (⟨sp, hsp, hc⟩ | hc) | ⟨e, ⟨he, _⟩, hc⟩
  · have := mem_chainsFor.mp hc
    exact ⟨sp.1, sp.2, this.1, this.2, Or.inr (Or.inl ⟨sp, hsp, rfl⟩)⟩
  · have := mem_chainsFor.mp hc
    exact ⟨0, .auto, this.1, this.2, Or.inl rfl⟩
  · have := mem_chainsFor.mp hc
    exact ⟨e.1, .auto, this.1, this.2, Or.inr (Or.inr ⟨e, he, rfl⟩)⟩

/-- No policy carries a port-level entry for port 0 (rejected by validation: ports are 1..65535). -/
def NoPortZero (ps : List PA) : Prop := ∀ p ∈ ps, p.ports.lookup 0 = none

instance (ps : List PA) : Decidable (NoPortZero ps) := by
  unfold NoPortZero; infer_instance

theorem merged_lookup_zero {ps : List PA} (hz : NoPortZero ps) (root : String) (w : Workload)
    (hs : w.svcNs = []) :
    (compose root ((initAuthn root ps).configsFor w)).perPort.lookup 0 = none := by
  rw [compose_perPort, sel_wl root ps w hs]
  cases hw : (if w.ns = root then none else (sortByCreation ps).find? (wlCand w)) with
  | none => rfl
  | some p =>
    have hp : p ∈ ps := by
      by_cases hr : w.ns = root
      · simp [hr] at hw
      · simp only [hr, if_false] at hw
        exact mem_sorted.mp (List.mem_of_find?_eq_some hw)
    simp only [lookup_map_portEntry, hz p hp, Option.map_none]

/-- **inbound_listener_enforces.**  For every destination port `d` of the sidecar (service port or not),
    the filter chains of the generated virtualInbound listener that Envoy selects for `d` enforce
    `effectiveMode d`: plaintext is admitted iff the mode is not STRICT, Istio mutual TLS is
    terminated iff the mode is not DISABLE, and TLS is never terminated without a client certificate. -/
theorem inbound_listener_enforces {ps : List PA} (hu : UniqueKeys ps) (hz : NoPortZero ps) (root : String)
    (w : Workload) (hs : w.svcNs = []) (svcPorts : List (Nat × LProto)) (d : Nat) (hd : d > 0) :
    let cs := applicable (inboundChains root ps w svcPorts) d
    (cs.any Chain.acceptsPlaintext = true ↔ effectiveMode ps root w d ≠ .strict) ∧
    (cs.any Chain.terminatesMTLS = true ↔ effectiveMode ps root w d ≠ .disable) ∧
    (cs.any Chain.terminatesOneWayTLS = false) := by
  intro cs
  have hmode : ∀ port, (compose root ((initAuthn root ps).configsFor w)).modeForPort port =
      effectiveMode ps root w port := fun port => compose_eq_spec hu root w hs port
  have hzero := merged_lookup_zero hz root w hs
  generalize hM : compose root ((initAuthn root ps).configsFor w) = m at hmode hzero
  have hne := effectiveMode_total ps root w d
  -- (1) every selected chain lies in a cell of mode `effectiveMode d`
  -- (2) some whole cell of that mode is selected
  have hsound : ∀ c ∈ cs, ∃ proto, c ∈ chains (effectiveMode ps root w d) proto := by
    intro c hc
    simp only [cs, applicable, List.mem_map] at hc
    obtain ⟨lc, hlc, rfl⟩ := hc
    by_cases hsp : ((inboundChains root ps w svcPorts).filter (fun c => c.dst == some d)).isEmpty = true
    · -- catch-all chains: port 0, and `d` has no chain of its own
      simp only [hsp, if_true, List.mem_filter, beq_iff_eq] at hlc
      obtain ⟨port, proto, hdst, hch, _⟩ := mem_inboundChains hlc.1
      rw [hM] at hch
      have hp0 : port = 0 := dstOf_eq_none.mp (hdst ▸ hlc.2)
      refine ⟨proto, ?_⟩
      rw [hp0] at hch
      -- mode for port 0 = workload mode = mode for d
      have hd_none : m.perPort.lookup d = none := by
        apply lookup_none_of_not_key
        intro e he hed
        -- otherwise a per-port passthrough or service chain for d would exist
        have hspec : ∀ x ∈ inboundChains root ps w svcPorts, ¬ (x.dst == some d) = true := by
          have := List.filter_eq_nil_iff.mp (List.isEmpty_iff.mp hsp)
          exact this
        by_cases hsvc : needPerPort svcPorts d = true
        · obtain ⟨ch, hchm⟩ := List.exists_mem_of_ne_nil _ (chains_enforce (m.modeForPort d) (by rw [hmode]; exact hne) .auto).2.2.2
          have hx : ({ dst := dstOf d, chain := ch } : LChain) ∈ inboundChains root ps w svcPorts := by
            unfold inboundChains
            rw [hM]
            simp only [List.mem_append, List.mem_flatMap, List.mem_filter]
            right
            exact ⟨e, ⟨he, by rw [hed]; exact hsvc⟩, by rw [hed]; exact mem_chainsFor.mpr ⟨rfl, hchm⟩⟩
          exact hspec _ hx (by simp [(dstOf_eq_some hd).mpr rfl])
        · have hany : svcPorts.any (fun sp => sp.1 == d) = true := by
            unfold needPerPort at hsvc
            cases h : svcPorts.any (fun sp => sp.1 == d) <;> simp_all
          obtain ⟨sp, hspm, hspd'⟩ := List.any_eq_true.mp hany
          have hspd : sp.1 = d := by simpa using hspd'
          obtain ⟨ch, hchm⟩ := List.exists_mem_of_ne_nil _ (chains_enforce (m.modeForPort d) (by rw [hmode]; exact hne) sp.2).2.2.2
          have hx : ({ dst := dstOf d, chain := ch } : LChain) ∈ inboundChains root ps w svcPorts := by
            unfold inboundChains
            rw [hM]
            simp only [List.mem_append, List.mem_flatMap]
            left; left
            exact ⟨sp, hspm, by rw [hspd]; exact mem_chainsFor.mpr ⟨rfl, hchm⟩⟩
          exact hspec _ hx (by simp [(dstOf_eq_some hd).mpr rfl])
      have e0 : m.modeForPort 0 = m.mode := by simp [Merged.modeForPort, hzero]
      have ed : m.modeForPort d = m.mode := by simp [Merged.modeForPort, hd_none]
      rw [e0, ← ed, hmode] at hch
      exact hch
    · simp only [hsp, Bool.false_eq_true, if_false, List.mem_filter, beq_iff_eq] at hlc
      obtain ⟨port, proto, hdst, hch, _⟩ := mem_inboundChains hlc.1
      rw [hM] at hch
      have hpd : port = d := (dstOf_eq_some hd).mp (hdst ▸ hlc.2)
      rw [hpd, hmode] at hch
      exact ⟨proto, hch⟩
  have hcomplete : ∃ proto, ∀ c ∈ chains (effectiveMode ps root w d) proto, c ∈ cs := by
    by_cases hsp : ((inboundChains root ps w svcPorts).filter (fun c => c.dst == some d)).isEmpty = true
    · -- the catch-all cell (port 0, auto)
      refine ⟨.auto, ?_⟩
      intro c hc
      simp only [cs, applicable, hsp, if_true, List.mem_map, List.mem_filter, beq_iff_eq]
      -- as above: mode for port 0 = mode for d
      have hd_none : m.perPort.lookup d = none := by
        apply lookup_none_of_not_key
        intro e he hed
        have hspec : ∀ x ∈ inboundChains root ps w svcPorts, ¬ (x.dst == some d) = true :=
          List.filter_eq_nil_iff.mp (List.isEmpty_iff.mp hsp)
        by_cases hsvc : needPerPort svcPorts d = true
        · obtain ⟨ch, hchm⟩ := List.exists_mem_of_ne_nil _ (chains_enforce (m.modeForPort d) (by rw [hmode]; exact hne) .auto).2.2.2
          have hx : ({ dst := dstOf d, chain := ch } : LChain) ∈ inboundChains root ps w svcPorts := by
            unfold inboundChains
            rw [hM]
            simp only [List.mem_append, List.mem_flatMap, List.mem_filter]
            right
            exact ⟨e, ⟨he, by rw [hed]; exact hsvc⟩, by rw [hed]; exact mem_chainsFor.mpr ⟨rfl, hchm⟩⟩
          exact hspec _ hx (by simp [(dstOf_eq_some hd).mpr rfl])
        · have hany : svcPorts.any (fun sp => sp.1 == d) = true := by
            unfold needPerPort at hsvc
            cases h : svcPorts.any (fun sp => sp.1 == d) <;> simp_all
          obtain ⟨sp, hspm, hspd'⟩ := List.any_eq_true.mp hany
          have hspd : sp.1 = d := by simpa using hspd'
          obtain ⟨ch, hchm⟩ := List.exists_mem_of_ne_nil _ (chains_enforce (m.modeForPort d) (by rw [hmode]; exact hne) sp.2).2.2.2
          have hx : ({ dst := dstOf d, chain := ch } : LChain) ∈ inboundChains root ps w svcPorts := by
            unfold inboundChains
            rw [hM]
            simp only [List.mem_append, List.mem_flatMap]
            left; left
            exact ⟨sp, hspm, by rw [hspd]; exact mem_chainsFor.mpr ⟨rfl, hchm⟩⟩
          exact hspec _ hx (by simp [(dstOf_eq_some hd).mpr rfl])
      have e0 : m.modeForPort 0 = m.mode := by simp [Merged.modeForPort, hzero]
      have ed : m.modeForPort d = m.mode := by simp [Merged.modeForPort, hd_none]
      refine ⟨{ dst := none, chain := c }, ⟨?_, rfl⟩, rfl⟩
      unfold inboundChains
      rw [hM]
      simp only [List.mem_append, List.mem_flatMap]
      left; right
      apply mem_chainsFor.mpr
      refine ⟨by simp [dstOf], ?_⟩
      rw [e0, ← ed, hmode]
      exact hc
    · -- some chain for d exists: take its whole cell
      have hnil : (inboundChains root ps w svcPorts).filter (fun c => c.dst == some d) ≠ [] := by
        intro h; exact hsp (by simp [h])
      obtain ⟨lc, hlc⟩ := List.exists_mem_of_ne_nil _ hnil
      simp only [List.mem_filter, beq_iff_eq] at hlc
      -- which generator produced it
      have hmem := hlc.1
      unfold inboundChains at hmem
      rw [hM] at hmem
      simp only [List.mem_append, List.mem_flatMap, List.mem_filter] at hmem
      have key : ∀ (port : Nat) (proto : LProto), lc ∈ chainsFor m port proto →
          (∀ ch ∈ chains (m.modeForPort port) proto,
            ({ dst := dstOf port, chain := ch } : LChain) ∈ inboundChains root ps w svcPorts) →
          ∃ proto, ∀ c ∈ chains (effectiveMode ps root w d) proto, c ∈ cs := by
        intro port proto hin hall
        have hpd : port = d := (dstOf_eq_some hd).mp ((mem_chainsFor.mp hin).1 ▸ hlc.2)
        refine ⟨proto, ?_⟩
        intro c hc
        simp only [cs, applicable, hsp, Bool.false_eq_true, if_false, List.mem_map, List.mem_filter, beq_iff_eq]
        refine ⟨{ dst := dstOf port, chain := c }, ⟨?_, ?_⟩, rfl⟩
        · apply hall; rw [hpd, hmode]; exact hc
        · rw [hpd]; exact (dstOf_eq_some hd).mpr rfl
      rcases hmem with (⟨sp, hspm, hc⟩ | hc) | ⟨e, ⟨he, hneed⟩, hc⟩
      · apply key sp.1 sp.2 hc
        intro ch hch
        unfold inboundChains; rw [hM]
        simp only [List.mem_append, List.mem_flatMap]
        left; left
        exact ⟨sp, hspm, mem_chainsFor.mpr ⟨rfl, hch⟩⟩
      · apply key 0 .auto hc
        intro ch hch
        unfold inboundChains; rw [hM]
        simp only [List.mem_append, List.mem_flatMap]
        left; right
        exact mem_chainsFor.mpr ⟨rfl, hch⟩
      · apply key e.1 .auto hc
        intro ch hch
        unfold inboundChains; rw [hM]
        simp only [List.mem_append, List.mem_flatMap, List.mem_filter]
        right
        exact ⟨e, ⟨he, hneed⟩, mem_chainsFor.mpr ⟨rfl, hch⟩⟩
  -- conclude from the cell facts
  obtain ⟨proto0, hall⟩ := hcomplete
  refine ⟨?_, ?_, ?_⟩
  · constructor
    · intro h
      obtain ⟨c, hc, hp⟩ := List.any_eq_true.mp h
      obtain ⟨proto, hcm⟩ := hsound c hc
      exact (chains_enforce _ hne proto).1.mp (List.any_eq_true.mpr ⟨c, hcm, hp⟩)
    · intro h
      obtain ⟨c, hc, hp⟩ := List.any_eq_true.mp ((chains_enforce _ hne proto0).1.mpr h)
      exact List.any_eq_true.mpr ⟨c, hall c hc, hp⟩
  · constructor
    · intro h
      obtain ⟨c, hc, hp⟩ := List.any_eq_true.mp h
      obtain ⟨proto, hcm⟩ := hsound c hc
      exact (chains_enforce _ hne proto).2.1.mp (List.any_eq_true.mpr ⟨c, hcm, hp⟩)
    · intro h
      obtain ⟨c, hc, hp⟩ := List.any_eq_true.mp ((chains_enforce _ hne proto0).2.1.mpr h)
      exact List.any_eq_true.mpr ⟨c, hall c hc, hp⟩
  · rw [List.any_eq_false]
    intro c hc
    obtain ⟨proto, hcm⟩ := hsound c hc
    have := (chains_enforce _ hne proto).2.2.1
    rw [List.any_eq_false] at this
    exact this c hcm

/-! ## Non-vacuity -/

example : NoPortZero exPolicies ∧ UniqueKeys exPolicies := by decide
/-- A non-service port (9000) without chain of its own uses the catch-all chains. -/
example : applicable ([] : List LChain) 9000 = [] := rfl

end IstioModel.C10
