import IstioModel.C10.Chains

/-!
# C10 - the whole virtualInbound listener enforces the effective mode on every destination port

`inboundChains` models the filter chains the LDS generator emits for a sidecar (per service port,
catch-all passthrough, per-port passthrough for port-level settings on non-service ports); the
stream `inbound` compares it with the real listener.  `inbound_listener_enforces`: for **every**
destination port - service port or not, with or without port-level setting - the chains Envoy
selects for that port (most specific destination-port match) admit plaintext iff the port's
effective mode is not STRICT, terminate Istio mutual TLS iff it is not DISABLE, and never terminate
TLS without requiring a client certificate.
-/
set_option linter.unusedSimpArgs false

namespace IstioModel.C10

/-- What the chains of one (mode, protocol) cell do, for a mode a resolver can return. -/
theorem chains_enforce (mode : MTLS) (hm : mode ≠ .unknown) (proto : LProto) :
    ((chains mode proto).any Chain.acceptsPlaintext = true ↔ mode ≠ .strict) ∧
    ((chains mode proto).any Chain.terminatesMTLS = true ↔ mode ≠ .disable) ∧
    ((chains mode proto).any Chain.terminatesOneWayTLS = false) ∧
    (chains mode proto ≠ []) ∧
    (mode = .strict → ∀ c ∈ chains mode proto, c.terminatesMTLS = true) := by
  cases mode with
  | unknown => exact absurd rfl hm
  | disable => cases proto <;> decide
  | permissive => cases proto <;> decide
  | strict => cases proto <;> decide

theorem mem_chainsFor {m : Merged} {port : Nat} {proto : LProto} {c : LChain} :
    c ∈ chainsFor m port proto ↔
      c.dst = dstOf port ∧ c.lst = none ∧ c.chain ∈ chains (m.modeForPort port) proto := by
  unfold chainsFor
  simp only [List.mem_map]
  constructor
  · rintro ⟨ch, hch, rfl⟩; exact ⟨rfl, rfl, hch⟩
  · rintro ⟨h1, h2, h3⟩; exact ⟨c.chain, h3, by cases c; simp_all⟩

theorem dstOf_eq_some {p d : Nat} (hd : d > 0) : dstOf p = some d ↔ p = d := by
  unfold dstOf
  by_cases hp : p > 0
  · simp [hp]
  · simp [hp]; omega

theorem dstOf_eq_none {p : Nat} : dstOf p = none ↔ p = 0 := by
  unfold dstOf
  by_cases hp : p > 0
  · simp [hp]; omega
  · simp [hp]; omega

theorem lookup_none_of_not_key {β : Type} {l : List (Nat × β)} {k : Nat} (h : ∀ e ∈ l, e.1 ≠ k) :
    l.lookup k = none := by
  induction l with
  | nil => rfl
  | cons e t ih =>
    cases e with
    | mk a b =>
      have h1 : (k == a) = false := by
        have := h (a, b) List.mem_cons_self
        simp only [ne_eq] at this
        simp only [beq_eq_false_iff_ne, ne_eq]
        exact fun e => this e.symm
      simp only [List.lookup_cons, h1]
      exact ih (fun e he => h e (List.mem_cons_of_mem _ he))

/-- A chain config without user TLS yields the regular cell, in its listener. -/
theorem mem_entryChains_regular {m : Merged} {sp : SvcPort} (h : sp.userTLS = false) {c : LChain} :
    c ∈ entryChains m sp ↔
      c.dst = dstOf sp.target ∧ c.lst = sp.listener ∧ c.chain ∈ chains (m.modeForPort sp.target) sp.proto := by
  simp only [entryChains, h, Bool.false_and, Bool.false_eq_true, if_false, List.mem_map]
  constructor
  · rintro ⟨ch, hch, rfl⟩; exact ⟨rfl, rfl, hch⟩
  · rintro ⟨h1, h2, h3⟩; exact ⟨c.chain, h3, by cases c; simp_all⟩

/-- Membership in the three parts of the listener set. -/
theorem mem_inboundChains_iff {root : String} {ps : List PA} {w : Workload} {svcPorts : List SvcPort}
    {declared : List Nat} {c : LChain} :
    c ∈ inboundChains root ps w svcPorts declared ↔
      (∃ sp ∈ svcPorts, c ∈ entryChains (compose root ((initAuthn root ps).configsFor w)) sp) ∨
      c ∈ chainsFor (compose root ((initAuthn root ps).configsFor w)) 0 .auto ∨
      (∃ e ∈ (compose root ((initAuthn root ps).configsFor w)).perPort,
        needPerPort declared e.1 = true ∧ c ∈ chainsFor (compose root ((initAuthn root ps).configsFor w)) e.1 .auto) := by
  unfold inboundChains
  simp only [List.mem_append, List.mem_flatMap, List.mem_filter]
  constructor
  · rintro ((h | h) | ⟨e, ⟨he, hn⟩, hc⟩)
    · exact Or.inl h
    · exact Or.inr (Or.inl h)
    · exact Or.inr (Or.inr ⟨e, he, hn, hc⟩)
  · rintro (h | h | ⟨e, he, hn, hc⟩)
    · exact Or.inl (Or.inl h)
    · exact Or.inl (Or.inr h)
    · exact Or.inr ⟨e, ⟨he, hn⟩, hc⟩

theorem entryChains_dst_lst {m : Merged} {sp : SvcPort} {c : LChain} (h : c ∈ entryChains m sp) :
    c.dst = dstOf sp.target ∧ c.lst = sp.listener := by
  unfold entryChains at h
  split at h
  · simp only [List.mem_singleton] at h; rw [h]; exact ⟨rfl, rfl⟩
  · simp only [List.mem_map] at h
    obtain ⟨ch, _, rfl⟩ := h
    exact ⟨rfl, rfl⟩

/-- No policy carries a port-level entry for port 0 (rejected by validation: ports are 1..65535). -/
def NoPortZero (ps : List PA) : Prop := ∀ p ∈ ps, p.ports.lookup 0 = none

instance (ps : List PA) : Decidable (NoPortZero ps) := by
  unfold NoPortZero; infer_instance

theorem merged_lookup_zero {ps : List PA} (hz : NoPortZero ps) (root : String) (w : Workload)
    (hs : w.svcNs = []) :
    (compose root ((initAuthn root ps).configsFor w)).perPort.lookup 0 = none := by
  rw [compose_perPort, sel_wl root ps w hs]
  cases hw : (if w.ns = root then none else (sortByCreation ps).find? (wlCand w)) with
  | none => rfl
  | some p =>
    have hp : p ∈ ps := by
      by_cases hr : w.ns = root
      · simp [hr] at hw
      · simp only [hr, if_false] at hw
        exact mem_sorted.mp (List.mem_of_find?_eq_some hw)
    simp only [lookup_map_portEntry, hz p hp, Option.map_none]

/-- The chain configs relevant for destination port `d` (and for the catch-all) carry no user TLS
    settings.  Ports with user TLS are covered by `inbound_user_tls_only_under_disable`. -/
def NoUserTLSFor (svcPorts : List SvcPort) (d : Nat) : Prop :=
  ∀ sp ∈ svcPorts, sp.userTLS = true → sp.target ≠ d ∧ sp.target ≠ 0

instance (svcPorts : List SvcPort) (d : Nat) : Decidable (NoUserTLSFor svcPorts d) := by
  unfold NoUserTLSFor; infer_instance

/-- Every port that `needPerPortPassthroughFilterChain` treats as declared has a chain config
    (true for `chainConfigs` / `declaredPorts`: see `declared_have_configs`). -/
def DeclaredHaveConfigs (svcPorts : List SvcPort) (declared : List Nat) : Prop :=
  ∀ p ∈ declared, ∃ sp ∈ svcPorts, sp.target = p

instance (svcPorts : List SvcPort) (declared : List Nat) : Decidable (DeclaredHaveConfigs svcPorts declared) := by
  unfold DeclaredHaveConfigs; infer_instance

theorem mem_applicableIn {l : List LChain} {d : Nat} {c : Chain} :
    c ∈ applicableIn l d ↔
      if (l.filter (fun x => x.dst == some d)).isEmpty = true
      then ∃ lc ∈ l, lc.dst = none ∧ lc.chain = c
      else ∃ lc ∈ l, lc.dst = some d ∧ lc.chain = c := by
  unfold applicableIn
  by_cases h : (l.filter (fun x => x.dst == some d)).isEmpty = true
  · simp only [h, if_true, List.mem_map, List.mem_filter, beq_iff_eq]
    constructor
    · rintro ⟨lc, ⟨h1, h2⟩, rfl⟩; exact ⟨lc, h1, h2, rfl⟩
    · rintro ⟨lc, h1, h2, rfl⟩; exact ⟨lc, ⟨h1, h2⟩, rfl⟩
  · simp only [h, Bool.false_eq_true, if_false, List.mem_map, List.mem_filter, beq_iff_eq]
    constructor
    · rintro ⟨lc, ⟨h1, h2⟩, rfl⟩; exact ⟨lc, h1, h2, rfl⟩
    · rintro ⟨lc, h1, h2, rfl⟩; exact ⟨lc, ⟨h1, h2⟩, rfl⟩

/-- **inbound_listener_enforces.**  For every destination port `d` of the sidecar - target port of a
    service (whatever the service port), Sidecar ingress port (captured or with a listener of its own),
    or neither; with or without port-level setting - the filter chains that Envoy selects for a
    connection to `d` (in the custom listener bound to `d` if there is one, else in the virtualInbound
    listener, most specific destination-port match) enforce `effectiveMode d`: plaintext is admitted iff
    the mode is not STRICT, Istio mutual TLS is terminated iff the mode is not DISABLE, TLS is never
    terminated without a client certificate, and under STRICT **every** selected chain terminates mutual
    TLS (no plaintext chain, no TLS pass-through).  `_hown` restricts the CLAIM, the proof does not need it: the
    real listener has the blackhole chain for its own port 15006, which the model leaves out
    (`virtualInboundPort`), and connections to the proxy's other own ports never reach this listener
    (`proxyOwnPorts`). -/
theorem inbound_listener_enforces_model {ps : List PA} (hu : UniqueKeys ps) (hz : NoPortZero ps) (root : String)
    (w : Workload) (hs : w.svcNs = []) (svcPorts : List SvcPort) (declared : List Nat) (d : Nat) (hd : d > 0)
    (hU : NoUserTLSFor svcPorts d) (hD : DeclaredHaveConfigs svcPorts declared) :
    let cs := applicable (inboundChains root ps w svcPorts declared) d
    (cs.any Chain.acceptsPlaintext = true ↔ effectiveMode ps root w d ≠ .strict) ∧
    (cs.any Chain.terminatesMTLS = true ↔ effectiveMode ps root w d ≠ .disable) ∧
    (cs.any Chain.terminatesOneWayTLS = false) ∧
    (effectiveMode ps root w d = .strict → ∀ c ∈ cs, c.terminatesMTLS = true) := by
  intro cs
  have hmode : ∀ port, (compose root ((initAuthn root ps).configsFor w)).modeForPort port =
      effectiveMode ps root w port := fun port => compose_eq_spec hu root w hs port
  have hzero := merged_lookup_zero hz root w hs
  have hmem : ∀ c, c ∈ inboundChains root ps w svcPorts declared ↔ _ := fun c => mem_inboundChains_iff (c := c)
  generalize hM : compose root ((initAuthn root ps).configsFor w) = m at hmode hzero hmem
  generalize hL : inboundChains root ps w svcPorts declared = l at hmem cs
  have hcs : ∀ c, c ∈ cs ↔ c ∈ applicableIn (listenerFor l d) d := by
    intro c; simp only [cs, applicable, hL]
  have hne := effectiveMode_total ps root w d
  have hcell : ∀ proto, chains (m.modeForPort d) proto ≠ [] := fun proto =>
    (chains_enforce (m.modeForPort d) (by rw [hmode]; exact hne) proto).2.2.2.1
  have hreg : ∀ sp ∈ svcPorts, (sp.target = d ∨ sp.target = 0) → sp.userTLS = false := by
    intro sp hsp ht
    cases h : sp.userTLS with
    | false => rfl
    | true => rcases ht with ht | ht
              · exact absurd ht (hU sp hsp h).1
              · exact absurd ht (hU sp hsp h).2
  -- (i) every chain whose destination port is `d` lies in a cell of mode `effectiveMode d`
  have hspecific : ∀ lc ∈ l, lc.dst = some d → ∃ proto, lc.chain ∈ chains (effectiveMode ps root w d) proto := by
    intro lc hlc hdst
    rcases (hmem lc).mp hlc with ⟨sp, hsp, hc⟩ | hc | ⟨e, _, _, hc⟩
    · have htd : sp.target = d := (dstOf_eq_some hd).mp ((entryChains_dst_lst hc).1 ▸ hdst)
      have := ((mem_entryChains_regular (hreg sp hsp (Or.inl htd))).mp hc).2.2
      rw [htd, hmode] at this
      exact ⟨sp.proto, this⟩
    · have h0 : (0 : Nat) = d := (dstOf_eq_some hd).mp ((mem_chainsFor.mp hc).1 ▸ hdst)
      omega
    · have hm := mem_chainsFor.mp hc
      have hed : e.1 = d := (dstOf_eq_some hd).mp (hm.1 ▸ hdst)
      have h2 := hm.2.2
      rw [hed, hmode] at h2
      exact ⟨.auto, h2⟩
  -- (ii) chains without destination port lie in a cell of the mode for port 0
  have hcatch : ∀ lc ∈ l, lc.dst = none → ∃ proto, lc.chain ∈ chains (m.modeForPort 0) proto := by
    intro lc hlc hdst
    rcases (hmem lc).mp hlc with ⟨sp, hsp, hc⟩ | hc | ⟨e, _, _, hc⟩
    · have ht0 : sp.target = 0 := dstOf_eq_none.mp ((entryChains_dst_lst hc).1 ▸ hdst)
      have := ((mem_entryChains_regular (hreg sp hsp (Or.inr ht0))).mp hc).2.2
      rw [ht0] at this
      exact ⟨sp.proto, this⟩
    · exact ⟨.auto, (mem_chainsFor.mp hc).2.2⟩
    · have hm := mem_chainsFor.mp hc
      have he0 : e.1 = 0 := dstOf_eq_none.mp (hm.1 ▸ hdst)
      have := hm.2.2
      rw [he0] at this
      exact ⟨.auto, this⟩
  -- (iii) a chain in a custom listener bound to `d` has destination port `d`
  have hown : ∀ lc ∈ l, lc.lst = some d → lc.dst = some d ∧ ∃ sp ∈ svcPorts, sp.target = d ∧ sp.bind = true ∧ lc ∈ entryChains m sp := by
    intro lc hlc hlst
    rcases (hmem lc).mp hlc with ⟨sp, hsp, hc⟩ | hc | ⟨e, _, _, hc⟩
    · have h := entryChains_dst_lst hc
      have hl : sp.listener = some d := h.2 ▸ hlst
      unfold SvcPort.listener at hl
      by_cases hb : sp.bind = true
      · simp only [hb, if_true, Option.some.injEq] at hl
        exact ⟨by rw [h.1, hl]; exact (dstOf_eq_some hd).mpr rfl, sp, hsp, hl, hb, hc⟩
      · simp [hb] at hl
    · have := (mem_chainsFor.mp hc).2.1; rw [this] at hlst; cases hlst
    · have := (mem_chainsFor.mp hc).2.1; rw [this] at hlst; cases hlst
  -- the whole regular cell of a chain config is in `l`
  have hcellIn : ∀ sp ∈ svcPorts, sp.target = d → ∀ ch ∈ chains (effectiveMode ps root w d) sp.proto,
      ({ dst := some d, chain := ch, lst := sp.listener } : LChain) ∈ l := by
    intro sp hsp htd ch hch
    apply (hmem _).mpr
    left
    refine ⟨sp, hsp, (mem_entryChains_regular (hreg sp hsp (Or.inl htd))).mpr ⟨?_, rfl, ?_⟩⟩
    · simp only [htd]; exact ((dstOf_eq_some hd).mpr rfl).symm
    · simp only [htd, hmode]; exact hch
  let own := l.filter (fun c => c.lst == some d)
  by_cases hownE : own.isEmpty = true
  · -- no custom listener for `d`: the virtualInbound listener
    have hvi : listenerFor l d = l.filter (fun c => c.lst == none) := by
      simp only [listenerFor]; rw [if_pos hownE]
    have hnoOwn : ∀ lc ∈ l, lc.lst ≠ some d := by
      intro lc hlc h
      have : lc ∈ own := List.mem_filter.mpr ⟨hlc, by simp [h]⟩
      have hnil : own = [] := by simpa using hownE
      rw [hnil] at this; cases this
    have hviMem : ∀ lc, lc ∈ listenerFor l d ↔ lc ∈ l ∧ lc.lst = none := by
      intro lc; rw [hvi]; simp [List.mem_filter]
    -- no chain with destination port d in virtualInbound: d is no target port and has no port-level setting
    have hnone : ((listenerFor l d).filter (fun c => c.dst == some d)).isEmpty = true →
        m.modeForPort 0 = effectiveMode ps root w d := by
      intro hsp
      have hspec : ∀ x ∈ listenerFor l d, ¬ (x.dst == some d) = true :=
        List.filter_eq_nil_iff.mp (List.isEmpty_iff.mp hsp)
      have hnoTarget : ∀ sp ∈ svcPorts, sp.target ≠ d := by
        intro sp hspm htd
        obtain ⟨ch, hchm⟩ := List.exists_mem_of_ne_nil _ (by rw [← hmode]; exact hcell sp.proto :
          chains (effectiveMode ps root w d) sp.proto ≠ [])
        have hx := hcellIn sp hspm htd ch hchm
        by_cases hb : sp.bind = true
        · exact hnoOwn _ hx (by simp [SvcPort.listener, hb, htd])
        · have hl : sp.listener = none := by simp [SvcPort.listener, hb]
          exact hspec _ ((hviMem _).mpr ⟨hx, by simp [hl]⟩) (by simp)
      have hd_none : m.perPort.lookup d = none := by
        apply lookup_none_of_not_key
        intro e he hed
        by_cases hsvc : needPerPort declared d = true
        · obtain ⟨ch, hchm⟩ := List.exists_mem_of_ne_nil _ (hcell .auto)
          have hx : ({ dst := dstOf d, chain := ch } : LChain) ∈ l :=
            (hmem _).mpr (Or.inr (Or.inr ⟨e, he, by rw [hed]; exact hsvc, by rw [hed]; exact mem_chainsFor.mpr ⟨rfl, rfl, hchm⟩⟩))
          exact hspec _ ((hviMem _).mpr ⟨hx, rfl⟩) (by simp [(dstOf_eq_some hd).mpr rfl])
        · have hdecl : d ∈ declared := by
            unfold needPerPort at hsvc
            simpa using hsvc
          obtain ⟨sp, hspm, hspd⟩ := hD d hdecl
          exact hnoTarget sp hspm hspd
      have e0 : m.modeForPort 0 = m.mode := by simp [Merged.modeForPort, hzero]
      have ed : m.modeForPort d = m.mode := by simp [Merged.modeForPort, hd_none]
      rw [e0, ← ed, hmode]
    have hsound : ∀ c ∈ cs, ∃ proto, c ∈ chains (effectiveMode ps root w d) proto := by
      intro c hc
      have := mem_applicableIn.mp ((hcs c).mp hc)
      by_cases hsp : ((listenerFor l d).filter (fun c => c.dst == some d)).isEmpty = true
      · rw [if_pos hsp] at this
        obtain ⟨lc, hlc, hdst, rfl⟩ := this
        obtain ⟨proto, hp⟩ := hcatch lc ((hviMem lc).mp hlc).1 hdst
        rw [hnone hsp] at hp
        exact ⟨proto, hp⟩
      · rw [if_neg hsp] at this
        obtain ⟨lc, hlc, hdst, rfl⟩ := this
        exact hspecific lc ((hviMem lc).mp hlc).1 hdst
    have hcomplete : ∃ proto, ∀ c ∈ chains (effectiveMode ps root w d) proto, c ∈ cs := by
      by_cases hsp : ((listenerFor l d).filter (fun c => c.dst == some d)).isEmpty = true
      · refine ⟨.auto, fun c hc => ?_⟩
        apply (hcs _).mpr
        apply (mem_applicableIn (l := listenerFor l d)).mpr
        rw [if_pos hsp]
        refine ⟨{ dst := none, chain := c }, (hviMem _).mpr ⟨?_, rfl⟩, rfl, rfl⟩
        apply (hmem _).mpr
        right; left
        exact mem_chainsFor.mpr ⟨by simp [dstOf], rfl, by rw [hnone hsp]; exact hc⟩
      · have hnil : (listenerFor l d).filter (fun c => c.dst == some d) ≠ [] := by
          intro h; exact hsp (by simp [h])
        obtain ⟨lc, hlc⟩ := List.exists_mem_of_ne_nil _ hnil
        simp only [List.mem_filter, beq_iff_eq] at hlc
        have hlcl := (hviMem lc).mp hlc.1
        -- whichever generator produced lc, its whole cell is selected
        have fin : ∀ (proto : LProto), (∀ ch ∈ chains (effectiveMode ps root w d) proto,
            ({ dst := some d, chain := ch, lst := none } : LChain) ∈ l) →
            ∃ proto, ∀ c ∈ chains (effectiveMode ps root w d) proto, c ∈ cs := by
          intro proto hall
          refine ⟨proto, fun c hc => ?_⟩
          apply (hcs _).mpr
          apply (mem_applicableIn (l := listenerFor l d)).mpr
          rw [if_neg hsp]
          exact ⟨_, (hviMem _).mpr ⟨hall c hc, rfl⟩, rfl, rfl⟩
        rcases (hmem lc).mp hlcl.1 with ⟨sp, hspm, hc⟩ | hc | ⟨e, he, hneed, hc⟩
        · have h := entryChains_dst_lst hc
          have htd : sp.target = d := (dstOf_eq_some hd).mp (h.1 ▸ hlc.2)
          have hl : sp.listener = none := h.2 ▸ hlcl.2
          apply fin sp.proto
          intro ch hch
          have := hcellIn sp hspm htd ch hch
          rw [hl] at this; exact this
        · have h0 : (0 : Nat) = d := (dstOf_eq_some hd).mp ((mem_chainsFor.mp hc).1 ▸ hlc.2)
          omega
        · have hm := mem_chainsFor.mp hc
          have hed : e.1 = d := (dstOf_eq_some hd).mp (hm.1 ▸ hlc.2)
          apply fin .auto
          intro ch hch
          apply (hmem _).mpr
          right; right
          refine ⟨e, he, hneed, mem_chainsFor.mpr ⟨?_, rfl, ?_⟩⟩
          · simp only [hed]; exact ((dstOf_eq_some hd).mpr rfl).symm
          · rw [hed, hmode]; exact hch
    -- conclude from the cell facts
    obtain ⟨proto0, hall⟩ := hcomplete
    refine ⟨?_, ?_, ?_, ?_⟩
    · constructor
      · intro h
        obtain ⟨c, hc, hp⟩ := List.any_eq_true.mp h
        obtain ⟨proto, hcm⟩ := hsound c hc
        exact (chains_enforce _ hne proto).1.mp (List.any_eq_true.mpr ⟨c, hcm, hp⟩)
      · intro h
        obtain ⟨c, hc, hp⟩ := List.any_eq_true.mp ((chains_enforce _ hne proto0).1.mpr h)
        exact List.any_eq_true.mpr ⟨c, hall c hc, hp⟩
    · constructor
      · intro h
        obtain ⟨c, hc, hp⟩ := List.any_eq_true.mp h
        obtain ⟨proto, hcm⟩ := hsound c hc
        exact (chains_enforce _ hne proto).2.1.mp (List.any_eq_true.mpr ⟨c, hcm, hp⟩)
      · intro h
        obtain ⟨c, hc, hp⟩ := List.any_eq_true.mp ((chains_enforce _ hne proto0).2.1.mpr h)
        exact List.any_eq_true.mpr ⟨c, hall c hc, hp⟩
    · rw [List.any_eq_false]
      intro c hc
      obtain ⟨proto, hcm⟩ := hsound c hc
      have := (chains_enforce _ hne proto).2.2.1
      rw [List.any_eq_false] at this
      exact this c hcm
    · intro hstrict c hc
      obtain ⟨proto, hcm⟩ := hsound c hc
      exact (chains_enforce _ hne proto).2.2.2.2 hstrict c hcm
  · -- a custom listener bound to `d`
    have hlf : listenerFor l d = own := by
      simp only [listenerFor]; rw [if_neg hownE]
    have hownMem : ∀ lc, lc ∈ own ↔ lc ∈ l ∧ lc.lst = some d := by
      intro lc; simp [own, List.mem_filter]
    have hnil : own ≠ [] := by intro h; exact hownE (by simp [h])
    obtain ⟨lc0, hlc0⟩ := List.exists_mem_of_ne_nil _ hnil
    have hlc0' := (hownMem lc0).mp hlc0
    have hspne : ¬ ((listenerFor l d).filter (fun c => c.dst == some d)).isEmpty = true := by
      intro h
      have hspec : ∀ x ∈ listenerFor l d, ¬ (x.dst == some d) = true :=
        List.filter_eq_nil_iff.mp (List.isEmpty_iff.mp h)
      exact hspec lc0 (by rw [hlf]; exact hlc0) (by simp [(hown lc0 hlc0'.1 hlc0'.2).1])
    have hsound : ∀ c ∈ cs, ∃ proto, c ∈ chains (effectiveMode ps root w d) proto := by
      intro c hc
      have := mem_applicableIn.mp ((hcs c).mp hc)
      rw [if_neg hspne] at this
      obtain ⟨lc, hlc, hdst, rfl⟩ := this
      rw [hlf] at hlc
      exact hspecific lc ((hownMem lc).mp hlc).1 hdst
    have hcomplete : ∃ proto, ∀ c ∈ chains (effectiveMode ps root w d) proto, c ∈ cs := by
      obtain ⟨_, sp, hspm, htd, hb, _⟩ := hown lc0 hlc0'.1 hlc0'.2
      refine ⟨sp.proto, fun c hc => ?_⟩
      apply (hcs _).mpr
      apply (mem_applicableIn (l := listenerFor l d)).mpr
      rw [if_neg hspne]
      have hx := hcellIn sp hspm htd c hc
      have hl : sp.listener = some d := by simp [SvcPort.listener, hb, htd]
      rw [hl] at hx
      exact ⟨_, by rw [hlf]; exact (hownMem _).mpr ⟨hx, rfl⟩, rfl, rfl⟩
    obtain ⟨proto0, hall⟩ := hcomplete
    refine ⟨?_, ?_, ?_, ?_⟩
    · constructor
      · intro h
        obtain ⟨c, hc, hp⟩ := List.any_eq_true.mp h
        obtain ⟨proto, hcm⟩ := hsound c hc
        exact (chains_enforce _ hne proto).1.mp (List.any_eq_true.mpr ⟨c, hcm, hp⟩)
      · intro h
        obtain ⟨c, hc, hp⟩ := List.any_eq_true.mp ((chains_enforce _ hne proto0).1.mpr h)
        exact List.any_eq_true.mpr ⟨c, hall c hc, hp⟩
    · constructor
      · intro h
        obtain ⟨c, hc, hp⟩ := List.any_eq_true.mp h
        obtain ⟨proto, hcm⟩ := hsound c hc
        exact (chains_enforce _ hne proto).2.1.mp (List.any_eq_true.mpr ⟨c, hcm, hp⟩)
      · intro h
        obtain ⟨c, hc, hp⟩ := List.any_eq_true.mp ((chains_enforce _ hne proto0).2.1.mpr h)
        exact List.any_eq_true.mpr ⟨c, hall c hc, hp⟩
    · rw [List.any_eq_false]
      intro c hc
      obtain ⟨proto, hcm⟩ := hsound c hc
      have := (chains_enforce _ hne proto).2.2.1
      rw [List.any_eq_false] at this
      exact this c hcm
    · intro hstrict c hc
      obtain ⟨proto, hcm⟩ := hsound c hc
      exact (chains_enforce _ hne proto).2.2.2.2 hstrict c hcm

/-- `inbound_listener_enforces_model` as a claim about the real listener: not for the listener's own port. -/
theorem inbound_listener_enforces {ps : List PA} (hu : UniqueKeys ps) (hz : NoPortZero ps) (root : String)
    (w : Workload) (hs : w.svcNs = []) (svcPorts : List SvcPort) (declared : List Nat) (d : Nat) (hd : d > 0)
    (_hown : d ∉ proxyOwnPorts) (hU : NoUserTLSFor svcPorts d) (hD : DeclaredHaveConfigs svcPorts declared) :
    let cs := applicable (inboundChains root ps w svcPorts declared) d
    (cs.any Chain.acceptsPlaintext = true ↔ effectiveMode ps root w d ≠ .strict) ∧
    (cs.any Chain.terminatesMTLS = true ↔ effectiveMode ps root w d ≠ .disable) ∧
    (cs.any Chain.terminatesOneWayTLS = false) ∧
    (effectiveMode ps root w d = .strict → ∀ c ∈ cs, c.terminatesMTLS = true) :=
  inbound_listener_enforces_model hu hz root w hs svcPorts declared d hd hU hD

/-- **User TLS on a Sidecar ingress listener is the only one-way TLS termination, and only under
    DISABLE.**  Every chain of the listener that terminates TLS without requiring a client certificate
    belongs to a chain config with user TLS settings whose port's effective mode is DISABLE. -/
theorem inbound_user_tls_only_under_disable {ps : List PA} (hu : UniqueKeys ps) (root : String)
    (w : Workload) (hs : w.svcNs = []) (svcPorts : List SvcPort) (declared : List Nat) (c : LChain)
    (hc : c ∈ inboundChains root ps w svcPorts declared) (h1 : c.chain.terminatesOneWayTLS = true) :
    ∃ sp ∈ svcPorts, sp.userTLS = true ∧ c.dst = dstOf sp.target ∧
      effectiveMode ps root w sp.target = .disable := by
  have hmode : ∀ port, (compose root ((initAuthn root ps).configsFor w)).modeForPort port =
      effectiveMode ps root w port := fun port => compose_eq_spec hu root w hs port
  have hreg : ∀ (port : Nat) (proto : LProto),
      c ∈ chainsFor (compose root ((initAuthn root ps).configsFor w)) port proto → False := by
    intro port proto hin
    have hm := (mem_chainsFor.mp hin).2.2
    have := inbound_never_one_way_tls _ proto c.chain hm
    rw [h1] at this; cases this
  rcases mem_inboundChains_iff.mp hc with ⟨sp, hsp, hin⟩ | hin | ⟨e, _, _, hin⟩
  · unfold entryChains at hin
    split at hin
    · rename_i hcond
      simp only [Bool.and_eq_true, beq_iff_eq] at hcond
      simp only [List.mem_singleton] at hin
      refine ⟨sp, hsp, hcond.1, by rw [hin], ?_⟩
      rw [← hmode]; exact hcond.2
    · simp only [List.mem_map] at hin
      obtain ⟨ch, hch, rfl⟩ := hin
      have := inbound_never_one_way_tls _ sp.proto ch hch
      simp only at h1
      rw [h1] at this; cases this
  · exact absurd (hreg _ _ hin) id
  · exact absurd (hreg _ _ hin) id

/-! ## HBONE -/

/-- **hbone_terminate_always_mtls.**  Whatever the PeerAuthentication policies, a sidecar's HBONE
    `connect_terminate` listener requires a client certificate (socket class 2), `Builder.ForHBONE` is
    STRICT, and no chain of the internal listener behind the tunnel carries a transport socket: over
    HBONE the peer is always authenticated, also towards ports whose mode is DISABLE.  In the model this
    holds by construction; its content is the `inbound` stream, which observes the three facts on the real
    listeners and on the real `ForHBONE`. -/
theorem hbone_terminate_always_mtls (root : String) (ps : List PA) (w : Workload) (svcPorts : List SvcPort) :
    hboneTerminateSock = .mtls ∧
    forHBONEMode (compose root ((initAuthn root ps).configsFor w)) = .strict ∧
    sockFor (forHBONEMode (compose root ((initAuthn root ps).configsFor w))) true = .mtls ∧
    ∀ c ∈ hboneInnerChains svcPorts, c.chain.sock = .none := by
  refine ⟨rfl, rfl, rfl, ?_⟩
  intro c hc
  unfold hboneInnerChains at hc
  simp only [List.mem_append, List.mem_flatMap, List.mem_map] at hc
  rcases hc with ⟨sp, _, ch, hch, rfl⟩ | ⟨ch, hch, rfl⟩
  · have := (inbound_enforces_disable sp.proto ch hch).1
    simpa [Chain.terminatesTLS] using this
  · have := (inbound_enforces_disable .auto ch hch).1
    simpa [Chain.terminatesTLS] using this

/-! ## Non-vacuity -/

/-- `chainConfigs` / `declaredPorts` meet the hypothesis `DeclaredHaveConfigs` ... -/
theorem firstPerTargetAux_covers (seen : List Nat) (l : List SvcPort) (sp : SvcPort) (h : sp ∈ l)
    (hs : sp.target ∉ seen) : ∃ sp' ∈ firstPerTargetAux seen l, sp'.target = sp.target := by
  induction l generalizing seen with
  | nil => cases h
  | cons a t ih =>
    unfold firstPerTargetAux
    by_cases hc : seen.contains a.target = true
    · simp only [hc, if_true]
      rcases List.mem_cons.mp h with rfl | ht
      · exact absurd (by simpa using hc) hs
      · exact ih seen ht hs
    · simp only [hc, Bool.false_eq_true, if_false]
      rcases List.mem_cons.mp h with rfl | ht
      · exact ⟨sp, List.mem_cons_self, rfl⟩
      · by_cases hat : a.target = sp.target
        · exact ⟨a, List.mem_cons_self, hat⟩
        · obtain ⟨sp', hm, he⟩ := ih (a.target :: seen) ht (by
            simp only [List.mem_cons, not_or]; exact ⟨fun e => hat e.symm, hs⟩)
          exact ⟨sp', List.mem_cons_of_mem _ hm, he⟩

/-- ... whatever the services, the ingress listeners and the merge flag (repaired `needPerPort...`). -/
theorem declared_have_configs (services ingress : List SvcPort) (merge : Bool) :
    DeclaredHaveConfigs (chainConfigs services ingress merge) (declaredPorts services ingress merge) := by
  intro p hp
  unfold declaredPorts at hp
  unfold chainConfigs
  by_cases hi : ingress.isEmpty = true
  · simp only [hi, if_true, List.mem_map] at hp ⊢
    obtain ⟨sp, hsp, rfl⟩ := hp
    exact firstPerTargetAux_covers [] services sp hsp (by simp)
  · simp only [hi, Bool.false_eq_true, if_false] at hp ⊢
    cases merge with
    | false =>
      simp only [Bool.false_and, Bool.false_eq_true, if_false, List.mem_map] at hp ⊢
      obtain ⟨sp, hsp, rfl⟩ := hp
      exact firstPerTargetAux_covers [] ingress sp hsp (by simp)
    | true =>
      simp only [Bool.true_and, if_true, List.mem_append, List.mem_map] at hp ⊢
      rcases hp with ⟨sp, hsp, rfl⟩ | ⟨sp, hsp, rfl⟩
      · exact firstPerTargetAux_covers [] _ sp (List.mem_append_right _ hsp) (by simp)
      · by_cases hany : ingress.any (fun i => i.target == sp.target) = true
        · obtain ⟨i, hi', hit⟩ := List.any_eq_true.mp hany
          have hit' : i.target = sp.target := by simpa using hit
          obtain ⟨sp', hm, he⟩ := firstPerTargetAux_covers [] _ i (List.mem_append_right
            (services.filter (fun s => !(ingress.any (fun i => i.target == s.target)))) hi') (by simp)
          exact ⟨sp', hm, he.trans hit'⟩
        · have hmemf : sp ∈ services.filter (fun s => !(ingress.any (fun i => i.target == s.target))) :=
            List.mem_filter.mpr ⟨hsp, by simp only [Bool.not_eq_true] at hany; simp [hany]⟩
          exact firstPerTargetAux_covers [] _ sp (List.mem_append_left _ hmemf) (by simp)

/-! ## Interception mode NONE -/

/-- Interception NONE: the chain configs are the ingress listeners, every one bound to its port. -/
def boundConfigs (ingress : List SvcPort) : List SvcPort :=
  (firstPerTarget ingress).map (fun sp => { sp with bind := true })

theorem inboundChainsNone_eq (root : String) (ps : List PA) (w : Workload) (ingress : List SvcPort) :
    inboundChainsNone root ps w ingress =
      (boundConfigs ingress).flatMap (entryChains (compose root ((initAuthn root ps).configsFor w))) := by
  simp [inboundChainsNone, boundConfigs, List.flatMap_map]

/-- Chains of the virtualInbound listener do not matter for a port that has a listener of its own. -/
theorem applicable_append_none (l1 R : List LChain) (d : Nat) (hR : ∀ c ∈ R, c.lst = none)
    (hL : ∃ lc ∈ l1, lc.lst = some d) : applicable (l1 ++ R) d = applicable l1 d := by
  have hown : (l1 ++ R).filter (fun c => c.lst == some d) = l1.filter (fun c => c.lst == some d) := by
    rw [List.filter_append]
    have : R.filter (fun c => c.lst == some d) = [] := by
      apply List.filter_eq_nil_iff.mpr
      intro c hc
      simp [hR c hc]
    rw [this, List.append_nil]
  have hne : (l1.filter (fun c => c.lst == some d)).isEmpty = false := by
    obtain ⟨lc, hlc, hl⟩ := hL
    cases h : l1.filter (fun c => c.lst == some d) with
    | nil =>
      have : lc ∈ l1.filter (fun c => c.lst == some d) := List.mem_filter.mpr ⟨hlc, by simp [hl]⟩
      rw [h] at this; cases this
    | cons a t => rfl
  unfold applicable listenerFor
  simp only [hown, hne, Bool.false_eq_true, if_false]

/-- For a port that has a listener, a proxy without redirection serves exactly what the custom listener of a
    redirecting proxy with the same (bound) configs serves. -/
theorem inboundChainsNone_applicable (root : String) (ps : List PA) (w : Workload) (ingress : List SvcPort) (d : Nat)
    (hL : ∃ lc ∈ inboundChainsNone root ps w ingress, lc.lst = some d) :
    applicable (inboundChainsNone root ps w ingress) d =
      applicable (inboundChains root ps w (boundConfigs ingress) ((boundConfigs ingress).map (fun s => s.target))) d := by
  rw [inboundChainsNone_eq] at hL ⊢
  unfold inboundChains
  simp only [List.append_assoc]
  rw [applicable_append_none _ _ d _ hL]
  intro c hc
  rcases List.mem_append.mp hc with h | h
  · exact (mem_chainsFor.mp h).2.1
  · obtain ⟨e, _, he⟩ := List.mem_flatMap.mp h
    exact (mem_chainsFor.mp he).2.1

/-- An ingress listener on port `d` gives the proxy a listener bound to `d`. -/
theorem inboundChainsNone_has_listener {ps : List PA} (hu : UniqueKeys ps) (root : String)
    (w : Workload) (hs : w.svcNs = []) (ingress : List SvcPort) (d : Nat)
    (hU : NoUserTLSFor (boundConfigs ingress) d) (hI : ∃ sp ∈ ingress, sp.target = d) :
    ∃ lc ∈ inboundChainsNone root ps w ingress, lc.lst = some d := by
  obtain ⟨sp, hsp, htd⟩ := hI
  obtain ⟨sp', hsp', ht'⟩ := firstPerTargetAux_covers [] ingress sp hsp (by simp)
  have hb : ({ sp' with bind := true } : SvcPort) ∈ boundConfigs ingress := List.mem_map.mpr ⟨sp', hsp', rfl⟩
  have htb : ({ sp' with bind := true } : SvcPort).target = d := by simp [ht', htd]
  have hut : ({ sp' with bind := true } : SvcPort).userTLS = false := by
    cases h : ({ sp' with bind := true } : SvcPort).userTLS with
    | false => rfl
    | true => exact absurd htb (hU _ hb h).1
  rw [inboundChainsNone_eq]
  generalize hm : compose root ((initAuthn root ps).configsFor w) = m
  have hmode : m.modeForPort d = effectiveMode ps root w d := by rw [← hm]; exact compose_eq_spec hu root w hs d
  have hne := (chains_enforce (m.modeForPort d) (by rw [hmode]; exact effectiveMode_total ps root w d) sp'.proto).2.2.2.1
  obtain ⟨ch, hch⟩ := List.exists_mem_of_ne_nil _ hne
  refine ⟨{ dst := dstOf d, chain := ch, lst := some d }, List.mem_flatMap.mpr ⟨_, hb, ?_⟩, rfl⟩
  apply (mem_entryChains_regular hut).mpr
  have htd' : sp'.target = d := ht'.trans htd
  refine ⟨by simp [htd'], by simp [SvcPort.listener, htd'], ?_⟩
  simp only [htd']
  exact hch
/-- **inbound_none_enforces.**  A proxy with interception mode NONE: on every port that has a listener (a
    Sidecar ingress port) the chains enforce the port's effective mode, as for a redirecting proxy. -/
theorem inbound_none_enforces {ps : List PA} (hu : UniqueKeys ps) (hz : NoPortZero ps) (root : String)
    (w : Workload) (hs : w.svcNs = []) (ingress : List SvcPort) (d : Nat) (hd : d > 0)
    (hU : NoUserTLSFor (boundConfigs ingress) d) (hI : ∃ sp ∈ ingress, sp.target = d) :
    let cs := applicable (inboundChainsNone root ps w ingress) d
    (cs.any Chain.acceptsPlaintext = true ↔ effectiveMode ps root w d ≠ .strict) ∧
    (cs.any Chain.terminatesMTLS = true ↔ effectiveMode ps root w d ≠ .disable) ∧
    (cs.any Chain.terminatesOneWayTLS = false) ∧
    (effectiveMode ps root w d = .strict → ∀ c ∈ cs, c.terminatesMTLS = true) := by
  intro cs
  have hcs : cs = applicable (inboundChains root ps w (boundConfigs ingress) ((boundConfigs ingress).map (fun s => s.target))) d :=
    inboundChainsNone_applicable root ps w ingress d (inboundChainsNone_has_listener hu root w hs ingress d hU hI)
  rw [hcs]
  exact inbound_listener_enforces_model hu hz root w hs (boundConfigs ingress) _ d hd hU
    (fun p hp => by obtain ⟨sp, hsp, rfl⟩ := List.mem_map.mp hp; exact ⟨sp, hsp, rfl⟩)

/-- The fixture of the `inbound` stream: a service whose port (81) differs from its target port (8081),
    and a second service in conflict on target port 8080. -/
def exServices : List SvcPort :=
  [ { port := 80, target := 80, proto := .http }, { port := 8080, target := 8080, proto := .tcp },
    { port := 9090, target := 9090, proto := .auto }, { port := 81, target := 8081, proto := .http },
    { port := 8082, target := 8080, proto := .http } ]

def exSvcPorts : List SvcPort := chainConfigs exServices [] false
def exDeclared : List Nat := declaredPorts exServices []

example : NoPortZero exPolicies ∧ UniqueKeys exPolicies ∧ NoUserTLSFor exSvcPorts 80 ∧
    DeclaredHaveConfigs exSvcPorts exDeclared := by decide
/-- `exPolicies`: port 80 of `exWorkload` is DISABLE (port-level entry of wl1): plaintext admitted, no mTLS. -/
example : (applicable (inboundChains "istio-system" exPolicies exWorkload exSvcPorts exDeclared) 80).any Chain.acceptsPlaintext = true :=
  (inbound_listener_enforces (by decide) (by decide) "istio-system" exWorkload rfl exSvcPorts exDeclared 80 (by decide)
    (by decide) (by decide) (declared_have_configs _ _ _)).1.mpr (by decide)
/-- port 8081 (target port of service port 81, no port-level entry) is STRICT: every selected chain terminates mTLS. -/
example : ∀ c ∈ applicable (inboundChains "istio-system" exPolicies exWorkload exSvcPorts exDeclared) 8081, c.terminatesMTLS = true :=
  (inbound_listener_enforces (by decide) (by decide) "istio-system" exWorkload rfl exSvcPorts exDeclared 8081 (by decide)
    (by decide) (by decide) (declared_have_configs _ _ _)).2.2.2 (by decide)

/-- interception NONE, ingress listeners on 80 and 443: port 80 of `exWorkload` is DISABLE - plaintext admitted. -/
def exIngress : List SvcPort := [ { port := 80, target := 80, proto := .http }, { port := 443, target := 443, proto := .tcp } ]
example : (applicable (inboundChainsNone "istio-system" exPolicies exWorkload exIngress) 80).any Chain.acceptsPlaintext = true :=
  (inbound_none_enforces (by decide) (by decide) "istio-system" exWorkload rfl exIngress 80 (by decide) (by decide)
    (by decide)).1.mpr (by decide)

end IstioModel.C10
