import IstioModel.C10.AmbientLemmas

/-!
C10 - the core of `ambient_strict_exact`: what the keys + the converted policy enforce depends on
the workload policy's port list only through a small summary (`PSum`); on that finite domain the
exactness statement is checked exhaustively by the kernel (`decide +kernel`, 4000 rows) and lifted
to all port lists by the bridging lemmas below.
-/
set_option linter.unusedSimpArgs false

namespace IstioModel.C10

/-- What the port list of the workload policy says about one port, and overall. -/
structure PSum where
  here : Option PMode      -- `ports.lookup port`
  hasS : Bool              -- some port-level entry is STRICT
  hasP : Bool              -- ... PERMISSIVE
  hasD : Bool              -- ... DISABLE
  deriving DecidableEq, Repr

def summary (ports : List (Nat × PMode)) (port : Nat) : PSum :=
  { here := ports.lookup port,
    hasS := portsAny ports (fun m => m == .strict),
    hasP := portsAny ports (fun m => m == .permissive),
    hasD := portsAny ports (fun m => m == .disable) }

/-- The entry for the port is one of the entries. -/
def PSum.consistent (s : PSum) : Bool :=
  (s.here != some .strict || s.hasS) && (s.here != some .permissive || s.hasP) &&
  (s.here != some .disable || s.hasD)

theorem lookup_mem {ports : List (Nat × PMode)} {port : Nat} {m : PMode} (h : ports.lookup port = some m) :
    (port, m) ∈ ports := by
  induction ports with
  | nil => simp at h
  | cons e t ih =>
    cases e with
    | mk k v =>
      simp only [List.lookup_cons] at h
      cases hk : port == k with
      | false => rw [hk] at h; exact List.mem_cons_of_mem _ (ih h)
      | true =>
        rw [hk] at h
        simp only [Option.some.injEq] at h
        have : port = k := by simpa using hk
        rw [this, h]; exact List.mem_cons_self

theorem summary_consistent (ports : List (Nat × PMode)) (port : Nat) : (summary ports port).consistent = true := by
  unfold PSum.consistent summary portsAny
  simp only [Bool.and_eq_true, Bool.or_eq_true, bne_iff_ne, ne_eq, List.any_eq_true]
  have key : ∀ m : PMode, ¬ ports.lookup port = some m ∨ ∃ x ∈ ports, (x.2 == m) = true := by
    intro m
    by_cases h : ports.lookup port = some m
    · right; exact ⟨_, lookup_mem h, by simp⟩
    · left; exact h
  exact ⟨⟨key _, key _⟩, key _⟩

/-! ## The keys on the summary -/

def keysAbs (meshM nsM : Option PMode) (wlM : PMode) (s : PSum) : KeyBits :=
  let e1 := inheritedStrict meshM nsM
  let e2 := if wlM == .strict then true else e1
  let e3 := if wlM == .permissive || wlM == .disable then false else e2
  match wlM with
  | .strict =>
    if s.hasP || s.hasD then { static := false, ref := true } else { static := e3, ref := false }
  | .permissive | .disable =>
    if s.hasS then { static := e3, ref := true } else { static := e3, ref := false }
  | .unset =>
    if e3 then
      if s.hasP || s.hasD then { static := false, ref := true } else { static := e3, ref := false }
    else
      if s.hasS then { static := false, ref := true } else { static := false, ref := false }

theorem portsAny_or (ports : List (Nat × PMode)) (f g : PMode → Bool) :
    portsAny ports (fun m => f m || g m) = (portsAny ports f || portsAny ports g) := by
  unfold portsAny; exact any_or_split ports _ _

theorem keysCore_eq_abs (meshM nsM : Option PMode) (wlM : PMode) (ports : List (Nat × PMode)) (port : Nat) :
    keysCore Fixes.all meshM nsM wlM ports = keysAbs meshM nsM wlM (summary ports port) := by
  cases wlM <;> simp only [keysCore, keysAbs, summary, Fixes.all, portsAny_or, Bool.true_and] <;> rfl

/-! ## The converted policy on the summary -/

/-- `(convertPeerAuthentication ...).map (matches an unauthenticated peer on the port)`. -/
def convAbs (mode : PMode) (nsM0 rootM : Option PMode) (s : PSum) : Option Bool :=
  let nsM := dropUnset nsM0
  let skip := strictPortSkipped true mode nsM rootM
  let ign := portIgnored mode nsM rootM
  let foundNon := !ign && (s.hasP || s.hasD)
  let groupsEmpty := skip || !s.hasS
  let rulesEmpty := !(mode == .strict) && !foundNon
  if mode == .strict && !foundNon then none
  else if rulesEmpty && groupsEmpty then none
  else
    some ((!skip && s.here == some .strict) ||
          (!rulesEmpty && (ign || !(s.here == some .permissive || s.here == some .disable))))

theorem any_isNon (ports : List (Nat × PMode)) :
    ports.any (fun e => isNon e.2) =
      (portsAny ports (fun m => m == .permissive) || portsAny ports (fun m => m == .disable)) := by
  unfold isNon portsAny; exact any_or_split ports _ _

theorem any_isNon_hit {ports : List (Nat × PMode)} (hn : PortsNodup ports) (port : Nat) :
    ports.any (fun e => isNon e.2 && port == e.1) =
      (ports.lookup port == some .permissive || ports.lookup port == some .disable) := by
  rw [← any_hit_eq_lookup hn port .permissive, ← any_hit_eq_lookup hn port .disable, ← any_or_split]
  congr 1
  funext e
  unfold isNon
  cases (e.2 == PMode.permissive) <;> cases (e.2 == PMode.disable) <;> simp

/-- Matching of the rule group: the NP rules always match an unauthenticated peer, an exemption
    rule matches unless it is for this port. -/
theorem rules_match (pre post : List ARule) (hpre : ∀ r ∈ pre, r = ruleNP) (hpost : ∀ r ∈ post, r = ruleNP)
    (l : List (Nat × PMode)) (port : Nat) :
    AGroup.matches (pre ++ ((l.filter (fun e => isNon e.2)).map (fun e => rOf e.1)) ++ post) false port =
      !(l.any (fun e => isNon e.2 && port == e.1)) := by
  unfold AGroup.matches
  rw [List.all_append, List.all_append, all_filter_map]
  have h1 : pre.all (fun r => ARule.matches r false port) = true := by
    rw [List.all_eq_true]; intro r hr; rw [hpre r hr, ruleNP_matches]; rfl
  have h2 : post.all (fun r => ARule.matches r false port) = true := by
    rw [List.all_eq_true]; intro r hr; rw [hpost r hr, ruleNP_matches]; rfl
  rw [h1, h2]
  simp only [Bool.true_and, Bool.and_true, rOf_matches, Bool.not_not]

theorem groups_match (l : List (Nat × PMode)) (port : Nat) :
    ((l.filter (fun e => e.2 == .strict)).map (fun e => gOf e.1)).any (fun g => AGroup.matches g false port) =
      l.any (fun e => e.2 == .strict && port == e.1) := by
  rw [any_filter_map]
  simp only [gOf_matches, Bool.not_false, Bool.true_and]

theorem authz_matches_append (gs : List AGroup) (g : AGroup) (a : Bool) (port : Nat) :
    Authz.matches (gs ++ [g]) a port = (gs.any (fun x => AGroup.matches x a port) || AGroup.matches g a port) := by
  simp [Authz.matches, List.any_append]

/-- The bridge: the converted policy, evaluated on an unauthenticated peer, is `convAbs` of the summary. -/
theorem conv_bridge {ports : List (Nat × PMode)} (hn : PortsNodup ports) (mode : PMode)
    (nsM0 rootM : Option PMode) (port : Nat) :
    (convCore Fixes.all mode ports nsM0 rootM).map (fun a => a.matches false port) =
      convAbs mode nsM0 rootM (summary ports port) := by
  unfold convCore convAbs
  simp only [Fixes.all, if_true, conv_fold, List.nil_append, Bool.false_or]
  generalize hskip : strictPortSkipped true mode (dropUnset nsM0) rootM = skip
  generalize hign : portIgnored mode (dropUnset nsM0) rootM = ign
  generalize hmerge : shouldMergeStrict (dropUnset nsM0) rootM = merge
  have hany : (sortPorts ports).any (fun e => isNon e.2) =
      ((summary ports port).hasP || (summary ports port).hasD) := by
    rw [any_sortPorts, any_isNon]; rfl
  have hhasS : (sortPorts ports).any (fun e => e.2 == PMode.strict) = (summary ports port).hasS := by
    rw [any_sortPorts]; rfl
  have hhitS : (sortPorts ports).any (fun e => e.2 == PMode.strict && port == e.1) =
      ((summary ports port).here == some .strict) := by
    rw [any_sortPorts, any_hit_eq_lookup hn]; rfl
  have hhitN : (sortPorts ports).any (fun e => isNon e.2 && port == e.1) =
      ((summary ports port).here == some .permissive || (summary ports port).here == some .disable) := by
    rw [any_sortPorts, any_isNon_hit hn]; rfl
  rw [hany]
  generalize (summary ports port).hasP = hasP at *
  generalize (summary ports port).hasD = hasD at *
  -- the groups
  have hgE : ∀ (b : Bool), (if b = true then ([] : List AGroup)
        else ((sortPorts ports).filter (fun e => e.2 == .strict)).map (fun e => gOf e.1)).isEmpty =
      (b || !(summary ports port).hasS) := by
    intro b; cases b
    · simp only [Bool.false_eq_true, if_false, isEmpty_filter_map, hhasS, Bool.false_or]
    · simp
  have hgM : ∀ (b : Bool), (if b = true then ([] : List AGroup)
        else ((sortPorts ports).filter (fun e => e.2 == .strict)).map (fun e => gOf e.1)).any
          (fun g => AGroup.matches g false port) =
      (!b && (summary ports port).here == some .strict) := by
    intro b; cases b
    · simp only [Bool.false_eq_true, if_false, groups_match, hhitS, Bool.not_false, Bool.true_and]
    · simp
  generalize hG : (if skip = true then ([] : List AGroup)
        else ((sortPorts ports).filter (fun e => e.2 == .strict)).map (fun e => gOf e.1)) = G
  have hGE := hgE skip; rw [hG] at hGE
  have hGM := hgM skip; rw [hG] at hGM
  -- the rules
  generalize hEx : (if ign = true then ([] : List ARule)
        else ((sortPorts ports).filter (fun e => isNon e.2)).map (fun e => rOf e.1)) = EX
  have hExE : EX.isEmpty = (ign || !(hasP || hasD)) := by
    rw [← hEx]; cases ign
    · simp only [Bool.false_eq_true, if_false, isEmpty_filter_map, hany, Bool.false_or]
    · simp
  have hRM : ∀ (pre post : List ARule), (∀ r ∈ pre, r = ruleNP) → (∀ r ∈ post, r = ruleNP) →
      AGroup.matches (pre ++ EX ++ post) false port =
        (ign || !((summary ports port).here == some .permissive || (summary ports port).here == some .disable)) := by
    intro pre post h1 h2
    rw [← hEx]; cases ign
    · simp only [Bool.false_eq_true, if_false, rules_match pre post h1 h2, hhitN, Bool.false_or]
    · simp only [if_true, List.append_nil, Bool.true_or]
      have := rules_match pre post h1 h2 [] port
      simpa using this
  generalize (summary ports port).here = here at *
  generalize (summary ports port).hasS = hasS at *
  have npmem : ∀ r ∈ [ruleNP], r = ruleNP := fun r hr => by simpa using hr
  have nilmem : ∀ r ∈ ([] : List ARule), r = ruleNP := fun r hr => by cases hr
  -- case analysis on the Boolean shape
  cases hm : (mode == PMode.strict) with
  | true =>
    simp only [if_true, Bool.true_and, Bool.not_true, Bool.false_and]
    cases hf : (!ign && (hasP || hasD)) with
    | false => simp
    | true =>
      have hne : ([ruleNP] ++ EX).isEmpty = false := by simp
      simp only [Bool.not_true, Bool.false_eq_true, if_false, hne, Bool.false_and, Bool.and_true,
        Option.map_some, Bool.not_false, Bool.true_and]
      cases merge
      · have hne2 : ([ruleNP] ++ EX).isEmpty = false := by simp
        simp only [Bool.false_and, Bool.false_eq_true, if_false, hne2, authz_matches_append, hGM]
        have := hRM [ruleNP] [] npmem nilmem
        simp only [List.append_nil] at this
        rw [this]
      · have hne2 : ([ruleNP] ++ EX ++ [ruleNP]).isEmpty = false := by simp
        simp only [Bool.true_and, if_true, hne2, Bool.false_eq_true, if_false, authz_matches_append, hGM]
        rw [hRM [ruleNP] [ruleNP] npmem npmem]
  | false =>
    simp only [Bool.false_eq_true, if_false, Bool.false_and, List.nil_append, Bool.not_false, Bool.true_and]
    cases hf : (!ign && (hasP || hasD)) with
    | false =>
      have hE : EX.isEmpty = true := by
        rw [hExE]; revert hf; cases ign <;> cases hasP <;> cases hasD <;> simp
      simp only [hE, Bool.true_and, hGE, Bool.not_false, Bool.and_false, if_false, Bool.false_eq_true]
      cases hge : (skip || !hasS) with
      | true => simp
      | false =>
        simp only [Bool.false_eq_true, if_false, Option.map_some, Bool.not_true, Bool.false_and, Bool.or_false]
        have hEX : EX = [] := by simpa using hE
        subst hEX
        simp only [List.isEmpty_nil, if_true]
        simp only [Authz.matches]
        rw [hGM]
    | true =>
      have hE : EX.isEmpty = false := by
        rw [hExE]; revert hf; cases ign <;> cases hasP <;> cases hasD <;> simp
      simp only [hE, Bool.false_and, Bool.false_eq_true, if_false, Bool.not_true, Option.map_some,
        Bool.and_true, Bool.not_false, Bool.true_and]
      cases merge
      · simp only [Bool.false_and, Bool.false_eq_true, if_false, hE, authz_matches_append, hGM]
        have := hRM [] [] nilmem nilmem
        simp only [List.nil_append, List.append_nil] at this
        rw [this]
      · have hne2 : (EX ++ [ruleNP]).isEmpty = false := by simp
        simp only [Bool.true_and, if_true, hne2, Bool.false_eq_true, if_false, authz_matches_append, hGM]
        have := hRM [] [ruleNP] nilmem npmem
        simp only [List.nil_append] at this
        rw [this]

end IstioModel.C10
