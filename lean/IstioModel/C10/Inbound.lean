import IstioModel.C10.Model

/-!
C10 - executable model of the inbound (sidecar) listener side.

Go sources modelled (istio/istio):
  pilot/pkg/networking/core/filterchain_options.go   getFilterChainMatchOptions, ToTransportSocket
  pilot/pkg/security/authn/utils/utils.go            BuildInboundTLS (nil / require_client_certificate)
  pilot/pkg/networking/plugin/authn/authentication.go   Builder.ForPort, ForPassthrough,
                                                     needPerPortPassthroughFilterChain (no Sidecar ingress)
  pilot/pkg/networking/core/listener_inbound.go      buildInboundListeners, buildInboundPassthroughChains,
                                                     inboundChainConfig.ToFilterChainMatch (destination port)
reduced to what the property observes per filter chain of the virtualInbound listener.
-/
namespace IstioModel.C10

/-- `networking.ListenerProtocol`. -/
inductive LProto
  | unknown | tcp | http | auto
  deriving DecidableEq, Repr

def LProto.all : List LProto := [.unknown, .tcp, .http, .auto]
def MTLS.all : List MTLS := [.unknown, .disable, .permissive, .strict]

/-- ALPN class of a chain's `application_protocols`. -/
inductive Alpn
  | any          -- no application_protocols match
  | istio        -- only Istio mTLS ALPNs (istio, istio-peer-exchange, istio-http/1.x, istio-h2)
  | plain        -- plaintext HTTP ALPNs
  deriving DecidableEq, Repr

/-- Transport socket of the chain. -/
inductive Sock
  | none         -- no DownstreamTlsContext: TLS is not terminated
  | tls          -- DownstreamTlsContext without require_client_certificate
  | mtls         -- DownstreamTlsContext with require_client_certificate
  deriving DecidableEq, Repr

/-- One `FilterChainMatchOptions` plus its transport socket. -/
structure Chain where
  transportTLS : Bool      -- filter_chain_match.transport_protocol = "tls" (else "raw_buffer")
  terminate    : Bool      -- `TLS` field: this chain should terminate TLS
  http         : Bool      -- HTTP connection manager (else TCP proxy)
  alpn         : Alpn
  sock         : Sock
  deriving DecidableEq, Repr

/-- `ToTransportSocket` + `BuildInboundTLS`: nil for DISABLE/UNKNOWN, else a context requiring a
    client certificate. -/
def sockFor (mode : MTLS) (terminate : Bool) : Sock :=
  if terminate then
    match mode with
    | .disable | .unknown => .none
    | _ => .mtls
  else .none

def mk (mode : MTLS) (transportTLS terminate http : Bool) (alpn : Alpn) : Chain :=
  { transportTLS := transportTLS, terminate := terminate, http := http, alpn := alpn,
    sock := sockFor mode terminate }

/-- `getFilterChainMatchOptions`. -/
def chains (mode : MTLS) (proto : LProto) : List Chain :=
  match proto with
  | .http =>
    match mode with
    | .strict => [mk mode true true true .any]
    | .permissive => [mk mode true true true .istio, mk mode false false true .any]
    | _ => [mk mode false false true .any]
  | .auto =>
    match mode with
    | .strict => [mk mode true true true .istio, mk mode true true false .any]
    | .permissive =>
      [mk mode true true true .istio, mk mode false false true .plain, mk mode true true false .istio,
       mk mode false false false .any, mk mode true false false .any]
    | _ => [mk mode false false true .plain, mk mode false false false .any]
  | _ =>
    match mode with
    | .strict => [mk mode true true false .any]
    | .permissive => [mk mode true true false .istio, mk mode true false false .any, mk mode false false false .any]
    | _ => [mk mode false false false .any]

/-! ## What a chain does with a connection -/

/-- A chain accepts plaintext: it matches `raw_buffer`. -/
def Chain.acceptsPlaintext (c : Chain) : Bool := !c.transportTLS

/-- A chain terminates TLS (of any kind). -/
def Chain.terminatesTLS (c : Chain) : Bool := c.sock != .none

/-- A chain completes a TLS handshake without a client certificate (one-way TLS termination). -/
def Chain.terminatesOneWayTLS (c : Chain) : Bool := c.sock == .tls

/-- A chain terminates Istio mutual TLS. -/
def Chain.terminatesMTLS (c : Chain) : Bool := c.transportTLS && c.sock == .mtls

/-! ## The virtualInbound listener -/

/-- A filter chain of the virtualInbound listener: destination-port match (none = any port) and what it does. -/
structure LChain where
  dst   : Option Nat
  chain : Chain
  lst   : Option Nat := none     -- the listener: `none` = virtualInbound, `some p` = custom listener bound to port p
  deriving DecidableEq, Repr

/-- `ToFilterChainMatch`: a destination port is set only for a target port > 0. -/
def dstOf (port : Nat) : Option Nat := if port > 0 then some port else none

def chainsFor (m : Merged) (port : Nat) (proto : LProto) : List LChain :=
  (chains (m.modeForPort port) proto).map (fun c => { dst := dstOf port, chain := c })

/-- One inbound chain config (`inboundChainConfig`): built from a service target of the proxy
    (`getFilterChainsByServicePort`) or, when the Sidecar resource has ingress listeners, from an
    ingress listener.  The generator reads the **target** port only (`cc.port.TargetPort`); the
    service port is carried so that the correspondence covers services whose port differs from the
    target port.  `userTLS`: a Sidecar ingress listener with its own `tls` settings (SIMPLE). -/
structure SvcPort where
  port    : Nat
  target  : Nat
  proto   : LProto
  userTLS : Bool := false
  bind    : Bool := false     -- `bindToPort` (Sidecar ingress captureMode NONE): a real listener on the port
  deriving DecidableEq, Repr

/-- `getTLSFilterChainMatchOptions` + `BuildListenerTLSContext` (SIMPLE): the chain for a Sidecar
    ingress listener with user TLS settings; used only when the port's mTLS mode is DISABLE. -/
def userTLSChain (proto : LProto) : Chain :=
  { transportTLS := true, terminate := true, http := proto == .http, alpn := .any, sock := .tls }

/-- Where the chains of a chain config go: `inboundCustomListener` when it binds to its port, else
    the virtualInbound listener. -/
def SvcPort.listener (sp : SvcPort) : Option Nat := if sp.bind then some sp.target else none

/-- The chains of one chain config (`buildInboundListeners`, loop body). -/
def entryChains (m : Merged) (sp : SvcPort) : List LChain :=
  if sp.userTLS && m.modeForPort sp.target == .disable then
    [{ dst := dstOf sp.target, chain := userTLSChain sp.proto, lst := sp.listener }]
  else (chains (m.modeForPort sp.target) sp.proto).map
    (fun c => { dst := dstOf sp.target, chain := c, lst := sp.listener })

/-- `needPerPortPassthroughFilterChain`: the port is not declared - not the target port of one of the
    proxy's services or, when its Sidecar has ingress listeners, not one of their ports. -/
def needPerPort (declared : List Nat) (port : Nat) : Bool := !(declared.contains port)

/-- Keep the first chain config of each target port (`chainsByPort`: a later config for a port that
    already has one is a reported conflict and is skipped). -/
def firstPerTargetAux (seen : List Nat) : List SvcPort → List SvcPort
  | [] => []
  | sp :: t => if seen.contains sp.target then firstPerTargetAux seen t
               else sp :: firstPerTargetAux (sp.target :: seen) t

def firstPerTarget (l : List SvcPort) : List SvcPort := firstPerTargetAux [] l

/-- `buildInboundChainConfigs`: from the proxy's service targets when its Sidecar has no ingress
    listener; else from the ingress listeners, to which the service targets on other ports are added when
    `PILOT_ALLOW_SIDECAR_SERVICE_INBOUND_LISTENER_MERGE` is on (a port declared in both is taken from the
    Sidecar). -/
def chainConfigs (services ingress : List SvcPort) (merge : Bool) : List SvcPort :=
  if ingress.isEmpty then firstPerTarget services
  else if merge then
    firstPerTarget (services.filter (fun s => !(ingress.any (fun i => i.target == s.target))) ++ ingress)
  else firstPerTarget ingress

/-- The ports `needPerPortPassthroughFilterChain` treats as declared. -/
def declaredPorts (services ingress : List SvcPort) : List Nat :=
  if ingress.isEmpty then services.map (fun s => s.target) else ingress.map (fun s => s.target)

/-- The filter chains of the virtualInbound listener of a sidecar with the given chain configs:
    per-config chains (`ForPort` of the target port), the catch-all passthrough chains (port 0) and one
    set of passthrough chains per port-level setting whose port is not a target port (`ForPassthrough`).
    `svcPorts` = `chainConfigs ...` (one config per target port), `declared` = `declaredPorts ...`. -/
def inboundChains (root : String) (ps : List PA) (w : Workload) (svcPorts : List SvcPort)
    (declared : List Nat := svcPorts.map (fun s => s.target)) : List LChain :=
  let m := compose root ((initAuthn root ps).configsFor w)
  svcPorts.flatMap (entryChains m) ++
  chainsFor m 0 .auto ++
  (m.perPort.filter (fun e => needPerPort declared e.1)).flatMap (fun e => chainsFor m e.1 .auto)

/-! ## HBONE (sidecar with `EnableHBONE`): `buildInboundHBONEListeners`, `Builder.ForHBONE` -/

/-- `Builder.ForHBONE`: the mode is overridden to STRICT whatever the policies say
    (`InboundMTLSSettings(HBoneInboundListenPort, ..., model.MTLSStrict)`). -/
def forHBONEMode (_m : Merged) : MTLS := .strict

/-- The transport socket of the `connect_terminate` listener (port 15008): a DownstreamTlsContext with
    `require_client_certificate` and a validation context, independent of every PeerAuthentication. -/
def hboneTerminateSock : Sock := .mtls

/-- The filter chains of the internal listener `main_internal` behind the HBONE tunnel: one cell per
    chain config and the catch-all, all built with mode DISABLE ("Internal chain has no mTLS": the
    tunnel already authenticated the peer) and with the transport-protocol match cleared. -/
def hboneInnerChains (svcPorts : List SvcPort) : List LChain :=
  svcPorts.flatMap (fun sp => (chains .disable sp.proto).map (fun c => { dst := dstOf sp.target, chain := c })) ++
  (chains .disable .auto).map (fun c => { dst := none, chain := c })

/-- Envoy picks the chains with the most specific destination-port match: those for the port if there
    are any, else the ones without destination port. -/
def applicableIn (l : List LChain) (d : Nat) : List Chain :=
  let specific := l.filter (fun c => c.dst == some d)
  (if specific.isEmpty then l.filter (fun c => c.dst == none) else specific).map (fun c => c.chain)

/-- The listener a connection to port `d` arrives at: the custom listener bound to `d` if there is
    one, else (iptables redirection) the virtualInbound listener. -/
def listenerFor (l : List LChain) (d : Nat) : List LChain :=
  let own := l.filter (fun c => c.lst == some d)
  if own.isEmpty then l.filter (fun c => c.lst == none) else own

/-- The filter chains Envoy selects for a connection to destination port `d`. -/
def applicable (l : List LChain) (d : Nat) : List Chain := applicableIn (listenerFor l d) d

end IstioModel.C10
