import IstioModel.C10.Model

/-!
C10 - executable model of the inbound (sidecar) listener side.

Go sources modelled (istio/istio):
  pilot/pkg/networking/core/filterchain_options.go   getFilterChainMatchOptions, ToTransportSocket
  pilot/pkg/security/authn/utils/utils.go            BuildInboundTLS (nil / require_client_certificate)
  pilot/pkg/networking/plugin/authn/authentication.go   Builder.ForPort, ForPassthrough,
                                                     needPerPortPassthroughFilterChain (no Sidecar ingress)
  pilot/pkg/networking/core/listener_inbound.go      buildInboundListeners, buildInboundPassthroughChains,
                                                     inboundChainConfig.ToFilterChainMatch (destination port)
reduced to what the property observes per filter chain of the virtualInbound listener.
-/
namespace IstioModel.C10

/-- `networking.ListenerProtocol`. -/
inductive LProto
  | unknown | tcp | http | auto
  deriving DecidableEq, Repr

def LProto.all : List LProto := [.unknown, .tcp, .http, .auto]
def MTLS.all : List MTLS := [.unknown, .disable, .permissive, .strict]

/-- `filter_chain_match.application_protocols`: the real ALPN lists (pilot/pkg/networking/core/listener.go). -/
abbrev Alpn := List String

/-- no application_protocols match -/
def Alpn.any : Alpn := []
/-- `mtlsHTTPALPNs` -/
def Alpn.mtlsHTTP : Alpn := ["istio-http/1.0", "istio-http/1.1", "istio-h2"]
/-- `allIstioMtlsALPNs` -/
def Alpn.allIstio : Alpn := ["istio", "istio-peer-exchange", "istio-http/1.0", "istio-http/1.1", "istio-h2"]
/-- `mtlsTCPWithMxcALPNs` -/
def Alpn.mtlsTCPMxc : Alpn := ["istio-peer-exchange", "istio"]
/-- `plaintextHTTPALPNs` (HTTP/1.0 support off, the default) -/
def Alpn.plainHTTP : Alpn := ["http/1.1", "h2c"]

/-- Transport socket of the chain. -/
inductive Sock
  | none         -- no DownstreamTlsContext: TLS is not terminated
  | tls          -- DownstreamTlsContext without require_client_certificate
  | mtls         -- DownstreamTlsContext with require_client_certificate
  deriving DecidableEq, Repr

/-- One `FilterChainMatchOptions` plus its transport socket. -/
structure Chain where
  transportTLS : Bool      -- filter_chain_match.transport_protocol = "tls" (else "raw_buffer")
  terminate    : Bool      -- `TLS` field: this chain should terminate TLS
  http         : Bool      -- HTTP connection manager (else TCP proxy)
  alpn         : Alpn
  sock         : Sock
  deriving DecidableEq, Repr

/-- `ToTransportSocket` + `BuildInboundTLS`: nil for DISABLE/UNKNOWN, else a context requiring a
    client certificate. -/
def sockFor (mode : MTLS) (terminate : Bool) : Sock :=
  if terminate then
    match mode with
    | .disable | .unknown => .none
    | _ => .mtls
  else .none

def mk (mode : MTLS) (transportTLS terminate http : Bool) (alpn : Alpn) : Chain :=
  { transportTLS := transportTLS, terminate := terminate, http := http, alpn := alpn,
    sock := sockFor mode terminate }

/-- `getFilterChainMatchOptions`. -/
def chains (mode : MTLS) (proto : LProto) : List Chain :=
  match proto with
  | .http =>
    match mode with
    | .strict => [mk mode true true true .any]
    | .permissive => [mk mode true true true .allIstio, mk mode false false true .any]
    | _ => [mk mode false false true .any]
  | .auto =>
    match mode with
    | .strict => [mk mode true true true .mtlsHTTP, mk mode true true false .any]
    | .permissive =>
      [mk mode true true true .mtlsHTTP, mk mode false false true .plainHTTP, mk mode true true false .mtlsTCPMxc,
       mk mode false false false .any, mk mode true false false .any]
    | _ => [mk mode false false true .plainHTTP, mk mode false false false .any]
  | _ =>
    match mode with
    | .strict => [mk mode true true false .any]
    | .permissive => [mk mode true true false .allIstio, mk mode true false false .any, mk mode false false false .any]
    | _ => [mk mode false false false .any]

/-! ## What a chain does with a connection -/

/-- A chain accepts plaintext: it matches `raw_buffer`. -/
def Chain.acceptsPlaintext (c : Chain) : Bool := !c.transportTLS

/-- A chain terminates TLS (of any kind). -/
def Chain.terminatesTLS (c : Chain) : Bool := c.sock != .none

/-- A chain completes a TLS handshake without a client certificate (one-way TLS termination). -/
def Chain.terminatesOneWayTLS (c : Chain) : Bool := c.sock == .tls

/-- A chain terminates Istio mutual TLS. -/
def Chain.terminatesMTLS (c : Chain) : Bool := c.transportTLS && c.sock == .mtls

/-! ## Which chain Envoy selects for a connection (transport protocol, then application protocols) -/

/-- What the listener filters detect about a connection: TLS or not (TLS inspector), and the ALPNs
    the client offers in order (TLS: ClientHello; plaintext: what the HTTP inspector infers). -/
structure Conn where
  tls   : Bool
  alpns : List String
  deriving DecidableEq, Repr

/-- Envoy's application-protocol stage: the first ALPN of the connection that some chain lists selects
    the chains listing it. -/
def firstAlpnHit (cs : List Chain) : List String → List Chain
  | [] => []
  | a :: t =>
    let hit := cs.filter (fun c => c.alpn.contains a)
    if hit.isEmpty then firstAlpnHit cs t else hit

/-- Envoy's filter-chain selection among the chains of one destination port: the transport-protocol
    stage (all inbound chains name a transport protocol), then the application-protocol stage with its
    fallback to the chains without application protocols. -/
def selectChains (cs : List Chain) (conn : Conn) : List Chain :=
  let byTP := cs.filter (fun c => c.transportTLS == conn.tls)
  let hit := firstAlpnHit byTP conn.alpns
  if hit.isEmpty then byTP.filter (fun c => c.alpn.isEmpty) else hit

/-- The clients the property speaks about. -/
inductive Client
  | mtlsTCP        -- Istio sidecar, TCP, metadata exchange: ALPN istio-peer-exchange, istio
  | mtlsTCPNoMx    -- Istio sidecar, TCP: ALPN istio
  | mtlsHTTP10     -- Istio sidecar, HTTP/1.0 (ALPN override filter)
  | mtlsHTTP11     -- Istio sidecar, HTTP/1.1
  | mtlsH2         -- Istio sidecar, HTTP/2
  | plainTCP       -- plaintext, not recognised as HTTP
  | plainHTTP11    -- plaintext HTTP/1.1 (HTTP inspector)
  | plainH2C       -- plaintext HTTP/2
  | foreignTLS     -- TLS that is not Istio's, HTTP ALPNs
  | foreignTLSNoAlpn
  deriving DecidableEq, Repr

def Client.all : List Client :=
  [.mtlsTCP, .mtlsTCPNoMx, .mtlsHTTP10, .mtlsHTTP11, .mtlsH2, .plainTCP, .plainHTTP11, .plainH2C, .foreignTLS, .foreignTLSNoAlpn]

/-- `util.ALPNInMeshWithMxc`, `ALPNInMesh`, `mtlsHTTP1xALPN` / `mtlsHTTP2ALPN` (xds/filters), HTTP inspector. -/
def Client.conn : Client → Conn
  | .mtlsTCP => ⟨true, ["istio-peer-exchange", "istio"]⟩
  | .mtlsTCPNoMx => ⟨true, ["istio"]⟩
  | .mtlsHTTP10 => ⟨true, ["istio-http/1.0", "istio", "http/1.0"]⟩
  | .mtlsHTTP11 => ⟨true, ["istio-http/1.1", "istio", "http/1.1"]⟩
  | .mtlsH2 => ⟨true, ["istio-h2", "istio", "h2"]⟩
  | .plainTCP => ⟨false, []⟩
  | .plainHTTP11 => ⟨false, ["http/1.1"]⟩
  | .plainH2C => ⟨false, ["h2c"]⟩
  | .foreignTLS => ⟨true, ["h2", "http/1.1"]⟩
  | .foreignTLSNoAlpn => ⟨true, []⟩

def Client.isMTLS : Client → Bool
  | .mtlsTCP | .mtlsTCPNoMx | .mtlsHTTP10 | .mtlsHTTP11 | .mtlsH2 => true
  | _ => false

def Client.isPlain : Client → Bool
  | .plainTCP | .plainHTTP11 | .plainH2C => true
  | _ => false

/-! ## The virtualInbound listener -/

/-- A filter chain of the virtualInbound listener: destination-port match (none = any port) and what it does. -/
structure LChain where
  dst   : Option Nat
  chain : Chain
  lst   : Option Nat := none     -- the listener: `none` = virtualInbound, `some p` = custom listener bound to port p
  deriving DecidableEq, Repr

/-- `ToFilterChainMatch`: a destination port is set only for a target port > 0. -/
def dstOf (port : Nat) : Option Nat := if port > 0 then some port else none

def chainsFor (m : Merged) (port : Nat) (proto : LProto) : List LChain :=
  (chains (m.modeForPort port) proto).map (fun c => { dst := dstOf port, chain := c })

/-- One inbound chain config (`inboundChainConfig`): built from a service target of the proxy
    (`getFilterChainsByServicePort`) or, when the Sidecar resource has ingress listeners, from an
    ingress listener.  The generator reads the **target** port only (`cc.port.TargetPort`); the
    service port is carried so that the correspondence covers services whose port differs from the
    target port.  `userTLS`: a Sidecar ingress listener with its own `tls` settings (SIMPLE). -/
structure SvcPort where
  port    : Nat
  target  : Nat
  proto   : LProto
  userTLS : Bool := false
  bind    : Bool := false     -- `bindToPort` (Sidecar ingress captureMode NONE): a real listener on the port
  deriving DecidableEq, Repr

/-- `getTLSFilterChainMatchOptions` + `BuildListenerTLSContext` (SIMPLE): the chain for a Sidecar
    ingress listener with user TLS settings; used only when the port's mTLS mode is DISABLE. -/
def userTLSChain (proto : LProto) : Chain :=
  { transportTLS := true, terminate := true, http := proto == .http, alpn := .any, sock := .tls }

/-- Where the chains of a chain config go: `inboundCustomListener` when it binds to its port, else
    the virtualInbound listener. -/
def SvcPort.listener (sp : SvcPort) : Option Nat := if sp.bind then some sp.target else none

/-- The chains of one chain config (`buildInboundListeners`, loop body). -/
def entryChains (m : Merged) (sp : SvcPort) : List LChain :=
  if sp.userTLS && m.modeForPort sp.target == .disable then
    [{ dst := dstOf sp.target, chain := userTLSChain sp.proto, lst := sp.listener }]
  else (chains (m.modeForPort sp.target) sp.proto).map
    (fun c => { dst := dstOf sp.target, chain := c, lst := sp.listener })

/-- `needPerPortPassthroughFilterChain`: the port is not declared - not the target port of one of the
    proxy's services or, when its Sidecar has ingress listeners, not one of their ports. -/
def needPerPort (declared : List Nat) (port : Nat) : Bool := !(declared.contains port)

/-- Keep the first chain config of each target port (`chainsByPort`: a later config for a port that
    already has one is a reported conflict and is skipped). -/
def firstPerTargetAux (seen : List Nat) : List SvcPort → List SvcPort
  | [] => []
  | sp :: t => if seen.contains sp.target then firstPerTargetAux seen t
               else sp :: firstPerTargetAux (sp.target :: seen) t

def firstPerTarget (l : List SvcPort) : List SvcPort := firstPerTargetAux [] l

/-- `buildInboundChainConfigs`: from the proxy's service targets when its Sidecar has no ingress
    listener; else from the ingress listeners, to which the service targets on other ports are added when
    `PILOT_ALLOW_SIDECAR_SERVICE_INBOUND_LISTENER_MERGE` is on (a port declared in both is taken from the
    Sidecar). -/
def chainConfigs (services ingress : List SvcPort) (merge : Bool) : List SvcPort :=
  if ingress.isEmpty then firstPerTarget services
  else if merge then
    firstPerTarget (services.filter (fun s => !(ingress.any (fun i => i.target == s.target))) ++ ingress)
  else firstPerTarget ingress

/-- The ports `needPerPortPassthroughFilterChain` treats as declared: the service target ports when the
    Sidecar has no ingress listener, else the ingress ports - and, with inbound listener merge, the service
    target ports as well (`fixF14 = false`: the pinned tree forgot them, finding F14). -/
def declaredPorts (services ingress : List SvcPort) (merge : Bool := false) (fixF14 : Bool := true) : List Nat :=
  if ingress.isEmpty then services.map (fun s => s.target)
  else if merge && fixF14 then ingress.map (fun s => s.target) ++ services.map (fun s => s.target)
  else ingress.map (fun s => s.target)

/-- What Envoy compares to reject "multiple filter chains with the same matching rules": the listener,
    the destination port, the transport protocol and the application protocols of a chain. -/
def LChain.matchKey (c : LChain) : Option Nat × Option Nat × Bool × Alpn :=
  (c.lst, c.dst, c.chain.transportTLS, c.chain.alpn)

/-- Number of chains whose match repeats the match of an earlier chain. -/
def dupMatches : List LChain → Nat
  | [] => 0
  | c :: t => (if t.any (fun x => x.matchKey == c.matchKey) then 1 else 0) + dupMatches t

/-- The filter chains of the virtualInbound listener of a sidecar with the given chain configs:
    per-config chains (`ForPort` of the target port), the catch-all passthrough chains (port 0) and one
    set of passthrough chains per port-level setting whose port is not a target port (`ForPassthrough`).
    `svcPorts` = `chainConfigs ...` (one config per target port), `declared` = `declaredPorts ...`. -/
def inboundChains (root : String) (ps : List PA) (w : Workload) (svcPorts : List SvcPort)
    (declared : List Nat := svcPorts.map (fun s => s.target)) : List LChain :=
  let m := compose root ((initAuthn root ps).configsFor w)
  svcPorts.flatMap (entryChains m) ++
  chainsFor m 0 .auto ++
  (m.perPort.filter (fun e => needPerPort declared e.1)).flatMap (fun e => chainsFor m e.1 .auto)

/-! ## HBONE (sidecar with `EnableHBONE`): `buildInboundHBONEListeners`, `Builder.ForHBONE` -/

/-- `Builder.ForHBONE`: the mode is overridden to STRICT whatever the policies say
    (`InboundMTLSSettings(HBoneInboundListenPort, ..., model.MTLSStrict)`). -/
def forHBONEMode (_m : Merged) : MTLS := .strict

/-- The transport socket of the `connect_terminate` listener (port 15008): a DownstreamTlsContext with
    `require_client_certificate` and a validation context, independent of every PeerAuthentication. -/
def hboneTerminateSock : Sock := .mtls

/-- The filter chains of the internal listener `main_internal` behind the HBONE tunnel: one cell per
    chain config and the catch-all, all built with mode DISABLE ("Internal chain has no mTLS": the
    tunnel already authenticated the peer) and with the transport-protocol match cleared. -/
def hboneInnerChains (svcPorts : List SvcPort) : List LChain :=
  svcPorts.flatMap (fun sp => (chains .disable sp.proto).map (fun c => { dst := dstOf sp.target, chain := c })) ++
  (chains .disable .auto).map (fun c => { dst := none, chain := c })

/-- Envoy picks the chains with the most specific destination-port match: those for the port if there
    are any, else the ones without destination port. -/
def applicableIn (l : List LChain) (d : Nat) : List Chain :=
  let specific := l.filter (fun c => c.dst == some d)
  (if specific.isEmpty then l.filter (fun c => c.dst == none) else specific).map (fun c => c.chain)

/-- The listener a connection to port `d` arrives at: the custom listener bound to `d` if there is
    one, else (iptables redirection) the virtualInbound listener. -/
def listenerFor (l : List LChain) (d : Nat) : List LChain :=
  let own := l.filter (fun c => c.lst == some d)
  if own.isEmpty then l.filter (fun c => c.lst == none) else own

/-- The filter chains Envoy selects for a connection to destination port `d`. -/
def applicable (l : List LChain) (d : Nat) : List Chain := applicableIn (listenerFor l d) d

/-- The virtualInbound listener's own port.  The real listener has one more chain, the blackhole chain
    (`filter_chain_match.destination_port = 15006`, no transport protocol, no transport socket) that swallows
    connections addressed to the listener itself; the model leaves it out, the inbound theorems exclude
    `d = virtualInboundPort` (T-diff: the token `bh:15006.0` is in every real virtualInbound listener). -/
def virtualInboundPort : Nat := 15006

/-- Ports the sidecar itself listens on: the outbound / inbound capture ports, the HBONE port, the agent's status and
    metrics ports.  iptables never redirects connections to them to virtualInbound (15006 is the listener itself),
    so a filter chain that a port-level entry on such a port produces enforces nothing; the inbound theorems make no
    claim for them. -/
def proxyOwnPorts : List Nat := [15001, 15006, 15008, 15020, 15021, 15090]

/-- `conflictWithReservedListener` for a service target of a sidecar (bind = wildcard): the static listeners
    (status port 15021, Prometheus port 15090) and the virtual listeners (15001, 15006). -/
def reservedTarget (t : Nat) : Bool := t == 15001 || t == 15006 || t == 15021 || t == 15090

/-- `Proxy.CanBindToPort` in `buildInboundChainConfigs`, service-target loop of a proxy with iptables
    redirection (`bindToPort = false`: the privileged-port clause does not apply): the service is skipped -
    no chain config - but stays a service target for `needPerPortPassthroughFilterChain`. -/
def canBindService (s : SvcPort) : Bool := !reservedTarget s.target

/-- `Proxy.CanBindToPort` for the ingress listeners of a proxy with interception mode NONE (every listener
    binds to its port): an unprivileged proxy cannot bind to ports below 1024. -/
def canBindIngress (unprivileged : Bool) (s : SvcPort) : Bool := !(unprivileged && s.target < 1024)

/-- A proxy with interception mode NONE (no iptables redirection): no virtualInbound listener, no chain
    configs from services, every Sidecar ingress listener binds to its own port. -/
def inboundChainsNone (root : String) (ps : List PA) (w : Workload) (ingress : List SvcPort) : List LChain :=
  let m := compose root ((initAuthn root ps).configsFor w)
  (firstPerTarget ingress).flatMap (fun sp => entryChains m { sp with bind := true })

/-- `populateListenerFilters` / `buildTLSInspector`: the TLS inspector is enabled for a destination port iff
    one of the chains considered for that port matches transport protocol `tls` (ports without chains of
    their own follow the catch-all chains; the blackhole chain names no transport protocol). -/
def tlsInspectorOn (l : List LChain) (d : Nat) : Bool := (applicable l d).any (fun c => c.transportTLS)

end IstioModel.C10
