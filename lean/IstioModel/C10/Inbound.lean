import IstioModel.C10.Model

/-!
C10 - executable model of the inbound (sidecar) listener side.

Go sources modelled (istio/istio):
  pilot/pkg/networking/core/filterchain_options.go   getFilterChainMatchOptions, ToTransportSocket
  pilot/pkg/security/authn/utils/utils.go            BuildInboundTLS (nil / require_client_certificate)
  pilot/pkg/networking/plugin/authn/authentication.go   Builder.ForPort, ForPassthrough,
                                                     needPerPortPassthroughFilterChain (no Sidecar ingress)
  pilot/pkg/networking/core/listener_inbound.go      buildInboundListeners, buildInboundPassthroughChains,
                                                     inboundChainConfig.ToFilterChainMatch (destination port)
reduced to what the property observes per filter chain of the virtualInbound listener.
-/
namespace IstioModel.C10

/-- `networking.ListenerProtocol`. -/
inductive LProto
  | unknown | tcp | http | auto
  deriving DecidableEq, Repr

def LProto.all : List LProto := [.unknown, .tcp, .http, .auto]
def MTLS.all : List MTLS := [.unknown, .disable, .permissive, .strict]

/-- ALPN class of a chain's `application_protocols`. -/
inductive Alpn
  | any          -- no application_protocols match
  | istio        -- only Istio mTLS ALPNs (istio, istio-peer-exchange, istio-http/1.x, istio-h2)
  | plain        -- plaintext HTTP ALPNs
  deriving DecidableEq, Repr

/-- Transport socket of the chain. -/
inductive Sock
  | none         -- no DownstreamTlsContext: TLS is not terminated
  | tls          -- DownstreamTlsContext without require_client_certificate
  | mtls         -- DownstreamTlsContext with require_client_certificate
  deriving DecidableEq, Repr

/-- One `FilterChainMatchOptions` plus its transport socket. -/
structure Chain where
  transportTLS : Bool      -- filter_chain_match.transport_protocol = "tls" (else "raw_buffer")
  terminate    : Bool      -- `TLS` field: this chain should terminate TLS
  http         : Bool      -- HTTP connection manager (else TCP proxy)
  alpn         : Alpn
  sock         : Sock
  deriving DecidableEq, Repr

/-- `ToTransportSocket` + `BuildInboundTLS`: nil for DISABLE/UNKNOWN, else a context requiring a
    client certificate. -/
def sockFor (mode : MTLS) (terminate : Bool) : Sock :=
  if terminate then
    match mode with
    | .disable | .unknown => .none
    | _ => .mtls
  else .none

def mk (mode : MTLS) (transportTLS terminate http : Bool) (alpn : Alpn) : Chain :=
  { transportTLS := transportTLS, terminate := terminate, http := http, alpn := alpn,
    sock := sockFor mode terminate }

/-- `getFilterChainMatchOptions`. -/
def chains (mode : MTLS) (proto : LProto) : List Chain :=
  match proto with
  | .http =>
    match mode with
    | .strict => [mk mode true true true .any]
    | .permissive => [mk mode true true true .istio, mk mode false false true .any]
    | _ => [mk mode false false true .any]
  | .auto =>
    match mode with
    | .strict => [mk mode true true true .istio, mk mode true true false .any]
    | .permissive =>
      [mk mode true true true .istio, mk mode false false true .plain, mk mode true true false .istio,
       mk mode false false false .any, mk mode true false false .any]
    | _ => [mk mode false false true .plain, mk mode false false false .any]
  | _ =>
    match mode with
    | .strict => [mk mode true true false .any]
    | .permissive => [mk mode true true false .istio, mk mode true false false .any, mk mode false false false .any]
    | _ => [mk mode false false false .any]

/-! ## What a chain does with a connection -/

/-- A chain accepts plaintext: it matches `raw_buffer`. -/
def Chain.acceptsPlaintext (c : Chain) : Bool := !c.transportTLS

/-- A chain terminates TLS (of any kind). -/
def Chain.terminatesTLS (c : Chain) : Bool := c.sock != .none

/-- A chain completes a TLS handshake without a client certificate (one-way TLS termination). -/
def Chain.terminatesOneWayTLS (c : Chain) : Bool := c.sock == .tls

/-- A chain terminates Istio mutual TLS. -/
def Chain.terminatesMTLS (c : Chain) : Bool := c.transportTLS && c.sock == .mtls

/-! ## The virtualInbound listener -/

/-- A filter chain of the virtualInbound listener: destination-port match (none = any port) and what it does. -/
structure LChain where
  dst   : Option Nat
  chain : Chain
  deriving DecidableEq, Repr

/-- `ToFilterChainMatch`: a destination port is set only for a target port > 0. -/
def dstOf (port : Nat) : Option Nat := if port > 0 then some port else none

def chainsFor (m : Merged) (port : Nat) (proto : LProto) : List LChain :=
  (chains (m.modeForPort port) proto).map (fun c => { dst := dstOf port, chain := c })

/-- One inbound chain config (`inboundChainConfig`): built from a service target of the proxy
    (`getFilterChainsByServicePort`) or, when the Sidecar resource has ingress listeners, from an
    ingress listener.  The generator reads the **target** port only (`cc.port.TargetPort`); the
    service port is carried so that the correspondence covers services whose port differs from the
    target port.  `userTLS`: a Sidecar ingress listener with its own `tls` settings (SIMPLE). -/
structure SvcPort where
  port    : Nat
  target  : Nat
  proto   : LProto
  userTLS : Bool := false
  deriving DecidableEq, Repr

/-- `getTLSFilterChainMatchOptions` + `BuildListenerTLSContext` (SIMPLE): the chain for a Sidecar
    ingress listener with user TLS settings; used only when the port's mTLS mode is DISABLE. -/
def userTLSChain (proto : LProto) : Chain :=
  { transportTLS := true, terminate := true, http := proto == .http, alpn := .any, sock := .tls }

/-- The chains of one chain config (`buildInboundListeners`, loop body). -/
def entryChains (m : Merged) (sp : SvcPort) : List LChain :=
  if sp.userTLS && m.modeForPort sp.target == .disable then
    [{ dst := dstOf sp.target, chain := userTLSChain sp.proto }]
  else chainsFor m sp.target sp.proto

/-- `needPerPortPassthroughFilterChain`: the port is not the target port of one of the proxy's
    services / not an ingress listener port of its Sidecar. -/
def needPerPort (svcPorts : List SvcPort) (port : Nat) : Bool := !(svcPorts.any (fun sp => sp.target == port))

/-- The filter chains of the virtualInbound listener of a sidecar with the given chain configs:
    per-config chains (`ForPort` of the target port), the catch-all passthrough chains (port 0) and one
    set of passthrough chains per port-level setting whose port is not a target port (`ForPassthrough`).
    The generator keeps one config per target port (`chainsByPort`); the harness only produces distinct
    target ports. -/
def inboundChains (root : String) (ps : List PA) (w : Workload) (svcPorts : List SvcPort) : List LChain :=
  let m := compose root ((initAuthn root ps).configsFor w)
  svcPorts.flatMap (entryChains m) ++
  chainsFor m 0 .auto ++
  (m.perPort.filter (fun e => needPerPort svcPorts e.1)).flatMap (fun e => chainsFor m e.1 .auto)

/-- Envoy picks the chains with the most specific destination-port match: those for the port if there
    are any, else the ones without destination port. -/
def applicable (l : List LChain) (d : Nat) : List Chain :=
  let specific := l.filter (fun c => c.dst == some d)
  (if specific.isEmpty then l.filter (fun c => c.dst == none) else specific).map (fun c => c.chain)

end IstioModel.C10
