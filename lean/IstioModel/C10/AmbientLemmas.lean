import IstioModel.C10.Ambient
import IstioModel.C10.Lemmas

/-!
C10 - helper lemmas for the ambient side: the repaired comparison picks the specification's
oldest policy whatever the enumeration order; closed form of the port loop of
`convertPeerAuthentication`; matching of the emitted groups and rules.
-/
set_option linter.unusedSimpArgs false

namespace IstioModel.C10

/-! ## `peerAuthnOlder` is the strict part of the sidecar order -/

theorem olderThan_eq (a b : PA) : olderThan a b = !cfgLe b a := by
  unfold olderThan
  cases hc : cfgLe b a with
  | true =>
    rw [cfgLe_iff] at hc
    simp only [Bool.not_true]
    rcases hc with h | ⟨ht, h⟩
    · have : a.time ≠ b.time := by omega
      simp only [this, ne_eq, not_false_eq_true, if_true, decide_eq_false_iff_not]; omega
    · have : ¬ a.time ≠ b.time := by omega
      simp only [this, if_false]
      rcases h with h | ⟨hn, h⟩
      · have hne : a.name ≠ b.name := fun e => by rw [e] at h; exact String.lt_irrefl _ h
        simp only [hne, ne_eq, not_false_eq_true, if_true, decide_eq_false_iff_not]
        exact String.lt_asymm h
      · have : ¬ a.name ≠ b.name := by simp [hn]
        simp only [this, if_false, decide_eq_false_iff_not]
        exact String.not_lt.mpr h
  | false =>
    simp only [Bool.not_false]
    have hc' : ¬ (cfgLe b a = true) := by simp [hc]
    rw [cfgLe_iff] at hc'
    by_cases ht : a.time = b.time
    · have : ¬ a.time ≠ b.time := by simp [ht]
      simp only [this, if_false]
      by_cases hn : a.name = b.name
      · have : ¬ a.name ≠ b.name := by simp [hn]
        simp only [this, if_false, decide_eq_true_eq]
        have : ¬ b.ns ≤ a.ns := fun h => hc' (Or.inr ⟨ht.symm, Or.inr ⟨hn.symm, h⟩⟩)
        exact String.not_le.mp this
      · simp only [hn, ne_eq, not_false_eq_true, if_true, decide_eq_true_eq]
        have h1 : ¬ b.name < a.name := fun h => hc' (Or.inr ⟨ht.symm, Or.inl h⟩)
        have h2 : a.name ≤ b.name := String.not_lt.mp h1
        have h3 : ¬ b.name ≤ a.name := fun h => hn (String.le_antisymm h2 h)
        exact String.not_le.mp h3
    · simp only [ht, ne_eq, not_false_eq_true, if_true, decide_eq_true_eq]
      have : ¬ b.time < a.time := fun h => hc' (Or.inl h)
      omega

/-- One step of the repaired "keep the older one" loop. -/
def olderStep (acc : Option PA) (p : PA) : Option PA := if takesG Fixes.all p acc then some p else acc

theorem getOldestG_all (l : List PA) : getOldestG Fixes.all l = l.foldl olderStep none := rfl

theorem foldl_olderStep_spec (l : List PA) (a : PA) :
    ∃ x, l.foldl olderStep (some a) = some x ∧ x ∈ a :: l ∧ ∀ y ∈ a :: l, cfgLe x y = true := by
  induction l generalizing a with
  | nil => exact ⟨a, rfl, List.mem_cons_self, fun y hy => by simp at hy; subst hy; exact cfgLe_refl _⟩
  | cons b t ih =>
    simp only [List.foldl_cons, olderStep, takesG, Fixes.all, if_true, olderThan_eq]
    cases hab : cfgLe a b with
    | false =>
      -- b is strictly older than a
      have hba : cfgLe b a = true := by
        have := cfgLe_total a b; simp [hab] at this; exact this
      simp only [Bool.not_false, if_true]
      obtain ⟨x, hx, hm, hmin⟩ := ih b
      refine ⟨x, hx, ?_, ?_⟩
      · exact List.mem_cons_of_mem _ hm
      · intro y hy
        rcases List.mem_cons.mp hy with rfl | hy
        · exact cfgLe_trans (hmin b List.mem_cons_self) hba
        · exact hmin y hy
    | true =>
      simp only [Bool.not_true, Bool.false_eq_true, if_false]
      obtain ⟨x, hx, hm, hmin⟩ := ih a
      refine ⟨x, hx, ?_, ?_⟩
      · rcases List.mem_cons.mp hm with rfl | hm
        · exact List.mem_cons_self
        · exact List.mem_cons_of_mem _ (List.mem_cons_of_mem _ hm)
      · intro y hy
        rcases List.mem_cons.mp hy with rfl | hy
        · exact hmin _ List.mem_cons_self
        · rcases List.mem_cons.mp hy with rfl | hy
          · exact cfgLe_trans (hmin a List.mem_cons_self) hab
          · exact hmin y (List.mem_cons_of_mem _ hy)

/-- With the repaired comparison the loop returns the specification's oldest policy, whatever the
    order in which krt enumerates the policies. -/
theorem foldl_olderStep_eq_oldest {l : List PA} (hu : UniqueKeys l) : l.foldl olderStep none = oldest l := by
  cases l with
  | nil => rfl
  | cons a t =>
    have h0 : olderStep none a = some a := by simp [olderStep, takesG]
    rw [List.foldl_cons, h0]
    obtain ⟨x, hx, hm, hmin⟩ := foldl_olderStep_spec t a
    rw [hx]
    cases ho : oldest (a :: t) with
    | none => have := oldest_eq_none.mp ho; cases this
    | some y =>
      have hy := oldest_spec ho
      rw [min_unique hu hm hy.1 (hmin y hy.1) (hy.2 x hm)]

/-! ## The selection loop of `convertedSelectorPeerAuthentications` -/

theorem ambientSel_mesh (root : String) (l : List PA) (s : Sel) :
    (l.foldl (ambientSelStep Fixes.all root) s).mesh = (l.filter (isNsPol root)).foldl olderStep s.mesh := by
  induction l generalizing s with
  | nil => rfl
  | cons c cs ih =>
    rw [List.foldl_cons, ih]
    unfold ambientSelStep
    cases hn : c.nsLevel with
    | false => simp [List.filter_cons, isNsPol, hn]; split <;> (try split) <;> rfl
    | true =>
      by_cases hr : c.ns = root
      · simp only [if_true, hr]
        have : isNsPol root c = true := by simp [isNsPol, hn, hr]
        simp only [List.filter_cons, this, if_true, List.foldl_cons, olderStep]
        split <;> rfl
      · have : isNsPol root c = false := by simp [isNsPol, hr]
        simp only [if_true, hr, if_false, List.filter_cons, this]
        split <;> rfl

theorem ambientSel_ns (root : String) (l : List PA) (s : Sel) :
    (l.foldl (ambientSelStep Fixes.all root) s).ns = (l.filter (nsQ root)).foldl olderStep s.ns := by
  induction l generalizing s with
  | nil => rfl
  | cons c cs ih =>
    rw [List.foldl_cons, ih]
    unfold ambientSelStep
    cases hn : c.nsLevel with
    | false => simp [List.filter_cons, nsQ, hn]; split <;> (try split) <;> rfl
    | true =>
      by_cases hr : c.ns = root
      · have : nsQ root c = false := by simp [nsQ, hr]
        simp only [if_true, hr, List.filter_cons, this]
        split <;> rfl
      · have : nsQ root c = true := by simp [nsQ, hn, hr]
        simp only [if_true, hr, if_false, List.filter_cons, this, List.foldl_cons, olderStep]
        split <;> rfl

theorem ambientSel_wl (root : String) (l : List PA) (s : Sel) :
    (l.foldl (ambientSelStep Fixes.all root) s).wl = (l.filter (wlQ root)).foldl olderStep s.wl := by
  induction l generalizing s with
  | nil => rfl
  | cons c cs ih =>
    rw [List.foldl_cons, ih]
    unfold ambientSelStep
    cases hn : c.nsLevel with
    | true =>
      have : wlQ root c = false := by simp [wlQ, hn]
      simp only [if_true, List.filter_cons, this]
      split <;> (try split) <;> rfl
    | false =>
      by_cases hr : c.ns = root
      · have : wlQ root c = false := by simp [wlQ, hr]
        simp [hr, List.filter_cons, this]
      · have : wlQ root c = true := by simp [wlQ, hn, hr]
        simp only [Bool.false_eq_true, if_false, ne_eq, hr, not_false_eq_true, if_true, List.filter_cons,
          this, List.foldl_cons, olderStep]
        split <;> rfl

theorem ambientSel_eq (root : String) (l : List PA) :
    ambientSel Fixes.all root l =
      { mesh := (l.filter (isNsPol root)).foldl olderStep none,
        ns := (l.filter (nsQ root)).foldl olderStep none,
        wl := (l.filter (wlQ root)).foldl olderStep none } := by
  have h1 := ambientSel_mesh root l {}
  have h2 := ambientSel_ns root l {}
  have h3 := ambientSel_wl root l {}
  unfold ambientSel
  cases h : l.foldl (ambientSelStep Fixes.all root) {} with
  | mk m n w =>
    rw [h] at h1 h2 h3
    simp only at h1 h2 h3
    rw [h1, h2, h3]

/-! ## Port lists: sorting, flags, lookup -/

theorem mem_sortPorts {l : List (Nat × PMode)} {e : Nat × PMode} : e ∈ sortPorts l ↔ e ∈ l :=
  List.mem_mergeSort

theorem any_sortPorts (l : List (Nat × PMode)) (f : Nat × PMode → Bool) : (sortPorts l).any f = l.any f := by
  rw [Bool.eq_iff_iff]
  simp only [List.any_eq_true, mem_sortPorts]

/-- Keys of a Go map are distinct. -/
def PortsNodup (ports : List (Nat × PMode)) : Prop := (ports.map (fun e => e.1)).Nodup

instance (ports : List (Nat × PMode)) : Decidable (PortsNodup ports) := by
  unfold PortsNodup; infer_instance

/-- Under distinct keys, "some entry for `port` has mode `m`" is `lookup`. -/
theorem any_hit_eq_lookup {ports : List (Nat × PMode)} (hn : PortsNodup ports) (port : Nat) (m : PMode) :
    ports.any (fun e => e.2 == m && port == e.1) = (ports.lookup port == some m) := by
  induction ports with
  | nil => simp
  | cons e t ih =>
    cases e with
    | mk k v =>
      unfold PortsNodup at hn
      simp only [List.map_cons, List.nodup_cons] at hn
      have iht := ih hn.2
      simp only [List.any_cons, List.lookup_cons]
      cases hk : port == k with
      | false => simp [iht]
      | true =>
        have hpk : port = k := by simpa using hk
        have hnone : t.any (fun e => e.2 == m && port == e.1) = false := by
          rw [List.any_eq_false]
          intro e he
          have : e.1 ≠ k := fun h => hn.1 (List.mem_map.mpr ⟨e, he, h⟩)
          have : (port == e.1) = false := by simp [hpk]; exact fun h => this h.symm
          simp [this]
        simp [hnone]

theorem any_filter_map {α β : Type} (l : List α) (p : α → Bool) (f : α → β) (q : β → Bool) :
    ((l.filter p).map f).any q = l.any (fun e => p e && q (f e)) := by
  induction l with
  | nil => rfl
  | cons a t ih =>
    simp only [List.filter_cons, List.any_cons]
    cases hp : p a <;> simp [ih]

theorem all_filter_map {α β : Type} (l : List α) (p : α → Bool) (f : α → β) (q : β → Bool) :
    ((l.filter p).map f).all q = !(l.any (fun e => p e && !q (f e))) := by
  induction l with
  | nil => rfl
  | cons a t ih =>
    simp only [List.filter_cons, List.any_cons]
    cases hp : p a <;> simp [ih]

theorem isEmpty_filter_map {α β : Type} (l : List α) (p : α → Bool) (f : α → β) :
    ((l.filter p).map f).isEmpty = !(l.any p) := by
  induction l with
  | nil => rfl
  | cons a t ih =>
    simp only [List.filter_cons, List.any_cons]
    cases hp : p a <;> simp [ih]

theorem any_or_split {α : Type} (l : List α) (f g : α → Bool) :
    l.any (fun e => f e || g e) = (l.any f || l.any g) := by
  induction l with
  | nil => rfl
  | cons a t ih => simp only [List.any_cons, ih]; cases f a <;> cases g a <;> simp

/-! ## Matching of the emitted pieces -/

def isNon (m : PMode) : Bool := m == .permissive || m == .disable

theorem pmode_beq (a b : PMode) : (a == b) = decide (a = b) := rfl

theorem gOf_matches (q : Nat) (a : Bool) (port : Nat) : AGroup.matches (gOf q) a port = (!a && port == q) := by
  by_cases h : port = q <;> simp [AGroup.matches, ARule.matches, AMatch.matches, gOf, h]

theorem rOf_matches (q : Nat) (a : Bool) (port : Nat) : ARule.matches (rOf q) a port = !(port == q) := by
  by_cases h : port = q <;> simp [ARule.matches, AMatch.matches, rOf, h]

theorem ruleNP_matches (a : Bool) (port : Nat) : ARule.matches ruleNP a port = !a := by
  simp [ARule.matches, AMatch.matches, ruleNP]

theorem staticStrict_matches (a : Bool) (port : Nat) : Authz.matches staticStrict a port = !a := by
  simp [Authz.matches, AGroup.matches, staticStrict, ruleNP_matches]

/-! ## Closed form of the port loop of `convertPeerAuthentication` -/

/-- Either `continue` of the PERMISSIVE / DISABLE port case. -/
def portIgnored (mode : PMode) (nsM rootM : Option PMode) : Bool :=
  (mode == .permissive || mode == .disable) || nonStrictPortIgnored mode nsM rootM

theorem conv_fold (f2 : Bool) (mode : PMode) (nsM rootM : Option PMode) (l : List (Nat × PMode)) (st : ConvSt) :
    l.foldl (convStep f2 mode nsM rootM) st =
      { groups := st.groups ++
          (if strictPortSkipped f2 mode nsM rootM then []
           else (l.filter (fun e => e.2 == .strict)).map (fun e => gOf e.1)),
        rules := st.rules ++
          (if portIgnored mode nsM rootM then []
           else (l.filter (fun e => isNon e.2)).map (fun e => rOf e.1)),
        foundNon := st.foundNon || (!portIgnored mode nsM rootM && l.any (fun e => isNon e.2)) } := by
  induction l generalizing st with
  | nil => cases st; simp
  | cons e t ih =>
    rw [List.foldl_cons, ih]
    cases e with
    | mk k v =>
      unfold convStep portIgnored
      cases v with
      | strict =>
        simp only [isNon, List.filter_cons, List.any_cons]
        cases hS : strictPortSkipped f2 mode nsM rootM <;> simp [pmode_beq]
      | unset =>
        simp [isNon, List.filter_cons, pmode_beq]
      | permissive =>
        simp only [isNon, List.filter_cons, List.any_cons]
        cases h1 : (mode == .permissive || mode == .disable) <;>
          cases h2 : nonStrictPortIgnored mode nsM rootM <;> simp [pmode_beq]
      | disable =>
        simp only [isNon, List.filter_cons, List.any_cons]
        cases h1 : (mode == .permissive || mode == .disable) <;>
          cases h2 : nonStrictPortIgnored mode nsM rootM <;> simp [pmode_beq]

end IstioModel.C10
