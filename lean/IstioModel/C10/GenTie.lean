import IstioModel.C10.Chains
import IstioModel.Generated.C10Chains

/-!
C10 - T-gen tie: the filter-chain model equals the table regenerated from the real
`getFilterChainMatchOptions` / `InboundMTLSSettings` / `ToTransportSocket` on this run
(whole finite domain: 4 modes x 4 listener protocols).
-/
namespace IstioModel.C10

def MTLS.toNat : MTLS → Nat
  | .unknown => 0 | .disable => 1 | .permissive => 2 | .strict => 3

def LProto.toNat : LProto → Nat
  | .unknown => 0 | .tcp => 1 | .http => 2 | .auto => 3

def bInt (b : Bool) : Int := if b then 1 else 0

def Chain.encode (c : Chain) : List Int × List String :=
  ([bInt c.transportTLS, bInt c.terminate, bInt c.http,
    (match c.sock with | .none => 0 | .tls => 1 | .mtls => 2)], c.alpn)

/-- The model's table in the generated file's format (with the real application-protocol lists). -/
def modelTable : List (Nat × Nat × List (List Int × List String)) :=
  MTLS.all.flatMap fun m => LProto.all.map fun p => (m.toNat, p.toNat, (chains m p).map Chain.encode)

/-- The model of the filter-chain table is the real table, on the whole domain. -/
theorem chains_model_eq_impl : modelTable = IstioModel.Generated.C10Chains.impl := by decide

end IstioModel.C10
