import IstioModel.C10.AmbientCore
import IstioModel.C10.Theorems

/-!
# C10 - property theorems, part 3: ambient

"... and the policy sent to ambient node proxies rejects unauthenticated peers on exactly the ports
whose effective mode is STRICT."

`ambient_strict_exact` is proved at full strength for the code in /repo (after the five `fix:`
commits F2, F3, F10, F11, F12): for every list of policies in every enumeration order (krt gives
no order), every workload and every port.  Hypotheses: `UniqueKeys` (Kubernetes) and `AllPortsNodup`
(the port-level settings are a Go map).  For each repaired defect a `..._witness_unfixed` theorem
shows that the statement is false for the pinned tree's behaviour (the same witnesses are replayed
on the real code from harness/corpus/C10).
-/
set_option linter.unusedSimpArgs false

namespace IstioModel.C10

/-! ## The finite core: keys + converted policy against the precedence rule, on the summary -/

def inheritOpt (m : Option PMode) (parent : MTLS) : MTLS :=
  match m with
  | none => parent
  | some x => inherit x parent

/-- `effectiveMode` on modes: mesh, namespace, workload policy mode (`none` = no such policy) and
    the workload policy's entry for the port. -/
def effAbs (meshM nsM wlM here : Option PMode) : MTLS :=
  inheritOpt here (inheritOpt wlM (inheritOpt nsM (inheritOpt meshM .permissive)))

/-- Does what ztunnel receives reject an unauthenticated peer on the port (summary form). -/
def deniedAbs (meshM nsM : Option PMode) (wlM : PMode) (s : PSum) : Bool :=
  let k := keysAbs meshM nsM wlM s
  k.static || (k.ref && convAbs wlM nsM meshM s == some true)

def allModes : List PMode := [.unset, .disable, .permissive, .strict]
def allOpt : List (Option PMode) := none :: allModes.map some
def allBool : List Bool := [false, true]
def allSums : List PSum :=
  allOpt.flatMap fun h => allBool.flatMap fun a => allBool.flatMap fun b => allBool.map fun c => ⟨h, a, b, c⟩

/-- The whole finite table: 5 mesh x 5 namespace x 4 workload modes x 40 summaries. -/
def coreTable : Bool :=
  allOpt.all fun meshM => allOpt.all fun nsM => allModes.all fun wlM => allSums.all fun s =>
    !s.consistent || (deniedAbs meshM nsM wlM s == (effAbs meshM nsM (some wlM) s.here == .strict))

theorem coreTable_true : coreTable = true := by decide +kernel

theorem mem_allModes (m : PMode) : m ∈ allModes := by cases m <;> decide
theorem mem_allOpt (m : Option PMode) : m ∈ allOpt := by
  rcases m with _ | m
  · decide
  · cases m <;> decide
theorem mem_allSums (s : PSum) : s ∈ allSums := by
  rcases s with ⟨h, a, b, c⟩
  rcases h with _ | h
  · cases a <;> cases b <;> cases c <;> decide
  · cases h <;> cases a <;> cases b <;> cases c <;> decide

/-- Exactness on the summary, for every consistent summary (kernel-checked table, lifted). -/
theorem core_abs (meshM nsM : Option PMode) (wlM : PMode) (s : PSum) (hc : s.consistent = true) :
    deniedAbs meshM nsM wlM s = (effAbs meshM nsM (some wlM) s.here == .strict) := by
  have h := coreTable_true
  unfold coreTable at h
  simp only [List.all_eq_true] at h
  have := h meshM (mem_allOpt _) nsM (mem_allOpt _) wlM (mem_allModes _) s (mem_allSums _)
  simpa [hc] using this

/-- Without a workload policy only the static STRICT policy can be referenced. -/
theorem core_no_wl (meshM nsM : Option PMode) :
    inheritedStrict meshM nsM = (effAbs meshM nsM none none == .strict) := by
  rcases meshM with _ | a <;> rcases nsM with _ | b
  · decide
  · cases b <;> decide
  · cases a <;> decide
  · cases a <;> cases b <;> decide

/-! ## What the repaired selection picks: the specification's policies, in any enumeration order -/

theorem own_filter_eq (w : Workload) (p : PA) :
    (p.ns == w.ns &&
      (match p.selector with
       | none => true
       | some l => subsetOf l w.labels)) = (p.ns == w.ns && selects p w) := by
  unfold selects PA.matchLabels
  cases p.selector with
  | none => simp [subsetOf]
  | some l => rfl

theorem selNilG_all (p : PA) : selNilG Fixes.all p = p.nsLevel := rfl

theorem ambientFetch_eq (root : String) (pas : List PA) (w : Workload) :
    ambientFetch root pas w =
      pas.filter (fun p => p.ns == w.ns && selects p w) ++
        (if w.ns ≠ root then pas.filter (fun p => p.ns == root && p.nsLevel) else []) := by
  unfold ambientFetch ambientFetchG
  congr 1
  apply List.filter_congr
  intro p _
  exact own_filter_eq w p

theorem fetch_filter_mesh (root : String) (pas : List PA) (w : Workload) :
    (ambientFetch root pas w).filter (isNsPol root) = pas.filter (isNsPol root) := by
  rw [ambientFetch_eq, List.filter_append, List.filter_filter]
  by_cases hr : w.ns = root
  · simp only [hr, ne_eq, not_true_eq_false, if_false, List.filter_nil, List.append_nil]
    apply List.filter_congr
    intro p _
    cases hq : isNsPol root p with
    | false => simp
    | true =>
      have h1 : p.nsLevel = true ∧ p.ns = root := by simpa [isNsPol] using hq
      simp [selects_of_nsLevel w h1.1, h1.2]
  · simp only [ne_eq, hr, not_false_eq_true, if_true, List.filter_filter]
    have h1 : pas.filter (fun p => isNsPol root p && (p.ns == w.ns && selects p w)) = [] := by
      rw [List.filter_eq_nil_iff]
      intro p _
      by_cases hp : p.ns = root
      · have : (p.ns == w.ns) = false := by simp [hp]; exact fun h => hr h.symm
        simp [this]
      · simp [isNsPol, hp]
    rw [h1, List.nil_append]
    apply List.filter_congr
    intro p _
    cases hn : p.nsLevel <;> simp [isNsPol, hn]

theorem fetch_filter_ns (root : String) (pas : List PA) (w : Workload) :
    (ambientFetch root pas w).filter (nsQ root) = if w.ns = root then [] else pas.filter (isNsPol w.ns) := by
  rw [ambientFetch_eq, List.filter_append, List.filter_filter]
  by_cases hr : w.ns = root
  · simp only [hr, ne_eq, not_true_eq_false, if_false, List.filter_nil, List.append_nil, if_true]
    rw [List.filter_eq_nil_iff]
    intro p _
    by_cases hp : p.ns = root
    · simp [nsQ, hp]
    · simp [hp]
  · simp only [ne_eq, hr, not_false_eq_true, if_true, List.filter_filter, if_false]
    have h2 : pas.filter (fun p => nsQ root p && (p.ns == root && p.nsLevel)) = [] := by
      rw [List.filter_eq_nil_iff]
      intro p _
      by_cases hp : p.ns = root
      · simp [nsQ, hp]
      · simp [hp]
    rw [h2, List.append_nil]
    apply List.filter_congr
    intro p _
    cases hn : p.nsLevel with
    | false => simp [nsQ, isNsPol, hn]
    | true =>
      by_cases hc : p.ns = w.ns
      · simp [nsQ, isNsPol, hn, hc, hr, selects_of_nsLevel w hn]
      · have hb : (p.ns == w.ns) = false := by simp [hc]
        simp [nsQ, isNsPol, hn, hb]

theorem fetch_filter_wl (root : String) (pas : List PA) (w : Workload) :
    (ambientFetch root pas w).filter (wlQ root) = if w.ns = root then [] else pas.filter (wlCand w) := by
  rw [ambientFetch_eq, List.filter_append, List.filter_filter]
  by_cases hr : w.ns = root
  · simp only [hr, ne_eq, not_true_eq_false, if_false, List.filter_nil, List.append_nil, if_true]
    rw [List.filter_eq_nil_iff]
    intro p _
    by_cases hp : p.ns = root
    · simp [wlQ, hp]
    · simp [hp]
  · simp only [ne_eq, hr, not_false_eq_true, if_true, List.filter_filter, if_false]
    have h2 : pas.filter (fun p => wlQ root p && (p.ns == root && p.nsLevel)) = [] := by
      rw [List.filter_eq_nil_iff]
      intro p _
      cases hn : p.nsLevel <;> simp [wlQ, hn]
    rw [h2, List.append_nil]
    apply List.filter_congr
    intro p _
    cases hn : p.nsLevel with
    | true => simp [wlQ, wlCand, hn]
    | false =>
      by_cases hc : p.ns = w.ns
      · simp [wlQ, wlCand, hn, hc, hr]
      · have hb : (p.ns == w.ns) = false := by simp [hc]
        simp [wlQ, wlCand, hn, hb]

theorem wlPolicy_eq_cand (ps : List PA) (root : String) (w : Workload) :
    wlPolicy ps root w = if w.ns = root then none else oldest (ps.filter (wlCand w)) := by
  unfold wlPolicy
  congr 2
  apply List.filter_congr
  intro p _
  simp [wlCand, Bool.and_assoc]

/-- **The repaired selection loop picks exactly the specification's three policies**, for every
    enumeration order of the policies. -/
theorem ambientSel_spec {pas : List PA} (hu : UniqueKeys pas) (root : String) (w : Workload) :
    ambientSel Fixes.all root (ambientFetch root pas w) =
      { mesh := meshPolicy pas root, ns := nsPolicy pas root w.ns, wl := wlPolicy pas root w } := by
  rw [ambientSel_eq, fetch_filter_mesh, fetch_filter_ns, fetch_filter_wl, wlPolicy_eq_cand]
  rw [foldl_olderStep_eq_oldest (uniqueKeys_filter hu _)]
  by_cases hr : w.ns = root
  · simp [hr, nsPolicy, meshPolicy, isNsPol]
    rfl
  · simp only [hr, if_false, foldl_olderStep_eq_oldest (uniqueKeys_filter hu _), nsPolicy, meshPolicy]
    rfl

/-- The namespace and mesh policies handed to `convertPeerAuthentication` for a workload policy of
    namespace `n` are the specification's. -/
theorem derived_nsCfg {pas : List PA} (hu : UniqueKeys pas) (root n : String) (hn : n ≠ root) :
    getOldestG Fixes.all (pas.filter (fun p => p.ns == n && selNilG Fixes.all p)) = nsPolicy pas root n := by
  rw [getOldestG_all, foldl_olderStep_eq_oldest (uniqueKeys_filter hu _)]
  unfold nsPolicy
  simp only [hn, if_false]
  congr 1
  apply List.filter_congr
  intro p _
  simp [selNilG_all, Bool.and_comm]

theorem derived_rootCfg {pas : List PA} (hu : UniqueKeys pas) (root : String) :
    getOldestG Fixes.all (pas.filter (fun p => p.ns == root && selNilG Fixes.all p)) = meshPolicy pas root := by
  rw [getOldestG_all, foldl_olderStep_eq_oldest (uniqueKeys_filter hu _)]
  unfold meshPolicy
  congr 1
  apply List.filter_congr
  intro p _
  simp [selNilG_all, Bool.and_comm]

theorem convCore_nil (fx : Fixes) (mode : PMode) (nsM rootM : Option PMode) :
    convCore fx mode [] nsM rootM = none := by
  unfold convCore sortPorts
  cases mode <;> simp

/-! ## Clause 3: ambient exactness -/

/-- Port-level settings are a Go map: distinct ports in every policy. -/
def AllPortsNodup (pas : List PA) : Prop := ∀ p ∈ pas, PortsNodup p.ports

instance (pas : List PA) : Decidable (AllPortsNodup pas) := by
  unfold AllPortsNodup; infer_instance

theorem inheritFrom_eq_opt (p : Option PA) (parent : MTLS) : inheritFrom p parent = inheritOpt (modeOf p) parent := by
  cases p <;> rfl

/-- **ambient_strict_exact.**  For every set of PeerAuthentication policies, enumerated by krt in any
    order, every workload and every port: the DENY policies that the workload references and that
    istiod sends (static STRICT policy and/or the converted workload policy), evaluated with the
    ztunnel semantics, reject an unauthenticated peer on the port **iff** the port's effective mode
    is STRICT. -/
theorem ambient_strict_exact {pas : List PA} (hu : UniqueKeys pas) (hp : AllPortsNodup pas)
    (root : String) (w : Workload) (port : Nat) :
    denied root pas w false port = true ↔ effectiveMode pas root w port = .strict := by
  have hsel := ambientSel_spec hu root w
  unfold denied deniedG attachedG ambientKeysG
  rw [show ambientFetchG Fixes.all root pas w = ambientFetch root pas w from rfl, hsel]
  unfold effectiveMode wlModeSpec nsModeSpec meshMode
  simp only [inheritFrom_eq_opt]
  cases hw : wlPolicy pas root w with
  | none =>
    have hk : keysOfSel Fixes.all { mesh := meshPolicy pas root, ns := nsPolicy pas root w.ns, wl := none } =
        { static := inheritedStrict (modeOf (meshPolicy pas root)) (modeOf (nsPolicy pas root w.ns)), wl := none } := rfl
    rw [hk]
    unfold attachedOf
    dsimp only
    generalize modeOf (meshPolicy pas root) = M
    generalize modeOf (nsPolicy pas root w.ns) = N
    have hs : inheritedStrict M N = (effAbs M N none none == .strict) := core_no_wl M N
    have he : inheritOpt (modeOf none) (inheritOpt N (inheritOpt M .permissive)) = effAbs M N none none := rfl
    rw [he, hs]
    cases hb : (effAbs M N none none == MTLS.strict) with
    | true =>
      have : effAbs M N none none = .strict := by simpa using hb
      simp [staticStrict_matches, this]
    | false =>
      have : effAbs M N none none ≠ .strict := by simpa using hb
      simp [this]
  | some p =>
    have hwp := root_selector_policy_ignored hw
    have hpm : p ∈ pas := by
      unfold wlPolicy at hw
      split at hw
      · cases hw
      · exact (List.mem_filter.mp (oldest_spec hw).1).1
    have hpns : p.ns = w.ns := by
      unfold wlPolicy at hw
      split at hw
      · cases hw
      · have := (List.mem_filter.mp (oldest_spec hw).1).2
        simp only [Bool.and_eq_true, beq_iff_eq] at this
        exact this.1.2
    have hwr : w.ns ≠ root := hpns ▸ hwp.1
    -- the converted policy
    have hconv : derivedPolicyG Fixes.all root pas p =
        convCore Fixes.all p.mtls p.ports (modeOf (nsPolicy pas root w.ns)) (modeOf (meshPolicy pas root)) := by
      unfold derivedPolicyG convertPAG
      rw [hpns, derived_nsCfg hu root w.ns hwr, derived_rootCfg hu root]
      have h1 : (w.ns == root) = false := by simp [hwr]
      simp only [h1, selNilG_all, hwp.2.1, Bool.false_or]
      cases hpe : p.ports with
      | nil => simp [convCore_nil]
      | cons e t => simp
    have hbridge := conv_bridge (hp p hpm) p.mtls (modeOf (nsPolicy pas root w.ns)) (modeOf (meshPolicy pas root)) port
    have hkeys := keysCore_eq_abs (modeOf (meshPolicy pas root)) (modeOf (nsPolicy pas root w.ns)) p.mtls p.ports port
    have hcore := core_abs (modeOf (meshPolicy pas root)) (modeOf (nsPolicy pas root w.ns)) p.mtls
      (summary p.ports port) (summary_consistent _ _)
    have hk : keysOfSel Fixes.all { mesh := meshPolicy pas root, ns := nsPolicy pas root w.ns, wl := some p } =
        { static := (keysCore Fixes.all (modeOf (meshPolicy pas root)) (modeOf (nsPolicy pas root w.ns)) p.mtls p.ports).static,
          wl := if (keysCore Fixes.all (modeOf (meshPolicy pas root)) (modeOf (nsPolicy pas root w.ns)) p.mtls p.ports).ref
                then some p else none } := rfl
    rw [hk, hkeys]
    -- denied = deniedAbs
    have hden : (attachedOf Fixes.all root pas
          { static := (keysAbs (modeOf (meshPolicy pas root)) (modeOf (nsPolicy pas root w.ns)) p.mtls (summary p.ports port)).static,
            wl := if (keysAbs (modeOf (meshPolicy pas root)) (modeOf (nsPolicy pas root w.ns)) p.mtls (summary p.ports port)).ref
                  then some p else none }).any (fun a => a.matches false port) =
        deniedAbs (modeOf (meshPolicy pas root)) (modeOf (nsPolicy pas root w.ns)) p.mtls (summary p.ports port) := by
      unfold deniedAbs attachedOf
      rw [← hbridge]
      generalize keysAbs (modeOf (meshPolicy pas root)) (modeOf (nsPolicy pas root w.ns)) p.mtls (summary p.ports port) = k
      rcases k with ⟨st, rf⟩
      cases st <;> cases rf <;> simp only [if_true, if_false, Bool.false_eq_true, List.nil_append,
        List.any_nil, Bool.false_or, Bool.false_and, Bool.true_or, Bool.true_and, List.cons_append,
        List.any_cons, staticStrict_matches, Bool.not_false, Bool.or_false, hconv, List.append_nil]
      all_goals
        cases convCore Fixes.all p.mtls p.ports (modeOf (nsPolicy pas root w.ns)) (modeOf (meshPolicy pas root)) with
        | none => simp
        | some a => cases hm : a.matches false port <;> simp [hm]
    rw [hden, hcore]
    simp only [effAbs, summary, modeOf, Option.map_some, inheritOpt, beq_iff_eq]
    cases p.ports.lookup port <;> rfl

/-! ## No dangling reference -/

/-- Whenever the keys reference the converted workload policy, the conversion emits one (summary form). -/
def danglingTable : Bool :=
  allOpt.all fun meshM => allOpt.all fun nsM => allModes.all fun wlM => allSums.all fun s =>
    !s.consistent || !(keysAbs meshM nsM wlM s).ref || (convAbs wlM nsM meshM s).isSome

theorem danglingTable_true : danglingTable = true := by decide +kernel

theorem ref_imp_conv_some (meshM nsM : Option PMode) (wlM : PMode) (s : PSum) (hc : s.consistent = true)
    (hr : (keysAbs meshM nsM wlM s).ref = true) : (convAbs wlM nsM meshM s).isSome = true := by
  have h := danglingTable_true
  unfold danglingTable at h
  simp only [List.all_eq_true] at h
  have := h meshM (mem_allOpt _) nsM (mem_allOpt _) wlM (mem_allModes _) s (mem_allSums _)
  simpa [hc, hr] using this

/-- What `PeerAuthDerivedPolicies` sends for the specification's workload policy. -/
theorem derived_of_wlPolicy {pas : List PA} (hu : UniqueKeys pas) (root : String) (w : Workload) {p : PA}
    (hw : wlPolicy pas root w = some p) :
    p ∈ pas ∧ derivedPolicyG Fixes.all root pas p =
      convCore Fixes.all p.mtls p.ports (modeOf (nsPolicy pas root w.ns)) (modeOf (meshPolicy pas root)) := by
  have hwp := root_selector_policy_ignored hw
  have hmem : p ∈ pas.filter (fun q => !q.nsLevel && q.ns == w.ns && selects q w) := by
    unfold wlPolicy at hw
    split at hw
    · cases hw
    · exact (oldest_spec hw).1
  have hpm : p ∈ pas := (List.mem_filter.mp hmem).1
  have hpns : p.ns = w.ns := by
    have := (List.mem_filter.mp hmem).2
    simp only [Bool.and_eq_true, beq_iff_eq] at this
    exact this.1.2
  have hwr : w.ns ≠ root := hpns ▸ hwp.1
  refine ⟨hpm, ?_⟩
  unfold derivedPolicyG convertPAG
  rw [hpns, derived_nsCfg hu root w.ns hwr, derived_rootCfg hu root]
  have h1 : (w.ns == root) = false := by simp [hwr]
  simp only [h1, selNilG_all, hwp.2.1, Bool.false_or]
  cases hpe : p.ports with
  | nil => simp [convCore_nil]
  | cons e t => simp

/-- **no_dangling.**  A workload never references a converted PeerAuthentication policy that istiod
    does not send (on the pinned tree it did: F2, F10 - the reference replaced the static STRICT
    policy and pointed at nothing). -/
theorem no_dangling {pas : List PA} (hu : UniqueKeys pas) (hp : AllPortsNodup pas) (root : String)
    (w : Workload) (p : PA) (hk : (ambientKeys root (ambientFetch root pas w)).wl = some p) :
    derivedPolicy root pas p ≠ none := by
  unfold ambientKeys ambientKeysG at hk
  rw [ambientSel_spec hu root w] at hk
  unfold keysOfSel at hk
  cases hw : wlPolicy pas root w with
  | none => simp [hw] at hk
  | some q =>
    simp only [hw] at hk
    have hd := derived_of_wlPolicy hu root w hw
    cases hr : (keysCore Fixes.all (modeOf (meshPolicy pas root)) (modeOf (nsPolicy pas root w.ns)) q.mtls q.ports).ref with
    | false => simp [hr] at hk
    | true =>
      simp only [hr, if_true, Option.some.injEq] at hk
      subst hk
      have hbridge := conv_bridge (hp q hd.1) q.mtls (modeOf (nsPolicy pas root w.ns)) (modeOf (meshPolicy pas root)) 0
      rw [keysCore_eq_abs _ _ _ _ 0] at hr
      have hsome := ref_imp_conv_some _ _ _ _ (summary_consistent q.ports 0) hr
      show derivedPolicyG Fixes.all root pas q ≠ none
      rw [hd.2]
      intro hnone
      rw [hnone, Option.map_none] at hbridge
      rw [← hbridge] at hsome
      cases hsome

/-- The statement of `ambient_strict_exact` for a given set of repairs. -/
def StrictExactFor (fx : Fixes) : Prop :=
  ∀ (pas : List PA) (root : String) (w : Workload) (port : Nat), UniqueKeys pas → AllPortsNodup pas →
    (deniedG fx root pas w false port = true ↔ effectiveMode pas root w port = .strict)

/-- `ambient_strict_exact`, as a statement about the repaired code. -/
theorem ambient_strict_exact_all : StrictExactFor Fixes.all :=
  fun _ root w port hu hp => ambient_strict_exact hu hp root w port

/-- Every component agrees: the sidecar-side resolver says STRICT for a port exactly when the
    policies sent to ztunnel reject an unauthenticated peer on it. -/
theorem sidecar_ambient_agree {pas : List PA} (hu : UniqueKeys pas) (hp : AllPortsNodup pas)
    (root : String) (w : Workload) (hs : w.svcNs = []) (port : Nat) :
    workloadMode root pas w port = .strict ↔ denied root pas w false port = true := by
  rw [compose_eq_spec hu root w hs, ambient_strict_exact hu hp]

theorem allPortsNodup_perm {pas pas' : List PA} (hp : AllPortsNodup pas) (h : pas.Perm pas') : AllPortsNodup pas' :=
  fun p hm => hp p (h.mem_iff.mpr hm)

/-- What ztunnel enforces does not depend on the order in which krt enumerates the policies
    (on the pinned tree it did: see `ambient_witness_unfixed_f11`). -/
theorem ambient_order_independent {pas pas' : List PA} (hu : UniqueKeys pas) (hp : AllPortsNodup pas)
    (h : pas.Perm pas') (root : String) (w : Workload) (port : Nat) :
    denied root pas w false port = denied root pas' w false port := by
  rw [Bool.eq_iff_iff, ambient_strict_exact hu hp,
    ambient_strict_exact (uniqueKeys_perm hu h) (allPortsNodup_perm hp h),
    effectiveMode_order_independent hu h]

/-! ## Authenticated peers are never rejected by these policies -/

theorem groups_no_auth (l : List (Nat × PMode)) (port : Nat) :
    ((l.filter (fun e => e.2 == .strict)).map (fun e => gOf e.1)).any (fun g => AGroup.matches g true port) = false := by
  rw [any_filter_map]
  simp [gOf_matches]

theorem rules_auth_of_np {rules : List ARule} (h : ruleNP ∈ rules) (port : Nat) :
    AGroup.matches rules true port = false := by
  unfold AGroup.matches
  rw [List.all_eq_false]
  exact ⟨ruleNP, h, by simp [ruleNP_matches]⟩

/-- If an exemption rule was emitted under a non-STRICT workload mode, the inherited mode is STRICT
    and the "no identity" rule is merged in. -/
theorem merge_of_not_ignored (mode : PMode) (nsM rootM : Option PMode)
    (h1 : (mode == .strict) = false) (h2 : portIgnored mode nsM rootM = false) :
    shouldMergeStrict nsM rootM = true := by
  rcases nsM with _ | a <;> rcases rootM with _ | b
  · cases mode <;> revert h1 h2 <;> decide
  · cases mode <;> cases b <;> revert h1 h2 <;> decide
  · cases mode <;> cases a <;> revert h1 h2 <;> decide
  · cases mode <;> cases a <;> cases b <;> revert h1 h2 <;> decide

theorem conv_auth (mode : PMode) (ports : List (Nat × PMode)) (nsM0 rootM : Option PMode) (port : Nat)
    (a : Authz) (h : convCore Fixes.all mode ports nsM0 rootM = some a) : a.matches true port = false := by
  unfold convCore at h
  simp only [Fixes.all, if_true, conv_fold, List.nil_append, Bool.false_or] at h
  generalize hskip : strictPortSkipped true mode (dropUnset nsM0) rootM = skip at h
  generalize hign : portIgnored mode (dropUnset nsM0) rootM = ign at h
  have hmerge := merge_of_not_ignored mode (dropUnset nsM0) rootM
  generalize shouldMergeStrict (dropUnset nsM0) rootM = merge at h hmerge
  generalize hG : (if skip = true then ([] : List AGroup)
        else ((sortPorts ports).filter (fun e => e.2 == .strict)).map (fun e => gOf e.1)) = G at h
  have hGM : G.any (fun g => AGroup.matches g true port) = false := by
    rw [← hG]; cases skip
    · simp only [Bool.false_eq_true, if_false]; exact groups_no_auth _ _
    · rfl
  generalize hEx : (if ign = true then ([] : List ARule)
        else ((sortPorts ports).filter (fun e => isNon e.2)).map (fun e => rOf e.1)) = EX at h
  generalize hF : (!ign && (sortPorts ports).any (fun e => isNon e.2)) = found at h
  have hEXF : found = false → EX = [] := by
    intro hf
    rw [← hEx]
    cases ign
    · simp only [Bool.false_eq_true, if_false]
      rw [← hF] at hf
      simp only [Bool.not_false, Bool.true_and] at hf
      have := isEmpty_filter_map (sortPorts ports) (fun e => isNon e.2) (fun e => rOf e.1)
      rw [hf] at this
      simpa using this
    · rfl
  have hmatch : ∀ rules : List ARule, ruleNP ∈ rules →
      Authz.matches (if rules.isEmpty = true then G else G ++ [rules]) true port = false := by
    intro rules hnp
    have hne : rules.isEmpty = false := by cases rules <;> simp_all
    simp only [hne, Bool.false_eq_true, if_false, authz_matches_append, hGM, rules_auth_of_np hnp, Bool.or_false]
  cases hm : (mode == PMode.strict) with
  | true =>
    rw [hm] at h
    simp only [if_true, Bool.true_and] at h
    cases found with
    | false => simp at h
    | true =>
      have hne : (([ruleNP] ++ EX).isEmpty && G.isEmpty) = false := by simp
      simp only [Bool.not_true, Bool.false_eq_true, if_false, hne, Option.some.injEq] at h
      rw [← h]; apply hmatch; cases merge <;> simp
  | false =>
    rw [hm] at h
    simp only [Bool.false_eq_true, if_false, Bool.false_and, List.nil_append] at h
    cases hfd : found with
    | false =>
      rw [hfd] at h
      have hE := hEXF hfd
      subst hE
      simp only [List.isEmpty_nil, Bool.true_and, Bool.and_false, Bool.false_eq_true, if_false, if_true] at h
      split at h
      · cases h
      · simp only [Option.some.injEq] at h; rw [← h]
        simp only [Authz.matches]; exact hGM
    | true =>
      rw [hfd] at h
      have hmg : merge = true := by
        apply hmerge hm
        rw [← hF] at hfd
        cases ign
        · exact hign
        · simp at hfd
      rw [hmg] at h
      simp only [Bool.true_and, Bool.and_true, if_true] at h
      split at h
      · cases h
      · simp only [Option.some.injEq] at h; rw [← h]; exact hmatch _ (by simp)

/-- **ambient_never_rejects_authenticated.**  None of the policies derived from PeerAuthentication
    rejects a peer that presents an identity (PERMISSIVE and DISABLE ports stay reachable over mTLS). -/
theorem ambient_never_rejects_authenticated (pas : List PA) (root : String) (w : Workload) (port : Nat) :
    denied root pas w true port = false := by
  unfold denied deniedG attachedG attachedOf
  generalize ambientKeysG Fixes.all root (ambientFetchG Fixes.all root pas w) = k
  rcases k with ⟨st, wl⟩
  rw [List.any_append]
  have h1 : (if st = true then [staticStrict] else []).any (fun p => p.matches true port) = false := by
    cases st <;> simp [staticStrict_matches]
  rw [h1, Bool.false_or]
  cases wl with
  | none => rfl
  | some p =>
    dsimp only
    cases hd : derivedPolicyG Fixes.all root pas p with
    | none => rfl
    | some a =>
      simp only [List.any_cons, List.any_nil, Bool.or_false]
      unfold derivedPolicyG convertPAG at hd
      split at hd
      · cases hd
      · exact conv_auth _ _ _ _ port a hd

/-! ## The pinned tree violated the statement: one witness per repaired defect

Each witness is also a corpus case (harness/corpus/C10/ambient.f*.ops) replayed on the real code. -/

theorem sortPorts_singleton (e : Nat × PMode) : sortPorts [e] = [e] := List.mergeSort_singleton e

def wlA : Workload := { ns := "ns1", labels := [("app", "a")] }
def meshStrict : PA :=
  { name := "mesh", ns := "istio-system", time := 100, selector := none, mtls := .strict, ports := [] }

/-- F2: mesh STRICT, workload mode PERMISSIVE, port 80 STRICT, no namespace policy. -/
def f2Policies : List PA :=
  [ meshStrict,
    { name := "wl", ns := "ns1", time := 200, selector := some [("app", "a")], mtls := .permissive,
      ports := [(80, .strict)] } ]

/-- F3: mesh STRICT, workload mode UNSET, port 80 DISABLE. -/
def f3Policies : List PA :=
  [ meshStrict,
    { name := "wl", ns := "ns1", time := 200, selector := some [("app", "a")], mtls := .unset,
      ports := [(80, .disable)] } ]

/-- F10: mesh STRICT, namespace policy UNSET, workload mode UNSET, port 80 PERMISSIVE. -/
def f10Policies : List PA :=
  [ meshStrict,
    { name := "nsdef", ns := "ns1", time := 150, selector := none, mtls := .unset, ports := [] },
    { name := "wl", ns := "ns1", time := 200, selector := some [("app", "a")], mtls := .unset,
      ports := [(80, .permissive)] } ]

/-- F11: two workload policies created in the same second, enumerated "b" first. -/
def f11Policies : List PA :=
  [ { name := "b", ns := "ns1", time := 100, selector := some [("app", "a")], mtls := .strict, ports := [] },
    { name := "a", ns := "ns1", time := 100, selector := some [("app", "a")], mtls := .permissive, ports := [] } ]

/-- F12: a mesh-wide STRICT policy written with `selector: {}`. -/
def f12Policies : List PA :=
  [ { name := "mesh", ns := "istio-system", time := 100, selector := some [], mtls := .strict, ports := [] } ]

macro "ambient_eval" : tactic => `(tactic|
  simp [deniedG, attachedG, attachedOf, ambientKeysG, keysOfSel, ambientFetchG, f2Policies, f3Policies, f10Policies,
    f11Policies, f12Policies, meshStrict, wlA, Fixes.all, ambientSel, ambientSelStep, PA.nsLevel, takesG, olderThan,
    selNilG, subsetOf, keysCore, inheritedStrict, mStrict, modeOf, portsAny, derivedPolicyG, convertPAG, convCore,
    getOldestG, sortPorts_singleton, convStep, strictPortSkipped, nonStrictPortIgnored, shouldMergeStrict,
    mUnsetOrNil, dropUnset, staticStrict_matches, Authz.matches, AGroup.matches, ARule.matches, AMatch.matches,
    ruleNP, gOf, rOf, staticStrict])

/-- F2 (before 7847b8c): the STRICT port 80 is not enforced - the converted policy is nil. -/
theorem ambient_witness_unfixed_f2 : ¬ StrictExactFor { Fixes.all with f2 := false } := by
  intro h
  have h1 := (h f2Policies "istio-system" wlA 80 (by decide) (by decide)).mpr (by decide)
  revert h1; ambient_eval

/-- F3 (before 2e93292): the DISABLE port 80 still rejects plaintext - the static STRICT policy is kept. -/
theorem ambient_witness_unfixed_f3 : ¬ StrictExactFor { Fixes.all with f3 := false } := by
  intro h
  have h1 := (h f3Policies "istio-system" wlA 80 (by decide) (by decide)).mp (by ambient_eval)
  revert h1; decide

/-- F10 (before 974620d): nothing is enforced although port 8080 is STRICT. -/
theorem ambient_witness_unfixed_f10 : ¬ StrictExactFor { Fixes.all with f10 := false } := by
  intro h
  have h1 := (h f10Policies "istio-system" wlA 8080 (by decide) (by decide)).mpr (by decide)
  revert h1; ambient_eval

/-- F11 (before 6055ffe): with the enumeration order [b, a] the STRICT policy "b" is chosen, the
    specification (and the sidecar path) choose "a" (PERMISSIVE). -/
theorem ambient_witness_unfixed_f11 : ¬ StrictExactFor { Fixes.all with f11 := false } := by
  intro h
  have h1 := (h f11Policies "istio-system" wlA 80 (by decide) (by decide)).mp (by ambient_eval)
  revert h1; decide

/-- F12 (before 115ddc3): the mesh-wide STRICT policy with an empty selector is not fetched for
    ambient workloads outside the root namespace. -/
theorem ambient_witness_unfixed_f12 : ¬ StrictExactFor { Fixes.all with f12 := false } := by
  intro h
  have h1 := (h f12Policies "istio-system" wlA 80 (by decide) (by decide)).mpr (by decide)
  revert h1; ambient_eval

/-! ## The three kinds of workloads of the ambient index (`buildWorkloadPolicies` callers) -/

/-- The statement for the workload builders: whatever kind of workload, ztunnel rejects plaintext on a port iff
    the effective mode for the workload's OWN labels is STRICT. -/
def WorkloadStrictExactFor (fx : Fixes) : Prop :=
  ∀ (pas : List PA) (root : String) (k : WKind) (ns : String) (labels mlabels : Labels) (port : Nat),
    UniqueKeys pas → AllPortsNodup pas →
    (workloadDeniedG fx root pas k ns labels mlabels false port = true ↔
      effectiveMode pas root { ns := ns, labels := ownLabels k labels mlabels } port = .strict)

theorem lookup_isNone_eq_not_any (l : Labels) (k : String) :
    (l.lookup k).isNone = !(l.any (fun m => m.1 == k)) := by
  induction l with
  | nil => rfl
  | cons a t ih =>
    obtain ⟨a1, a2⟩ := a
    by_cases h : k = a1
    · subst h; simp [List.lookup]
    · have h' : (k == a1) = false := by simpa using h
      have h'' : (a1 == k) = false := by simpa using fun e => h e.symm
      simp [List.lookup, h', h'', ih]

/-- The model's merge (`maps.MergeCopy`, via `lookup`) is the specification's. -/
theorem mergeLabels_eq_spec (labels mlabels : Labels) :
    mergeLabels labels mlabels = ownLabels .workloadEntry labels mlabels := by
  unfold mergeLabels ownLabels
  congr 1
  apply List.filter_congr
  intro kv _
  exact lookup_isNone_eq_not_any mlabels kv.1

theorem workloadLabelsFor_all (k : WKind) (labels mlabels : Labels) :
    workloadLabelsFor Fixes.all k labels mlabels = ownLabels k labels mlabels := by
  cases k
  · rfl
  · cases labels with
    | nil => simp [workloadLabelsFor, ownLabels]
    | cons a l => simp [workloadLabelsFor, mergeLabels_eq_spec]
  · rfl

/-- **ambient_workload_strict_exact.**  Pods, WorkloadEntries and inline ServiceEntry endpoints get the policies of
    their own labels (after 4999010, F15). -/
theorem ambient_workload_strict_exact : WorkloadStrictExactFor Fixes.all := by
  intro pas root k ns labels mlabels port hu hp
  have := ambient_strict_exact hu hp root { ns := ns, labels := ownLabels k labels mlabels } port
  unfold workloadDeniedG workloadKeysG
  rw [workloadLabelsFor_all]
  exact this

/-- F15: a STRICT selector policy for app=a; a ServiceEntry without metadata labels, its inline endpoint app=a. -/
def f15Policies : List PA :=
  [ { name := "wl", ns := "ns1", time := 200, selector := some [("app", "a")], mtls := .strict, ports := [] } ]

/-- F15 (before 4999010): the inline endpoint of a ServiceEntry was matched with the ServiceEntry's metadata
    labels: the STRICT policy selecting the endpoint's labels is not attached, plaintext is accepted. -/
theorem ambient_witness_unfixed_f15 : ¬ WorkloadStrictExactFor { Fixes.all with f15 := false } := by
  intro h
  have h1 := (h f15Policies "istio-system" .serviceEntryEndpoint "ns1" [("app", "a")] [] 80 (by decide) (by decide)).mpr (by decide)
  revert h1
  simp [workloadDeniedG, workloadKeysG, workloadLabelsFor, f15Policies]
  ambient_eval

/-! ## Non-vacuity -/

example : UniqueKeys f10Policies ∧ AllPortsNodup f10Policies := by decide
example : effectiveMode f10Policies "istio-system" wlA 80 = .permissive := by decide
example : effectiveMode f10Policies "istio-system" wlA 8080 = .strict := by decide
example : denied "istio-system" f10Policies wlA false 8080 = true :=
  (ambient_strict_exact (by decide) (by decide) _ _ _).mpr (by decide)
example : denied "istio-system" f10Policies wlA false 80 = false := by
  have := (ambient_strict_exact (pas := f10Policies) (by decide) (by decide) "istio-system" wlA 80)
  cases h : denied "istio-system" f10Policies wlA false 80
  · rfl
  · exact absurd (this.mp h) (by decide)

end IstioModel.C10
