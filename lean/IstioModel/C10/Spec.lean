import IstioModel.C10.Model

/-!
C10 - the property's precedence rule as a short declarative specification.

`effectiveMode policies rootNs workload port`:
  port-level mode of the oldest workload-selector policy that selects the workload
  > that policy's workload mode > oldest namespace policy > oldest mesh policy > PERMISSIVE,
  where UNSET inherits from the next wider level.  "Oldest" = least (creation time, name,
  namespace).  A policy with a selector in the root namespace is never a workload policy; for a
  workload *in* the root namespace the only applicable level is the mesh level.
-/
namespace IstioModel.C10

/-- Least element of a list for the (creation time, name, namespace) order. -/
def oldest : List PA → Option PA
  | [] => none
  | a :: t =>
    match oldest t with
    | none => some a
    | some b => if cfgLe a b then some a else some b

/-- UNSET inherits the parent's mode. -/
def inherit (m : PMode) (parent : MTLS) : MTLS :=
  if m = .unset then parent else conv m

def inheritFrom (p : Option PA) (parent : MTLS) : MTLS :=
  match p with
  | none => parent
  | some q => inherit q.mtls parent

/-- The mesh-level policy: oldest selector-less policy of the root namespace. -/
def meshPolicy (ps : List PA) (root : String) : Option PA :=
  oldest (ps.filter (fun p => p.nsLevel && p.ns == root))

/-- The namespace-level policy of a (non-root) namespace. -/
def nsPolicy (ps : List PA) (root ns : String) : Option PA :=
  if ns = root then none else oldest (ps.filter (fun p => p.nsLevel && p.ns == ns))

/-- The workload-level policy: oldest policy with a non-empty selector, in the workload's
    (non-root) namespace, whose selector matches. -/
def wlPolicy (ps : List PA) (root : String) (w : Workload) : Option PA :=
  if w.ns = root then none
  else oldest (ps.filter (fun p => !p.nsLevel && p.ns == w.ns && selects p w))

def meshMode (ps : List PA) (root : String) : MTLS :=
  inheritFrom (meshPolicy ps root) .permissive

def nsModeSpec (ps : List PA) (root ns : String) : MTLS :=
  inheritFrom (nsPolicy ps root ns) (meshMode ps root)

def wlModeSpec (ps : List PA) (root : String) (w : Workload) : MTLS :=
  inheritFrom (wlPolicy ps root w) (nsModeSpec ps root w.ns)

/-- The effective peer-authentication mode of a workload port. -/
def effectiveMode (ps : List PA) (root : String) (w : Workload) (port : Nat) : MTLS :=
  match wlPolicy ps root w with
  | none => wlModeSpec ps root w
  | some p =>
    match p.ports.lookup port with
    | none => wlModeSpec ps root w
    | some m => inherit m (wlModeSpec ps root w)

/-! ## Which labels a workload has (ambient workload kinds)

PeerAuthentication API: "selector: the selector determines the workloads to apply the PeerAuthentication on",
matched against the workload's labels.
* Pod: `metadata.labels`.
* ServiceEntry with inline `endpoints`: each endpoint is a WorkloadEntry value, "labels: one or more labels
  associated with the endpoint" - the endpoint's own labels; the labels of the ServiceEntry RESOURCE describe the
  resource, not its endpoints.
* WorkloadEntry resource: `spec.labels`, to which Istio adds the resource's `metadata.labels` (a key present in both
  takes the metadata value) - the documented behaviour of the sidecar registry (`ConvertWorkloadEntry`), so that a
  WorkloadEntry is selected the same way by every component. -/

inductive WKind
  | pod | workloadEntry | serviceEntryEndpoint
  deriving DecidableEq, Repr

/-- The labels the workload has.  `labels`: pod labels / WorkloadEntry `spec.labels` / inline endpoint labels;
    `mlabels`: the `metadata.labels` of the WorkloadEntry or ServiceEntry resource. -/
def ownLabels (k : WKind) (labels mlabels : Labels) : Labels :=
  match k with
  | .pod => labels
  | .workloadEntry => mlabels ++ labels.filter (fun kv => !(mlabels.any (fun m => m.1 == kv.1)))
  | .serviceEntryEndpoint => labels

end IstioModel.C10
