import IstioModel.C20.NatOutput

/-! C20 - the nat table at the PREROUTING hook (inbound capture in REDIRECT mode, kube-virt
    interfaces): installed chains, with the `-I PREROUTING 1` insertions, and their evaluation. -/
namespace IstioModel.C20
set_option linter.unusedSimpArgs false

/-! ## `-I chain 1` -/

theorem foldl_applyCmd_ins1 (l acc : List Rule) (h : l.all (fun r => r.op == .insert 1) = true) :
    l.foldl applyCmd acc = l.reverse ++ acc := by
  induction l generalizing acc with
  | nil => simp
  | cons r rest ih =>
    simp only [List.all_cons, Bool.and_eq_true, beq_iff_eq] at h
    simp [List.foldl_cons, applyCmd, h.1, ih (r :: acc) h.2]

theorem foldl_applyCmd_append' (l acc : List Rule) (h : allAppend l = true) :
    l.foldl applyCmd acc = acc ++ l :=
  foldl_applyCmd_append l acc (fun r hr => by simpa using (List.all_eq_true.mp h) r hr)

/-- appends, inserts-at-1, appends, inserts-at-1 (the shape of nat/PREROUTING). -/
theorem foldl_applyCmd_aiai (A I1 J I2 : List Rule) (hA : allAppend A = true) (hJ : allAppend J = true)
    (h1 : I1.all (fun r => r.op == .insert 1) = true) (h2 : I2.all (fun r => r.op == .insert 1) = true) :
    (A ++ I1 ++ J ++ I2).foldl applyCmd [] = I2.reverse ++ (I1.reverse ++ A ++ J) := by
  simp [List.foldl_append, foldl_applyCmd_append' A [] hA, foldl_applyCmd_ins1 I1 _ h1,
    foldl_applyCmd_append' J _ hJ, foldl_applyCmd_ins1 I2 _ h2]

/-! ## Closed forms -/

def Config.inboundOn (c : Config) : Bool :=
  match c.inboundInclude with
  | .none => false
  | _ => true

def preExclIfs (c : Config) : List Rule :=
  c.exclIfs.map (fun ifc => ⟨.nat, .PREROUTING, .append, [.inIf ifc], .ret⟩)

def preKubeRet (c : Config) : List Rule :=
  c.kubeVirtIfs.map (fun ifc => ⟨.nat, .PREROUTING, .insert 1, [.inIf ifc], .ret⟩)

def preInboundJump (c : Config) : List Rule :=
  if c.inboundOn && !c.tproxy then [⟨.nat, .PREROUTING, .append, [.proto .tcp], .jump .ISTIO_INBOUND⟩] else []

def preKubeRedirect (c : Config) (f : Fam) : List Rule :=
  if (inclOf c f).isWildcard then
    c.kubeVirtIfs.map (fun ifc => ⟨.nat, .PREROUTING, .insert 1, [.inIf ifc], .jump .ISTIO_REDIRECT⟩)
  else
    (inclOf c f).cidrs.flatMap (fun x => c.kubeVirtIfs.map (fun ifc =>
      ⟨.nat, .PREROUTING, .insert 1, [.inIf ifc, .dst false x], .jump .ISTIO_REDIRECT⟩))

/-- nat/ISTIO_INBOUND. -/
def chNatInbound (c : Config) : List Rule :=
  [⟨.nat, .ISTIO_INBOUND, .append, [.proto .tcp, .dport false c.inboundTunnelPort], .ret⟩] ++
  (if c.tproxy then [] else
    match c.inboundInclude with
    | .none => []
    | .all =>
      c.inboundExclude.map (fun port => ⟨.nat, .ISTIO_INBOUND, .append, [.proto .tcp, .dport false port], .ret⟩) ++
      [⟨.nat, .ISTIO_INBOUND, .append, [.proto .tcp], .jump .ISTIO_IN_REDIRECT⟩]
    | .ports l =>
      l.map (fun port => ⟨.nat, .ISTIO_INBOUND, .append, [.proto .tcp, .dport false port], .jump .ISTIO_IN_REDIRECT⟩))

theorem sel_handleInbound_natPre (c : Config) (f : Fam) :
    sel f .nat .PREROUTING (handleInboundPortsInclude c) = preInboundJump c := by
  unfold handleInboundPortsInclude preInboundJump Config.inboundOn
  cases f <;> cases ht : c.tproxy <;> cases hi : c.inboundInclude <;>
    simp [ht, hi, sel_append, sel_cons, sel_flatMap, sel_map, sel_ite, versioned, both, only, Emit.reaches,
      inboundAll, inboundPorts, Config.inTable, flatMap_nil']

theorem sel_handleInbound_natInbound (c : Config) (f : Fam) :
    sel f .nat .ISTIO_INBOUND (handleInboundPortsInclude c) =
      (if c.tproxy then [] else
        match c.inboundInclude with
        | .none => []
        | .all =>
          c.inboundExclude.map (fun port => (⟨.nat, .ISTIO_INBOUND, .append, [.proto .tcp, .dport false port], .ret⟩ : Rule)) ++
          [⟨.nat, .ISTIO_INBOUND, .append, [.proto .tcp], .jump .ISTIO_IN_REDIRECT⟩]
        | .ports l =>
          l.map (fun port => ⟨.nat, .ISTIO_INBOUND, .append, [.proto .tcp, .dport false port], .jump .ISTIO_IN_REDIRECT⟩)) := by
  unfold handleInboundPortsInclude
  cases f <;> cases ht : c.tproxy <;> cases hi : c.inboundInclude <;>
    simp [ht, hi, sel_append, sel_cons, sel_flatMap, sel_map, sel_ite, versioned, both, only, Emit.reaches,
      inboundAll, inboundPorts, Config.inTable, flatMap_nil', flatMap_singleton']

theorem sel_incl4_natPre (c : Config) (f : Fam) :
    sel f .nat .PREROUTING (handleOutboundIncludeRules c c.inclV4 .v4) =
      (match f with | .v4 => preKubeRedirect c .v4 | .v6 => []) := by
  cases f <;> cases h4 : c.inclV4.isWildcard <;>
    simp [h4, preKubeRedirect, inclOf, handleOutboundIncludeRules, sel_append, sel_cons, sel_flatMap, sel_map,
      both, only, Emit.reaches, flatMap_nil', flatMap_singleton']

theorem sel_incl6_natPre (c : Config) (f : Fam) :
    sel f .nat .PREROUTING (handleOutboundIncludeRules c c.inclV6 .v6) =
      (match f with | .v4 => [] | .v6 => preKubeRedirect c .v6) := by
  cases f <;> cases h6 : c.inclV6.isWildcard <;>
    simp [h6, preKubeRedirect, inclOf, handleOutboundIncludeRules, sel_append, sel_cons, sel_flatMap, sel_map,
      both, only, Emit.reaches, flatMap_nil', flatMap_singleton']

theorem sel_compile_natPre (c : Config) (f : Fam) :
    sel f .nat .PREROUTING (compile c) = preExclIfs c ++ preKubeRet c ++ preInboundJump c ++ preKubeRedirect c f := by
  unfold compile preExclIfs preKubeRet
  simp only [sel_append, sel_flatMap, sel_handleInbound_natPre, sel_tproxy_nat, sel_incl4_natPre, sel_incl6_natPre,
    (sel_blocks_other c f .PREROUTING _ (by simp)).1,
    (sel_blocks_other c f .PREROUTING _ (by simp)).2, sel_dns_nat_other c f .PREROUTING (by simp)]
  cases f <;> cases ht : c.tproxy <;> cases hdi : c.dropInvalid <;> cases hog : c.ownerGroupsAll <;> sel_simple

theorem sel_compile_natInbound (c : Config) (f : Fam) :
    sel f .nat .ISTIO_INBOUND (compile c) = chNatInbound c := by
  unfold compile chNatInbound
  simp only [sel_append, sel_flatMap, sel_handleInbound_natInbound, sel_tproxy_nat,
    sel_incl_nat_other c f _ _ .ISTIO_INBOUND (by simp), (sel_blocks_other c f .ISTIO_INBOUND _ (by simp)).1,
    (sel_blocks_other c f .ISTIO_INBOUND _ (by simp)).2, sel_dns_nat_other c f .ISTIO_INBOUND (by simp)]
  cases f <;> cases ht : c.tproxy <;> cases hdi : c.dropInvalid <;> cases hog : c.ownerGroupsAll <;> sel_simple

/-- nat/PREROUTING as installed: the kube-virt redirects (inserted last, so first), the kube-virt
    RETURNs, the excluded interfaces, the jump to ISTIO_INBOUND. -/
def chNatPre (c : Config) (f : Fam) : List Rule :=
  (preKubeRedirect c f).reverse ++ ((preKubeRet c).reverse ++ preExclIfs c ++ preInboundJump c)

theorem chain_natPre (c : Config) (f : Fam) (h : famOn c f = true) :
    chainOf (rulesOf c f) .nat .PREROUTING = chNatPre c f := by
  rw [chainOf_rulesOf c f _ _ h, sel_compile_natPre, foldl_applyCmd_aiai]
  · rfl
  · simp [allAppend, preExclIfs, List.all_map, Function.comp_def]
  · unfold allAppend preInboundJump; cases (c.inboundOn && !c.tproxy) <;> simp
  · simp [preKubeRet, List.all_map, Function.comp_def]
  · unfold preKubeRedirect; cases (inclOf c f).isWildcard <;> simp [List.all_map, List.all_flatMap, Function.comp_def]

theorem chain_natInbound (c : Config) (f : Fam) (h : famOn c f = true) :
    chainOf (rulesOf c f) .nat .ISTIO_INBOUND = chNatInbound c := by
  apply chainOf_closed c f _ _ _ h (sel_compile_natInbound c f)
  unfold allAppend chNatInbound
  cases c.tproxy <;> cases c.inboundInclude <;> simp [List.all_append, List.all_map, Function.comp_def]

/-! ## Evaluation -/

theorem any_tcp_dport (p : Packet) (l : List Nat) (t : Target) (tb : Table) (ch : Chain) (ht : isTcp p = true) :
    (l.map (fun port => (⟨tb, ch, .append, [.proto .tcp, .dport false port], t⟩ : Rule))).any (fun r => r.fires p) =
      l.contains p.dport := by
  have ht' : (p.proto == Proto.tcp) = true := ht
  induction l with
  | nil => rfl
  | cons a l ih =>
    simp only [List.map_cons, List.any_cons, ih, List.contains_cons]
    simp only [Rule.fires, List.all_cons, List.all_nil, Match.eval, Bool.false_xor, Bool.and_true, ht', Bool.true_and]

/-- What nat/ISTIO_INBOUND answers when it does not capture (RETURN or end of chain). -/
def inboundBack (c : Config) (p : Packet) : Res :=
  if p.dport == c.inboundTunnelPort || (!c.tproxy && (match c.inboundInclude with | .all => true | _ => false))
  then .ret p else .next p

theorem inboundBack_cases (c : Config) (p : Packet) : inboundBack c p = .ret p ∨ inboundBack c p = .next p := by
  unfold inboundBack
  generalize (p.dport == c.inboundTunnelPort ||
    (!c.tproxy && (match c.inboundInclude with | .all => true | _ => false))) = b
  cases b <;> simp

/-- nat/ISTIO_INBOUND for a TCP packet. -/
theorem eval_natInbound (k : Chain → Packet → Res) (c : Config) (p : Packet) (ht : isTcp p = true)
    (hk : k .ISTIO_IN_REDIRECT p = if isTcp p then .fin (.redirect c.inboundCapturePort) else .next p) :
    evalRules k (chNatInbound c) p =
      if !c.tproxy && inboundPortCaptured c p then .fin (.redirect c.inboundCapturePort)
      else inboundBack c p := by
  unfold inboundBack
  have ht' : (p.proto == Proto.tcp) = true := ht
  have hk' : k .ISTIO_IN_REDIRECT p = .fin (.redirect c.inboundCapturePort) := by simp [hk, ht]
  unfold chNatInbound inboundPortCaptured
  simp only [evalRules_append]
  by_cases h1 : (p.dport == c.inboundTunnelPort) = true
  · have h1p : p.dport = c.inboundTunnelPort := by simpa using h1
    simp [evalRules, Rule.fires, Match.eval, ht', h1, h1p]
  · have h1' : (p.dport != c.inboundTunnelPort) = true := by simpa using h1
    simp only [evalRules, Rule.fires, List.all_cons, List.all_nil, Match.eval, ht', Bool.false_xor, Bool.and_true,
      Bool.true_and, h1, Bool.false_eq_true, if_false, Res.andThen_next, h1', Bool.false_or]
    cases hT : c.tproxy
    · cases hi : c.inboundInclude with
      | none => simp [evalRules]
      | all =>
        simp only [Bool.not_false, Bool.true_and, evalRules_append, Bool.false_eq_true, if_false]
        rw [evalRules_ret_seg' _ _ _ (by simp [List.all_map, Function.comp_def])]
        rw [any_tcp_dport p _ _ _ _ ht]
        by_cases h2 : p.dport ∈ c.inboundExclude
        · simp [h2]
        · have htp : p.proto = Proto.tcp := by simpa using ht'
          simp [h2, evalRules, Rule.fires, Match.eval, htp, hk']
      | ports l =>
        simp only [Bool.not_false, Bool.true_and, Bool.false_eq_true, if_false]
        rw [evalRules_jump_seg_fin' _ _ _ .ISTIO_IN_REDIRECT _ (by simp [List.all_map, Function.comp_def]) hk']
        rw [any_tcp_dport p _ _ _ _ ht]
    · simp [evalRules]


theorem call_natInbound (c : Config) (p : Packet) (d : Nat) (h : famOn c p.fam = true) (ht : isTcp p = true) :
    evalChain (rulesOf c p.fam) .nat (d + 1 + 1) .ISTIO_INBOUND p =
      if !c.tproxy && inboundPortCaptured c p then .fin (.redirect c.inboundCapturePort)
      else inboundBack c p := by
  rw [evalChain_succ, chain_natInbound c _ h, eval_natInbound _ c p ht (call_inRedirect c p d h)]

theorem any_kubeRet (c : Config) (p : Packet) :
    (preKubeRet c).reverse.any (fun r => r.fires p) = kubeVirt c p := by
  simp only [List.any_reverse, preKubeRet, kubeVirt, List.any_map, Function.comp_def, Rule.fires, List.all_cons,
    List.all_nil, Match.eval, Bool.and_true, List.contains_eq_any_beq]

theorem any_preExclIfs (c : Config) (p : Packet) :
    (preExclIfs c).any (fun r => r.fires p) = inIfExcluded c p := by
  simp only [preExclIfs, inIfExcluded, List.any_map, Function.comp_def, Rule.fires, List.all_cons,
    List.all_nil, Match.eval, Bool.and_true, List.contains_eq_any_beq]

theorem any_kubeRedirect (c : Config) (p : Packet) :
    (preKubeRedirect c p.fam).reverse.any (fun r => r.fires p) = (kubeVirt c p && dstIncluded c p) := by
  unfold preKubeRedirect dstIncluded
  rw [inclOf_fam_wild]
  cases hw : c.outIncludeAll
  · simp only [Bool.false_eq_true, if_false, inclOf_fam_cidrs c p hw, List.any_reverse, List.any_flatMap,
      List.any_map, Function.comp_def, Rule.fires, List.all_cons, List.all_nil, Match.eval, Bool.and_true,
      Bool.false_xor, Bool.false_or, kubeVirt, List.contains_eq_any_beq]
    induction (c.outInclude.filter (sameFam p)) with
    | nil => simp
    | cons x l ih =>
      simp only [List.any_cons, ih]
      induction c.kubeVirtIfs with
      | nil => simp
      | cons i li ihi =>
        simp only [List.any_cons] at ihi ⊢
        cases p.inIf == i <;> cases x.contains p.dst <;> simp_all
  · simp only [if_true, List.any_reverse, List.any_map, Function.comp_def, Rule.fires, List.all_cons, List.all_nil,
      Match.eval, Bool.and_true, Bool.true_or, kubeVirt, List.contains_eq_any_beq]

/-- **nat/PREROUTING decides as the policy says** (REDIRECT-mode inbound capture, kube-virt interfaces;
    in TPROXY mode the nat table captures nothing inbound). -/
theorem nat_prerouting_correct (c : Config) (p : Packet) (d : Nat) (h : famOn c p.fam = true) :
    evalTable (d + 2) (rulesOf c p.fam) .nat .prerouting p = natPreroutingSpec c p := by
  show evalTable (d + 1 + 1) (rulesOf c p.fam) .nat .prerouting p = natPreroutingSpec c p
  unfold evalTable natPreroutingSpec
  simp only [Hook.chain, chain_natPre c _ h, chNatPre, evalRules_append]
  have hR := call_redirect c p (d + 1) h
  -- kube-virt redirects
  have e1 : evalRules (evalChain (rulesOf c p.fam) .nat (d + 1 + 1)) (preKubeRedirect c p.fam).reverse p =
      if isTcp p && (kubeVirt c p && dstIncluded c p) then .fin (.redirect c.proxyPort) else .next p := by
    by_cases ht : isTcp p = true
    · rw [evalRules_jump_seg_fin' _ _ _ .ISTIO_REDIRECT (.redirect c.proxyPort) (by
        unfold preKubeRedirect; cases (inclOf c p.fam).isWildcard <;>
          simp [List.all_reverse, List.all_map, List.all_flatMap, Function.comp_def]) (by simp [hR, ht])]
      rw [any_kubeRedirect]
      simp [ht]
    · rw [evalRules_jump_seg_back' _ _ _ .ISTIO_REDIRECT (by
        unfold preKubeRedirect; cases (inclOf c p.fam).isWildcard <;>
          simp [List.all_reverse, List.all_map, List.all_flatMap, Function.comp_def]) (by simp [hR, ht])]
      simp [ht]
  have e2 : evalRules (evalChain (rulesOf c p.fam) .nat (d + 1 + 1)) (preKubeRet c).reverse p =
      if kubeVirt c p then .ret p else .next p := by
    rw [evalRules_ret_seg' _ _ _ (by simp [preKubeRet, List.all_reverse, List.all_map, Function.comp_def]), any_kubeRet]
  have e3 : evalRules (evalChain (rulesOf c p.fam) .nat (d + 1 + 1)) (preExclIfs c) p =
      if inIfExcluded c p then .ret p else .next p := by
    rw [evalRules_ret_seg' _ _ _ (by simp [preExclIfs, List.all_map, Function.comp_def]), any_preExclIfs]
  simp only [e1]
  by_cases hk : kubeVirt c p = true
  · by_cases ht : (isTcp p && dstIncluded c p) = true
    · simp [hk, ht]
    · have : (isTcp p && (kubeVirt c p && dstIncluded c p)) = false := by
        cases h1 : isTcp p <;> cases h2 : dstIncluded c p <;> simp_all
      simp only [this, Bool.false_eq_true, if_false, Res.andThen_next, evalRules_append, e2]
      simp [hk, ht]
  · have : (isTcp p && (kubeVirt c p && dstIncluded c p)) = false := by simp [hk]
    simp only [hk, Bool.false_and, Bool.and_false, Bool.false_eq_true, if_false, Res.andThen_next, evalRules_append, e2, e3]
    by_cases hx : inIfExcluded c p = true
    · simp [hx, inboundCaptured]
    · simp only [hx, Bool.false_eq_true, if_false, Res.andThen_next]
      unfold preInboundJump inboundCaptured
      by_cases ht : isTcp p = true
      · have ht' : (p.proto == Proto.tcp) = true := ht
        by_cases hon : (c.inboundOn && !c.tproxy) = true
        · simp only [hon, if_true, evalRules, Rule.fires, List.all_cons, List.all_nil, Match.eval, ht', Bool.and_true,
            call_natInbound c p d h ht]
          by_cases hc : (!c.tproxy && inboundPortCaptured c p) = true
          · simp [hc, ht, hx]
          · simp only [hc, Bool.false_eq_true, if_false, ht, hx, Bool.not_false, Bool.true_and]
            rcases inboundBack_cases c p with hb | hb <;> simp [hb]
        · have : (!c.tproxy && inboundPortCaptured c p) = false := by
            cases hT : c.tproxy
            · have : c.inboundOn = false := by simpa [hT] using hon
              unfold Config.inboundOn at this
              unfold inboundPortCaptured
              cases hi : c.inboundInclude <;> simp_all
            · simp
          simp [hon, evalRules, this, ht, hx]
      · have ht' : (p.proto == Proto.tcp) = false := by simpa [isTcp] using ht
        cases (c.inboundOn && !c.tproxy) <;> simp [evalRules, Rule.fires, Match.eval, ht, ht']

end IstioModel.C20
