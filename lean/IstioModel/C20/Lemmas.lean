import IstioModel.C20.Spec

/-! C20 - helper lemmas: generic facts about `evalRules` / `chainOf`, projection of the builder's
    emit list onto one family / table / chain, closed forms of rule segments. -/
namespace IstioModel.C20

/-! ## evalRules -/

/-- Continue after a finished prefix. -/
def Res.andThen (r : Res) (k : Packet → Res) : Res :=
  match r with
  | .next p => k p
  | r => r

@[simp] theorem Res.andThen_next (p : Packet) (k : Packet → Res) : (Res.next p).andThen k = k p := rfl
@[simp] theorem Res.andThen_ret (p : Packet) (k : Packet → Res) : (Res.ret p).andThen k = .ret p := rfl
@[simp] theorem Res.andThen_fin (v : Verdict) (k : Packet → Res) : (Res.fin v).andThen k = .fin v := rfl

theorem evalRules_append (k : Chain → Packet → Res) (a b : List Rule) (p : Packet) :
    evalRules k (a ++ b) p = (evalRules k a p).andThen (evalRules k b) := by
  induction a generalizing p with
  | nil => simp [evalRules]
  | cons r rest ih =>
    simp only [List.cons_append, evalRules]
    split
    · split <;> simp [ih]
      split <;> simp
    · exact ih p

theorem evalRules_nil (k : Chain → Packet → Res) (p : Packet) : evalRules k [] p = .next p := rfl

/-- A segment of RETURN rules. -/
theorem evalRules_ret_seg (k : Chain → Packet → Res) (l : List Rule) (p : Packet)
    (h : ∀ r ∈ l, r.target = .ret) :
    evalRules k l p = if l.any (·.fires p) then .ret p else .next p := by
  induction l with
  | nil => simp [evalRules]
  | cons r rest ih =>
    have hr : r.target = .ret := h r (by simp)
    have ih' := ih (fun r' hr' => h r' (by simp [hr']))
    simp only [evalRules, hr, List.any_cons]
    by_cases hf : r.fires p = true <;> simp [hf, ih']

/-- A segment of jumps to one chain whose evaluation ends the traversal. -/
theorem evalRules_jump_seg_fin (k : Chain → Packet → Res) (l : List Rule) (p : Packet) (ch : Chain)
    (v : Verdict) (h : ∀ r ∈ l, r.target = .jump ch) (hk : k ch p = .fin v) :
    evalRules k l p = if l.any (·.fires p) then .fin v else .next p := by
  induction l with
  | nil => simp [evalRules]
  | cons r rest ih =>
    have hr : r.target = .jump ch := h r (by simp)
    have ih' := ih (fun r' hr' => h r' (by simp [hr']))
    simp only [evalRules, hr, List.any_cons, hk]
    by_cases hf : r.fires p = true <;> simp [hf, ih']

/-- A segment of jumps to one chain that hands the packet back unchanged. -/
theorem evalRules_jump_seg_back (k : Chain → Packet → Res) (l : List Rule) (p : Packet) (ch : Chain)
    (h : ∀ r ∈ l, r.target = .jump ch) (hk : k ch p = .next p ∨ k ch p = .ret p) :
    evalRules k l p = .next p := by
  induction l with
  | nil => simp [evalRules]
  | cons r rest ih =>
    have hr : r.target = .jump ch := h r (by simp)
    have ih' := ih (fun r' hr' => h r' (by simp [hr']))
    simp only [evalRules, hr]
    by_cases hf : r.fires p = true
    · rcases hk with hk | hk <;> simp [hf, hk, ih']
    · simp [hf, ih']

/-- Boolean forms of the three segment lemmas (hypotheses that `simp` discharges). -/
theorem evalRules_ret_seg' (k : Chain → Packet → Res) (l : List Rule) (p : Packet)
    (h : l.all (fun r => r.target == .ret) = true) :
    evalRules k l p = if l.any (·.fires p) then .ret p else .next p :=
  evalRules_ret_seg k l p (fun r hr => by simpa using (List.all_eq_true.mp h) r hr)

theorem evalRules_jump_seg_fin' (k : Chain → Packet → Res) (l : List Rule) (p : Packet) (ch : Chain)
    (v : Verdict) (h : l.all (fun r => r.target == .jump ch) = true) (hk : k ch p = .fin v) :
    evalRules k l p = if l.any (·.fires p) then .fin v else .next p :=
  evalRules_jump_seg_fin k l p ch v (fun r hr => by simpa using (List.all_eq_true.mp h) r hr) hk

theorem evalRules_jump_seg_back' (k : Chain → Packet → Res) (l : List Rule) (p : Packet) (ch : Chain)
    (h : l.all (fun r => r.target == .jump ch) = true) (hk : k ch p = .next p ∨ k ch p = .ret p) :
    evalRules k l p = .next p :=
  evalRules_jump_seg_back k l p ch (fun r hr => by simpa using (List.all_eq_true.mp h) r hr) hk

/-! ## chainOf -/

theorem foldl_applyCmd_append (l acc : List Rule) (h : ∀ r ∈ l, r.op = .append) :
    l.foldl applyCmd acc = acc ++ l := by
  induction l generalizing acc with
  | nil => simp
  | cons r rest ih =>
    have hr : r.op = .append := h r (by simp)
    simp [List.foldl_cons, applyCmd, hr, ih (acc ++ [r]) (fun r' hr' => h r' (by simp [hr']))]

/-! ## Projection of the emit list -/

/-- The builder's emit list projected on one family's list, one table, one chain. -/
def sel (f : Fam) (t : Table) (ch : Chain) (es : List Emit) : List Rule :=
  ((es.filter (·.reaches f)).map (·.rule)).filter (fun r => r.table == t && r.chain == ch)

@[simp] theorem sel_nil (f t ch) : sel f t ch [] = [] := rfl

theorem sel_append (f t ch) (a b : List Emit) : sel f t ch (a ++ b) = sel f t ch a ++ sel f t ch b := by
  simp [sel]

theorem sel_cons (f t ch) (e : Emit) (es : List Emit) :
    sel f t ch (e :: es) =
      if e.reaches f && (e.rule.table == t && e.rule.chain == ch) then e.rule :: sel f t ch es
      else sel f t ch es := by
  simp only [sel, List.filter_cons]
  by_cases h1 : e.reaches f = true
  · by_cases h2 : (e.rule.table == t && e.rule.chain == ch) = true
    · simp [h1, h2]
    · simp [h1, h2]
  · simp [h1]

theorem sel_flatMap {α} (f t ch) (l : List α) (g : α → List Emit) :
    sel f t ch (l.flatMap g) = l.flatMap (fun a => sel f t ch (g a)) := by
  induction l with
  | nil => simp
  | cons a rest ih => simp [List.flatMap_cons, sel_append, ih]

theorem sel_map {α} (f t ch) (l : List α) (g : α → Emit) :
    sel f t ch (l.map g) = l.flatMap (fun a => sel f t ch [g a]) := by
  induction l with
  | nil => simp
  | cons a rest ih =>
    have : (g a :: List.map g rest) = [g a] ++ List.map g rest := rfl
    simp only [List.map_cons, List.flatMap_cons, this, sel_append, ih]

theorem sel_ite (f t ch) (b : Bool) (x y : List Emit) :
    sel f t ch (if b then x else y) = if b then sel f t ch x else sel f t ch y := by
  cases b <;> simp

/-! ## The compiler model's derived fields agree with the policy's own notions -/

theorem dns_eq_dnsActive (c : Config) : c.dns = dnsActive c := by
  unfold Config.dns dnsActive
  cases c.redirectDNS <;> cases c.captureAllDNS <;> cases c.dnsV4.isEmpty <;> cases c.dnsV6.isEmpty <;> rfl

theorem isLoopback_eq_written (x : Cidr) : x.isLoopback = writtenAsLoopback x := by
  unfold Cidr.isLoopback writtenAsLoopback loopbackNet4 Cidr.contains
  cases hv : x.v6
  · simp
  · simp only [if_true, Bool.false_eq_true, if_false]
    by_cases hm : (x.addr / 2 ^ 32 == 65535) = true
    · have e : x.addr / 2 ^ 24 % 256 = x.addr % 2 ^ 32 / 2 ^ 24 := by omega
      have hne : (x.addr == 1) = false := by
        have : x.addr / 2 ^ 32 = 65535 := by simpa using hm
        have : x.addr ≠ 1 := by omega
        simpa using this
      simp [hm, e, hne]
    · simp [hm]

theorem any_filter_split {α} (l : List α) (f g : α → Bool) :
    l.any f = ((l.filter g).any f || (l.filter (fun x => !g x)).any f) := by
  induction l with
  | nil => rfl
  | cons a t ih =>
    by_cases hg : g a = true <;> by_cases hf : f a = true <;>
      simp [List.any_cons, List.filter_cons, hg, hf, ih, Bool.or_assoc]

theorem noLoopbackIncluded_eq (c : Config) : c.noLoopbackIncluded = !loopbackIncluded c := by
  unfold Config.noLoopbackIncluded Config.inclV4 Config.inclV6 separate loopbackIncluded
  cases hw : c.outIncludeAll
  · simp only [Bool.false_eq_true, if_false, Bool.not_false, Bool.true_and]
    have h := any_filter_split c.outInclude Cidr.isLoopback (fun x => x.v6 == true)
    have e1 : (fun x : Cidr => !(x.v6 == true)) = (fun x => x.v6 == false) := by funext x; cases x.v6 <;> rfl
    have e2 : (fun x : Cidr => x.isLoopback) = writtenAsLoopback := by funext x; exact isLoopback_eq_written x
    rw [e1] at h
    rw [← e2, h, Bool.not_or, Bool.and_comm]
  · simp

end IstioModel.C20
