import IstioModel.C20.Netfilter

/-
C20 - the capture policy stated directly on (configuration, packet), without rules.

The readable predicates (`proxyOwned`, `outboundCaptured`, `inboundCaptured`, ...) are what the
theorems of `Theorems.lean` speak about; `specFate` assembles them into the complete expected fate
of a packet, which the `packets` stream compares with a reference interpreter run over the REAL
iptables-restore text.
-/
namespace IstioModel.C20

/-! ## Vocabulary -/

def isTcp (p : Packet) : Bool := p.proto == .tcp
def isTcpUdp (p : Packet) : Bool := p.proto == .tcp || p.proto == .udp

/-- The packet was sent by the proxy itself: its socket is owned by a proxy UID or a proxy GID. -/
def proxyOwned (c : Config) (p : Packet) : Bool :=
  c.proxyUIDs.contains p.uid || c.proxyGIDs.contains p.gid

/-- The loopback range of the packet's family (`HostIPv4LoopbackCidr` / `::1/128`). -/
def Config.lo (c : Config) (p : Packet) : Cidr := if p.v6 then lo6 else c.loCidr

def loopbackDst (c : Config) (p : Packet) : Bool := (c.lo p).contains p.dst

def onLo (p : Packet) : Bool := p.outIf == "lo"

/-- Sent on `lo` from 127.0.0.6 / ::6 (the bind address of the inbound passthrough cluster). -/
def fromPassthrough (p : Packet) : Bool :=
  onLo p && (if p.v6 then src6 else src4).contains p.src

def outIfExcluded (c : Config) (p : Packet) : Bool := c.exclIfs.contains p.outIf
def inIfExcluded (c : Config) (p : Packet) : Bool := c.exclIfs.contains p.inIf

def outPortExcluded (c : Config) (p : Packet) : Bool :=
  isTcpUdp p && c.outPortsExclude.contains p.dport

def outPortIncluded (c : Config) (p : Packet) : Bool :=
  isTcp p && c.outPortsInclude.contains p.dport

/-- The owner-group capture filter lets the packet through to capture. -/
def ownerGroupCaptured (c : Config) (p : Packet) : Bool :=
  if c.ownerGroupsAll then !c.ownerGroupsExclude.contains p.gid
  else c.ownerGroupsInclude.contains p.gid

def sameFam (p : Packet) (x : Cidr) : Bool := x.v6 == p.v6

def dstExcluded (c : Config) (p : Packet) : Bool :=
  (c.outExclude.filter (sameFam p)).any (·.contains p.dst)

def dstIncluded (c : Config) (p : Packet) : Bool :=
  c.outIncludeAll || (c.outInclude.filter (sameFam p)).any (·.contains p.dst)

/-! ### Two notions the policy needs, stated here on their own (NOT taken from the compiler model's
`Config.dns` / `Config.noLoopbackIncluded`; `Lemmas.lean` proves that the model's derived fields agree) -/

/-- DNS capture is in force: REDIRECT_DNS, and something to capture - every resolver (CAPTURE_ALL_DNS) or
    at least one known DNS server of either family. -/
def dnsActive (c : Config) : Bool :=
  c.redirectDNS && (c.captureAllDNS || !c.dnsV4.isEmpty || !c.dnsV6.isEmpty)

def loopbackNet4 : Cidr := ⟨false, 2130706432, 8⟩     -- 127.0.0.0/8

/-- The range was WRITTEN with a loopback address (127.x.y.z/n, ::1/n, ::ffff:127.x.y.z/n), whatever its
    prefix length: 127.5.5.5/1 counts, 126.0.0.0/7 and 0.0.0.0/0 do not although they cover 127.0.0.0/8. -/
def writtenAsLoopback (x : Cidr) : Bool :=
  if x.v6 then x.addr == 1 || (x.addr / 2 ^ 32 == 0xffff && loopbackNet4.contains (x.addr % 2 ^ 32))
  else loopbackNet4.contains x.addr

/-- "loopback explicitly set via OutboundIPRangesInclude": some included range (of either family) is
    written with a loopback address. `*` does not count. -/
def loopbackIncluded (c : Config) : Bool :=
  !c.outIncludeAll && c.outInclude.any writtenAsLoopback

def hasProxyIdentity (c : Config) : Bool := !c.proxyUIDs.isEmpty || !c.proxyGIDs.isEmpty

/-- Application traffic on `lo` is handed back untouched ("appN => appN by lo"): some proxy
    identity is configured, no loopback range was explicitly included, and - with DNS capture -
    the packet is not TCP port 53 (which must stay capturable for a resolver on localhost). -/
def loopbackBypass (c : Config) (p : Packet) : Bool :=
  onLo p && !loopbackIncluded c && (!dnsActive c || (isTcp p && p.dport != 53))

/-- DNS capture applies: port 53 over TCP or UDP to a captured resolver. -/
def dnsCaptured (c : Config) (p : Packet) : Bool :=
  dnsActive c && isTcpUdp p && p.dport == 53 &&
  (c.captureAllDNS || (if p.v6 then c.dnsV6 else c.dnsV4).contains p.dst)

/-- **Outbound capture policy** for application traffic. -/
def outboundCaptured (c : Config) (p : Packet) : Bool :=
  isTcp p &&
  !outIfExcluded c p && !outPortExcluded c p && !fromPassthrough p &&
  !(hasProxyIdentity c && loopbackBypass c p) &&
  ownerGroupCaptured c p &&
  !loopbackDst c p && !dstExcluded c p &&
  (outPortIncluded c p || dstIncluded c p)

/-- Application traffic reaches the DNS capture chain and is captured there. -/
def outboundDNSCaptured (c : Config) (p : Packet) : Bool :=
  !outIfExcluded c p && !outPortExcluded c p && !fromPassthrough p &&
  !(hasProxyIdentity c && loopbackBypass c p) &&
  ownerGroupCaptured c p && dnsCaptured c p

/-- **Inbound capture policy** (REDIRECT mode): which destination ports are captured.
    `InboundPortsExclude` is only read when the include list is `*` (as documented for the flag). -/
def inboundPortCaptured (c : Config) (p : Packet) : Bool :=
  p.dport != c.inboundTunnelPort &&
  (match c.inboundInclude with
   | .none => false
   | .all => !c.inboundExclude.contains p.dport
   | .ports l => l.contains p.dport)

def inboundCaptured (c : Config) (p : Packet) : Bool :=
  isTcp p && !inIfExcluded c p && inboundPortCaptured c p

/-! ## Proxy-owned traffic: the per-identity rule blocks -/

inductive OwnerId
  | uid (s : String)
  | gid (s : String)
  deriving DecidableEq, Repr

def Config.identities (c : Config) : List OwnerId := c.proxyUIDs.map .uid ++ c.proxyGIDs.map .gid

def OwnerId.owns (p : Packet) : OwnerId → Bool
  | .uid u => p.uid == u
  | .gid g => p.gid == g

/-- "appN => Envoy (client) => Envoy (server) => appN": a proxy-owned TCP connection on `lo` to a
    non-loopback address (the pod's own address) is sent to the inbound listener. -/
def selfCall (c : Config) (p : Packet) : OwnerId → Bool
  | .uid _ => onLo p && !loopbackDst c p && isTcp p &&
              (if dnsActive c then !(p.dport == 53 || p.dport == c.inboundTunnelPort) else p.dport != c.inboundTunnelPort)
  | .gid _ => onLo p && !loopbackDst c p && isTcp p && p.dport != c.inboundTunnelPort

/-- Outcome of the identity blocks: `some true` = to the inbound listener, `some false` = passed
    untouched, `none` = not decided by the identity blocks. The first identity that owns the packet
    decides; an earlier identity that does not own it passes `lo` traffic untouched. -/
def identityWalk (c : Config) (p : Packet) : List OwnerId → Option Bool
  | [] => none
  | o :: rest =>
    if o.owns p then some (selfCall c p o)
    else if loopbackBypass c p then some false
    else identityWalk c p rest

/-! ## Expected verdict of the nat table -/

/-- nat/OUTPUT. -/
def natOutputSpec (c : Config) (p : Packet) : Verdict :=
  if outIfExcluded c p || outPortExcluded c p || fromPassthrough p then .accept p else
  match identityWalk c p c.identities with
  | some true => .redirect c.inboundCapturePort
  | some false => .accept p
  | none =>
    if !ownerGroupCaptured c p then .accept p
    else if dnsCaptured c p then .redirect dnsAgentPort
    else if loopbackDst c p || dstExcluded c p then .accept p
    else if isTcp p && (outPortIncluded c p || dstIncluded c p) then .redirect c.proxyPort
    else .accept p

/-- Traffic arriving on a `KUBE_VIRT_INTERFACES` interface is treated as outbound. -/
def kubeVirt (c : Config) (p : Packet) : Bool := c.kubeVirtIfs.contains p.inIf

/-- nat/PREROUTING. -/
def natPreroutingSpec (c : Config) (p : Packet) : Verdict :=
  if kubeVirt c p then
    (if isTcp p && dstIncluded c p then .redirect c.proxyPort else .accept p)
  else if !c.tproxy && inboundCaptured c p then .redirect c.inboundCapturePort
  else .accept p

def natSpec (c : Config) (p : Packet) : Verdict :=
  match p.hook with
  | .output => natOutputSpec c p
  | .prerouting => natPreroutingSpec c p

/-! ## Expected effect of the mangle table -/

/-- mangle/OUTPUT only re-marks (TPROXY mode): proxy self-calls get mark 1338, packets of a
    connection marked by TPROXY get that mark back. -/
def mangleOutputSpec (c : Config) (p : Packet) : Verdict :=
  if !c.tproxy || outIfExcluded c p then .accept p
  else if isTcp p && onLo p && p.mark == c.tproxyMark then .accept p
  else
    let m1 := if isTcp p && onLo p && !loopbackDst c p && proxyOwned c p then outboundMark else p.mark
    .accept { p with mark := if isTcp p && p.connmark == c.tproxyMark then p.connmark else m1 }

def inLo (p : Packet) : Bool := p.inIf == "lo"

/-- TPROXY mode: is the inbound port selected (the tunnel port is NOT exempted in this mode). -/
def tproxyPortSelected (c : Config) (p : Packet) : Bool :=
  match c.inboundInclude with
  | .none => false
  | .all => !c.inboundExclude.contains p.dport
  | .ports l => l.contains p.dport

/-- TPROXY mode: packets the inbound chain hands back untouched. -/
def tproxyBypass (c : Config) (p : Packet) : Bool :=
  p.mark == c.tproxyMark ||
  (inLo p && (if p.v6 then src6 else src4).contains p.src) ||
  (inLo p && p.mark != outboundMark)

/-- mangle/PREROUTING. -/
def manglePreroutingSpec (c : Config) (p : Packet) : Verdict :=
  if c.tproxy && inIfExcluded c p then .accept p
  else if c.dropInvalid && p.ctstate == .invalid then .drop
  else if !c.tproxy then .accept p
  else
    let saved : Packet := if isTcp p && p.mark == c.tproxyMark then { p with connmark := p.mark } else p
    if isTcp p && !tproxyBypass c p && tproxyPortSelected c p then
      (if p.ctstate == .related || p.ctstate == .established then .accept { p with mark := c.tproxyMark }
       else if !loopbackDst c p then .tproxy c.inboundCapturePort { p with mark := c.tproxyMark }
       else .accept saved)
    else .accept saved

def mangleSpec (c : Config) (p : Packet) : Verdict :=
  match p.hook with
  | .output => mangleOutputSpec c p
  | .prerouting => manglePreroutingSpec c p

/-! ## Expected fate -/

def specStep (c : Config) (f : Fate) (t : Table) : Fate :=
  if f.dropped || f.loop then f
  else if t == .nat && !natConsulted f.pkt.hook f.pkt.ctstate f.pkt.inIf then f
  else
    match (match t with
           | .mangle => mangleSpec c f.pkt
           | .nat => natSpec c f.pkt
           | _ => Verdict.accept f.pkt) with
    | .accept p' => { f with pkt := p' }
    | .drop => { f with dropped := true }
    | .loop => { f with loop := true }
    | .redirect port => { f with redirect := some port }
    | .tproxy port p' => { f with tproxy := some port, pkt := p' }

/-- The complete expected fate of a packet under a configuration (IPv6 packets meet no rule at
    all unless IPv6 is enabled). -/
def specFate (c : Config) (p : Packet) : Fate :=
  if p.v6 && !c.enableIPv6 then { pkt := p }
  else [Table.raw, Table.mangle, Table.nat].foldl (specStep c) { pkt := p }

end IstioModel.C20
