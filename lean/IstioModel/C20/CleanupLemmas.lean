import IstioModel.C20.Cleanup
import IstioModel.C20.WellFormed

/-! C20 - support lemmas for CleanupTheorems.lean (not counted as obligations). -/
namespace IstioModel.C20
set_option linter.unusedSimpArgs false

theorem foldl_erase_perm {α} [BEq α] [LawfulBEq α] (m l k : List α) (h : l.Perm (m ++ k)) :
    (m.foldl List.erase l).Perm k := by
  induction m generalizing l with
  | nil => simpa using h
  | cons x m ih =>
    simp only [List.foldl_cons]
    apply ih
    have := h.erase x
    simpa using this

theorem foldl_delete_rules (ds : List Rule) (s : NS) :
    (ds.foldl NS.delete s).rules = (ds.map Rule.norm).foldl List.erase s.rules ∧
    (ds.foldl NS.delete s).chains = s.chains := by
  induction ds generalizing s with
  | nil => simp
  | cons d ds ih =>
    simp only [List.foldl_cons, List.map_cons]
    rw [(ih (s.delete d)).1, (ih (s.delete d)).2]
    simp [NS.delete]

theorem undone_norm (r : Rule) : r.norm.undone = r.undone := rfl
theorem isJump_norm (r : Rule) : r.norm.isJump = r.isJump := rfl

/-- After the `-D` commands exactly the rules `UndoRules` skipped are left (as a multiset). -/
theorem after_deletes (rs : List Rule) :
    ((rs.reverse.filter Rule.undone).foldl NS.delete (install rs)).rules.Perm
      ((rs.map Rule.norm).filter (fun r => !r.undone)) := by
  rw [(foldl_delete_rules _ _).1]
  apply foldl_erase_perm
  simp only [install]
  have h1 : ((rs.reverse.filter Rule.undone).map Rule.norm) = ((rs.map Rule.norm).reverse.filter Rule.undone) := by
    rw [← List.map_reverse, List.filter_map]
    congr 1
  rw [h1]
  have h2 := (List.filter_append_perm Rule.undone (rs.map Rule.norm)).symm
  refine h2.trans (List.Perm.append_right _ ?_)
  exact ((List.reverse_perm (rs.map Rule.norm)).filter _).symm

theorem mem_ownedChains (rs : List Rule) (k : Table × Chain) :
    k ∈ ownedChains rs ↔ k.2.builtin = false ∧ ∃ r ∈ rs, (r.table, r.chain) = k := by
  unfold ownedChains
  have e1 : ∀ seen, rs.reverse.foldl (fun seen r => addSeen seen (r.table, r.chain)) seen =
      rs.reverse.foldl (fun s a => addSeenOpt s ((fun r : Rule => some (r.table, r.chain)) a)) seen := fun _ => rfl
  simp only [List.mem_filter, Bool.not_eq_true', mem_foldl_addSeenOpt, e1, List.mem_reverse]
  constructor
  · rintro ⟨h | ⟨r, hr, hg⟩, hb⟩
    · simp at h
    · injection hg with hg; exact ⟨hb, r, hr, hg⟩
  · rintro ⟨hb, r, hr, hg⟩
    exact ⟨Or.inr ⟨r, hr, by simp [hg]⟩, hb⟩

/-- Flushing and deleting a list of chains in tables that hold no jump rule: all of them go, with their rules. -/
theorem foldl_flush_del (L : List (Table × Chain)) (s : NS) (hj : ∀ r ∈ s.rules, r.isJump = false) :
    (L.foldl (fun s k => (s.flush k).delChain k) s).rules = s.rules.filter (fun r => !L.contains (r.table, r.chain)) ∧
    (L.foldl (fun s k => (s.flush k).delChain k) s).chains = s.chains.filter (fun c => !L.contains c) := by
  induction L generalizing s with
  | nil => exact ⟨(List.filter_eq_self.2 (by simp)).symm, (List.filter_eq_self.2 (by simp)).symm⟩
  | cons k L ih =>
    simp only [List.foldl_cons]
    have hno : (s.flush k).rules.any (fun r => (r.table, r.chain) == k || r.jumpKey == some k) = false := by
      rw [List.any_eq_false]
      intro r hr
      simp only [NS.flush, List.mem_filter, Bool.not_eq_true'] at hr
      have hjr := hj r hr.1
      have : r.jumpKey = none := by
        unfold Rule.isJump at hjr
        unfold Rule.jumpKey
        split <;> simp_all
      simp [hr.2, this]
    have hd : (s.flush k).delChain k = { (s.flush k) with chains := (s.flush k).chains.filter (fun c => !(c == k)) } := by
      unfold NS.delChain
      rw [hno]; rfl
    rw [hd]
    have hj' : ∀ r ∈ ({ (s.flush k) with chains := (s.flush k).chains.filter (fun c => !(c == k)) } : NS).rules, r.isJump = false := by
      intro r hr
      simp only [NS.flush, List.mem_filter] at hr
      exact hj r hr.1
    obtain ⟨h1, h2⟩ := ih _ hj'
    rw [h1, h2]
    simp only [NS.flush, List.filter_filter, List.contains_cons]
    constructor
    · congr 1; funext r
      cases h : ((r.table, r.chain) == k) <;> simp [h]
    · congr 1; funext c
      cases h : (c == k) <;> simp [h]

end IstioModel.C20
