import IstioModel.C20.Mangle

/-! C20 - glue for the whole-hook theorem: shapes of the spec's results, the empty rule list. -/
namespace IstioModel.C20
set_option linter.unusedSimpArgs false

/-- mangle/OUTPUT only changes the mark. -/
theorem mangleOutputSpec_shape (c : Config) (p : Packet) :
    ∃ m, mangleOutputSpec c p = .accept { p with mark := m } := by
  unfold mangleOutputSpec
  split
  · exact ⟨p.mark, rfl⟩
  · split
    · exact ⟨p.mark, rfl⟩
    · exact ⟨_, rfl⟩

/-- mangle/PREROUTING drops, or only changes the marks. -/
theorem manglePreroutingSpec_shape (c : Config) (p : Packet) :
    manglePreroutingSpec c p = .drop ∨
    ∃ m cm, manglePreroutingSpec c p = .accept { p with mark := m, connmark := cm } ∨
            manglePreroutingSpec c p = .tproxy c.inboundCapturePort { p with mark := m, connmark := cm } := by
  unfold manglePreroutingSpec
  split
  · exact Or.inr ⟨p.mark, p.connmark, Or.inl rfl⟩
  · split
    · exact Or.inl rfl
    · split
      · exact Or.inr ⟨p.mark, p.connmark, Or.inl rfl⟩
      · simp only
        split
        · split
          · exact Or.inr ⟨c.tproxyMark, p.connmark, Or.inl rfl⟩
          · split
            · exact Or.inr ⟨c.tproxyMark, p.connmark, Or.inr rfl⟩
            · split
              · exact Or.inr ⟨p.mark, p.mark, Or.inl rfl⟩
              · exact Or.inr ⟨p.mark, p.connmark, Or.inl rfl⟩
        · split
          · exact Or.inr ⟨p.mark, p.mark, Or.inl rfl⟩
          · exact Or.inr ⟨p.mark, p.connmark, Or.inl rfl⟩

theorem famOn_false (c : Config) (p : Packet) (h : famOn c p.fam = false) :
    (p.v6 && !c.enableIPv6) = true ∧ rulesOf c p.fam = [] := by
  unfold famOn at h
  cases hv : p.v6 <;> cases he : c.enableIPv6 <;> simp [Packet.fam, hv, he, rulesOf] at h ⊢

theorem evalTable_nil (d : Nat) (t : Table) (h : Hook) (p : Packet) : evalTable d [] t h p = .accept p := by
  simp [evalTable, chainOf, evalRules]


/-- The nat theorems for a packet of the same family as `p` (e.g. `p` re-marked by mangle). -/
theorem nat_prerouting_correct' (c : Config) (p q : Packet) (d : Nat) (h : famOn c p.fam = true) (hq : q.v6 = p.v6) :
    evalTable (d + 2) (rulesOf c p.fam) .nat .prerouting q = natPreroutingSpec c q := by
  have e : q.fam = p.fam := by simp [Packet.fam, hq]
  rw [← e] at h ⊢
  exact nat_prerouting_correct c q d h

theorem nat_output_correct' (c : Config) (p q : Packet) (d : Nat) (h : famOn c p.fam = true) (hq : q.v6 = p.v6) :
    evalTable (d + 2) (rulesOf c p.fam) .nat .output q = natOutputSpec c q := by
  have e : q.fam = p.fam := by simp [Packet.fam, hq]
  rw [← e] at h ⊢
  exact nat_output_correct c q d h

end IstioModel.C20
