import IstioModel.C20.Mangle

/-! C20 - glue for the whole-hook theorem: shapes of the spec's results, the empty rule list. -/
namespace IstioModel.C20
set_option linter.unusedSimpArgs false

/-- mangle/OUTPUT only changes the mark. -/
theorem mangleOutputSpec_shape (c : Config) (p : Packet) :
    ∃ m, mangleOutputSpec c p = .accept { p with mark := m } := by
  unfold mangleOutputSpec
  split
  · exact ⟨p.mark, rfl⟩
  · split
    · exact ⟨p.mark, rfl⟩
    · exact ⟨_, rfl⟩

/-- mangle/PREROUTING drops, or only changes the marks. -/
theorem manglePreroutingSpec_shape (c : Config) (p : Packet) :
    manglePreroutingSpec c p = .drop ∨
    ∃ m cm, manglePreroutingSpec c p = .accept { p with mark := m, connmark := cm } ∨
            manglePreroutingSpec c p = .tproxy c.inboundCapturePort { p with mark := m, connmark := cm } := by
  unfold manglePreroutingSpec
  split
  · exact Or.inr ⟨p.mark, p.connmark, Or.inl rfl⟩
  · split
    · exact Or.inl rfl
    · split
      · exact Or.inr ⟨p.mark, p.connmark, Or.inl rfl⟩
      · simp only
        split
        · split
          · exact Or.inr ⟨c.tproxyMark, p.connmark, Or.inl rfl⟩
          · split
            · exact Or.inr ⟨c.tproxyMark, p.connmark, Or.inr rfl⟩
            · split
              · exact Or.inr ⟨p.mark, p.mark, Or.inl rfl⟩
              · exact Or.inr ⟨p.mark, p.connmark, Or.inl rfl⟩
        · split
          · exact Or.inr ⟨p.mark, p.mark, Or.inl rfl⟩
          · exact Or.inr ⟨p.mark, p.connmark, Or.inl rfl⟩

theorem famOn_false (c : Config) (p : Packet) (h : famOn c p.fam = false) :
    (p.v6 && !c.enableIPv6) = true ∧ rulesOf c p.fam = [] := by
  unfold famOn at h
  cases hv : p.v6 <;> cases he : c.enableIPv6 <;> simp [Packet.fam, hv, he, rulesOf] at h ⊢

theorem evalTable_nil (d : Nat) (t : Table) (h : Hook) (p : Packet) : evalTable d [] t h p = .accept p := by
  simp [evalTable, chainOf, evalRules]


/-- The nat theorems for a packet of the same family as `p` (e.g. `p` re-marked by mangle). -/
theorem nat_prerouting_correct' (c : Config) (p q : Packet) (d : Nat) (h : famOn c p.fam = true) (hq : q.v6 = p.v6) :
    evalTable (d + 2) (rulesOf c p.fam) .nat .prerouting q = natPreroutingSpec c q := by
  have e : q.fam = p.fam := by simp [Packet.fam, hq]
  rw [← e] at h ⊢
  exact nat_prerouting_correct c q d h

theorem nat_output_correct' (c : Config) (p q : Packet) (d : Nat) (h : famOn c p.fam = true) (hq : q.v6 = p.v6) :
    evalTable (d + 2) (rulesOf c p.fam) .nat .output q = natOutputSpec c q := by
  have e : q.fam = p.fam := by simp [Packet.fam, hq]
  rw [← e] at h ⊢
  exact nat_output_correct c q d h

/-! ## Small facts about the policy -/

theorem natSpec_ne_loop (c : Config) (p : Packet) : natSpec c p ≠ .loop := by
  unfold natSpec natOutputSpec natPreroutingSpec
  repeat' split
  all_goals simp

theorem mangleSpec_ne_loop (c : Config) (p : Packet) : mangleSpec c p ≠ .loop := by
  unfold mangleSpec
  split
  · rcases mangleOutputSpec_shape c p with ⟨m, h⟩; simp [h]
  · rcases manglePreroutingSpec_shape c p with h | ⟨m, cm, h | h⟩ <;> simp [h]

theorem specStep_loop (c : Config) (f : Fate) (t : Table) (h : f.loop = false) : (specStep c f t).loop = false := by
  unfold specStep
  split
  · exact h
  · split
    · exact h
    · cases t
      · simp [h]
      · have hv := mangleSpec_ne_loop c f.pkt
        generalize mangleSpec c f.pkt = v at hv ⊢
        cases v <;> simp_all
      · have hv := natSpec_ne_loop c f.pkt
        generalize natSpec c f.pkt = v at hv ⊢
        cases v <;> simp_all
      · simp [h]


/-- The nat policy only ever accepts the packet unchanged or redirects it. -/
theorem natSpec_shape (c : Config) (p : Packet) :
    natSpec c p = .accept p ∨ ∃ port, natSpec c p = .redirect port := by
  unfold natSpec natOutputSpec natPreroutingSpec
  repeat' split
  all_goals first | exact Or.inl rfl | exact Or.inr ⟨_, rfl⟩


/-- Shape of the whole-hook policy at PREROUTING for a packet arriving on `lo`: nat is not consulted,
    so the fate is what mangle decides. -/
theorem specFate_lo_prerouting (c : Config) (p : Packet) (hh : p.hook = .prerouting) (hlo : p.inIf = "lo")
    (hv : (p.v6 && !c.enableIPv6) = false) :
    specFate c p =
      match manglePreroutingSpec c p with
      | .accept q => { pkt := q }
      | .drop => { dropped := true, pkt := p }
      | .tproxy port q => { tproxy := some port, pkt := q }
      | .redirect port => { redirect := some port, pkt := p }
      | .loop => { loop := true, pkt := p } := by
  simp only [specFate, hv, Bool.false_eq_true, if_false, List.foldl, specStep, Bool.or_self,
    show (Table.raw == Table.nat) = false from rfl, show (Table.mangle == Table.nat) = false from rfl,
    Bool.false_and, mangleSpec, hh]
  rcases manglePreroutingSpec_shape c p with hs | ⟨m, cm, hs | hs⟩
  · simp [hs]
  · simp [hs, natConsulted, hlo, hh]
  · simp [hs, natConsulted, hlo, hh]


theorem hasProxyIdentity_iff (c : Config) : hasProxyIdentity c = !c.identities.isEmpty := by
  unfold hasProxyIdentity Config.identities
  cases c.proxyUIDs <;> cases c.proxyGIDs <;> simp


theorem proxyOwned_iff_identities (c : Config) (p : Packet) :
    proxyOwned c p = c.identities.any (OwnerId.owns p) := by
  simp only [proxyOwned, Config.identities, List.any_append, List.any_map, Function.comp_def, OwnerId.owns,
    List.contains_eq_any_beq]


end IstioModel.C20
