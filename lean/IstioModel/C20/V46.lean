import IstioModel.C20.Fate

/-! C20 - support for `v4_v6_same_policy`: outcomes without packet identity, the two relations between
    an IPv4 packet and its IPv6 image, and the congruence of every policy predicate under them. -/
namespace IstioModel.C20
set_option linter.unusedSimpArgs false
set_option linter.unusedSectionVars false


/-- A verdict without the packet's identity: what happened, and the marks the packet leaves with. -/
inductive Effect
  | pass (mark connmark : Nat)
  | drop
  | redirect (port : Nat)
  | tproxy (port mark connmark : Nat)
  | loop
  deriving DecidableEq, Repr

def Verdict.out : Verdict → Effect
  | .accept p => .pass p.mark p.connmark
  | .drop => .drop
  | .redirect port => .redirect port
  | .tproxy port p => .tproxy port p.mark p.connmark
  | .loop => .loop

/-- The same connection attempt seen in the two families: every field that is not an address agrees. -/
structure SameButAddrs (p4 p6 : Packet) : Prop where
  fam4 : p4.v6 = false
  fam6 : p6.v6 = true
  hook : p6.hook = p4.hook
  proto : p6.proto = p4.proto
  sport : p6.sport = p4.sport
  dport : p6.dport = p4.dport
  inIf : p6.inIf = p4.inIf
  outIf : p6.outIf = p4.outIf
  uid : p6.uid = p4.uid
  gid : p6.gid = p4.gid
  ctstate : p6.ctstate = p4.ctstate
  mark : p6.mark = p4.mark
  connmark : p6.connmark = p4.connmark

/-- The address embedding, stated by what it must preserve: the configuration classifies the two
    packets' addresses alike (loopback range `HostIPv4LoopbackCidr` ~ `::1/128`, passthrough source
    `127.0.0.6` ~ `::6`, and membership in the family's share of the include / exclude / DNS lists). -/
structure AddrClassesAgree (c : Config) (p4 p6 : Packet) : Prop where
  lo : loopbackDst c p6 = loopbackDst c p4
  src : src6.contains p6.src = src4.contains p4.src
  excl : dstExcluded c p6 = dstExcluded c p4
  incl : dstIncluded c p6 = dstIncluded c p4
  dns : c.dnsV6.contains p6.dst = c.dnsV4.contains p4.dst

section
variable {c : Config} {p4 p6 : Packet} (hs : SameButAddrs p4 p6) (ha : AddrClassesAgree c p4 p6)
include hs ha

theorem same_isTcp : isTcp p6 = isTcp p4 := by simp [isTcp, hs.proto]
theorem same_isTcpUdp : isTcpUdp p6 = isTcpUdp p4 := by simp [isTcpUdp, hs.proto]
theorem same_onLo : onLo p6 = onLo p4 := by simp [onLo, hs.outIf]
theorem same_inLo : inLo p6 = inLo p4 := by simp [inLo, hs.inIf]
theorem same_proxyOwned : proxyOwned c p6 = proxyOwned c p4 := by simp [proxyOwned, hs.uid, hs.gid]
theorem same_outIfExcluded : outIfExcluded c p6 = outIfExcluded c p4 := by simp [outIfExcluded, hs.outIf]
theorem same_inIfExcluded : inIfExcluded c p6 = inIfExcluded c p4 := by simp [inIfExcluded, hs.inIf]
theorem same_outPortExcluded : outPortExcluded c p6 = outPortExcluded c p4 := by
  simp [outPortExcluded, same_isTcpUdp hs ha, hs.dport]
theorem same_outPortIncluded : outPortIncluded c p6 = outPortIncluded c p4 := by
  simp [outPortIncluded, same_isTcp hs ha, hs.dport]
theorem same_fromPassthrough : fromPassthrough p6 = fromPassthrough p4 := by
  simp [fromPassthrough, same_onLo hs ha, hs.fam4, hs.fam6, ha.src]
theorem same_ownerGroup : ownerGroupCaptured c p6 = ownerGroupCaptured c p4 := by
  simp [ownerGroupCaptured, hs.gid]
theorem same_loopbackBypass : loopbackBypass c p6 = loopbackBypass c p4 := by
  simp [loopbackBypass, same_onLo hs ha, same_isTcp hs ha, hs.dport]
theorem same_dnsCaptured : dnsCaptured c p6 = dnsCaptured c p4 := by
  simp only [dnsCaptured, same_isTcpUdp hs ha, hs.dport, hs.fam4, hs.fam6, ha.dns, if_true, Bool.false_eq_true, if_false]
theorem same_kubeVirt : kubeVirt c p6 = kubeVirt c p4 := by simp [kubeVirt, hs.inIf]
theorem same_inboundCaptured : inboundCaptured c p6 = inboundCaptured c p4 := by
  simp [inboundCaptured, inboundPortCaptured, same_isTcp hs ha, same_inIfExcluded hs ha, hs.dport]
theorem same_tproxyPortSelected : tproxyPortSelected c p6 = tproxyPortSelected c p4 := by
  simp [tproxyPortSelected, hs.dport]
theorem same_tproxyBypass : tproxyBypass c p6 = tproxyBypass c p4 := by
  simp [tproxyBypass, hs.mark, same_inLo hs ha, hs.fam4, hs.fam6, ha.src]

theorem same_identityWalk (l : List OwnerId) : identityWalk c p6 l = identityWalk c p4 l := by
  induction l with
  | nil => rfl
  | cons o rest ih =>
    have ho : o.owns p6 = o.owns p4 := by cases o <;> simp [OwnerId.owns, hs.uid, hs.gid]
    have hsc : selfCall c p6 o = selfCall c p4 o := by
      cases o <;> simp [selfCall, same_onLo hs ha, ha.lo, same_isTcp hs ha, hs.dport]
    simp only [identityWalk, ho, hsc, same_loopbackBypass hs ha, ih]

/-- The nat-table policy gives the two packets the same outcome. -/
theorem same_natSpec : (natSpec c p6).out = (natSpec c p4).out := by
  unfold natSpec
  rw [hs.hook]
  cases p4.hook
  · -- prerouting
    simp only [natPreroutingSpec, same_kubeVirt hs ha, same_isTcp hs ha, ha.incl, same_inboundCaptured hs ha]
    repeat' split
    all_goals simp [Verdict.out, hs.mark, hs.connmark]
  · simp only [natOutputSpec, same_outIfExcluded hs ha, same_outPortExcluded hs ha, same_fromPassthrough hs ha,
      same_identityWalk hs ha, same_ownerGroup hs ha, same_dnsCaptured hs ha, ha.lo, ha.excl, same_isTcp hs ha,
      same_outPortIncluded hs ha, ha.incl]
    repeat' split
    all_goals simp [Verdict.out, hs.mark, hs.connmark]

/-- The mangle-table policy gives the two packets the same outcome. -/
theorem same_mangleSpec : (mangleSpec c p6).out = (mangleSpec c p4).out := by
  unfold mangleSpec
  rw [hs.hook]
  cases p4.hook
  · simp only [manglePreroutingSpec, same_inIfExcluded hs ha, hs.ctstate, same_isTcp hs ha, hs.mark,
      same_tproxyBypass hs ha, same_tproxyPortSelected hs ha, ha.lo]
    repeat' split
    all_goals simp [Verdict.out, hs.mark, hs.connmark]
  · simp only [mangleOutputSpec, same_outIfExcluded hs ha, same_isTcp hs ha, same_onLo hs ha, hs.mark, ha.lo,
      same_proxyOwned hs ha, hs.connmark]
    repeat' split
    all_goals simp [Verdict.out, hs.mark, hs.connmark]

end


theorem same_remark {c : Config} {p4 p6 : Packet} (hs : SameButAddrs p4 p6) (ha : AddrClassesAgree c p4 p6)
    (m cm : Nat) :
    SameButAddrs { p4 with mark := m, connmark := cm } { p6 with mark := m, connmark := cm } ∧
    AddrClassesAgree c { p4 with mark := m, connmark := cm } { p6 with mark := m, connmark := cm } :=
  ⟨⟨hs.fam4, hs.fam6, hs.hook, hs.proto, hs.sport, hs.dport, hs.inIf, hs.outIf, hs.uid, hs.gid, hs.ctstate, rfl, rfl⟩,
   ⟨ha.lo, ha.src, ha.excl, ha.incl, ha.dns⟩⟩

/-- What a fate shows from outside: everything but the packet's identity. -/
def Fate.view (f : Fate) : Bool × Bool × Option Nat × Option Nat × Nat × Nat :=
  (f.dropped, f.loop, f.tproxy, f.redirect, f.pkt.mark, f.pkt.connmark)

/-- The nat step on two related packets. -/
theorem same_natStep {c : Config} {q4 q6 : Packet} (hs : SameButAddrs q4 q6) (ha : AddrClassesAgree c q4 q6)
    (tp : Option Nat) :
    (match natSpec c q6 with
      | .accept p' => ({ tproxy := tp, pkt := p' } : Fate) | .drop => { dropped := true, tproxy := tp, pkt := q6 }
      | .loop => { loop := true, tproxy := tp, pkt := q6 } | .redirect port => { tproxy := tp, redirect := some port, pkt := q6 }
      | .tproxy port p' => { tproxy := some port, pkt := p' }).view =
    (match natSpec c q4 with
      | .accept p' => ({ tproxy := tp, pkt := p' } : Fate) | .drop => { dropped := true, tproxy := tp, pkt := q4 }
      | .loop => { loop := true, tproxy := tp, pkt := q4 } | .redirect port => { tproxy := tp, redirect := some port, pkt := q4 }
      | .tproxy port p' => { tproxy := some port, pkt := p' }).view := by
  have h := same_natSpec hs ha
  rcases natSpec_shape c q4 with h4 | ⟨port4, h4⟩ <;> rcases natSpec_shape c q6 with h6 | ⟨port6, h6⟩ <;>
    simp [h4, h6, Verdict.out] at h ⊢ <;> simp [Fate.view, hs.mark, hs.connmark, h]



end IstioModel.C20
