import IstioModel.C20.NatOutput
import IstioModel.C20.NatPrerouting
import IstioModel.C20.Fate
import IstioModel.C20.V46
import IstioModel.C20.WellFormed
import IstioModel.C20.Parse

/-!
C20 - the property theorems.

Objects: `compile` (Model.lean, the model of IptablesConfigurator.Run), `rulesOf c f` (the builder's
rule list of family `f`), `evalTable d rules t h p` / `traverse` (Netfilter.lean, the meaning of a rule
list), and the policy vocabulary of Spec.lean.  Every theorem quantifies over ALL configurations `c`
of the modelled grammar, ALL packets `p` and every jump-stack bound `d + 2` (two nested user chains are
all the generated rule sets need).  `famOn c p.fam` only says that the packet's family has rules at
all (an IPv6 packet with `EnableIPv6 = false` meets an empty ip6tables).
-/
namespace IstioModel.C20
set_option linter.unusedSimpArgs false
set_option linter.unusedSectionVars false

/-! ## The compiler is correct for nat/OUTPUT -/

/-- **Compiler correctness, nat table, OUTPUT hook**: for every configuration, both families, with or
    without DNS capture / TPROXY / owner-group filters, the installed rules decide every packet exactly
    as the policy `natOutputSpec` says. -/
theorem nat_output_eq_spec (c : Config) (p : Packet) (d : Nat) (h : famOn c p.fam = true) :
    evalTable (d + 2) (rulesOf c p.fam) .nat .output p = natOutputSpec c p :=
  nat_output_correct c p d h

/-- The jump stack never overflows: the generated nat/OUTPUT rules contain no chain cycle. -/
theorem nat_output_no_chain_loop (c : Config) (p : Packet) (d : Nat) (h : famOn c p.fam = true) :
    evalTable (d + 2) (rulesOf c p.fam) .nat .output p ≠ .loop := by
  rw [nat_output_correct c p d h]
  unfold natOutputSpec
  split
  · simp
  · split
    · simp
    · simp
    · repeat' split
      all_goals simp

/-! ## no_loop -/

/-- The identity blocks decide every packet owned by one of the identities, and send it to the inbound
    listener only if it is a TCP packet on `lo` to a non-loopback address. -/
theorem identityWalk_owned (c : Config) (p : Packet) (l : List OwnerId) (h : l.any (OwnerId.owns p) = true) :
    identityWalk c p l = some false ∨
    (identityWalk c p l = some true ∧ onLo p = true ∧ loopbackDst c p = false ∧ isTcp p = true) := by
  induction l with
  | nil => simp at h
  | cons o rest ih =>
    simp only [identityWalk]
    by_cases ho : o.owns p = true
    · simp only [ho, if_true]
      cases hs : selfCall c p o
      · simp
      · right
        refine ⟨rfl, ?_⟩
        cases o <;> simp only [selfCall, Bool.and_eq_true, Bool.not_eq_true'] at hs <;>
          exact ⟨hs.1.1.1, hs.1.1.2, hs.1.2⟩
    · simp only [ho, Bool.false_eq_true, if_false]
      by_cases hb : loopbackBypass c p = true
      · simp [hb]
      · simp only [hb, Bool.false_eq_true, if_false]
        apply ih
        simpa [List.any_cons, ho] using h

/-- **no_loop** (the statement's literal clause: never back to the OUTBOUND port; which packets can take the
    remaining redirect to the inbound port is narrowed by `no_loop_narrow` / `delivery_not_looped`, and two
    genuine loops through that redirect are recorded as witnesses at the end of this file).
    A packet sent by the proxy itself (socket owned by a proxy UID or GID) is never
    redirected by nat/OUTPUT, with one exception: a TCP connection on `lo` to a non-loopback address
    (the application calling itself through the proxy) goes to the INBOUND capture port. In
    particular it never reaches the outbound port and never the DNS agent. -/
theorem no_loop (c : Config) (p : Packet) (d : Nat) (h : famOn c p.fam = true) (ho : proxyOwned c p = true) :
    evalTable (d + 2) (rulesOf c p.fam) .nat .output p = .accept p ∨
    (evalTable (d + 2) (rulesOf c p.fam) .nat .output p = .redirect c.inboundCapturePort ∧
      p.outIf = "lo" ∧ loopbackDst c p = false ∧ p.proto = .tcp) := by
  rw [nat_output_correct c p d h]
  unfold natOutputSpec
  split
  · left; rfl
  · rw [proxyOwned_iff_identities] at ho
    rcases identityWalk_owned c p c.identities ho with hw | ⟨hw, h1, h2, h3⟩
    · left; simp [hw]
    · right
      simp only [hw, true_and]
      exact ⟨by simpa [onLo] using h1, h2, by simpa [isTcp] using h3⟩

/-- no_loop, port form: the proxy's own traffic is never redirected to the outbound proxy port
    (provided that port is not also used as the inbound capture port). -/
theorem no_loop_outbound_port (c : Config) (p : Packet) (d : Nat) (h : famOn c p.fam = true)
    (ho : proxyOwned c p = true) (hp : c.proxyPort ≠ c.inboundCapturePort) :
    evalTable (d + 2) (rulesOf c p.fam) .nat .output p ≠ .redirect c.proxyPort := by
  rcases no_loop c p d h ho with h1 | ⟨h1, _⟩ <;> rw [h1] <;> simp
  exact fun e => hp e.symm

/-- "Proxy-owned DNS is not re-captured": the proxy's own packets (the agent's upstream DNS queries
    included) never go to the DNS agent port. -/
theorem proxy_dns_not_recaptured (c : Config) (p : Packet) (d : Nat) (h : famOn c p.fam = true)
    (ho : proxyOwned c p = true) (hp : c.inboundCapturePort ≠ dnsAgentPort) :
    evalTable (d + 2) (rulesOf c p.fam) .nat .output p ≠ .redirect dnsAgentPort := by
  rcases no_loop c p d h ho with h1 | ⟨h1, _⟩ <;> rw [h1] <;> simp
  exact hp

/-- Off `lo` the proxy's own traffic is always left alone. -/
theorem no_loop_off_lo (c : Config) (p : Packet) (d : Nat) (h : famOn c p.fam = true)
    (ho : proxyOwned c p = true) (hlo : p.outIf ≠ "lo") :
    evalTable (d + 2) (rulesOf c p.fam) .nat .output p = .accept p := by
  rcases no_loop c p d h ho with h1 | ⟨_, h2, _⟩
  · exact h1
  · exact absurd h2 hlo

/-! ## outbound_exact -/

/-- For application traffic the identity blocks only implement the loopback bypass. -/
theorem identityWalk_app (c : Config) (p : Packet) (l : List OwnerId) (h : l.any (OwnerId.owns p) = false) :
    identityWalk c p l = if !l.isEmpty && loopbackBypass c p then some false else none := by
  induction l with
  | nil => simp [identityWalk]
  | cons o rest ih =>
    simp only [List.any_cons, Bool.or_eq_false_iff] at h
    simp only [identityWalk, h.1, Bool.false_eq_true, if_false, ih h.2]
    by_cases hb : loopbackBypass c p = true <;> simp [hb]

/-- **Application outbound traffic, complete form**: for a packet NOT owned by the proxy, nat/OUTPUT
    redirects to the DNS agent iff `outboundDNSCaptured`, else to the outbound proxy port iff
    `outboundCaptured`, else leaves it alone. -/
theorem outbound_app (c : Config) (p : Packet) (d : Nat) (h : famOn c p.fam = true)
    (happ : proxyOwned c p = false) :
    evalTable (d + 2) (rulesOf c p.fam) .nat .output p =
      if outboundDNSCaptured c p then .redirect dnsAgentPort
      else if outboundCaptured c p then .redirect c.proxyPort
      else .accept p := by
  rw [nat_output_correct c p d h]
  rw [proxyOwned_iff_identities] at happ
  unfold natOutputSpec outboundDNSCaptured outboundCaptured
  rw [identityWalk_app c p _ happ, hasProxyIdentity_iff]
  by_cases h0 : outIfExcluded c p = true
  · simp [h0]
  by_cases h1 : outPortExcluded c p = true
  · simp [h1]
  by_cases h2 : fromPassthrough p = true
  · simp [h2]
  by_cases hb : (!c.identities.isEmpty && loopbackBypass c p) = true
  · simp [h0, h1, h2, hb]
  by_cases h3 : ownerGroupCaptured c p = true
  · by_cases h4 : dnsCaptured c p = true
    · simp [h0, h1, h2, hb, h3, h4]
    by_cases h5 : loopbackDst c p = true
    · simp [h0, h1, h2, hb, h3, h4, h5]
    by_cases h6 : dstExcluded c p = true
    · simp [h0, h1, h2, hb, h3, h4, h5, h6]
    by_cases h8 : isTcp p = true <;>
      by_cases h7 : (outPortIncluded c p || dstIncluded c p) = true <;>
      simp [h0, h1, h2, hb, h3, h4, h5, h6, h7, h8]
  · simp [h0, h1, h2, hb, h3]

/-- **outbound_exact.** An application packet (not DNS-captured) is redirected to the outbound proxy port
    IF AND ONLY IF it is TCP, its destination is in the included ranges (or its port in the included
    ports) and not in an excluded range, its port not excluded, its interface not excluded, it is not
    for the loopback range, its owner group is captured, and it is not `lo` traffic that is bypassed. -/
theorem outbound_exact (c : Config) (p : Packet) (d : Nat) (h : famOn c p.fam = true)
    (happ : proxyOwned c p = false) (hdns : dnsCaptured c p = false) :
    evalTable (d + 2) (rulesOf c p.fam) .nat .output p = .redirect c.proxyPort ↔ outboundCaptured c p = true := by
  rw [outbound_app c p d h happ]
  have : outboundDNSCaptured c p = false := by simp [outboundDNSCaptured, hdns]
  simp only [this, Bool.false_eq_true, if_false]
  by_cases hc : outboundCaptured c p = true <;> simp [hc]

/-- ... and when it is not captured it is left alone (no other redirect, no drop). -/
theorem outbound_exact_else (c : Config) (p : Packet) (d : Nat) (h : famOn c p.fam = true)
    (happ : proxyOwned c p = false) (hdns : dnsCaptured c p = false) (hc : outboundCaptured c p = false) :
    evalTable (d + 2) (rulesOf c p.fam) .nat .output p = .accept p := by
  rw [outbound_app c p d h happ]
  have : outboundDNSCaptured c p = false := by simp [outboundDNSCaptured, hdns]
  simp [this, hc]

/-- The readable special case: off `lo`, default owner-group filter, no port inclusions, not the
    passthrough source - an application TCP packet is redirected iff its destination is included, not
    excluded, not loopback, and neither its port nor its interface is excluded. -/
theorem outbound_exact_plain (c : Config) (p : Packet) (d : Nat) (h : famOn c p.fam = true)
    (happ : proxyOwned c p = false) (hdns : dnsActive c = false) (htcp : p.proto = .tcp) (hlo : p.outIf ≠ "lo")
    (hog : c.ownerGroupsAll = true ∧ c.ownerGroupsExclude = []) (hpi : c.outPortsInclude = []) :
    evalTable (d + 2) (rulesOf c p.fam) .nat .output p = .redirect c.proxyPort ↔
      (dstIncluded c p = true ∧ dstExcluded c p = false ∧ loopbackDst c p = false ∧
       c.outPortsExclude.contains p.dport = false ∧ c.exclIfs.contains p.outIf = false) := by
  rw [outbound_exact c p d h happ (by simp [dnsCaptured, hdns])]
  have hlo' : (p.outIf == "lo") = false := by simpa using hlo
  simp [outboundCaptured, isTcp, htcp, outIfExcluded, outPortExcluded, isTcpUdp, fromPassthrough, onLo, hlo',
    loopbackBypass, ownerGroupCaptured, hog.1, hog.2, outPortIncluded, hpi]
  constructor
  · rintro ⟨⟨⟨⟨h1, h2⟩, h3⟩, h4⟩, h5⟩; exact ⟨h5, h4, h3, h2, h1⟩
  · rintro ⟨h5, h4, h3, h2, h1⟩; exact ⟨⟨⟨⟨h1, h2⟩, h3⟩, h4⟩, h5⟩

/-! ## loopback_alone -/

/-- **loopback_alone.** Application traffic on `lo` (whatever its destination) is left alone, as soon
    as a proxy identity is configured and no loopback range was explicitly included; with DNS capture
    the guarantee covers every protocol and port except port 53 (kept capturable on purpose for a
    resolver on localhost). -/
theorem loopback_alone (c : Config) (p : Packet) (d : Nat) (h : famOn c p.fam = true)
    (happ : proxyOwned c p = false) (hlo : p.outIf = "lo") (hid : hasProxyIdentity c = true)
    (hincl : loopbackIncluded c = false) (hdns : dnsActive c = false ∨ p.dport ≠ 53) :
    evalTable (d + 2) (rulesOf c p.fam) .nat .output p = .accept p := by
  rw [outbound_app c p d h happ]
  by_cases ht : isTcp p = true
  · have hb : loopbackBypass c p = true := by
      unfold loopbackBypass onLo
      rcases hdns with hd | hp
      · simp [hlo, hincl, hd]
      · simp [hlo, hincl, ht, hp]
    simp [outboundDNSCaptured, outboundCaptured, hid, hb]
  · have hd : dnsCaptured c p = false := by
      rcases hdns with hd | hp
      · simp [dnsCaptured, hd]
      · have : (p.dport == 53) = false := by simpa using hp
        simp [dnsCaptured, this]
    simp [outboundDNSCaptured, outboundCaptured, hd, ht]

/-- The destination-based half: whatever the interface, packets for the loopback range that are not
    DNS-captured are never sent to the outbound port. -/
theorem loopback_dst_alone (c : Config) (p : Packet) (d : Nat) (h : famOn c p.fam = true)
    (happ : proxyOwned c p = false) (hdns : dnsCaptured c p = false) (hdst : loopbackDst c p = true) :
    evalTable (d + 2) (rulesOf c p.fam) .nat .output p = .accept p := by
  apply outbound_exact_else c p d h happ hdns
  simp [outboundCaptured, hdst]

/-- multi_uid_note (recorded observation, not claimed by the property): with several proxy
    identities and the loopback bypass in force, a packet owned by a LATER identity is handed back by
    the first identity's `! --uid-owner` RETURN rule, so its call-to-self is not sent to the inbound
    listener (only the first identity's is). no_loop is unaffected. -/
theorem multi_identity_shadow (c : Config) (p : Packet) (d : Nat) (h : famOn c p.fam = true)
    (o : OwnerId) (rest : List OwnerId) (hids : c.identities = o :: rest) (hfirst : o.owns p = false)
    (hb : loopbackBypass c p = true)
    (hearly : outIfExcluded c p = false ∧ outPortExcluded c p = false ∧ fromPassthrough p = false) :
    evalTable (d + 2) (rulesOf c p.fam) .nat .output p = .accept p := by
  rw [nat_output_correct c p d h]
  simp [natOutputSpec, hearly.1, hearly.2.1, hearly.2.2, hids, identityWalk, hfirst, hb]

/-! ## inbound_exact (REDIRECT mode) -/

/-- **Compiler correctness, nat table, PREROUTING hook**: REDIRECT-mode inbound capture and the
    kube-virt interfaces, for every configuration and packet. -/
theorem nat_prerouting_eq_spec (c : Config) (p : Packet) (d : Nat) (h : famOn c p.fam = true) :
    evalTable (d + 2) (rulesOf c p.fam) .nat .prerouting p = natPreroutingSpec c p :=
  nat_prerouting_correct c p d h

/-- **inbound_exact.** In REDIRECT mode a packet arriving on an ordinary interface is redirected to the
    inbound capture port IF AND ONLY IF it is TCP, its interface is not excluded, its destination port is
    not the tunnel port and is selected: with `*` every port except the excluded ones, with an explicit
    list exactly the listed ports. Otherwise it is left alone. -/
theorem inbound_exact (c : Config) (p : Packet) (d : Nat) (h : famOn c p.fam = true)
    (hmode : c.tproxy = false) (hkv : kubeVirt c p = false) :
    evalTable (d + 2) (rulesOf c p.fam) .nat .prerouting p =
      if inboundCaptured c p then .redirect c.inboundCapturePort else .accept p := by
  rw [nat_prerouting_correct c p d h]
  simp [natPreroutingSpec, hkv, hmode]

theorem inbound_exact_iff (c : Config) (p : Packet) (d : Nat) (h : famOn c p.fam = true)
    (hmode : c.tproxy = false) (hkv : kubeVirt c p = false) :
    evalTable (d + 2) (rulesOf c p.fam) .nat .prerouting p = .redirect c.inboundCapturePort ↔
      (p.proto = .tcp ∧ c.exclIfs.contains p.inIf = false ∧ p.dport ≠ c.inboundTunnelPort ∧
        (match c.inboundInclude with
         | .none => False
         | .all => c.inboundExclude.contains p.dport = false
         | .ports l => l.contains p.dport = true)) := by
  rw [inbound_exact c p d h hmode hkv]
  unfold inboundCaptured inboundPortCaptured isTcp inIfExcluded
  cases hi : c.inboundInclude <;> by_cases h1 : p.proto = .tcp <;> by_cases h2 : p.dport = c.inboundTunnelPort <;>
    simp [h1, h2] <;> split <;> simp_all

/-- Observation (documented behaviour of the flag, not a defect): with an explicit include list the
    excluded inbound ports are not consulted - a port that is both listed and "excluded" IS captured. -/
theorem inbound_exclude_ignored_with_list (c : Config) (p : Packet) (d : Nat) (h : famOn c p.fam = true)
    (hmode : c.tproxy = false) (hkv : kubeVirt c p = false) (l : List Nat) (hl : c.inboundInclude = .ports l)
    (hin : l.contains p.dport = true) (htcp : p.proto = .tcp) (hif : c.exclIfs.contains p.inIf = false)
    (ht : p.dport ≠ c.inboundTunnelPort) :
    evalTable (d + 2) (rulesOf c p.fam) .nat .prerouting p = .redirect c.inboundCapturePort := by
  rw [inbound_exact_iff c p d h hmode hkv]
  refine ⟨htcp, hif, ht, ?_⟩
  simp only [hl]
  exact hin

/-- In TPROXY mode the nat table redirects nothing inbound (capture happens in mangle). -/
theorem nat_prerouting_tproxy (c : Config) (p : Packet) (d : Nat) (h : famOn c p.fam = true)
    (hmode : c.tproxy = true) (hkv : kubeVirt c p = false) :
    evalTable (d + 2) (rulesOf c p.fam) .nat .prerouting p = .accept p := by
  rw [nat_prerouting_correct c p d h]
  simp [natPreroutingSpec, hkv, hmode]

/-- Traffic arriving on a KUBE_VIRT_INTERFACES interface is treated as outbound: redirected to the
    outbound port iff TCP with an included destination, otherwise left alone. -/
theorem kube_virt_exact (c : Config) (p : Packet) (d : Nat) (h : famOn c p.fam = true)
    (hkv : kubeVirt c p = true) :
    evalTable (d + 2) (rulesOf c p.fam) .nat .prerouting p =
      if isTcp p && dstIncluded c p then .redirect c.proxyPort else .accept p := by
  rw [nat_prerouting_correct c p d h]
  simp [natPreroutingSpec, hkv]

/-! ## The tables around nat, and the whole hook -/

/-- The raw table (DNS conntrack zones) never decides or changes a packet. -/
theorem raw_table_inert (c : Config) (f : Fam) (h : Hook) (p : Packet) (d : Nat) :
    evalTable (d + 1) (rulesOf c f) .raw h p = .accept p :=
  raw_accepts c f h p d

/-- **Compiler correctness, mangle table, OUTPUT hook** (TPROXY-mode re-marking; nothing in REDIRECT mode). -/
theorem mangle_output_eq_spec (c : Config) (p : Packet) (d : Nat) (h : famOn c p.fam = true) :
    evalTable (d + 1) (rulesOf c p.fam) .mangle .output p = mangleOutputSpec c p :=
  mangle_output_correct c p d h

/-- **Compiler correctness, mangle table, PREROUTING hook** (drop-invalid; TPROXY-mode inbound capture,
    including the three rules inserted at the head of ISTIO_INBOUND). -/
theorem mangle_prerouting_eq_spec (c : Config) (p : Packet) (d : Nat) (h : famOn c p.fam = true) :
    evalTable (d + 2) (rulesOf c p.fam) .mangle .prerouting p = manglePreroutingSpec c p :=
  mangle_prerouting_correct c p d h

/-- **Compiler correctness, whole hook**: for every configuration (both interception modes, both
    families, DNS capture, kube-virt interfaces, owner-group filters, drop-invalid) and every packet, the
    fate of the packet under the installed rules (raw, mangle, nat in hook order) is the fate the policy
    `specFate` prescribes. -/
theorem fate_correct (c : Config) (p : Packet) (d : Nat) :
    traverse (d + 2) (rulesOf c p.fam) p = specFate c p := by
  cases hfam : famOn c p.fam
  · -- the family has no rules at all
    rcases famOn_false c p hfam with ⟨h1, h2⟩
    simp only [traverse, specFate, h1, h2, if_true, List.foldl, stepTable, evalTable_nil]
    cases hn : natConsulted p.hook p.ctstate p.inIf <;> simp [hn]
  · have hv : (p.v6 && !c.enableIPv6) = false := by
      unfold famOn at hfam
      cases hv : p.v6 <;> cases he : c.enableIPv6 <;> simp [Packet.fam, hv, he] at hfam ⊢
    simp only [traverse, specFate, hv, Bool.false_eq_true, if_false, List.foldl, stepTable, specStep,
      raw_accepts c p.fam p.hook p (d + 1)]
    simp only [Bool.or_self, Bool.false_eq_true, if_false, beq_self_eq_true, Bool.true_and]
    cases hh : p.hook
    · -- PREROUTING
      have hm := mangle_prerouting_correct c p d hfam
      simp only [show (Table.raw == Table.nat) = false from rfl, show (Table.mangle == Table.nat) = false from rfl,
        Bool.false_and, Bool.false_eq_true, if_false, hm, mangleSpec, hh]
      rcases manglePreroutingSpec_shape c p with hs | ⟨m, cm, hs | hs⟩
      · simp [hs]
      · simp only [hs, Bool.or_self, Bool.false_eq_true, if_false, hh]
        by_cases hct : natConsulted Hook.prerouting p.ctstate p.inIf = true
        · simp only [hct, Bool.not_true, Bool.and_false, Bool.false_eq_true, if_false, natSpec]
          rw [nat_prerouting_correct' c p ({ p with hook := Hook.prerouting, mark := m, connmark := cm }) d hfam rfl]
          try rfl
        · simp [hct]
      · simp only [hs, Bool.or_self, Bool.false_eq_true, if_false, hh]
        by_cases hct : natConsulted Hook.prerouting p.ctstate p.inIf = true
        · simp only [hct, Bool.not_true, Bool.and_false, Bool.false_eq_true, if_false, natSpec]
          rw [nat_prerouting_correct' c p ({ p with hook := Hook.prerouting, mark := m, connmark := cm }) d hfam rfl]
          try rfl
        · simp [hct]
    · -- OUTPUT
      have hm := mangle_output_correct c p (d + 1) hfam
      simp only [show (Table.raw == Table.nat) = false from rfl, show (Table.mangle == Table.nat) = false from rfl,
        Bool.false_and, Bool.false_eq_true, if_false, hm, mangleSpec, hh]
      rcases mangleOutputSpec_shape c p with ⟨m, hs⟩
      simp only [hs, Bool.or_self, Bool.false_eq_true, if_false, hh]
      by_cases hct : natConsulted Hook.output p.ctstate p.inIf = true
      · simp only [hct, Bool.not_true, Bool.and_false, Bool.false_eq_true, if_false, natSpec]
        rw [nat_output_correct' c p ({ p with hook := Hook.output, mark := m }) d hfam rfl]
        try rfl
      · simp [hct]

/-- No generated rule set contains a chain cycle: the jump stack (two levels suffice) never overflows,
    for any configuration, family, hook and packet. -/
theorem never_chain_loop (c : Config) (p : Packet) (d : Nat) :
    (traverse (d + 2) (rulesOf c p.fam) p).loop = false := by
  rw [fate_correct]
  unfold specFate
  split
  · rfl
  · simp only [List.foldl]
    exact specStep_loop _ _ _ (specStep_loop _ _ _ (specStep_loop _ _ _ rfl))

/-! ## Whole-hook corollaries (REDIRECT mode, first packet of a connection) -/

/-- In REDIRECT mode the first packet of a connection is decided by the nat table alone. -/
theorem fate_redirect_mode (c : Config) (p : Packet) (d : Nat) (hon : famOn c p.fam = true)
    (hmode : c.tproxy = false) (hnew : p.ctstate = .new) (hlo : p.hook = .prerouting → p.inIf ≠ "lo") :
    traverse (d + 2) (rulesOf c p.fam) p =
      match natSpec c p with
      | .redirect port => { redirect := some port, pkt := p }
      | _ => { pkt := p } := by
  rw [fate_correct]
  have hnc : natConsulted p.hook CtState.new p.inIf = true := by
    unfold natConsulted
    cases hh : p.hook
    · have : (p.inIf == "lo") = false := by simpa using hlo hh
      simp [this]
    · simp
  have hv : (p.v6 && !c.enableIPv6) = false := by
    unfold famOn at hon
    cases hv : p.v6 <;> cases he : c.enableIPv6 <;> simp [Packet.fam, hv, he] at hon ⊢
  have hm : mangleSpec c p = .accept p := by
    unfold mangleSpec mangleOutputSpec manglePreroutingSpec
    cases p.hook <;> simp [hmode, hnew]
  simp only [specFate, hv, Bool.false_eq_true, if_false, List.foldl, specStep, Bool.or_self,
    show (Table.raw == Table.nat) = false from rfl, show (Table.mangle == Table.nat) = false from rfl,
    Bool.false_and, hm, hnew, beq_self_eq_true, Bool.true_and, bne_self_eq_false, hnc, Bool.not_true]
  rcases natSpec_shape c p with h | ⟨port, h⟩ <;> simp [h]

/-- outbound_exact for the whole hook. -/
theorem outbound_exact_fate (c : Config) (p : Packet) (d : Nat) (hon : famOn c p.fam = true)
    (hmode : c.tproxy = false) (hnew : p.ctstate = .new) (hh : p.hook = .output)
    (happ : proxyOwned c p = false) (hdns : dnsCaptured c p = false) :
    traverse (d + 2) (rulesOf c p.fam) p =
      if outboundCaptured c p then { redirect := some c.proxyPort, pkt := p } else { pkt := p } := by
  rw [fate_redirect_mode c p d hon hmode hnew (by simp [hh])]
  have h1 := outbound_app c p d hon happ
  rw [nat_output_correct c p d hon] at h1
  have h2 : outboundDNSCaptured c p = false := by simp [outboundDNSCaptured, hdns]
  simp only [natSpec, hh, h1, h2, Bool.false_eq_true, if_false]
  by_cases hc : outboundCaptured c p = true <;> simp [hc]

/-- no_loop for the whole hook. -/
theorem no_loop_fate (c : Config) (p : Packet) (d : Nat) (hon : famOn c p.fam = true)
    (hmode : c.tproxy = false) (hnew : p.ctstate = .new) (hh : p.hook = .output)
    (ho : proxyOwned c p = true) (hp : c.proxyPort ≠ c.inboundCapturePort) :
    (traverse (d + 2) (rulesOf c p.fam) p).redirect ≠ some c.proxyPort ∧
    (traverse (d + 2) (rulesOf c p.fam) p).dropped = false := by
  rw [fate_redirect_mode c p d hon hmode hnew (by simp [hh])]
  have h1 := no_loop c p d hon ho
  rw [nat_output_correct c p d hon] at h1
  simp only [natSpec, hh]
  rcases h1 with h1 | ⟨h1, _⟩ <;> simp [h1]
  exact fun e => hp e.symm

/-- inbound_exact for the whole hook: packets arriving on a real interface (for `lo` see
    `lo_reentry_never_redirected`: nat/PREROUTING is not consulted for them). -/
theorem inbound_exact_fate (c : Config) (p : Packet) (d : Nat) (hon : famOn c p.fam = true)
    (hmode : c.tproxy = false) (hnew : p.ctstate = .new) (hh : p.hook = .prerouting) (hkv : kubeVirt c p = false)
    (hlo : p.inIf ≠ "lo") :
    traverse (d + 2) (rulesOf c p.fam) p =
      if inboundCaptured c p then { redirect := some c.inboundCapturePort, pkt := p } else { pkt := p } := by
  rw [fate_redirect_mode c p d hon hmode hnew (fun _ => hlo)]
  simp only [natSpec, hh, natPreroutingSpec, hkv, hmode, Bool.false_eq_true, if_false, Bool.not_false, Bool.true_and]
  by_cases hc : inboundCaptured c p = true <;> simp [hc]

/-- Packets of an ESTABLISHED connection never meet the nat table: in REDIRECT mode they pass untouched.
    (RELATED is different: the first packet of an expected connection DOES consult nat - `natConsulted` -
    and is decided like a NEW one; INVALID packets are dropped at PREROUTING with drop-invalid.) -/
theorem established_untouched (c : Config) (p : Packet) (d : Nat) (hmode : c.tproxy = false)
    (h : p.ctstate = .established) :
    traverse (d + 2) (rulesOf c p.fam) p = { pkt := p } := by
  rw [fate_correct]
  unfold specFate
  split
  · rfl
  · have hm : mangleSpec c p = .accept p := by
      unfold mangleSpec mangleOutputSpec manglePreroutingSpec
      cases p.hook <;> simp [hmode, h]
    simp [List.foldl, specStep, hm, h, natConsulted, show (Table.raw == Table.nat) = false from rfl,
      show (Table.mangle == Table.nat) = false from rfl]

/-- The first packet of a RELATED (expected) connection is decided by nat exactly as a NEW one is. -/
theorem related_like_new (c : Config) (p : Packet) (h : Hook) :
    natConsulted h .related p.inIf = natConsulted h .new p.inIf := by
  simp [natConsulted]

/-! ## Across hooks: traffic on `lo` -/

/-- **A packet arriving on `lo` is never redirected** (any mode, any configuration): its connection got
    its NAT binding at nat/OUTPUT, nat/PREROUTING is not consulted. In particular traffic the proxy
    delivers to the application over `lo`, and the application's own loopback traffic, are not captured a
    second time in REDIRECT mode. -/
theorem lo_reentry_never_redirected (c : Config) (p : Packet) (d : Nat)
    (hh : p.hook = .prerouting) (hlo : p.inIf = "lo") :
    (traverse (d + 2) (rulesOf c p.fam) p).redirect = none := by
  rw [fate_correct]
  by_cases hv : (p.v6 && !c.enableIPv6) = true
  · simp [specFate, hv]
  · have hv' : (p.v6 && !c.enableIPv6) = false := by simpa using hv
    rw [specFate_lo_prerouting c p hh hlo hv']
    rcases manglePreroutingSpec_shape c p with hs | ⟨m, cm, hs | hs⟩ <;> simp [hs]

/-- In REDIRECT mode a packet arriving on `lo` is left completely alone (drop-invalid aside). -/
theorem lo_reentry_untouched_redirect_mode (c : Config) (p : Packet) (d : Nat)
    (hh : p.hook = .prerouting) (hlo : p.inIf = "lo") (hmode : c.tproxy = false)
    (hinv : ¬(c.dropInvalid = true ∧ p.ctstate = .invalid)) :
    traverse (d + 2) (rulesOf c p.fam) p = { pkt := p } := by
  rw [fate_correct]
  by_cases hv : (p.v6 && !c.enableIPv6) = true
  · simp [specFate, hv]
  · have hv' : (p.v6 && !c.enableIPv6) = false := by simpa using hv
    rw [specFate_lo_prerouting c p hh hlo hv']
    have : manglePreroutingSpec c p = .accept p := by
      unfold manglePreroutingSpec
      by_cases h1 : c.dropInvalid = true <;> by_cases h2 : p.ctstate = .invalid <;> simp_all
    simp [this]

/-- **tproxy_lo_bypass** (TPROXY mode): a packet arriving on `lo` that comes from the proxy's passthrough
    source 127.0.0.6 / ::6, or that does not carry the proxy's self-call mark 1338, is never handed to
    TPROXY and keeps its mark. -/
theorem tproxy_lo_bypass (c : Config) (p : Packet) (d : Nat) (h : famOn c p.fam = true)
    (hlo : p.inIf = "lo")
    (hby : (if p.v6 then src6 else src4).contains p.src = true ∨ p.mark ≠ outboundMark) :
    evalTable (d + 2) (rulesOf c p.fam) .mangle .prerouting p = .drop ∨
    ∃ q, evalTable (d + 2) (rulesOf c p.fam) .mangle .prerouting p = .accept q ∧ q.mark = p.mark := by
  rw [mangle_prerouting_correct c p d h]
  unfold manglePreroutingSpec
  have hb : tproxyBypass c p = true := by
    rcases hby with hs | hm
    · simp [tproxyBypass, inLo, hlo, hs]
    · have : (p.mark != outboundMark) = true := by simpa using hm
      simp [tproxyBypass, inLo, hlo, this]
  simp only [hb, Bool.not_true, Bool.false_eq_true, if_false, Bool.and_false, Bool.false_and]
  split
  · exact Or.inr ⟨p, rfl, rfl⟩
  · split
    · exact Or.inl rfl
    · right
      split
      · exact ⟨p, rfl, rfl⟩
      · split <;> exact ⟨_, rfl, rfl⟩

/-- After the OUTPUT hook a packet carries the self-call mark 1338 only if it is the proxy's own TCP
    call-to-self on `lo` (to a non-loopback address), or it had that mark before, or the configured
    TPROXY mark is itself 1338. -/
theorem output_mark_1338 (c : Config) (p q : Packet) (h : mangleOutputSpec c p = .accept q)
    (hq : q.mark = outboundMark) :
    (proxyOwned c p = true ∧ p.proto = .tcp ∧ p.outIf = "lo" ∧ loopbackDst c p = false) ∨
    p.mark = outboundMark ∨ c.tproxyMark = outboundMark := by
  unfold mangleOutputSpec at h
  split at h
  · injection h with h; subst h; exact Or.inr (Or.inl hq)
  · split at h
    · injection h with h; subst h; exact Or.inr (Or.inl hq)
    · injection h with h
      subst h
      simp only at hq
      split at hq
      · rename_i hc
        simp only [Bool.and_eq_true, beq_iff_eq] at hc
        exact Or.inr (Or.inr (hc.2 ▸ hq))
      · split at hq
        · rename_i hs
          simp only [Bool.and_eq_true, Bool.not_eq_true', isTcp, onLo, beq_iff_eq] at hs
          exact Or.inl ⟨hs.2, hs.1.1.1, hs.1.1.2, hs.1.2⟩
        · exact Or.inr (Or.inl hq)


/-- The packet that leaves the OUTPUT hook: same family, and marked 1338 only for the reasons of
    `output_mark_1338`. -/
theorem output_fate_pkt (c : Config) (p : Packet) (hh : p.hook = .output) :
    (specFate c p).pkt.v6 = p.v6 ∧
    ((specFate c p).pkt.mark = outboundMark →
      (proxyOwned c p = true ∧ p.proto = .tcp ∧ p.outIf = "lo" ∧ loopbackDst c p = false) ∨
      p.mark = outboundMark ∨ c.tproxyMark = outboundMark) := by
  by_cases hv : (p.v6 && !c.enableIPv6) = true
  · have key : (specFate c p).pkt = p := by simp [specFate, hv]
    rw [key]
    exact ⟨rfl, fun h => Or.inr (Or.inl h)⟩
  · have hv' : (p.v6 && !c.enableIPv6) = false := by simpa using hv
    rcases mangleOutputSpec_shape c p with ⟨m, hs⟩
    have key : (specFate c p).pkt = { p with mark := m } := by
      simp only [specFate, hv', Bool.false_eq_true, if_false, List.foldl, specStep, Bool.or_self,
        show (Table.raw == Table.nat) = false from rfl, show (Table.mangle == Table.nat) = false from rfl,
        Bool.false_and, mangleSpec, hh, hs, beq_self_eq_true, Bool.true_and]
      split
      · rfl
      · rcases natSpec_shape c { p with hook := Hook.output, mark := m } with h | ⟨port, h⟩ <;> simp [h]
    rw [key]
    exact ⟨rfl, fun h => output_mark_1338 c p _ hs h⟩

/-- At PREROUTING on `lo`, only a packet carrying the self-call mark 1338 can be handed to TPROXY. -/
theorem mangle_lo_tproxy_needs_1338 (c : Config) (p : Packet) (hlo : p.inIf = "lo") (port : Nat) (q : Packet)
    (h : manglePreroutingSpec c p = .tproxy port q) : c.tproxy = true ∧ p.mark = outboundMark := by
  by_cases hm : p.mark = outboundMark
  · refine ⟨?_, hm⟩
    unfold manglePreroutingSpec at h
    cases ht : c.tproxy
    · simp only [ht, Bool.false_and, Bool.false_eq_true, if_false, Bool.not_false, if_true] at h
      split at h <;> simp at h
    · rfl
  · exfalso
    have hb : tproxyBypass c p = true := by
      have : (p.mark != outboundMark) = true := by simpa using hm
      simp [tproxyBypass, inLo, hlo, this]
    unfold manglePreroutingSpec at h
    simp only [hb, Bool.not_true, Bool.false_eq_true, if_false, Bool.and_false, Bool.false_and] at h
    repeat' split at h
    all_goals simp at h

/-- **never loop, across hooks.** Take ANY packet sent at the OUTPUT hook and follow it when it comes
    back in through `lo` (whatever REDIRECT did to its destination at OUTPUT). At the second hook it is
    never redirected; in REDIRECT mode it is never captured at all; in TPROXY mode it can be handed to
    TPROXY only if it is the proxy's own TCP call-to-self on `lo` to a non-loopback address (the documented
    appN -> Envoy -> Envoy -> appN path, marked 1338 by mangle/OUTPUT) - never for application traffic,
    unless the sender itself had put mark 1338 on it or the TPROXY mark is configured to 1338. -/
theorem lo_journey_never_loops (c : Config) (p : Packet) (d : Nat) (dst' : Nat) (hh : p.hook = .output) :
    match (loJourney (d + 2) (rulesOf c p.fam) p dst').2 with
    | none => True
    | some f2 =>
      f2.redirect = none ∧ (c.tproxy = false → f2.tproxy = none) ∧
      (f2.tproxy ≠ none →
        (proxyOwned c p = true ∧ p.proto = .tcp ∧ p.outIf = "lo" ∧ loopbackDst c p = false) ∨
        p.mark = outboundMark ∨ c.tproxyMark = outboundMark) := by
  unfold loJourney
  simp only
  split
  · trivial
  · rename_i f2 hf2
    split at hf2
    · simp at hf2
    · injection hf2 with hf2
      rw [fate_correct] at hf2
      rcases output_fate_pkt c p hh with ⟨hv6, hmark⟩
      generalize hp2 : reenterLo (specFate c p) dst' = p2 at hf2
      have h2h : p2.hook = .prerouting := by rw [← hp2]; rfl
      have h2lo : p2.inIf = "lo" := by rw [← hp2]; rfl
      have h2m : p2.mark = (specFate c p).pkt.mark := by rw [← hp2]; rfl
      have h2f : p2.fam = p.fam := by
        have : p2.v6 = (specFate c p).pkt.v6 := by rw [← hp2]; rfl
        simp [Packet.fam, this, hv6]
      rw [← h2f] at hf2
      subst hf2
      refine ⟨lo_reentry_never_redirected c p2 d h2h h2lo, ?_, ?_⟩
      · intro hmode
        rw [fate_correct]
        by_cases hv : (p2.v6 && !c.enableIPv6) = true
        · simp [specFate, hv]
        · have hv' : (p2.v6 && !c.enableIPv6) = false := by simpa using hv
          rw [specFate_lo_prerouting c p2 h2h h2lo hv']
          rcases manglePreroutingSpec_shape c p2 with hs | ⟨m, cm, hs | hs⟩
          · simp [hs]
          · simp [hs]
          · have := (mangle_lo_tproxy_needs_1338 c p2 h2lo _ _ hs).1
            simp [hmode] at this
      · intro htp
        apply hmark
        rw [← h2m]
        rw [fate_correct] at htp
        by_cases hv : (p2.v6 && !c.enableIPv6) = true
        · simp [specFate, hv] at htp
        · have hv' : (p2.v6 && !c.enableIPv6) = false := by simpa using hv
          rw [specFate_lo_prerouting c p2 h2h h2lo hv'] at htp
          rcases manglePreroutingSpec_shape c p2 with hs | ⟨m, cm, hs | hs⟩
          · simp [hs] at htp
          · simp [hs] at htp
          · exact (mangle_lo_tproxy_needs_1338 c p2 h2lo _ _ hs).2

/-- mangle/OUTPUT never takes the TPROXY mark off a packet. -/
theorem mangleOutput_keeps_tproxyMark (c : Config) (p q : Packet) (h : mangleOutputSpec c p = .accept q)
    (hm : p.mark = c.tproxyMark) : q.mark = c.tproxyMark ∧ q.src = p.src := by
  unfold mangleOutputSpec at h
  split at h
  · injection h with h; subst h; exact ⟨hm, rfl⟩
  · split at h
    · injection h with h; subst h; exact ⟨hm, rfl⟩
    · rename_i h1 h2
      injection h with h
      subst h
      refine ⟨?_, rfl⟩
      simp only
      split
      · rename_i hc
        simp only [Bool.and_eq_true, beq_iff_eq] at hc
        exact hc.2
      · split
        · rename_i hs
          -- a TCP packet on lo carrying the TPROXY mark was already returned by the rule before
          exfalso
          simp only [Bool.and_eq_true, Bool.not_eq_true'] at hs
          have : (isTcp p && onLo p && p.mark == c.tproxyMark) = true := by
            simp [hs.1.1.1, hs.1.1.2, hm]
          exact h2 this
        · exact hm

/-- A bypassed packet is never handed to TPROXY. -/
theorem bypass_no_tproxy (c : Config) (p : Packet) (hb : tproxyBypass c p = true) (port : Nat) (q : Packet) :
    manglePreroutingSpec c p ≠ .tproxy port q := by
  unfold manglePreroutingSpec
  simp only [hb, Bool.not_true, Bool.false_eq_true, if_false, Bool.and_false, Bool.false_and]
  repeat' split
  all_goals simp

/-- **never loop, across hooks, the proxy's own deliveries** (TPROXY mode matters): a packet sent at
    OUTPUT from the passthrough source 127.0.0.6 / ::6 (Envoy inbound -> application), or carrying the
    TPROXY mark (Envoy's original-source connections), is NOT handed to TPROXY when it comes back in
    through `lo` - whoever owns it, whatever its destination. Together with `lo_journey_never_loops` this
    leaves, at the second hook, exactly the proxy's mark-1338 call-to-self. -/
theorem lo_journey_proxy_deliveries_not_recaptured (c : Config) (p : Packet) (d : Nat) (dst' : Nat)
    (hh : p.hook = .output)
    (hby : (if p.v6 then src6 else src4).contains p.src = true ∨ p.mark = c.tproxyMark) :
    match (loJourney (d + 2) (rulesOf c p.fam) p dst').2 with
    | none => True
    | some f2 => f2.tproxy = none ∧ f2.redirect = none := by
  have hj := lo_journey_never_loops c p d dst' hh
  unfold loJourney at hj ⊢
  simp only at hj ⊢
  split
  · trivial
  · rename_i f2 hf2
    rw [hf2] at hj
    refine ⟨?_, hj.1⟩
    split at hf2
    · simp at hf2
    · injection hf2 with hf2
      rw [fate_correct] at hf2
      -- the packet leaving OUTPUT
      have hpk : (specFate c p).pkt.v6 = p.v6 ∧ (specFate c p).pkt.src = p.src ∧
          (p.mark = c.tproxyMark → (specFate c p).pkt.mark = c.tproxyMark) := by
        by_cases hv : (p.v6 && !c.enableIPv6) = true
        · have key : (specFate c p).pkt = p := by simp [specFate, hv]
          rw [key]; exact ⟨rfl, rfl, id⟩
        · have hv' : (p.v6 && !c.enableIPv6) = false := by simpa using hv
          rcases mangleOutputSpec_shape c p with ⟨m, hs⟩
          have key : (specFate c p).pkt = { p with mark := m } := by
            simp only [specFate, hv', Bool.false_eq_true, if_false, List.foldl, specStep, Bool.or_self,
              show (Table.raw == Table.nat) = false from rfl, show (Table.mangle == Table.nat) = false from rfl,
              Bool.false_and, mangleSpec, hh, hs, beq_self_eq_true, Bool.true_and]
            split
            · rfl
            · rcases natSpec_shape c { p with hook := Hook.output, mark := m } with h | ⟨port, h⟩ <;> simp [h]
          rw [key]
          exact ⟨rfl, rfl, fun hm => (mangleOutput_keeps_tproxyMark c p _ hs hm).1⟩
      generalize hp2 : reenterLo (specFate c p) dst' = p2 at hf2
      have h2h : p2.hook = .prerouting := by rw [← hp2]; rfl
      have h2lo : p2.inIf = "lo" := by rw [← hp2]; rfl
      have h2m : p2.mark = (specFate c p).pkt.mark := by rw [← hp2]; rfl
      have h2s : p2.src = p.src := by rw [← hp2]; exact hpk.2.1
      have h2v : p2.v6 = p.v6 := by rw [← hp2]; exact hpk.1
      have h2f : p2.fam = p.fam := by simp [Packet.fam, h2v]
      have hb : tproxyBypass c p2 = true := by
        rcases hby with hs | hm
        · simp [tproxyBypass, inLo, h2lo, h2s, h2v, hs]
        · simp [tproxyBypass, h2m, hpk.2.2 hm]
      rw [← h2f] at hf2
      subst hf2
      rw [fate_correct]
      by_cases hv : (p2.v6 && !c.enableIPv6) = true
      · simp [specFate, hv]
      · have hv' : (p2.v6 && !c.enableIPv6) = false := by simpa using hv
        rw [specFate_lo_prerouting c p2 h2h h2lo hv']
        rcases manglePreroutingSpec_shape c p2 with hs | ⟨m, cm, hs | hs⟩
        · simp [hs]
        · simp [hs]
        · exact absurd hs (bypass_no_tproxy c p2 hb _ _)

/-! ## DNS: the agent's own TCP DNS -/

theorem identityWalk_uid53 (c : Config) (p : Packet) (uids : List String) (rest : List OwnerId)
    (hd : dnsActive c = true) (hu : uids.contains p.uid = true) (h53 : p.dport = 53) :
    identityWalk c p (uids.map .uid ++ rest) = some false := by
  induction uids with
  | nil => simp at hu
  | cons u us ih =>
    simp only [List.map_cons, List.cons_append, identityWalk, OwnerId.owns]
    by_cases ho : (p.uid == u) = true
    · simp [ho, selfCall, hd, h53]
    · have hb : loopbackBypass c p = false := by simp [loopbackBypass, hd, h53]
      simp only [ho, Bool.false_eq_true, if_false, hb]
      apply ih
      have hne : p.uid ≠ u := by simpa using ho
      simpa [List.contains_cons, hne] using hu

/-- With DNS capture, TCP port 53 sent by a proxy UID (the agent's upstream queries) is never
    redirected - not to the DNS agent, not to the outbound port, and not even to the inbound listener. -/
theorem dns_proxy_uid_port53 (c : Config) (p : Packet) (d : Nat) (h : famOn c p.fam = true)
    (hd : dnsActive c = true) (hu : c.proxyUIDs.contains p.uid = true) (h53 : p.dport = 53) :
    evalTable (d + 2) (rulesOf c p.fam) .nat .output p = .accept p := by
  rw [nat_output_correct c p d h]
  unfold natOutputSpec
  split
  · rfl
  · simp [Config.identities, identityWalk_uid53 c p _ _ hd hu h53]

/-! ## TPROXY mode -/

/-- "prevent infinite redirect": in TPROXY mode a packet that already carries the TPROXY mark is
    never handed to TPROXY again, and its mark is not changed. -/
theorem tproxy_no_reloop (c : Config) (p : Packet) (d : Nat) (h : famOn c p.fam = true)
    (hmode : c.tproxy = true) (hm : p.mark = c.tproxyMark) :
    evalTable (d + 2) (rulesOf c p.fam) .mangle .prerouting p = .drop ∨
    ∃ q, evalTable (d + 2) (rulesOf c p.fam) .mangle .prerouting p = .accept q ∧ q.mark = p.mark := by
  rw [mangle_prerouting_correct c p d h]
  unfold manglePreroutingSpec
  have hb : tproxyBypass c p = true := by simp [tproxyBypass, hm]
  simp only [hmode, hb, Bool.not_true, Bool.false_eq_true, if_false, Bool.and_false, Bool.false_and, Bool.true_and]
  split
  · exact Or.inr ⟨p, rfl, rfl⟩
  · split
    · exact Or.inl rfl
    · right
      split <;> exact ⟨_, rfl, rfl⟩

/-- **inbound_exact, TPROXY mode**: a new TCP connection arriving on an ordinary interface (not excluded,
    not `lo`), not yet marked, is handed to TPROXY on the inbound capture port (and marked) IF AND ONLY IF
    its port is selected and its destination is not loopback; otherwise it passes unchanged. -/
theorem tproxy_inbound_exact (c : Config) (p : Packet) (d : Nat) (h : famOn c p.fam = true)
    (hmode : c.tproxy = true) (htcp : p.proto = .tcp) (hnew : p.ctstate = .new)
    (hif : c.exclIfs.contains p.inIf = false) (hlo : p.inIf ≠ "lo") (hm : p.mark ≠ c.tproxyMark) :
    evalTable (d + 2) (rulesOf c p.fam) .mangle .prerouting p =
      if tproxyPortSelected c p && !loopbackDst c p
      then .tproxy c.inboundCapturePort { p with mark := c.tproxyMark } else .accept p := by
  rw [mangle_prerouting_correct c p d h]
  unfold manglePreroutingSpec
  have hb : tproxyBypass c p = false := by
    have h1 : (p.mark == c.tproxyMark) = false := by simpa using hm
    have h2 : (p.inIf == "lo") = false := by simpa using hlo
    simp [tproxyBypass, inLo, h1, h2]
  have hm' : (p.mark == c.tproxyMark) = false := by simpa using hm
  simp only [hmode, inIfExcluded, hif, hnew, isTcp, htcp, hb, hm']
  by_cases hs : tproxyPortSelected c p = true <;> by_cases hl : loopbackDst c p = true <;> simp [hs, hl]

/-- ... and packets of an established connection to a selected port are marked and accepted (diverted). -/
theorem tproxy_divert_established (c : Config) (p : Packet) (d : Nat) (h : famOn c p.fam = true)
    (hmode : c.tproxy = true) (htcp : p.proto = .tcp) (hest : p.ctstate = .established ∨ p.ctstate = .related)
    (hif : c.exclIfs.contains p.inIf = false) (hlo : p.inIf ≠ "lo") (hm : p.mark ≠ c.tproxyMark)
    (hs : tproxyPortSelected c p = true) :
    evalTable (d + 2) (rulesOf c p.fam) .mangle .prerouting p = .accept { p with mark := c.tproxyMark } := by
  rw [mangle_prerouting_correct c p d h]
  unfold manglePreroutingSpec
  have hb : tproxyBypass c p = false := by
    have h1 : (p.mark == c.tproxyMark) = false := by simpa using hm
    have h2 : (p.inIf == "lo") = false := by simpa using hlo
    simp [tproxyBypass, inLo, h1, h2]
  have hif' : ¬ p.inIf ∈ c.exclIfs := by simpa using hif
  rcases hest with he | he <;> simp [hmode, inIfExcluded, hif', he, isTcp, htcp, hb, hs]

/-- Observation (recorded, see notes/C20.md): the tunnel-port exemption `--dport 15008 -j RETURN` is
    only ever emitted into nat/ISTIO_INBOUND. In TPROXY mode nothing jumps to that chain, and the mangle
    rules have no such exemption: with `*` a new connection to the tunnel port IS handed to TPROXY. -/
theorem tproxy_tunnel_port_not_exempt (c : Config) (p : Packet) (d : Nat) (h : famOn c p.fam = true)
    (hmode : c.tproxy = true) (hall : c.inboundInclude = .all) (hx : c.inboundExclude.contains p.dport = false)
    (_hport : p.dport = c.inboundTunnelPort)
    (htcp : p.proto = .tcp) (hnew : p.ctstate = .new) (hif : c.exclIfs.contains p.inIf = false)
    (hlo : p.inIf ≠ "lo") (hm : p.mark ≠ c.tproxyMark) (hdst : loopbackDst c p = false) :
    evalTable (d + 2) (rulesOf c p.fam) .mangle .prerouting p =
      .tproxy c.inboundCapturePort { p with mark := c.tproxyMark } := by
  rw [tproxy_inbound_exact c p d h hmode htcp hnew hif hlo hm]
  have hx' : ¬ p.dport ∈ c.inboundExclude := by simpa using hx
  simp [tproxyPortSelected, hall, hx', hdst]

/-- tproxy_inbound_exact for the whole hook (TPROXY mode, ordinary interface, not kube-virt). -/
theorem tproxy_inbound_exact_fate (c : Config) (p : Packet) (d : Nat) (h : famOn c p.fam = true)
    (hmode : c.tproxy = true) (hh : p.hook = .prerouting) (htcp : p.proto = .tcp) (hnew : p.ctstate = .new)
    (hif : c.exclIfs.contains p.inIf = false) (hlo : p.inIf ≠ "lo") (hm : p.mark ≠ c.tproxyMark)
    (hkv : kubeVirt c p = false) :
    traverse (d + 2) (rulesOf c p.fam) p =
      if tproxyPortSelected c p && !loopbackDst c p
      then { tproxy := some c.inboundCapturePort, pkt := { p with mark := c.tproxyMark } } else { pkt := p } := by
  rw [fate_correct]
  have hv : (p.v6 && !c.enableIPv6) = false := by
    unfold famOn at h
    cases hv : p.v6 <;> cases he : c.enableIPv6 <;> simp [Packet.fam, hv, he] at h ⊢
  have hmg := tproxy_inbound_exact c p d h hmode htcp hnew hif hlo hm
  rw [mangle_prerouting_correct c p d h] at hmg
  have hlo' : (p.inIf == "lo") = false := by simpa using hlo
  have hn : ∀ q : Packet, q.hook = .prerouting → q.inIf = p.inIf → natSpec c q = .accept q := by
    intro q hq1 hq2
    have : kubeVirt c q = false := by rw [← hkv]; simp [kubeVirt, hq2]
    simp [natSpec, hq1, natPreroutingSpec, this, hmode]
  simp only [specFate, hv, Bool.false_eq_true, if_false, List.foldl, specStep, Bool.or_self,
    show (Table.raw == Table.nat) = false from rfl, show (Table.mangle == Table.nat) = false from rfl,
    Bool.false_and, mangleSpec, hh, hmg]
  have hnc : natConsulted Hook.prerouting CtState.new p.inIf = true := by simp [natConsulted, hlo']
  by_cases hs : (tproxyPortSelected c p && !loopbackDst c p) = true
  · simp only [hs, if_true, hnew, hnc, Bool.not_true, Bool.and_false, Bool.false_eq_true, if_false]
    rw [hn ({ p with hook := Hook.prerouting, ctstate := CtState.new, mark := c.tproxyMark }) rfl rfl]
    simp
  · simp only [hs, Bool.false_eq_true, if_false, hnew, hnc, Bool.not_true, Bool.and_false]
    rw [hn p hh rfl]
    simp [hh, hnc]

/-! ## v4_v6_same_policy -/

/-- **v4_v6_same_policy.** With IPv6 enabled, the ip6tables rule set decides the IPv6 image of a packet
    exactly as the iptables rule set decides the IPv4 packet - same redirect port, same TPROXY port, same
    drop, same resulting marks - in the nat and in the mangle table, at both hooks, for every
    configuration: the two rule sets express one policy. -/
theorem v4_v6_same_policy (c : Config) (p4 p6 : Packet) (d : Nat) (he : c.enableIPv6 = true)
    (hs : SameButAddrs p4 p6) (ha : AddrClassesAgree c p4 p6) :
    (evalTable (d + 2) (rulesOf c .v6) .nat p6.hook p6).out = (evalTable (d + 2) (rulesOf c .v4) .nat p4.hook p4).out ∧
    (evalTable (d + 2) (rulesOf c .v6) .mangle p6.hook p6).out = (evalTable (d + 2) (rulesOf c .v4) .mangle p4.hook p4).out := by
  have f4 : p4.fam = .v4 := by simp [Packet.fam, hs.fam4]
  have f6 : p6.fam = .v6 := by simp [Packet.fam, hs.fam6]
  have h4 : famOn c p4.fam = true := by simp [famOn, f4]
  have h6 : famOn c p6.fam = true := by simp [famOn, f6, he]
  have n := same_natSpec hs ha
  have m := same_mangleSpec hs ha
  unfold natSpec at n
  unfold mangleSpec at m
  rw [hs.hook] at n m ⊢
  rw [← f4, ← f6]
  cases hh : p4.hook <;> simp only [hh] at n m
  · exact ⟨by rw [nat_prerouting_correct c p6 d h6, nat_prerouting_correct c p4 d h4]; exact n,
           by rw [mangle_prerouting_correct c p6 d h6, mangle_prerouting_correct c p4 d h4]; exact m⟩
  · exact ⟨by rw [nat_output_correct c p6 d h6, nat_output_correct c p4 d h4]; exact n,
           by rw [mangle_output_correct c p6 (d + 1) h6, mangle_output_correct c p4 (d + 1) h4]; exact m⟩


/-- **v4_v6_same_policy, whole hook**: the complete fates agree (drop, TPROXY port, redirect port, final
    marks). The address-class hypotheses are assumed for this pair of packets; they are what the
    embedding 127.0.0.1/32 ~ ::1/128, 127.0.0.6 ~ ::6 (and list-wise images) must provide. -/
theorem v4_v6_same_fate (c : Config) (p4 p6 : Packet) (d : Nat) (he : c.enableIPv6 = true)
    (hs : SameButAddrs p4 p6) (ha : AddrClassesAgree c p4 p6) :
    (traverse (d + 2) (rulesOf c .v6) p6).view = (traverse (d + 2) (rulesOf c .v4) p4).view := by
  have f4 : p4.fam = .v4 := by simp [Packet.fam, hs.fam4]
  have f6 : p6.fam = .v6 := by simp [Packet.fam, hs.fam6]
  rw [← f4, ← f6, fate_correct, fate_correct]
  have hv4 : (p4.v6 && !c.enableIPv6) = false := by simp [hs.fam4]
  have hv6 : (p6.v6 && !c.enableIPv6) = false := by simp [he]
  have hm := same_mangleSpec hs ha
  simp only [specFate, hv4, hv6, Bool.false_eq_true, if_false, List.foldl, specStep, Bool.or_self,
    show (Table.raw == Table.nat) = false from rfl, show (Table.mangle == Table.nat) = false from rfl,
    Bool.false_and, beq_self_eq_true, Bool.true_and]
  have hnc : natConsulted p6.hook p6.ctstate p6.inIf = natConsulted p4.hook p4.ctstate p4.inIf := by
    rw [hs.hook, hs.ctstate, hs.inIf]
  unfold mangleSpec at hm ⊢
  rw [hs.hook] at hm ⊢
  cases hh : p4.hook <;> simp only [hh] at hm ⊢
  · rcases manglePreroutingSpec_shape c p4 with h4 | ⟨m4, cm4, h4 | h4⟩ <;>
    rcases manglePreroutingSpec_shape c p6 with h6 | ⟨m6, cm6, h6 | h6⟩ <;>
    simp only [h4, h6, Verdict.out] at hm ⊢ <;> try (simp at hm; done)
    · simp [Fate.view, hs.mark, hs.connmark]
    · injection hm with hm1 hm2
      subst hm1 hm2
      rcases same_remark hs ha m6 cm6 with ⟨hs', ha'⟩
      simp only [Bool.or_self, Bool.false_eq_true, if_false, hnc]
      by_cases hc : natConsulted p4.hook p4.ctstate p4.inIf = true
      · simp only [hc, Bool.not_true, Bool.false_eq_true, if_false]
        exact same_natStep hs' ha' none
      · simp [hc, Fate.view]
    · injection hm with hm0 hm1 hm2
      subst hm1 hm2
      rcases same_remark hs ha m6 cm6 with ⟨hs', ha'⟩
      simp only [Bool.or_self, Bool.false_eq_true, if_false, hnc]
      by_cases hc : natConsulted p4.hook p4.ctstate p4.inIf = true
      · simp only [hc, Bool.not_true, Bool.false_eq_true, if_false]
        exact same_natStep hs' ha' (some c.inboundCapturePort)
      · simp [hc, Fate.view]
  · rcases mangleOutputSpec_shape c p4 with ⟨m4, h4⟩
    rcases mangleOutputSpec_shape c p6 with ⟨m6, h6⟩
    simp only [h4, h6, Verdict.out] at hm ⊢
    injection hm with hm1 hm2
    subst hm1
    rcases same_remark hs ha m6 p4.connmark with ⟨hs', ha'⟩
    simp only [Bool.or_self, Bool.false_eq_true, if_false, hnc, hs.connmark]
    by_cases hc : natConsulted p4.hook p4.ctstate p4.inIf = true
    · simp only [hc, Bool.not_true, Bool.false_eq_true, if_false]
      exact same_natStep hs' ha' none
    · simp [hc, Fate.view, hs.connmark]

/-! ## The restore input is accepted -/

/-- **The restore input is always well-formed**: for every configuration (whose loopback CIDR is IPv4, as
    Validate demands) and both families, every `-I` position exists when its command runs, every jump
    goes to a declared user chain, every user chain receiving a rule is declared, every address
    literal is of the table's family, and every match / target sits at a hook where the kernel accepts it
    (owner and `-o` only reachable from OUTPUT, `-i` only from PREROUTING, TPROXY only in mangle/PREROUTING), and no line
    has more words than the restore parser holds - iptables-restore / ip6tables-restore accept the whole input, so
    `chainOf` is its meaning. The last conjunct needs at most 49 owner groups in the include list: Validate admits
    64, and from 50 on the one owner-group line has 5*n+4 > 251 words and the real tool refuses the input
    (`too_many_owner_groups_witness`; reproduced on the real code by `c20 finding`). -/
theorem rulesOf_wellFormed (c : Config) (f : Fam) (hlo : c.loCidr.v6 = false)
    (hog : c.ownerGroupsAll = true ∨ c.ownerGroupsInclude.length ≤ 49) :
    wellFormed f (rulesOf c f) = true := by
  unfold wellFormed
  simp only [Bool.and_eq_true, List.all_eq_true]
  refine ⟨⟨⟨⟨⟨?_, ?_⟩, ?_⟩, ?_⟩, ?_⟩, ?_⟩
  · intro r hr
    rcases mem_rulesOf' c f r hr with ⟨e, he, _, rfl⟩
    exact (List.all_eq_true.mp (compile_tokE c hog)) e he
  · intro r hr
    rcases mem_rulesOf' c f r hr with ⟨e, he, _, rfl⟩
    exact (List.all_eq_true.mp (compile_hookE c)) e he
  · intro t _ ch _
    rw [filter_rulesOf]
    cases hon : famOn c f
    · rfl
    · simp only [if_true]
      by_cases hmi : t = .mangle ∧ ch = .ISTIO_INBOUND
      · rcases hmi with ⟨rfl, rfl⟩
        rw [(sel_compile_mangle c f).2.2.1, insertsInRange_append _ _ _ (allAppend_mgInboundBody c)]
        cases c.tproxy <;> simp [mgInboundHead, insertsInRange]
      · apply insertsInRange_of_append_or_1
        intro r hr
        simp only [sel, List.mem_filter, List.mem_map, Bool.and_eq_true, beq_iff_eq] at hr
        rcases hr with ⟨⟨e, ⟨he, _⟩, rfl⟩, ht, hc⟩
        have := (List.all_eq_true.mp (compile_opOK c)) e he
        simp only [okE, opOK, Bool.and_eq_true, Bool.or_eq_true, beq_iff_eq] at this
        rcases this.1 with (h | h) | h
        · exact Or.inl h
        · exact Or.inr h.2
        · exact absurd ⟨ht ▸ h.1, hc ▸ h.2⟩ hmi
  · intro r hr
    rcases mem_rulesOf' c f r hr with ⟨e, he, _, rfl⟩
    have := (List.all_eq_true.mp (compile_opOK c)) e he
    simp only [okE, jumpOK, Bool.and_eq_true] at this
    cases ht : e.rule.target <;> simp only []
    rename_i ch
    have hb : ch.builtin = false := by simpa [ht] using this.2
    simp only [Bool.and_eq_true, Bool.not_eq_true', List.contains_iff_mem]
    refine ⟨hb, (mem_declaredChains _ _).2 ⟨hb, Or.inr ⟨e.rule, hr, by simp [Rule.jumpKey, ht]⟩⟩⟩
  · intro r hr
    cases hb : r.chain.builtin
    · simp only [Bool.false_or, List.contains_iff_mem]
      exact (mem_declaredChains _ _).2 ⟨hb, Or.inl ⟨r, hr, rfl⟩⟩
    · rfl
  · intro r hr
    rcases mem_rulesOf' c f r hr with ⟨e, he, hre, rfl⟩
    have := (List.all_eq_true.mp (compile_famOK c hlo)) e he
    simp only [famOK, Bool.and_eq_true, Bool.or_eq_true, Bool.not_eq_true'] at this
    cases f
    · rcases this.1 with h | h
      · simp [hre] at h
      · intro m hm x hx
        exact List.all_eq_true.mp (List.all_eq_true.mp h m hm) x hx
    · rcases this.2 with h | h
      · simp [hre] at h
      · intro m hm x hx
        exact List.all_eq_true.mp (List.all_eq_true.mp h m hm) x hx

theorem validLoopbackCidr_v4 (s : String) (lo : Cidr) (h : validLoopbackCidr s = some lo) : lo.v6 = false := by
  unfold validLoopbackCidr at h
  split at h
  · split at h
    · rename_i hc
      injection h with h
      subst h
      simp only [Bool.and_eq_true, Bool.not_eq_true'] at hc
      exact hc.1.1.1
    · simp at h
  · simp at h

/-- Every configuration accepted by `RawConfig.parse` (i.e. by Config.Validate) has an IPv4 loopback
    CIDR: the hypothesis of `rulesOf_wellFormed` holds for everything the real code accepts. -/
theorem parse_loCidr_v4 (r : RawConfig) (c : Config) (h : r.parse = .ok c) : c.loCidr.v6 = false := by
  unfold RawConfig.parse at h
  split at h
  · simp at h
  · split at h
    · simp at h
    · split at h
      · simp at h
      · rename_i lo hlo
        repeat' split at h
        all_goals first | (simp at h; done) | skip
        all_goals (injection h with h; subst h; exact validLoopbackCidr_v4 _ _ hlo)

/-! ## Non-vacuity: concrete configurations and packets meeting the hypotheses, and the recorded corners -/

/-- `*` outbound, 10.0.0.0/8 excluded, port 3306 excluded, docker0 excluded, `*` inbound except 15020. -/
def exCfg : Config :=
  { proxyUIDs := ["1337"], proxyGIDs := ["1337"], inboundInclude := .all, inboundExclude := [15020],
    outIncludeAll := true, outExclude := [⟨false, 167772160, 8⟩], outPortsExclude := [3306], exclIfs := ["docker0"] }

/-- An application connection 10.1.2.3 -> 8.8.8.8:80 leaving through eth0. -/
def exApp : Packet :=
  { hook := .output, v6 := false, proto := .tcp, src := 167838211, dst := 134744072, sport := 40000, dport := 80,
    inIf := "", outIf := "eth0", uid := "1000", gid := "1000", ctstate := .new, mark := 0, connmark := 0 }

example : famOn exCfg exApp.fam = true ∧ proxyOwned exCfg exApp = false ∧ dnsCaptured exCfg exApp = false ∧
    outboundCaptured exCfg exApp = true := by decide
example : fateOf exCfg exApp = { redirect := some 15001, pkt := exApp } := by decide
-- the same connection by the proxy itself, to an excluded range, to an excluded port, on lo to itself
example : fateOf exCfg { exApp with uid := "1337" } = { pkt := { exApp with uid := "1337" } } := by decide
example : (fateOf exCfg { exApp with dst := 167838212 }).redirect = none := by decide
example : (fateOf exCfg { exApp with dport := 3306 }).redirect = none := by decide
example : (fateOf exCfg { exApp with outIf := "lo", dst := 167838211 }).redirect = none := by decide
-- the proxy calling the application's own address over lo goes to the INBOUND port
example : (fateOf exCfg { exApp with uid := "1337", outIf := "lo", dst := 167838211 }).redirect = some 15006 := by decide
-- inbound: port 8080 captured, 15020 (excluded) and 15008 (tunnel) not
example : (fateOf exCfg { exApp with hook := .prerouting, inIf := "eth0", outIf := "", dport := 8080 }).redirect = some 15006 := by decide
example : (fateOf exCfg { exApp with hook := .prerouting, inIf := "eth0", outIf := "", dport := 15020 }).redirect = none := by decide
example : (fateOf exCfg { exApp with hook := .prerouting, inIf := "eth0", outIf := "", dport := 15008 }).redirect = none := by decide

/-- Corner 1 (documented in run.go, deliberate): with DNS capture an application's TCP port 53 on `lo`
    is NOT covered by the loopback bypass; to a non-loopback, non-resolver address it is captured like
    any outbound connection. `loopback_alone` therefore carries the port-53 exception. -/
theorem loopback_dns53_is_captured_witness :
    fateOf { exCfg with redirectDNS := true, dnsV4 := [2130706485], outExclude := [] }
        { exApp with outIf := "lo", dst := 167838211, dport := 53 } =
      { redirect := some 15001, pkt := { exApp with outIf := "lo", dst := 167838211, dport := 53 } } := by decide

/-- Corner 2: with an explicit inbound include list the exclude list is not consulted. -/
theorem inbound_exclude_ignored_witness :
    (fateOf { exCfg with inboundInclude := .ports [15020, 8080] }
        { exApp with hook := .prerouting, inIf := "eth0", outIf := "", dport := 15020 }).redirect = some 15006 := by decide

/-- Corner 3 (multi_uid_note): the second proxy UID's call to itself is handed back, not sent to the
    inbound listener (the first UID's `! --uid-owner` RETURN shadows it); the first UID's is. -/
theorem second_uid_shadowed_witness :
    (fateOf { exCfg with proxyUIDs := ["1337", "1338"] }
        { exApp with uid := "1338", outIf := "lo", dst := 167838211 }).redirect = none ∧
    (fateOf { exCfg with proxyUIDs := ["1337", "1338"] }
        { exApp with uid := "1337", outIf := "lo", dst := 167838211 }).redirect = some 15006 := by decide

/-- Corner 4: the GID blocks have no DNS variant of the call-to-self rule: with DNS capture a packet
    owned only by a proxy GID, TCP port 53 on `lo` to a non-loopback address, goes to the inbound
    listener, whereas the same packet owned by a proxy UID is left alone (`dns_proxy_uid_port53`). -/
theorem gid_dns_selfcall_witness :
    (fateOf { exCfg with redirectDNS := true, captureAllDNS := true }
        { exApp with gid := "1337", outIf := "lo", dst := 167838211, dport := 53 }).redirect = some 15006 ∧
    (fateOf { exCfg with redirectDNS := true, captureAllDNS := true }
        { exApp with uid := "1337", outIf := "lo", dst := 167838211, dport := 53 }).redirect = none := by decide

/-- Corner 5: TPROXY mode hands a new connection to the tunnel port 15008 to TPROXY (REDIRECT mode
    exempts it, see the examples above). -/
theorem tproxy_tunnel_port_witness :
    (fateOf { exCfg with tproxy := true }
        { exApp with hook := .prerouting, inIf := "eth0", outIf := "", dport := 15008 }).tproxy = some 15006 := by decide

/-- Non-vacuity of `v4_v6_same_policy`: 127.0.0.1 ~ ::1 and 8.8.8.8 ~ 2001:4860:4860::8888 under `exCfg`. -/
example : SameButAddrs exApp { exApp with v6 := true, src := 1, dst := 42541956123769884636017138956568135816 } :=
  ⟨rfl, rfl, rfl, rfl, rfl, rfl, rfl, rfl, rfl, rfl, rfl, rfl, rfl⟩
example : AddrClassesAgree { exCfg with enableIPv6 := true } exApp
    { exApp with v6 := true, src := 1, dst := 42541956123769884636017138956568135816 } :=
  ⟨by decide, by decide, by decide, by decide, by decide⟩

/-! ### KUBE_VIRT_INTERFACES (outside the property's configuration grammar; recorded) -/

/-- `exCfg` plus a kube-virt interface eth1. -/
def kvCfg : Config := { exCfg with kubeVirtIfs := ["eth1"] }

/-- A connection arriving from a VM on eth1. -/
def kvPkt : Packet :=
  { hook := .prerouting, v6 := false, proto := .tcp, src := 3232237319, dst := 134744072, sport := 40000, dport := 80,
    inIf := "eth1", outIf := "", uid := "", gid := "", ctstate := .new, mark := 0, connmark := 0 }

/-- Observation: traffic entering on a KUBE_VIRT_INTERFACES interface is "treated as outbound" by the
    INCLUDED ranges only: none of the outbound exclusions applies to it - an excluded destination range
    (10.0.0.0/8), an excluded port (3306) and a loopback destination are all redirected to 15001. -/
theorem kube_virt_ignores_exclusions_witness :
    (fateOf kvCfg { kvPkt with dst := 168364297 }).redirect = some 15001 ∧
    (fateOf kvCfg { kvPkt with dport := 3306 }).redirect = some 15001 ∧
    (fateOf kvCfg { kvPkt with dst := 2130706433 }).redirect = some 15001 ∧
    -- the same three leaving the pod's own application are NOT captured
    (fateOf kvCfg { exApp with dst := 168364297 }).redirect = none ∧
    (fateOf kvCfg { exApp with dport := 3306 }).redirect = none ∧
    (fateOf kvCfg { exApp with dst := 2130706433 }).redirect = none := by decide

/-- Observation: in TPROXY mode a kube-virt packet is captured twice - handed to TPROXY on the inbound
    port by mangle (which has no kube-virt short-circuit) AND redirected to the outbound port by nat. -/
theorem kube_virt_tproxy_double_capture_witness :
    (fateOf { kvCfg with tproxy := true } kvPkt).tproxy = some 15006 ∧
    (fateOf { kvCfg with tproxy := true } kvPkt).redirect = some 15001 := by decide

/-! ### Non-vacuity of the cross-hook theorem -/

/-- The application talking to its own address over `lo`: untouched at OUTPUT and again at PREROUTING. -/
example : loJourney stackDepth (rulesOf exCfg .v4) { exApp with outIf := "lo", dst := 167838211 } 2130706433 =
    ({ pkt := { exApp with outIf := "lo", dst := 167838211 } },
     some { pkt := { exApp with hook := .prerouting, inIf := "lo", outIf := "", dst := 167838211 } }) := by decide

/-- REDIRECT mode, the proxy calling the application's address: sent to 15006 at OUTPUT, and NOT captured
    again when it comes back in through `lo` (now addressed to 127.0.0.1:15006). -/
example : ((loJourney stackDepth (rulesOf exCfg .v4) { exApp with uid := "1337", outIf := "lo", dst := 167838211 } 2130706433).2.map
    (fun f => (f.redirect, f.tproxy))) = some (none, none) := by decide

/-- TPROXY mode, the same call-to-self: nat/OUTPUT still sends it to 15006 (now addressed to
    127.0.0.1, so TPROXY's `! -d 127.0.0.1/32` leaves it alone on re-entry); it carries mark 1338. -/
example : ((loJourney stackDepth (rulesOf { exCfg with tproxy := true } .v4)
    { exApp with uid := "1337", outIf := "lo", dst := 167838211 } 2130706433).2.map
    (fun f => (f.redirect, f.tproxy, f.pkt.mark))) = some (none, none, 1338) := by decide

/-- TPROXY mode, the proxy's call-to-self on the tunnel port (not redirected at OUTPUT): marked 1338 at
    OUTPUT and handed to TPROXY when it comes back in - the one exception `lo_journey_never_loops` allows. -/
example : ((loJourney stackDepth (rulesOf { exCfg with tproxy := true } .v4)
    { exApp with uid := "1337", outIf := "lo", dst := 167838211, dport := 15008 } 2130706433).2.map
    (fun f => (f.redirect, f.tproxy, f.pkt.mark))) = some (none, some 15006, 1337) := by decide


/-- TPROXY mode: Envoy's delivery to the application from 127.0.0.6, and a connection carrying the
    TPROXY mark 1337, sent on `lo` to the pod's own address on a captured port: not captured again. -/
example : ((loJourney stackDepth (rulesOf { exCfg with tproxy := true } .v4)
    { exApp with uid := "1337", outIf := "lo", src := 2130706438, dst := 167838211, dport := 8080 } 2130706433).2.map
    (fun f => (f.redirect, f.tproxy))) = some (none, none) := by decide
example : ((loJourney stackDepth (rulesOf { exCfg with tproxy := true } .v4)
    { exApp with uid := "1337", outIf := "lo", dst := 167838211, dport := 15008, mark := 1337 } 2130706433).2.map
    (fun f => (f.redirect, f.tproxy))) = some (none, none) := by decide

/-- Observation (recorded): drop-invalid and excluded interfaces interact differently in the two modes.
    In REDIRECT mode an INVALID packet arriving on an excluded interface is dropped (mangle has no
    excluded-interface RETURN there); in TPROXY mode the RETURN comes first and it passes. -/
theorem drop_invalid_excluded_interface_witness :
    (fateOf { exCfg with dropInvalid := true }
      { exApp with hook := .prerouting, inIf := "docker0", outIf := "", ctstate := .invalid }).dropped = true ∧
    (fateOf { exCfg with dropInvalid := true, tproxy := true }
      { exApp with hook := .prerouting, inIf := "docker0", outIf := "", ctstate := .invalid }).dropped = false := by decide

/-! ## no_loop narrowed: which proxy-owned packets can take the call-to-self redirect (review round 3) -/

/-- When the identity blocks send a packet to the inbound listener, the packet is owned by the FIRST
    identity, or the loopback bypass does not apply to it. -/
theorem identityWalk_redirect_first_or_no_bypass (c : Config) (p : Packet) (o : OwnerId) (rest : List OwnerId)
    (h : identityWalk c p (o :: rest) = some true) : o.owns p = true ∨ loopbackBypass c p = false := by
  simp only [identityWalk] at h
  by_cases ho : o.owns p = true
  · exact Or.inl ho
  · simp only [ho, Bool.false_eq_true, if_false] at h
    by_cases hb : loopbackBypass c p = true
    · simp [hb] at h
    · exact Or.inr (by simpa using hb)

/-- **no_loop, narrowed.** The one redirect `no_loop` allows (TCP on `lo` to a non-loopback address, to
    the inbound port) is only ever taken by a packet that does NOT come from the passthrough source
    127.0.0.6 / ::6 and that is owned by the FIRST configured proxy identity - or to which the loopback
    bypass does not apply (a loopback range was explicitly included, or DNS capture and TCP port 53). nat
    cannot see marks: that the proxy's own deliveries (TPROXY mode: original source, mark 1337) are not
    looped rests on the proxy NOT running under the first identity there (uid 0 / gid 1337), see
    `delivery_not_looped` and the two witnesses of the remaining cases. -/
theorem no_loop_narrow (c : Config) (p : Packet) (d : Nat) (h : famOn c p.fam = true)
    (hred : evalTable (d + 2) (rulesOf c p.fam) .nat .output p = .redirect c.inboundCapturePort)
    (ho : proxyOwned c p = true) :
    fromPassthrough p = false ∧
    ∃ o rest, c.identities = o :: rest ∧ (o.owns p = true ∨ loopbackBypass c p = false) := by
  rw [nat_output_correct c p d h] at hred
  unfold natOutputSpec at hred
  split at hred
  · simp at hred
  · rename_i hearly
    simp only [Bool.or_eq_true, not_or, Bool.not_eq_true] at hearly
    refine ⟨hearly.2, ?_⟩
    cases hids : c.identities with
    | nil =>
      rw [proxyOwned_iff_identities, hids] at ho
      simp at ho
    | cons o rest =>
      refine ⟨o, rest, rfl, ?_⟩
      rw [hids] at hred
      cases hw : identityWalk c p (o :: rest) with
      | some b =>
        cases b
        · simp [hw] at hred
        · exact identityWalk_redirect_first_or_no_bypass c p o rest hw
      | none =>
        -- not decided by the identity blocks: impossible for a proxy-owned packet
        rw [proxyOwned_iff_identities, hids] at ho
        rcases identityWalk_owned c p (o :: rest) ho with hx | ⟨hx, _⟩ <;> simp [hw] at hx

/-- **The proxy's deliveries are not looped**: a packet on `lo` owned by a later identity only (the
    TPROXY-mode proxy: uid 0, gid = proxy GID; its inbound -> application deliveries carry the original
    source and mark 1337) is handed back untouched whenever the loopback bypass applies. -/
theorem delivery_not_looped (c : Config) (p : Packet) (d : Nat) (h : famOn c p.fam = true)
    (o : OwnerId) (rest : List OwnerId) (hids : c.identities = o :: rest) (hfirst : o.owns p = false)
    (hb : loopbackBypass c p = true) :
    evalTable (d + 2) (rulesOf c p.fam) .nat .output p = .accept p := by
  rw [nat_output_correct c p d h]
  unfold natOutputSpec
  split
  · rfl
  · simp [hids, identityWalk, hfirst, hb]


/-- A TPROXY-mode sidecar with DNS capture; the proxy runs as uid 0 / gid 1337 (injection template). -/
def tpDnsCfg : Config := { exCfg with tproxy := true, redirectDNS := true, captureAllDNS := true }

/-- Envoy's inbound -> application delivery in TPROXY mode: sent by uid 0 / gid 1337 on `lo` to the pod's
    own address, original client source, mark 1337. -/
def delivery : Packet :=
  { exApp with uid := "0", gid := "1337", outIf := "lo", src := 134744072, dst := 167838211, dport := 8080, mark := 1337 }

-- the ordinary delivery is handed back (not looped) ...
example : (fateOf tpDnsCfg delivery).redirect = none := by decide

/-- **FINDING `c20:gid-dns53-delivery-loop`** (genuine defect, not fixable without editing golden files):
    TPROXY mode + DNS capture + an application listening on TCP port 53. The proxy's own delivery to
    podIP:53 is not stopped by the first identity's `-p tcp ! --dport 53 ... RETURN` (port 53 is exempt from
    the bypass), reaches the GID block - which has no DNS variant of the call-to-self rule - and is
    REDIRECTED back to the proxy's inbound port 15006: the proxy receives its own delivery again, for ever. -/
theorem gid_dns53_delivery_loop_witness :
    (fateOf tpDnsCfg { delivery with dport := 53 }).redirect = some 15006 ∧
    -- the same delivery sent by a proxy UID is safe (the UID block exempts port 53)
    (fateOf tpDnsCfg { delivery with dport := 53, uid := "1337" }).redirect = none := by decide

/-- Second remaining case of `no_loop_narrow` (recorded): with a loopback range explicitly included the
    bypass rules are not emitted at all, and in TPROXY mode every delivery of the uid-0 / gid-1337 proxy is
    sent back to the inbound port. -/
theorem loopback_included_delivery_loop_witness :
    (fateOf { exCfg with tproxy := true, outIncludeAll := false, outInclude := [⟨false, 2130772483, 32⟩, ⟨false, 167772160, 8⟩] }
      delivery).redirect = some 15006 := by decide

set_option maxRecDepth 8192 in
/-- **FINDING `c20:owner-groups-over-argc-limit`** (recorded): Validate admits up to 64 owner groups in the
    include list, the single rule that lists them has 5 words per group, and from 50 groups on the line is
    longer than the restore parser holds: the text is not well formed (the real tool answers "Parser cannot
    handle more arguments" and nothing at all is installed). 49 groups still are. -/
theorem too_many_owner_groups_witness :
    wellFormed .v4 (rulesOf { exCfg with ownerGroupsAll := false, ownerGroupsInclude := List.replicate 50 "g" } .v4) = false ∧
    ((rulesOf { exCfg with ownerGroupsAll := false, ownerGroupsInclude := List.replicate 49 "g" } .v4).all
      (fun r => r.tokens ≤ maxLineTokens)) = true := by decide

/-- Recorded corner: `--inbound-tproxy-mark 0` is accepted, and with it the "already marked" bypass of
    mangle/ISTIO_INBOUND (`-m mark --mark 0 -j RETURN`) matches every UNMARKED packet: nothing ordinary is
    captured inbound (hypothesis `p.mark ≠ c.tproxyMark` of `tproxy_inbound_exact` excludes exactly those packets). -/
theorem tproxy_mark_zero_captures_nothing_witness :
    let p : Packet := { exApp with hook := .prerouting, inIf := "eth0", outIf := "", uid := "", gid := "" }
    (fateOf { exCfg with tproxy := true } p).tproxy = some 15006 ∧
    (fateOf { exCfg with tproxy := true, tproxyMark := 0 } p).tproxy = none := by decide

end IstioModel.C20
