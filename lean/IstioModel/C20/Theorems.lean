import IstioModel.C20.NatOutput
import IstioModel.C20.NatPrerouting
import IstioModel.C20.Fate

/-!
C20 - the property theorems.

Objects: `compile` (Model.lean, the model of IptablesConfigurator.Run), `rulesOf c f` (the builder's
rule list of family `f`), `evalTable d rules t h p` / `traverse` (Netfilter.lean, the meaning of a rule
list), and the policy vocabulary of Spec.lean.  Every theorem quantifies over ALL configurations `c`
of the modelled grammar, ALL packets `p` and every jump-stack bound `d + 2` (two nested user chains are
all the generated rule sets need).  `famOn c p.fam` only says that the packet's family has rules at
all (an IPv6 packet with `EnableIPv6 = false` meets an empty ip6tables).
-/
namespace IstioModel.C20
set_option linter.unusedSimpArgs false

/-! ## The compiler is correct for nat/OUTPUT -/

/-- **Compiler correctness, nat table, OUTPUT hook**: for every configuration, both families, with or
    without DNS capture / TPROXY / owner-group filters, the installed rules decide every packet exactly
    as the policy `natOutputSpec` says. -/
theorem nat_output_eq_spec (c : Config) (p : Packet) (d : Nat) (h : famOn c p.fam = true) :
    evalTable (d + 2) (rulesOf c p.fam) .nat .output p = natOutputSpec c p :=
  nat_output_correct c p d h

/-- The jump stack never overflows: the generated nat/OUTPUT rules contain no chain cycle. -/
theorem nat_output_no_chain_loop (c : Config) (p : Packet) (d : Nat) (h : famOn c p.fam = true) :
    evalTable (d + 2) (rulesOf c p.fam) .nat .output p ≠ .loop := by
  rw [nat_output_correct c p d h]
  unfold natOutputSpec
  split
  · simp
  · split
    · simp
    · simp
    · repeat' split
      all_goals simp

/-! ## no_loop -/

theorem proxyOwned_iff_identities (c : Config) (p : Packet) :
    proxyOwned c p = c.identities.any (OwnerId.owns p) := by
  simp only [proxyOwned, Config.identities, List.any_append, List.any_map, Function.comp_def, OwnerId.owns,
    List.contains_eq_any_beq]

/-- The identity blocks decide every packet owned by one of the identities, and send it to the inbound
    listener only if it is a TCP packet on `lo` to a non-loopback address. -/
theorem identityWalk_owned (c : Config) (p : Packet) (l : List OwnerId) (h : l.any (OwnerId.owns p) = true) :
    identityWalk c p l = some false ∨
    (identityWalk c p l = some true ∧ onLo p = true ∧ loopbackDst c p = false ∧ isTcp p = true) := by
  induction l with
  | nil => simp at h
  | cons o rest ih =>
    simp only [identityWalk]
    by_cases ho : o.owns p = true
    · simp only [ho, if_true]
      cases hs : selfCall c p o
      · simp
      · right
        refine ⟨rfl, ?_⟩
        cases o <;> simp only [selfCall, Bool.and_eq_true, Bool.not_eq_true'] at hs <;>
          exact ⟨hs.1.1.1, hs.1.1.2, hs.1.2⟩
    · simp only [ho, Bool.false_eq_true, if_false]
      by_cases hb : loopbackBypass c p = true
      · simp [hb]
      · simp only [hb, Bool.false_eq_true, if_false]
        apply ih
        simpa [List.any_cons, ho] using h

/-- **no_loop.** A packet sent by the proxy itself (socket owned by a proxy UID or GID) is never
    redirected by nat/OUTPUT, with one exception: a TCP connection on `lo` to a non-loopback address
    (the application calling itself through the proxy) goes to the INBOUND capture port. In
    particular it never reaches the outbound port and never the DNS agent. -/
theorem no_loop (c : Config) (p : Packet) (d : Nat) (h : famOn c p.fam = true) (ho : proxyOwned c p = true) :
    evalTable (d + 2) (rulesOf c p.fam) .nat .output p = .accept p ∨
    (evalTable (d + 2) (rulesOf c p.fam) .nat .output p = .redirect c.inboundCapturePort ∧
      p.outIf = "lo" ∧ loopbackDst c p = false ∧ p.proto = .tcp) := by
  rw [nat_output_correct c p d h]
  unfold natOutputSpec
  split
  · left; rfl
  · rw [proxyOwned_iff_identities] at ho
    rcases identityWalk_owned c p c.identities ho with hw | ⟨hw, h1, h2, h3⟩
    · left; simp [hw]
    · right
      simp only [hw, true_and]
      exact ⟨by simpa [onLo] using h1, h2, by simpa [isTcp] using h3⟩

/-- no_loop, port form: the proxy's own traffic is never redirected to the outbound proxy port
    (provided that port is not also used as the inbound capture port). -/
theorem no_loop_outbound_port (c : Config) (p : Packet) (d : Nat) (h : famOn c p.fam = true)
    (ho : proxyOwned c p = true) (hp : c.proxyPort ≠ c.inboundCapturePort) :
    evalTable (d + 2) (rulesOf c p.fam) .nat .output p ≠ .redirect c.proxyPort := by
  rcases no_loop c p d h ho with h1 | ⟨h1, _⟩ <;> rw [h1] <;> simp
  exact fun e => hp e.symm

/-- "Proxy-owned DNS is not re-captured": the proxy's own packets (the agent's upstream DNS queries
    included) never go to the DNS agent port. -/
theorem proxy_dns_not_recaptured (c : Config) (p : Packet) (d : Nat) (h : famOn c p.fam = true)
    (ho : proxyOwned c p = true) (hp : c.inboundCapturePort ≠ dnsAgentPort) :
    evalTable (d + 2) (rulesOf c p.fam) .nat .output p ≠ .redirect dnsAgentPort := by
  rcases no_loop c p d h ho with h1 | ⟨h1, _⟩ <;> rw [h1] <;> simp
  exact hp

/-- Off `lo` the proxy's own traffic is always left alone. -/
theorem no_loop_off_lo (c : Config) (p : Packet) (d : Nat) (h : famOn c p.fam = true)
    (ho : proxyOwned c p = true) (hlo : p.outIf ≠ "lo") :
    evalTable (d + 2) (rulesOf c p.fam) .nat .output p = .accept p := by
  rcases no_loop c p d h ho with h1 | ⟨_, h2, _⟩
  · exact h1
  · exact absurd h2 hlo

/-! ## outbound_exact -/

/-- For application traffic the identity blocks only implement the loopback bypass. -/
theorem identityWalk_app (c : Config) (p : Packet) (l : List OwnerId) (h : l.any (OwnerId.owns p) = false) :
    identityWalk c p l = if !l.isEmpty && loopbackBypass c p then some false else none := by
  induction l with
  | nil => simp [identityWalk]
  | cons o rest ih =>
    simp only [List.any_cons, Bool.or_eq_false_iff] at h
    simp only [identityWalk, h.1, Bool.false_eq_true, if_false, ih h.2]
    by_cases hb : loopbackBypass c p = true <;> simp [hb]

theorem hasProxyIdentity_iff (c : Config) : hasProxyIdentity c = !c.identities.isEmpty := by
  unfold hasProxyIdentity Config.identities
  cases c.proxyUIDs <;> cases c.proxyGIDs <;> simp

/-- **Application outbound traffic, complete form**: for a packet NOT owned by the proxy, nat/OUTPUT
    redirects to the DNS agent iff `outboundDNSCaptured`, else to the outbound proxy port iff
    `outboundCaptured`, else leaves it alone. -/
theorem outbound_app (c : Config) (p : Packet) (d : Nat) (h : famOn c p.fam = true)
    (happ : proxyOwned c p = false) :
    evalTable (d + 2) (rulesOf c p.fam) .nat .output p =
      if outboundDNSCaptured c p then .redirect dnsAgentPort
      else if outboundCaptured c p then .redirect c.proxyPort
      else .accept p := by
  rw [nat_output_correct c p d h]
  rw [proxyOwned_iff_identities] at happ
  unfold natOutputSpec outboundDNSCaptured outboundCaptured
  rw [identityWalk_app c p _ happ, hasProxyIdentity_iff]
  by_cases h0 : outIfExcluded c p = true
  · simp [h0]
  by_cases h1 : outPortExcluded c p = true
  · simp [h1]
  by_cases h2 : fromPassthrough p = true
  · simp [h2]
  by_cases hb : (!c.identities.isEmpty && loopbackBypass c p) = true
  · simp [h0, h1, h2, hb]
  by_cases h3 : ownerGroupCaptured c p = true
  · by_cases h4 : dnsCaptured c p = true
    · simp [h0, h1, h2, hb, h3, h4]
    by_cases h5 : loopbackDst c p = true
    · simp [h0, h1, h2, hb, h3, h4, h5]
    by_cases h6 : dstExcluded c p = true
    · simp [h0, h1, h2, hb, h3, h4, h5, h6]
    by_cases h8 : isTcp p = true <;>
      by_cases h7 : (outPortIncluded c p || dstIncluded c p) = true <;>
      simp [h0, h1, h2, hb, h3, h4, h5, h6, h7, h8]
  · simp [h0, h1, h2, hb, h3]

/-- **outbound_exact.** An application packet (not DNS-captured) is redirected to the outbound proxy port
    IF AND ONLY IF it is TCP, its destination is in the included ranges (or its port in the included
    ports) and not in an excluded range, its port not excluded, its interface not excluded, it is not
    for the loopback range, its owner group is captured, and it is not `lo` traffic that is bypassed. -/
theorem outbound_exact (c : Config) (p : Packet) (d : Nat) (h : famOn c p.fam = true)
    (happ : proxyOwned c p = false) (hdns : dnsCaptured c p = false) :
    evalTable (d + 2) (rulesOf c p.fam) .nat .output p = .redirect c.proxyPort ↔ outboundCaptured c p = true := by
  rw [outbound_app c p d h happ]
  have : outboundDNSCaptured c p = false := by simp [outboundDNSCaptured, hdns]
  simp only [this, Bool.false_eq_true, if_false]
  by_cases hc : outboundCaptured c p = true <;> simp [hc]

/-- ... and when it is not captured it is left alone (no other redirect, no drop). -/
theorem outbound_exact_else (c : Config) (p : Packet) (d : Nat) (h : famOn c p.fam = true)
    (happ : proxyOwned c p = false) (hdns : dnsCaptured c p = false) (hc : outboundCaptured c p = false) :
    evalTable (d + 2) (rulesOf c p.fam) .nat .output p = .accept p := by
  rw [outbound_app c p d h happ]
  have : outboundDNSCaptured c p = false := by simp [outboundDNSCaptured, hdns]
  simp [this, hc]

/-- The readable special case: off `lo`, default owner-group filter, no port inclusions, not the
    passthrough source - an application TCP packet is redirected iff its destination is included, not
    excluded, not loopback, and neither its port nor its interface is excluded. -/
theorem outbound_exact_plain (c : Config) (p : Packet) (d : Nat) (h : famOn c p.fam = true)
    (happ : proxyOwned c p = false) (hdns : c.dns = false) (htcp : p.proto = .tcp) (hlo : p.outIf ≠ "lo")
    (hog : c.ownerGroupsAll = true ∧ c.ownerGroupsExclude = []) (hpi : c.outPortsInclude = []) :
    evalTable (d + 2) (rulesOf c p.fam) .nat .output p = .redirect c.proxyPort ↔
      (dstIncluded c p = true ∧ dstExcluded c p = false ∧ loopbackDst c p = false ∧
       c.outPortsExclude.contains p.dport = false ∧ c.exclIfs.contains p.outIf = false) := by
  rw [outbound_exact c p d h happ (by simp [dnsCaptured, hdns])]
  have hlo' : (p.outIf == "lo") = false := by simpa using hlo
  simp [outboundCaptured, isTcp, htcp, outIfExcluded, outPortExcluded, isTcpUdp, fromPassthrough, onLo, hlo',
    loopbackBypass, ownerGroupCaptured, hog.1, hog.2, outPortIncluded, hpi]
  constructor
  · rintro ⟨⟨⟨⟨h1, h2⟩, h3⟩, h4⟩, h5⟩; exact ⟨h5, h4, h3, h2, h1⟩
  · rintro ⟨h5, h4, h3, h2, h1⟩; exact ⟨⟨⟨⟨h1, h2⟩, h3⟩, h4⟩, h5⟩

/-! ## loopback_alone -/

/-- **loopback_alone.** Application traffic on `lo` (whatever its destination) is left alone, as soon
    as a proxy identity is configured and no loopback range was explicitly included; with DNS capture
    the guarantee covers TCP except port 53 (kept capturable on purpose for a resolver on localhost). -/
theorem loopback_alone (c : Config) (p : Packet) (d : Nat) (h : famOn c p.fam = true)
    (happ : proxyOwned c p = false) (hlo : p.outIf = "lo") (hid : hasProxyIdentity c = true)
    (hincl : c.noLoopbackIncluded = true) (hdns : c.dns = false ∨ (p.proto = .tcp ∧ p.dport ≠ 53)) :
    evalTable (d + 2) (rulesOf c p.fam) .nat .output p = .accept p := by
  rw [outbound_app c p d h happ]
  have hb : loopbackBypass c p = true := by
    unfold loopbackBypass onLo isTcp
    rcases hdns with hd | ⟨ht, hp⟩
    · simp [hlo, hincl, hd]
    · simp [hlo, hincl, ht, hp]
  simp [outboundDNSCaptured, outboundCaptured, hid, hb]

/-- The destination-based half: whatever the interface, packets for the loopback range that are not
    DNS-captured are never sent to the outbound port. -/
theorem loopback_dst_alone (c : Config) (p : Packet) (d : Nat) (h : famOn c p.fam = true)
    (happ : proxyOwned c p = false) (hdns : dnsCaptured c p = false) (hdst : loopbackDst c p = true) :
    evalTable (d + 2) (rulesOf c p.fam) .nat .output p = .accept p := by
  apply outbound_exact_else c p d h happ hdns
  simp [outboundCaptured, hdst]

/-- multi_uid_note (recorded observation, not claimed by the property): with several proxy
    identities and the loopback bypass in force, a packet owned by a LATER identity is handed back by
    the first identity's `! --uid-owner` RETURN rule, so its call-to-self is not sent to the inbound
    listener (only the first identity's is). no_loop is unaffected. -/
theorem multi_identity_shadow (c : Config) (p : Packet) (d : Nat) (h : famOn c p.fam = true)
    (o : OwnerId) (rest : List OwnerId) (hids : c.identities = o :: rest) (hfirst : o.owns p = false)
    (hb : loopbackBypass c p = true)
    (hearly : outIfExcluded c p = false ∧ outPortExcluded c p = false ∧ fromPassthrough p = false) :
    evalTable (d + 2) (rulesOf c p.fam) .nat .output p = .accept p := by
  rw [nat_output_correct c p d h]
  simp [natOutputSpec, hearly.1, hearly.2.1, hearly.2.2, hids, identityWalk, hfirst, hb]

/-! ## inbound_exact (REDIRECT mode) -/

/-- **Compiler correctness, nat table, PREROUTING hook**: REDIRECT-mode inbound capture and the
    kube-virt interfaces, for every configuration and packet. -/
theorem nat_prerouting_eq_spec (c : Config) (p : Packet) (d : Nat) (h : famOn c p.fam = true) :
    evalTable (d + 2) (rulesOf c p.fam) .nat .prerouting p = natPreroutingSpec c p :=
  nat_prerouting_correct c p d h

/-- **inbound_exact.** In REDIRECT mode a packet arriving on an ordinary interface is redirected to the
    inbound capture port IF AND ONLY IF it is TCP, its interface is not excluded, its destination port is
    not the tunnel port and is selected: with `*` every port except the excluded ones, with an explicit
    list exactly the listed ports. Otherwise it is left alone. -/
theorem inbound_exact (c : Config) (p : Packet) (d : Nat) (h : famOn c p.fam = true)
    (hmode : c.tproxy = false) (hkv : kubeVirt c p = false) :
    evalTable (d + 2) (rulesOf c p.fam) .nat .prerouting p =
      if inboundCaptured c p then .redirect c.inboundCapturePort else .accept p := by
  rw [nat_prerouting_correct c p d h]
  simp [natPreroutingSpec, hkv, hmode]

theorem inbound_exact_iff (c : Config) (p : Packet) (d : Nat) (h : famOn c p.fam = true)
    (hmode : c.tproxy = false) (hkv : kubeVirt c p = false) :
    evalTable (d + 2) (rulesOf c p.fam) .nat .prerouting p = .redirect c.inboundCapturePort ↔
      (p.proto = .tcp ∧ c.exclIfs.contains p.inIf = false ∧ p.dport ≠ c.inboundTunnelPort ∧
        (match c.inboundInclude with
         | .none => False
         | .all => c.inboundExclude.contains p.dport = false
         | .ports l => l.contains p.dport = true)) := by
  rw [inbound_exact c p d h hmode hkv]
  unfold inboundCaptured inboundPortCaptured isTcp inIfExcluded
  cases hi : c.inboundInclude <;> by_cases h1 : p.proto = .tcp <;> by_cases h2 : p.dport = c.inboundTunnelPort <;>
    simp [h1, h2] <;> split <;> simp_all

/-- Observation (documented behaviour of the flag, not a defect): with an explicit include list the
    excluded inbound ports are not consulted - a port that is both listed and "excluded" IS captured. -/
theorem inbound_exclude_ignored_with_list (c : Config) (p : Packet) (d : Nat) (h : famOn c p.fam = true)
    (hmode : c.tproxy = false) (hkv : kubeVirt c p = false) (l : List Nat) (hl : c.inboundInclude = .ports l)
    (hin : l.contains p.dport = true) (htcp : p.proto = .tcp) (hif : c.exclIfs.contains p.inIf = false)
    (ht : p.dport ≠ c.inboundTunnelPort) :
    evalTable (d + 2) (rulesOf c p.fam) .nat .prerouting p = .redirect c.inboundCapturePort := by
  rw [inbound_exact_iff c p d h hmode hkv]
  refine ⟨htcp, hif, ht, ?_⟩
  simp only [hl]
  exact hin

/-- In TPROXY mode the nat table redirects nothing inbound (capture happens in mangle). -/
theorem nat_prerouting_tproxy (c : Config) (p : Packet) (d : Nat) (h : famOn c p.fam = true)
    (hmode : c.tproxy = true) (hkv : kubeVirt c p = false) :
    evalTable (d + 2) (rulesOf c p.fam) .nat .prerouting p = .accept p := by
  rw [nat_prerouting_correct c p d h]
  simp [natPreroutingSpec, hkv, hmode]

/-- Traffic arriving on a KUBE_VIRT_INTERFACES interface is treated as outbound: redirected to the
    outbound port iff TCP with an included destination, otherwise left alone. -/
theorem kube_virt_exact (c : Config) (p : Packet) (d : Nat) (h : famOn c p.fam = true)
    (hkv : kubeVirt c p = true) :
    evalTable (d + 2) (rulesOf c p.fam) .nat .prerouting p =
      if isTcp p && dstIncluded c p then .redirect c.proxyPort else .accept p := by
  rw [nat_prerouting_correct c p d h]
  simp [natPreroutingSpec, hkv]

/-! ## The tables around nat, and the whole hook -/

/-- The raw table (DNS conntrack zones) never decides or changes a packet. -/
theorem raw_table_inert (c : Config) (f : Fam) (h : Hook) (p : Packet) (d : Nat) :
    evalTable (d + 1) (rulesOf c f) .raw h p = .accept p :=
  raw_accepts c f h p d

/-- **Compiler correctness, mangle table, OUTPUT hook** (TPROXY-mode re-marking; nothing in REDIRECT mode). -/
theorem mangle_output_eq_spec (c : Config) (p : Packet) (d : Nat) (h : famOn c p.fam = true) :
    evalTable (d + 1) (rulesOf c p.fam) .mangle .output p = mangleOutputSpec c p :=
  mangle_output_correct c p d h

/-- **Compiler correctness, mangle table, PREROUTING hook** (drop-invalid; TPROXY-mode inbound capture,
    including the three rules inserted at the head of ISTIO_INBOUND). -/
theorem mangle_prerouting_eq_spec (c : Config) (p : Packet) (d : Nat) (h : famOn c p.fam = true) :
    evalTable (d + 2) (rulesOf c p.fam) .mangle .prerouting p = manglePreroutingSpec c p :=
  mangle_prerouting_correct c p d h

/-- **Compiler correctness, whole hook**: for every configuration (both interception modes, both
    families, DNS capture, kube-virt interfaces, owner-group filters, drop-invalid) and every packet, the
    fate of the packet under the installed rules (raw, mangle, nat in hook order) is the fate the policy
    `specFate` prescribes. -/
theorem fate_correct (c : Config) (p : Packet) (d : Nat) :
    traverse (d + 2) (rulesOf c p.fam) p = specFate c p := by
  cases hfam : famOn c p.fam
  · -- the family has no rules at all
    rcases famOn_false c p hfam with ⟨h1, h2⟩
    simp only [traverse, specFate, h1, h2, if_true, List.foldl, stepTable, evalTable_nil]
    cases hn : (p.ctstate != CtState.new) <;> simp [hn]
  · have hv : (p.v6 && !c.enableIPv6) = false := by
      unfold famOn at hfam
      cases hv : p.v6 <;> cases he : c.enableIPv6 <;> simp [Packet.fam, hv, he] at hfam ⊢
    simp only [traverse, specFate, hv, Bool.false_eq_true, if_false, List.foldl, stepTable, specStep,
      raw_accepts c p.fam p.hook p (d + 1)]
    simp only [Bool.or_self, Bool.false_eq_true, if_false, beq_self_eq_true, Bool.true_and]
    cases hh : p.hook
    · -- PREROUTING
      have hm := mangle_prerouting_correct c p d hfam
      simp only [show (Table.raw == Table.nat) = false from rfl, show (Table.mangle == Table.nat) = false from rfl,
        Bool.false_and, Bool.false_eq_true, if_false, hm, mangleSpec, hh]
      rcases manglePreroutingSpec_shape c p with hs | ⟨m, cm, hs | hs⟩
      · simp [hs]
      · have hn := nat_prerouting_correct c { p with mark := m, connmark := cm } d hfam
        simp only [hs, Bool.or_self, Bool.false_eq_true, if_false]
        by_cases hct : (p.ctstate != CtState.new) = true
        · simp [hct]
        · simp only [hct, Bool.false_eq_true, if_false]
          rw [show rulesOf c p.fam = rulesOf c ({ p with mark := m, connmark := cm } : Packet).fam from rfl, hn]
          simp only [natSpec, hh]
          try rfl
      · have hn := nat_prerouting_correct c { p with mark := m, connmark := cm } d hfam
        simp only [hs, Bool.or_self, Bool.false_eq_true, if_false]
        by_cases hct : (p.ctstate != CtState.new) = true
        · simp [hct]
        · simp only [hct, Bool.false_eq_true, if_false]
          rw [show rulesOf c p.fam = rulesOf c ({ p with mark := m, connmark := cm } : Packet).fam from rfl, hn]
          simp only [natSpec, hh]
          try rfl
    · -- OUTPUT
      have hm := mangle_output_correct c p (d + 1) hfam
      simp only [show (Table.raw == Table.nat) = false from rfl, show (Table.mangle == Table.nat) = false from rfl,
        Bool.false_and, Bool.false_eq_true, if_false, hm, mangleSpec, hh]
      rcases mangleOutputSpec_shape c p with ⟨m, hs⟩
      have hn := nat_output_correct c { p with mark := m } d hfam
      simp only [hs, Bool.or_self, Bool.false_eq_true, if_false]
      by_cases hct : (p.ctstate != CtState.new) = true
      · simp [hct]
      · simp only [hct, Bool.false_eq_true, if_false]
        rw [show rulesOf c p.fam = rulesOf c ({ p with mark := m } : Packet).fam from rfl, hn]
        simp only [natSpec, hh]
        try rfl


theorem natSpec_ne_loop (c : Config) (p : Packet) : natSpec c p ≠ .loop := by
  unfold natSpec natOutputSpec natPreroutingSpec
  repeat' split
  all_goals simp

theorem mangleSpec_ne_loop (c : Config) (p : Packet) : mangleSpec c p ≠ .loop := by
  unfold mangleSpec
  split
  · rcases mangleOutputSpec_shape c p with ⟨m, h⟩; simp [h]
  · rcases manglePreroutingSpec_shape c p with h | ⟨m, cm, h | h⟩ <;> simp [h]

theorem specStep_loop (c : Config) (f : Fate) (t : Table) (h : f.loop = false) : (specStep c f t).loop = false := by
  unfold specStep
  split
  · exact h
  · split
    · exact h
    · cases t
      · simp [h]
      · have hv := mangleSpec_ne_loop c f.pkt
        generalize mangleSpec c f.pkt = v at hv ⊢
        cases v <;> simp_all
      · have hv := natSpec_ne_loop c f.pkt
        generalize natSpec c f.pkt = v at hv ⊢
        cases v <;> simp_all
      · simp [h]

/-- No generated rule set contains a chain cycle: the jump stack (two levels suffice) never overflows,
    for any configuration, family, hook and packet. -/
theorem never_chain_loop (c : Config) (p : Packet) (d : Nat) :
    (traverse (d + 2) (rulesOf c p.fam) p).loop = false := by
  rw [fate_correct]
  unfold specFate
  split
  · rfl
  · simp only [List.foldl]
    exact specStep_loop _ _ _ (specStep_loop _ _ _ (specStep_loop _ _ _ rfl))

end IstioModel.C20
