import IstioModel.C20.Spec

/-! C20 - theorems (work in progress: the closed forms and the property theorems follow). -/
namespace IstioModel.C20

/-- Without `EnableIPv6` the builder's IPv6 rule list stays empty: IPv6 packets meet no rule. -/
theorem rulesOf_v6_disabled (c : Config) (h : c.enableIPv6 = false) : rulesOf c .v6 = [] := by
  simp [rulesOf, h]

end IstioModel.C20
