import IstioModel.C20.Cleanup
import IstioModel.Common.Wire
import IstioModel.C20.Parse
import IstioModel.C20.Spec

/-! Line-protocol driver for C20. See harness/c20.

  case <n> ...                      -> ok            (state reset)
  cfg <24 tokens>                   -> ok <#v4 lines> <#v6 lines> cmds=<command log> | invalid:<why> | error:<why> | unmodelled:<why>
  envcfg <24 flag tokens> <envoyUID> <resolv.conf servers> <dual stack> <interface addresses> <via>
                                    -> same, the configuration going through DefaultConfig + flags +
                                       FillConfigFromEnvironment (tokens 10,11,24 are the environment variables, `~` = unset,
                                       token 21 is ignored: the pod family comes from getLocalIP over the interface addresses;
                                       <via> says which source - flag or environment variable - carried each value, the model
                                       treats them alike)
  r <4|6> <i>                       -> line i of the iptables-restore input of that family | none
  p <hook> <4|6> <proto> <src> <dst> <sport> <dport> <inIf> <outIf> <uid> <gid> <ctstate> <mark> <connmark>
                                    -> the packet's fate: stream `packets`: `specFate` (the policy stated on
                                       configuration and packet); any other stream: `fateOf` (Netfilter.lean
                                       semantics over the model's own compiled rules)
-/
namespace IstioModel.C20
open IstioModel.Wire

structure DState where
  spec : Bool := false
  cfg : Option Config := none
  v4  : Array String := #[]
  v6  : Array String := #[]

def DState.empty : DState := {}

def DState.init (args : List String) : DState := { spec := args.head? == some "packets" }

def DState.reset (s : DState) : DState := { spec := s.spec }

def packetOfTokens : List String → Option Packet
  | [hook, ver, proto, src, dst, sport, dport, inIf, outIf, uid, gid, ct, mark, cmark] =>
    let v6 := ver == "6"
    let addr := fun (t : String) => if v6 then parseV6 t else parseV4 t
    match addr src, addr dst, sport.toNat?, dport.toNat?, mark.toNat?, cmark.toNat? with
    | some s, some d, some sp, some dp, some m, some cm =>
      some { hook := if hook == "P" then .prerouting else .output, v6 := v6,
             proto := if proto == "tcp" then .tcp else if proto == "udp" then .udp else .other,
             src := s, dst := d, sport := sp, dport := dp,
             inIf := dec inIf, outIf := dec outIf, uid := dec uid, gid := dec gid,
             ctstate := if ct == "NEW" then .new else if ct == "ESTABLISHED" then .established
                        else if ct == "RELATED" then .related else .invalid,
             mark := m, connmark := cm }
    | _, _, _, _, _, _ => none
  | _ => none

def optText : Option Nat → String
  | some n => toString n
  | none => "-"

def Fate.text (f : Fate) : String :=
  if f.loop then "loop" else if f.dropped then "drop"
  else s!"pass tproxy={optText f.tproxy} redirect={optText f.redirect} mark={f.pkt.mark} connmark={f.pkt.connmark}"

def rawOfTokens : List String → Option RawConfig
  | [pp, ic, tp, uid, gid, mode, mk, ii, ie, ogi, oge, opi, ope, ipi, ipe, kv, xi, dns, di, cad, v6, d4, d6, lo] =>
    some { proxyPort := dec pp, inboundCapturePort := dec ic, inboundTunnelPort := dec tp,
           proxyUID := dec uid, proxyGID := dec gid, mode := dec mode, tproxyMark := dec mk,
           inboundInclude := dec ii, inboundExclude := dec ie,
           ownerGroupsInclude := dec ogi, ownerGroupsExclude := dec oge,
           outPortsInclude := dec opi, outPortsExclude := dec ope,
           outInclude := dec ipi, outExclude := dec ipe,
           kubeVirtIfs := dec kv, exclIfs := dec xi,
           redirectDNS := tokBool dns, dropInvalid := tokBool di, captureAllDNS := tokBool cad,
           enableIPv6 := tokBool v6, dnsV4 := decList d4, dnsV6 := decList d6, loCidr := dec lo }
  | _ => none

def optEnv (t : String) : Option String := if t == "~" then none else some (dec t)

def compileRaw (s : DState) (raw : RawConfig) : DState × String :=
      match raw.parse with
      | .invalid w => (s.reset, "invalid:" ++ w)
      | .error w => (s.reset, "error:" ++ w)
      | .unmodelled w => (s.reset, "unmodelled:" ++ w)
      | .ok c =>
        let l4 := (restoreLines (rulesOf c .v4)).toArray
        let l6 := if c.enableIPv6 then (restoreLines (rulesOf c .v6)).toArray else #[]
        ({ spec := s.spec, cfg := some c, v4 := l4, v6 := l6 },
          s!"ok {l4.size} {l6.size} cmds={",".intercalate ((commandLog c).map enc)}")

def step (s : DState) (toks : List String) : DState × String :=
  match toks with
  | "case" :: _ => (s.reset, "ok")
  | "cfg" :: rest =>
    match rawOfTokens rest with
    | none => (s.reset, "bad-op")
    | some raw => compileRaw s raw
  | "cmdcfg" :: rest =>
    -- the real command (cmd.GetCommand): refused = exit status 1 at any step; ok = the dry-run record
    match rawOfTokens (rest.take 24), rest.drop 24 with
    | some flags, [uid, resolv, dual, addrs, via] =>
      let viaL := decList via
      let e : Environment := {
        addrError := viaL.contains "addrerr=1",
        forceBinary := ((viaL.find? (·.startsWith "binary=")).map (fun s => (s.drop 7).toString)).getD "",
        ownerGroupsInclude := if viaL.contains "empty:ISTIO_OUTBOUND_OWNER_GROUPS" then some "" else optEnv (rest.getD 9 "~"),
        ownerGroupsExclude := if viaL.contains "empty:ISTIO_OUTBOUND_OWNER_GROUPS_EXCLUDE" then some "" else optEnv (rest.getD 10 "~"),
        loCidr := optEnv (rest.getD 23 "~"), envoyUID := dec uid, dualStack := tokBool dual,
        localAddrs := decList addrs, resolvConf := if resolv == "!" then none else some (decList resolv) }
      match flags.fill e with
      | none => (s.reset, "refused")
      | some raw =>
        match raw.parse with
        | .ok c =>
          let l := if viaL.contains "skip=1" then #[] else (dryRunLog c).toArray
          ({ spec := s.spec, cfg := some c, v4 := l, v6 := #[] }, s!"ok {l.size}")
        | .invalid _ => (s.reset, "refused")                       -- Config.Validate, before ProgramIptables
        | .error _ =>                                                -- errors of Run: not reached with --skip-rule-apply
          if viaL.contains "skip=1" then (s.reset, "ok 0") else (s.reset, "refused")
        | .unmodelled w => if viaL.contains "skip=1" then (s.reset, "ok 0") else (s.reset, "unmodelled:" ++ w)
    | _, _ => (s.reset, "bad-op")
  | "envcfg" :: rest =>
    match rawOfTokens (rest.take 24), rest.drop 24 with
    | some flags, [uid, resolv, dual, addrs, via] =>
      let viaL := decList via
      let e : Environment := {
        addrError := viaL.contains "addrerr=1",
        forceBinary := ((viaL.find? (·.startsWith "binary=")).map (fun s => (s.drop 7).toString)).getD "",
        ownerGroupsInclude := if viaL.contains "empty:ISTIO_OUTBOUND_OWNER_GROUPS" then some "" else optEnv (rest.getD 9 "~"),
        ownerGroupsExclude := if viaL.contains "empty:ISTIO_OUTBOUND_OWNER_GROUPS_EXCLUDE" then some "" else optEnv (rest.getD 10 "~"),
        loCidr := optEnv (rest.getD 23 "~"), envoyUID := dec uid, dualStack := tokBool dual,
        localAddrs := decList addrs, resolvConf := if resolv == "!" then none else some (decList resolv) }
      match flags.fill e with
      | some raw => compileRaw s raw
      | none => (s.reset, "error:environment")
    | _, _ => (s.reset, "bad-op")
  | ["r", fam, i] =>
    let arr := if fam == "6" then s.v6 else s.v4
    match i.toNat? with
    | some n => (s, if h : n < arr.size then arr[n] else "none")
    | none => (s, "bad-op")
  | ["cl", fam] =>
    -- stream `cleanup`: CleanupOnly over the configuration's own rules - rules left, chains left (sorted)
    match s.cfg with
    | some c =>
      let res := cleanupResidue (rulesOf c (if fam == "6" then .v6 else .v4))
      let names := (res.chains.map (fun k => k.1.name ++ "/" ++ k.2.name)).toArray.qsort (· < ·)
      (s, s!"left {res.rules.length} " ++ (if names.isEmpty then "-" else ",".intercalate names.toList))
    | none => (s, "none")
  | "p" :: rest =>
    match s.cfg, packetOfTokens rest with
    | some c, some p => (s, (if s.spec then specFate c p else fateOf c p).text)
    | none, _ => (s, "none")
    | _, none => (s, "bad-op")
  | _ => (s, "bad-op")

end IstioModel.C20
