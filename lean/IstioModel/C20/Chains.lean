import IstioModel.C20.Lemmas

/-! C20 - closed forms of the chains the compiler builds (per family, table, chain). -/
namespace IstioModel.C20
set_option linter.unusedSimpArgs false


def loOf (c : Config) : Fam → Cidr | .v4 => c.loCidr | .v6 => lo6
def srcOf : Fam → Cidr | .v4 => src4 | .v6 => src6
def exclOf (c : Config) : Fam → List Cidr | .v4 => c.exclV4 | .v6 => c.exclV6
def inclOf (c : Config) : Fam → NetRange | .v4 => c.inclV4 | .v6 => c.inclV6
def dnsOf (c : Config) : Fam → List Nat | .v4 => c.dnsV4 | .v6 => c.dnsV6
def dnsCidrOf : Fam → Nat → Cidr | .v4 => dnsCidr4 | .v6 => dnsCidr6

def ownerMatch (n : Bool) : OwnerId → Match
  | .uid u => .uidOwner n u
  | .gid g => .gidOwner n g

def selfCallPort (c : Config) : OwnerId → Match
  | .uid _ => if c.dns then .multiport true [53, c.inboundTunnelPort] else .dport true c.inboundTunnelPort
  | .gid _ => .dport true c.inboundTunnelPort

/-- The rules of one proxy identity in nat/ISTIO_OUTPUT. -/
def blockRules (c : Config) (f : Fam) (o : OwnerId) : List Rule :=
  [⟨.nat, .ISTIO_OUTPUT, .append,
    [.outIf "lo", .dst true (loOf c f), .proto .tcp, selfCallPort c o, ownerMatch false o], .jump .ISTIO_IN_REDIRECT⟩] ++
  (if c.noLoopbackIncluded then
    [⟨.nat, .ISTIO_OUTPUT, .append,
      (if c.dns then [.outIf "lo", .proto .tcp, .dport true 53, ownerMatch true o] else [.outIf "lo", ownerMatch true o]), .ret⟩]
   else []) ++
  [⟨.nat, .ISTIO_OUTPUT, .append, [ownerMatch false o], .ret⟩]

theorem sel_uidBlock (c : Config) (f : Fam) (uid : String) :
    sel f .nat .ISTIO_OUTPUT (uidBlock c uid) = blockRules c f (.uid uid) := by
  cases f <;> cases hd : c.dns <;> cases hl : c.noLoopbackIncluded <;>
    simp [uidBlock, blockRules, hd, hl, sel_append, sel_cons, versioned, both, only, Emit.reaches,
      loOf, selfCallPort, ownerMatch]

theorem sel_gidBlock (c : Config) (f : Fam) (gid : String) :
    sel f .nat .ISTIO_OUTPUT (gidBlock c gid) = blockRules c f (.gid gid) := by
  cases f <;> cases hd : c.dns <;> cases hl : c.noLoopbackIncluded <;>
    simp [gidBlock, blockRules, hd, hl, sel_append, sel_cons, versioned, both, only, Emit.reaches,
      loOf, selfCallPort, ownerMatch]


def ownerGroupRules (c : Config) : List Rule :=
  if c.ownerGroupsAll then
    c.ownerGroupsExclude.map fun g => ⟨.nat, .ISTIO_OUTPUT, .append, [.gidOwner false g], .ret⟩
  else
    [⟨.nat, .ISTIO_OUTPUT, .append, c.ownerGroupsInclude.map (fun g => .gidOwner true g), .ret⟩]

def inclRules (c : Config) (f : Fam) : List Rule :=
  if (inclOf c f).isWildcard then [⟨.nat, .ISTIO_OUTPUT, .append, [], .jump .ISTIO_REDIRECT⟩]
  else (inclOf c f).cidrs.map fun x => ⟨.nat, .ISTIO_OUTPUT, .append, [.dst false x], .jump .ISTIO_REDIRECT⟩

/-- Does the family's nat/ISTIO_OUTPUT jump to the DNS chain? -/
def dnsJump (c : Config) (f : Fam) : Bool := c.dns && (c.captureAllDNS || !(dnsOf c f).isEmpty)

/-- nat/ISTIO_OUTPUT. -/
def chOutput (c : Config) (f : Fam) : List Rule :=
  c.outPortsExclude.flatMap (fun port =>
    [⟨.nat, .ISTIO_OUTPUT, .append, [.proto .tcp, .dport false port], .ret⟩,
     ⟨.nat, .ISTIO_OUTPUT, .append, [.proto .udp, .dport false port], .ret⟩]) ++
  [⟨.nat, .ISTIO_OUTPUT, .append, [.outIf "lo", .src (srcOf f)], .ret⟩] ++
  c.identities.flatMap (blockRules c f) ++
  ownerGroupRules c ++
  (if dnsJump c f then [⟨.nat, .ISTIO_OUTPUT, .append, [], .jump .ISTIO_OUTPUT_DNS⟩] else []) ++
  [⟨.nat, .ISTIO_OUTPUT, .append, [.dst false (loOf c f)], .ret⟩] ++
  (exclOf c f).map (fun x => ⟨.nat, .ISTIO_OUTPUT, .append, [.dst false x], .ret⟩) ++
  c.outPortsInclude.map (fun port =>
    ⟨.nat, .ISTIO_OUTPUT, .append, [.proto .tcp, .dport false port], .jump .ISTIO_REDIRECT⟩) ++
  inclRules c f

theorem flatMap_singleton' {α β} (l : List α) (g : α → β) : l.flatMap (fun a => [g a]) = l.map g := by
  induction l <;> simp_all

theorem flatMap_nil' {α β} (l : List α) : l.flatMap (fun _ => ([] : List β)) = [] := by
  induction l <;> simp_all

theorem sel_handleInbound_natOutput (c : Config) (f : Fam) :
    sel f .nat .ISTIO_OUTPUT (handleInboundPortsInclude c) = [] := by
  unfold handleInboundPortsInclude
  cases f <;> cases ht : c.tproxy <;> cases hi : c.inboundInclude <;>
    simp [ht, hi, sel_append, sel_cons, sel_flatMap, sel_map, sel_ite, versioned, both, only, Emit.reaches,
      inboundAll, inboundPorts, Config.inTable, flatMap_nil']

theorem sel_dns_natOutput (c : Config) (f : Fam) :
    sel f .nat .ISTIO_OUTPUT (if c.dns then setupDNSRedir c else []) =
      if dnsJump c f then [⟨.nat, .ISTIO_OUTPUT, .append, [], .jump .ISTIO_OUTPUT_DNS⟩] else [] := by
  cases f <;> cases hd : c.dns <;> cases hc : c.captureAllDNS <;> cases h4 : c.dnsV4.isEmpty <;> cases h6 : c.dnsV6.isEmpty <;>
    simp [hd, hc, h4, h6, dnsJump, dnsOf, setupDNSRedir, addDNSConntrackZones, sel_append, sel_cons, sel_flatMap, sel_map,
      sel_ite, both, only, Emit.reaches, flatMap_nil']

theorem sel_incl4_natOutput (c : Config) (f : Fam) :
    sel f .nat .ISTIO_OUTPUT (handleOutboundIncludeRules c c.inclV4 .v4) =
      (match f with | .v4 => inclRules c .v4 | .v6 => []) := by
  cases f <;> cases h4 : c.inclV4.isWildcard <;>
    simp [h4, inclRules, inclOf, handleOutboundIncludeRules, sel_append, sel_cons, sel_flatMap, sel_map,
      both, only, Emit.reaches, flatMap_nil', flatMap_singleton']

theorem sel_incl6_natOutput (c : Config) (f : Fam) :
    sel f .nat .ISTIO_OUTPUT (handleOutboundIncludeRules c c.inclV6 .v6) =
      (match f with | .v4 => [] | .v6 => inclRules c .v6) := by
  cases f <;> cases h6 : c.inclV6.isWildcard <;>
    simp [h6, inclRules, inclOf, handleOutboundIncludeRules, sel_append, sel_cons, sel_flatMap, sel_map,
      both, only, Emit.reaches, flatMap_nil', flatMap_singleton']

theorem sel_tproxy_natOutput (c : Config) (f : Fam) :
    sel f .nat .ISTIO_OUTPUT (tproxyRules c) = [] := by
  cases f <;> cases ht : c.tproxy <;>
    simp [ht, tproxyRules, sel_append, sel_cons, sel_flatMap, sel_map, versioned, both, only, Emit.reaches, flatMap_nil']

theorem sel_compile_natOutput (c : Config) (f : Fam) :
    sel f .nat .ISTIO_OUTPUT (compile c) = chOutput c f := by
  unfold compile chOutput
  simp only [sel_append, sel_handleInbound_natOutput, sel_dns_natOutput, sel_incl4_natOutput, sel_incl6_natOutput, sel_tproxy_natOutput,
    sel_flatMap, sel_uidBlock, sel_gidBlock]
  cases f <;> cases ht : c.tproxy <;> cases hdi : c.dropInvalid <;> cases hog : c.ownerGroupsAll <;>
    simp [ht, hdi, hog, shortCircuitExcludeInterfaces, shortCircuitKubeInternalInterface, dropInvalidRules, baseChains,
      outputJump, outboundPortsExclude, passthroughSource, handleCaptureByOwnerGroup, ownerGroupRules, loopbackReturn,
      outboundExcludeCidrs, handleOutboundPortsInclude, sel_append, sel_cons, sel_flatMap, sel_map, sel_ite,
      versioned, both, only, Emit.reaches, flatMap_nil', flatMap_singleton', Config.identities, List.flatMap_append,
      List.flatMap_map, srcOf, loOf, exclOf]



/-! ## From the emit list to installed chains -/

/-- Is the family's rule list populated at all (`AppendRuleV6` is a no-op without `EnableIPv6`). -/
def famOn (c : Config) (f : Fam) : Bool := !(f == .v6 && !c.enableIPv6)

theorem chainOf_rulesOf (c : Config) (f : Fam) (t : Table) (ch : Chain) (h : famOn c f = true) :
    chainOf (rulesOf c f) t ch = (sel f t ch (compile c)).foldl applyCmd [] := by
  have h' : (f == .v6 && !c.enableIPv6) = false := by
    cases hh : (f == .v6 && !c.enableIPv6)
    · rfl
    · simp [famOn, hh] at h
  simp [chainOf, rulesOf, h', sel]

def allAppend (l : List Rule) : Bool := l.all (fun r => r.op == .append)

theorem chainOf_closed (c : Config) (f : Fam) (t : Table) (ch : Chain) (L : List Rule)
    (h : famOn c f = true) (hs : sel f t ch (compile c) = L) (ha : allAppend L = true) :
    chainOf (rulesOf c f) t ch = L := by
  rw [chainOf_rulesOf c f t ch h, hs, foldl_applyCmd_append]
  · simp
  · intro r hr
    have := (List.all_eq_true.mp ha) r hr
    simpa using this

/-! ## The other nat chains -/

/-- nat/OUTPUT. -/
def chNatOUTPUT (c : Config) : List Rule :=
  c.exclIfs.map (fun ifc => ⟨.nat, .OUTPUT, .append, [.outIf ifc], .ret⟩) ++
  [⟨.nat, .OUTPUT, .append, [], .jump .ISTIO_OUTPUT⟩]

def chRedirect (c : Config) : List Rule :=
  [⟨.nat, .ISTIO_REDIRECT, .append, [.proto .tcp], .redirect c.proxyPort false⟩]

def chInRedirect (c : Config) : List Rule :=
  [⟨.nat, .ISTIO_IN_REDIRECT, .append, [.proto .tcp], .redirect c.inboundCapturePort false⟩]

/-- nat/ISTIO_OUTPUT_DNS. -/
def chNatDNS (c : Config) (f : Fam) : List Rule :=
  if c.dns then
    (if c.captureAllDNS then
      [⟨.nat, .ISTIO_OUTPUT_DNS, .append, [.proto .tcp, .dport false 53], .redirect dnsAgentPort false⟩]
     else (dnsOf c f).map (fun s => ⟨.nat, .ISTIO_OUTPUT_DNS, .append,
        [.proto .tcp, .dport false 53, .dst false (dnsCidrOf f s)], .redirect dnsAgentPort false⟩)) ++
    (if c.captureAllDNS then
      [⟨.nat, .ISTIO_OUTPUT_DNS, .append, [.proto .udp, .dport false 53], .redirect dnsAgentPort true⟩]
     else (dnsOf c f).map (fun s => ⟨.nat, .ISTIO_OUTPUT_DNS, .append,
        [.proto .udp, .dport false 53, .dst false (dnsCidrOf f s)], .redirect dnsAgentPort true⟩))
  else []

/-- Everything of `compile` except the pieces that need a case split, unfolded. -/
theorem sel_handleInbound_other (c : Config) (f : Fam) (ch : Chain)
    (h : ch = .OUTPUT ∨ ch = .ISTIO_REDIRECT ∨ ch = .ISTIO_IN_REDIRECT ∨ ch = .ISTIO_OUTPUT_DNS) :
    sel f .nat ch (handleInboundPortsInclude c) = [] := by
  unfold handleInboundPortsInclude
  rcases h with h | h | h | h <;> subst h <;>
  cases f <;> cases ht : c.tproxy <;> cases hi : c.inboundInclude <;>
    simp [ht, hi, sel_append, sel_cons, sel_flatMap, sel_map, sel_ite, versioned, both, only, Emit.reaches,
      inboundAll, inboundPorts, Config.inTable, flatMap_nil']

theorem sel_tproxy_nat (c : Config) (f : Fam) (ch : Chain) :
    sel f .nat ch (tproxyRules c) = [] := by
  cases f <;> cases ht : c.tproxy <;>
    simp [ht, tproxyRules, sel_append, sel_cons, sel_flatMap, sel_map, versioned, both, only, Emit.reaches, flatMap_nil']

theorem sel_incl_nat_other (c : Config) (f g : Fam) (r : NetRange) (ch : Chain)
    (h : ch = .OUTPUT ∨ ch = .ISTIO_REDIRECT ∨ ch = .ISTIO_IN_REDIRECT ∨ ch = .ISTIO_OUTPUT_DNS ∨ ch = .ISTIO_INBOUND) :
    sel f .nat ch (handleOutboundIncludeRules c r g) = [] := by
  rcases h with h | h | h | h | h <;> subst h <;>
  cases f <;> cases g <;> cases hw : r.isWildcard <;>
    simp [hw, handleOutboundIncludeRules, sel_append, sel_cons, sel_flatMap, sel_map,
      both, only, Emit.reaches, flatMap_nil']

theorem sel_blocks_other (c : Config) (f : Fam) (ch : Chain) (s : String)
    (h : ch = .OUTPUT ∨ ch = .ISTIO_REDIRECT ∨ ch = .ISTIO_IN_REDIRECT ∨ ch = .ISTIO_OUTPUT_DNS ∨ ch = .ISTIO_INBOUND ∨ ch = .PREROUTING) :
    sel f .nat ch (uidBlock c s) = [] ∧ sel f .nat ch (gidBlock c s) = [] := by
  rcases h with h | h | h | h | h | h <;> subst h <;>
  cases f <;> cases hd : c.dns <;> cases hl : c.noLoopbackIncluded <;>
    simp [uidBlock, gidBlock, hd, hl, sel_append, sel_cons, versioned, both, only, Emit.reaches]

theorem sel_dns_nat_other (c : Config) (f : Fam) (ch : Chain)
    (h : ch = .OUTPUT ∨ ch = .ISTIO_REDIRECT ∨ ch = .ISTIO_IN_REDIRECT ∨ ch = .ISTIO_INBOUND ∨ ch = .PREROUTING) :
    sel f .nat ch (if c.dns then setupDNSRedir c else []) = [] := by
  rcases h with h | h | h | h | h <;> subst h <;>
  cases f <;> cases hd : c.dns <;> cases hc : c.captureAllDNS <;> cases h4 : c.dnsV4.isEmpty <;> cases h6 : c.dnsV6.isEmpty <;>
    simp [hd, hc, h4, h6, setupDNSRedir, addDNSConntrackZones, sel_append, sel_cons, sel_flatMap, sel_map,
      sel_ite, both, only, Emit.reaches, flatMap_nil']

theorem sel_dns_natDNS (c : Config) (f : Fam) :
    sel f .nat .ISTIO_OUTPUT_DNS (if c.dns then setupDNSRedir c else []) = chNatDNS c f := by
  cases f <;> cases hd : c.dns <;> cases hc : c.captureAllDNS <;> cases h4 : c.dnsV4.isEmpty <;> cases h6 : c.dnsV6.isEmpty <;>
    simp [hd, hc, h4, h6, chNatDNS, dnsOf, dnsCidrOf, setupDNSRedir, addDNSConntrackZones, sel_append, sel_cons, sel_flatMap,
      sel_map, sel_ite, both, only, Emit.reaches, flatMap_nil', flatMap_singleton']

/-- The simp set that unfolds the straight-line segments of `compile`. -/
macro "sel_simple" : tactic => `(tactic|
  simp [shortCircuitExcludeInterfaces, shortCircuitKubeInternalInterface, dropInvalidRules, baseChains,
      outputJump, outboundPortsExclude, passthroughSource, handleCaptureByOwnerGroup, loopbackReturn,
      outboundExcludeCidrs, handleOutboundPortsInclude, sel_append, sel_cons, sel_flatMap, sel_map, sel_ite,
      versioned, both, only, Emit.reaches, flatMap_nil', flatMap_singleton', *])

theorem sel_compile_natOUTPUT (c : Config) (f : Fam) :
    sel f .nat .OUTPUT (compile c) = chNatOUTPUT c := by
  unfold compile chNatOUTPUT
  simp only [sel_append, sel_flatMap, sel_handleInbound_other c f .OUTPUT (by simp), sel_tproxy_nat,
    sel_incl_nat_other c f _ _ .OUTPUT (by simp), (sel_blocks_other c f .OUTPUT _ (by simp)).1,
    (sel_blocks_other c f .OUTPUT _ (by simp)).2, sel_dns_nat_other c f .OUTPUT (by simp)]
  cases f <;> cases ht : c.tproxy <;> cases hdi : c.dropInvalid <;> cases hog : c.ownerGroupsAll <;> sel_simple

theorem sel_compile_natRedirect (c : Config) (f : Fam) :
    sel f .nat .ISTIO_REDIRECT (compile c) = chRedirect c := by
  unfold compile chRedirect
  simp only [sel_append, sel_flatMap, sel_handleInbound_other c f .ISTIO_REDIRECT (by simp), sel_tproxy_nat,
    sel_incl_nat_other c f _ _ .ISTIO_REDIRECT (by simp), (sel_blocks_other c f .ISTIO_REDIRECT _ (by simp)).1,
    (sel_blocks_other c f .ISTIO_REDIRECT _ (by simp)).2, sel_dns_nat_other c f .ISTIO_REDIRECT (by simp)]
  cases f <;> cases ht : c.tproxy <;> cases hdi : c.dropInvalid <;> cases hog : c.ownerGroupsAll <;> sel_simple

theorem sel_compile_natInRedirect (c : Config) (f : Fam) :
    sel f .nat .ISTIO_IN_REDIRECT (compile c) = chInRedirect c := by
  unfold compile chInRedirect
  simp only [sel_append, sel_flatMap, sel_handleInbound_other c f .ISTIO_IN_REDIRECT (by simp), sel_tproxy_nat,
    sel_incl_nat_other c f _ _ .ISTIO_IN_REDIRECT (by simp), (sel_blocks_other c f .ISTIO_IN_REDIRECT _ (by simp)).1,
    (sel_blocks_other c f .ISTIO_IN_REDIRECT _ (by simp)).2, sel_dns_nat_other c f .ISTIO_IN_REDIRECT (by simp)]
  cases f <;> cases ht : c.tproxy <;> cases hdi : c.dropInvalid <;> cases hog : c.ownerGroupsAll <;> sel_simple

theorem sel_compile_natDNS (c : Config) (f : Fam) :
    sel f .nat .ISTIO_OUTPUT_DNS (compile c) = chNatDNS c f := by
  unfold compile
  simp only [sel_append, sel_flatMap, sel_handleInbound_other c f .ISTIO_OUTPUT_DNS (by simp), sel_tproxy_nat,
    sel_incl_nat_other c f _ _ .ISTIO_OUTPUT_DNS (by simp), (sel_blocks_other c f .ISTIO_OUTPUT_DNS _ (by simp)).1,
    (sel_blocks_other c f .ISTIO_OUTPUT_DNS _ (by simp)).2, sel_dns_natDNS]
  cases f <;> cases ht : c.tproxy <;> cases hdi : c.dropInvalid <;> cases hog : c.ownerGroupsAll <;> sel_simple

end IstioModel.C20
