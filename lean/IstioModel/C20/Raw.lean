import IstioModel.C20.NatPrerouting

/-! C20 - the raw table (DNS conntrack zones) never decides a packet. -/
namespace IstioModel.C20
set_option linter.unusedSimpArgs false

/-! ## Tables whose rules cannot decide anything (raw: only `CT --zone`) -/

def Target.isCt : Target → Bool
  | .ctZone _ => true
  | _ => false

/-- A rule that can neither end the traversal nor change the packet: `CT`, or - in a built-in chain -
    an unconditional-or-not jump to a user chain. -/
def Rule.inertOK (r : Rule) : Bool :=
  r.op == .append &&
  (r.target.isCt ||
   (r.chain.builtin && (match r.target with | .jump ch => !ch.builtin | _ => false)))

theorem evalRules_allCt (k : Chain → Packet → Res) (l : List Rule) (p : Packet)
    (h : ∀ r ∈ l, r.target.isCt = true) : evalRules k l p = .next p := by
  induction l with
  | nil => rfl
  | cons r rest ih =>
    have hr := h r (by simp)
    have ih' := ih (fun r' hr' => h r' (by simp [hr']))
    simp only [evalRules]
    split
    · cases ht : r.target <;> simp [ht, Target.isCt] at hr ⊢
      exact ih'
    · exact ih'

theorem chainOf_filter_of_appends (R : List Rule) (t : Table) (ch : Chain)
    (h : ∀ r ∈ R, r.table = t → r.op = .append) :
    chainOf R t ch = R.filter (fun r => r.table == t && r.chain == ch) := by
  unfold chainOf
  rw [foldl_applyCmd_append]
  · simp
  · intro r hr
    simp only [List.mem_filter, Bool.and_eq_true, beq_iff_eq] at hr
    exact h r hr.1 hr.2.1

/-- A table all of whose rules are inert accepts every packet unchanged. -/
theorem evalTable_inert (R : List Rule) (t : Table) (h : Hook) (p : Packet) (d : Nat)
    (hR : ∀ r ∈ R, r.table = t → r.inertOK = true) :
    evalTable (d + 1) R t h p = .accept p := by
  have happ : ∀ r ∈ R, r.table = t → r.op = .append := by
    intro r hr ht
    have := hR r hr ht
    simp only [Rule.inertOK, Bool.and_eq_true, beq_iff_eq] at this
    exact this.1
  -- user chains hold only CT rules
  have huser : ∀ ch : Chain, ch.builtin = false → ∀ q : Packet,
      evalChain R t (d + 1) ch q = .next q := by
    intro ch hch q
    rw [evalChain_succ, chainOf_filter_of_appends R t ch happ]
    apply evalRules_allCt
    intro r hr
    simp only [List.mem_filter, Bool.and_eq_true, beq_iff_eq] at hr
    have := hR r hr.1 hr.2.1
    simp only [Rule.inertOK, Bool.and_eq_true, Bool.or_eq_true, hr.2.2, hch, Bool.false_eq_true, false_and,
      or_false] at this
    exact this.2
  unfold evalTable
  rw [chainOf_filter_of_appends R t _ happ]
  have : ∀ l : List Rule, (∀ r ∈ l, r ∈ R ∧ r.table = t ∧ r.chain = h.chain) →
      evalRules (evalChain R t (d + 1)) l p = .next p := by
    intro l
    induction l with
    | nil => intro _; rfl
    | cons r rest ih =>
      intro hl
      have hr := hl r (by simp)
      have ih' := ih (fun r' hr' => hl r' (by simp [hr']))
      have hin := hR r hr.1 hr.2.1
      simp only [Rule.inertOK, Bool.and_eq_true, Bool.or_eq_true] at hin
      simp only [evalRules]
      split
      · rcases hin.2 with hct | ⟨_, hj⟩
        · cases ht : r.target <;> simp [ht, Target.isCt] at hct ⊢
          exact ih'
        · cases ht : r.target <;> simp [ht] at hj ⊢
          rename_i ch
          rw [huser ch hj p]
          exact ih'
      · exact ih'
  rw [this]
  intro r hr
  simp only [List.mem_filter, Bool.and_eq_true, beq_iff_eq] at hr
  exact ⟨hr.1, hr.2.1, hr.2.2⟩


theorem mem_rulesOf (c : Config) (f : Fam) (r : Rule) (h : r ∈ rulesOf c f) : ∃ e ∈ compile c, e.rule = r := by
  unfold rulesOf at h
  split at h
  · simp at h
  · simp only [List.mem_map, List.mem_filter] at h
    rcases h with ⟨e, ⟨he, _⟩, rfl⟩
    exact ⟨e, he, rfl⟩

def rawOK (e : Emit) : Bool := e.rule.table != .raw || e.rule.inertOK

theorem handleInbound_rawOK (c : Config) : (handleInboundPortsInclude c).all rawOK = true := by
  unfold handleInboundPortsInclude
  cases ht : c.tproxy <;> cases hi : c.inboundInclude <;>
    simp [rawOK, Rule.inertOK, inboundAll, inboundPorts, Config.inTable, ht,
      List.all_append, List.all_flatMap, List.all_map, Function.comp_def, both, only, versioned]

theorem compile_rawOK (c : Config) : (compile c).all rawOK = true := by
  unfold compile
  simp only [List.all_append, Bool.and_eq_true]
  refine ⟨⟨⟨⟨⟨⟨⟨⟨⟨⟨⟨⟨⟨⟨⟨⟨⟨?_, ?_⟩, ?_⟩, ?_⟩, ?_⟩, ?_⟩, ?_⟩, ?_⟩, ?_⟩, ?_⟩, ?_⟩, ?_⟩, ?_⟩, ?_⟩, ?_⟩, ?_⟩, ?_⟩, ?_⟩
  all_goals first | exact handleInbound_rawOK c |
    simp [rawOK, Rule.inertOK, Target.isCt, Chain.builtin, shortCircuitExcludeInterfaces,
      shortCircuitKubeInternalInterface, dropInvalidRules, baseChains, outputJump, outboundPortsExclude,
      passthroughSource, handleCaptureByOwnerGroup, loopbackReturn, outboundExcludeCidrs, handleOutboundPortsInclude,
      handleOutboundIncludeRules, tproxyRules, uidBlock, gidBlock, setupDNSRedir, addDNSConntrackZones,
      handleInboundPortsInclude, inboundAll, inboundPorts, Config.inTable,
      List.all_append, List.all_flatMap, List.all_map, Function.comp_def, both, only, versioned, apply_ite (List.all · rawOK)]


/-- **The raw table decides nothing**: it only holds `CT --zone` rules (DNS conntrack zones). -/
theorem raw_accepts (c : Config) (f : Fam) (h : Hook) (p : Packet) (d : Nat) :
    evalTable (d + 1) (rulesOf c f) .raw h p = .accept p := by
  apply evalTable_inert
  intro r hr ht
  rcases mem_rulesOf c f r hr with ⟨e, he, rfl⟩
  have := (List.all_eq_true.mp (compile_rawOK c)) e he
  simpa [rawOK, ht] using this

end IstioModel.C20
