import IstioModel.C20.CleanupLemmas

/-! C20 - what CleanupOnly leaves behind (review round 5): from tables that hold exactly the
    configuration's own rules, every rule goes and every chain that owns a rule goes; what stays is EXACTLY the
    set of chains the text declares without ever putting a rule into them (jump-target-only chains) - the
    registered class `c20:cleanup-leaves-jump-target-only-chain`. Tied to the real `Run` with CleanupOnly
    against the in-memory iptables by stream `cleanup`. -/
namespace IstioModel.C20
set_option linter.unusedSimpArgs false

/-- **CleanupOnly over the configuration's own rules**: no rule is left, and the chains left are exactly the
    declared chains that own no rule. -/
theorem cleanup_residue_exact (rs : List Rule) :
    (cleanupResidue rs).rules = [] ∧
    (cleanupResidue rs).chains =
      (declaredChains rs).filter (fun k => !(rs.any (fun r => (r.table, r.chain) == k))) := by
  unfold cleanupResidue cleanup
  have hp := after_deletes rs
  have hc := (foldl_delete_rules (rs.reverse.filter Rule.undone) (install rs)).2
  generalize hs1 : (rs.reverse.filter Rule.undone).foldl NS.delete (install rs) = s1 at hp hc
  have hmem : ∀ r ∈ s1.rules, r.isJump = false ∧ r.chain.builtin = false ∧ ∃ r0 ∈ rs, r0.norm = r := by
    intro r hr
    have := (hp.mem_iff).1 hr
    simp only [List.mem_filter, List.mem_map, Bool.not_eq_true'] at this
    obtain ⟨⟨r0, hr0, rfl⟩, hu⟩ := this
    simp only [Rule.undone, Bool.or_eq_false_iff] at hu
    exact ⟨hu.2, hu.1, r0, hr0, rfl⟩
  obtain ⟨h1, h2⟩ := foldl_flush_del (ownedChains rs) s1 (fun r hr => (hmem r hr).1)
  simp only [] at h1 h2 ⊢
  rw [h1, h2, hc]
  constructor
  · rw [List.filter_eq_nil_iff]
    intro r hr
    obtain ⟨_, hb, r0, hr0, rfl⟩ := hmem r hr
    have : (r0.norm.table, r0.norm.chain) ∈ ownedChains rs :=
      (mem_ownedChains rs _).2 ⟨hb, r0, hr0, rfl⟩
    simp [List.contains_iff_mem, this]
  · simp only [install]
    apply List.filter_congr
    intro k hk
    have hb := ((mem_declaredChains rs k).1 hk).1
    congr 1
    rw [Bool.eq_iff_iff]
    simp only [List.contains_iff_mem, mem_ownedChains, hb, true_and, List.any_eq_true, beq_iff_eq]

/-- The residue is empty exactly when every declared chain owns a rule. -/
theorem cleanup_complete_iff (rs : List Rule) :
    (cleanupResidue rs).chains = [] ↔ ∀ k ∈ declaredChains rs, ∃ r ∈ rs, (r.table, r.chain) = k := by
  rw [(cleanup_residue_exact rs).2, List.filter_eq_nil_iff]
  simp only [Bool.not_eq_true, Bool.not_eq_false', List.any_eq_true, beq_iff_eq]

/-- What is left is only ever a chain that some rule jumps to: never a rule, never a chain with content. -/
theorem cleanup_residue_jump_targets (rs : List Rule) (k : Table × Chain) (h : k ∈ (cleanupResidue rs).chains) :
    (∃ r ∈ rs, r.jumpKey = some k) ∧ ¬ ∃ r ∈ rs, (r.table, r.chain) = k := by
  rw [(cleanup_residue_exact rs).2] at h
  simp only [List.mem_filter, Bool.not_eq_true', List.any_eq_false, beq_iff_eq] at h
  obtain ⟨hd, hno⟩ := h
  have hno' : ¬ ∃ r ∈ rs, (r.table, r.chain) = k := by
    rintro ⟨r, hr, he⟩; exact hno r hr he
  rcases ((mem_declaredChains rs k).1 hd).2 with ho | hj
  · exact absurd ho hno'
  · exact ⟨hj, hno'⟩

/-- The registered class, computed: no proxy identity, DNS capture with an IPv4 server only, IPv6 on - the IPv6
    tables keep the empty `raw/ISTIO_OUTPUT_DNS`, the IPv4 tables keep nothing; with the default identity nothing
    is left in either family. -/
theorem cleanup_jump_target_only_witness :
    let c : Config := { proxyUIDs := [], proxyGIDs := [], redirectDNS := true, dnsV4 := [167772170], enableIPv6 := true,
                        inboundInclude := .all, outIncludeAll := true }
    (cleanupResidue (rulesOf c .v6)).chains = [(.raw, .ISTIO_OUTPUT_DNS)] ∧
    (cleanupResidue (rulesOf c .v4)).chains = [] ∧
    (cleanupResidue (rulesOf { c with proxyUIDs := ["1337"], proxyGIDs := ["1337"] } .v6)).chains = [] := by
  decide

end IstioModel.C20
