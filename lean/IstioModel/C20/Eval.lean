import IstioModel.C20.Chains

/-! C20 - evaluation of the chain segments: each lemma turns a list of rules into the condition it
    tests, phrased with the vocabulary of `Spec.lean`. -/
namespace IstioModel.C20
set_option linter.unusedSimpArgs false

/-! ## Family bookkeeping -/

theorem loOf_fam (c : Config) (p : Packet) : loOf c p.fam = c.lo p := by
  cases h : p.v6 <;> simp [Packet.fam, loOf, Config.lo, h]

theorem srcOf_fam (p : Packet) : srcOf p.fam = (if p.v6 then src6 else src4) := by
  cases h : p.v6 <;> simp [Packet.fam, srcOf, h]

theorem sameFam_fun (p : Packet) : sameFam p = (fun x => x.v6 == p.v6) := rfl

theorem exclOf_fam (c : Config) (p : Packet) : exclOf c p.fam = c.outExclude.filter (sameFam p) := by
  cases h : p.v6 <;> simp [Packet.fam, exclOf, Config.exclV4, Config.exclV6, sameFam_fun, h]

theorem inclOf_fam_wild (c : Config) (p : Packet) : (inclOf c p.fam).isWildcard = c.outIncludeAll := by
  cases h : p.v6 <;> cases hw : c.outIncludeAll <;>
    simp [Packet.fam, inclOf, Config.inclV4, Config.inclV6, separate, h, hw]

theorem inclOf_fam_cidrs (c : Config) (p : Packet) (hw : c.outIncludeAll = false) :
    (inclOf c p.fam).cidrs = c.outInclude.filter (sameFam p) := by
  cases h : p.v6 <;> simp [Packet.fam, inclOf, Config.inclV4, Config.inclV6, separate, sameFam_fun, h, hw]

theorem dnsOf_fam (c : Config) (p : Packet) : dnsOf c p.fam = (if p.v6 then c.dnsV6 else c.dnsV4) := by
  cases h : p.v6 <;> simp [Packet.fam, dnsOf, h]

theorem dnsCidr_contains (f : Fam) (s a : Nat) : (dnsCidrOf f s).contains a = (a == s) := by
  cases f <;> simp [dnsCidrOf, dnsCidr4, dnsCidr6, Cidr.contains]

/-! ## Single rules and uniform segments -/

theorem eval_singleton_ret (k : Chain → Packet → Res) (r : Rule) (p : Packet) (h : r.target = .ret) :
    evalRules k [r] p = if r.fires p then .ret p else .next p := by
  simp [evalRules, h]

/-- `-o ifc -j RETURN` for every excluded interface. -/
theorem eval_exclIfs_out (k : Chain → Packet → Res) (c : Config) (p : Packet) :
    evalRules k (c.exclIfs.map (fun ifc => (⟨.nat, .OUTPUT, .append, [.outIf ifc], .ret⟩ : Rule))) p =
      if outIfExcluded c p then .ret p else .next p := by
  rw [evalRules_ret_seg' _ _ _ (by simp)]
  simp [outIfExcluded, Rule.fires, Match.eval, List.any_map, List.contains_eq_any_beq, Function.comp_def]

/-- Outbound port exclusions (TCP and UDP). -/
theorem eval_outPortsExcl (k : Chain → Packet → Res) (c : Config) (p : Packet) :
    evalRules k (c.outPortsExclude.flatMap (fun port =>
      [(⟨.nat, .ISTIO_OUTPUT, .append, [.proto .tcp, .dport false port], .ret⟩ : Rule),
       ⟨.nat, .ISTIO_OUTPUT, .append, [.proto .udp, .dport false port], .ret⟩])) p =
      if outPortExcluded c p then .ret p else .next p := by
  rw [evalRules_ret_seg' _ _ _ (by simp)]
  congr 1
  simp only [outPortExcluded, isTcpUdp, List.any_flatMap, List.any_cons, List.any_nil, Rule.fires, List.all_cons,
    List.all_nil, Match.eval, Bool.false_xor, Bool.and_true, Bool.or_false, List.contains_eq_any_beq]
  induction c.outPortsExclude with
  | nil => simp
  | cons a l ih =>
    simp only [List.any_cons, ih]
    cases p.proto == Proto.tcp <;> cases p.proto == Proto.udp <;> cases p.dport == a <;> simp

/-- One identity block. -/
theorem eval_block (k : Chain → Packet → Res) (c : Config) (p : Packet) (o : OwnerId)
    (hk : k .ISTIO_IN_REDIRECT p = if isTcp p then .fin (.redirect c.inboundCapturePort) else .next p) :
    evalRules k (blockRules c p.fam o) p =
      if o.owns p then (if selfCall c p o then .fin (.redirect c.inboundCapturePort) else .ret p)
      else if loopbackBypass c p then .ret p else .next p := by
  cases o with
  | uid s =>
    cases hd : c.dns <;> cases hl : c.noLoopbackIncluded <;>
    simp only [blockRules, loOf_fam, selfCallPort, ownerMatch, hd, hl, evalRules, Rule.fires, List.all_cons, List.all_nil,
      Match.eval, hk, OwnerId.owns, selfCall, loopbackBypass, ← dns_eq_dnsActive, ← noLoopbackIncluded_eq, onLo, loopbackDst, isTcp, List.cons_append, List.nil_append,
      if_true, if_false, Bool.false_eq_true, List.contains_cons, List.contains_nil] <;>
    by_cases h4 : (p.uid == s) = true <;> by_cases h3 : (p.proto == Proto.tcp) = true <;>
    by_cases h1 : (p.outIf == "lo") = true <;> simp [h1, h3, h4]
  | gid s =>
    cases hd : c.dns <;> cases hl : c.noLoopbackIncluded <;>
    simp only [blockRules, loOf_fam, selfCallPort, ownerMatch, hd, hl, evalRules, Rule.fires, List.all_cons, List.all_nil,
      Match.eval, hk, OwnerId.owns, selfCall, loopbackBypass, ← dns_eq_dnsActive, ← noLoopbackIncluded_eq, onLo, loopbackDst, isTcp, List.cons_append, List.nil_append,
      if_true, if_false, Bool.false_eq_true, List.contains_cons, List.contains_nil] <;>
    by_cases h4 : (p.gid == s) = true <;> by_cases h3 : (p.proto == Proto.tcp) = true <;>
    by_cases h1 : (p.outIf == "lo") = true <;> simp [h1, h3, h4]


/-- All identity blocks = `identityWalk`. -/
theorem eval_blocks (k : Chain → Packet → Res) (c : Config) (p : Packet) (l : List OwnerId)
    (hk : k .ISTIO_IN_REDIRECT p = if isTcp p then .fin (.redirect c.inboundCapturePort) else .next p) :
    evalRules k (l.flatMap (blockRules c p.fam)) p =
      match identityWalk c p l with
      | some true => .fin (.redirect c.inboundCapturePort)
      | some false => .ret p
      | none => .next p := by
  induction l with
  | nil => simp [identityWalk, evalRules]
  | cons o rest ih =>
    simp only [List.flatMap_cons, evalRules_append, eval_block k c p o hk, identityWalk]
    by_cases h1 : o.owns p = true
    · by_cases h2 : selfCall c p o = true <;> simp [h1, h2]
    · by_cases h2 : loopbackBypass c p = true <;> simp [h1, h2, ih]

/-- `-o lo -s 127.0.0.6/32 -j RETURN`. -/
theorem eval_passthrough (k : Chain → Packet → Res) (p : Packet) :
    evalRules k [(⟨.nat, .ISTIO_OUTPUT, .append, [.outIf "lo", .src (srcOf p.fam)], .ret⟩ : Rule)] p =
      if fromPassthrough p then .ret p else .next p := by
  simp [evalRules, Rule.fires, Match.eval, fromPassthrough, onLo, srcOf_fam]

theorem all_gidOwner_neg (p : Packet) (l : List String) :
    (l.map (fun g => Match.gidOwner true g)).all (Match.eval p) = !l.contains p.gid := by
  induction l with
  | nil => rfl
  | cons g l ih =>
    simp only [List.map_cons, List.all_cons, Match.eval, ih, List.contains_cons, Bool.true_xor, Bool.not_or]

theorem any_gidOwner_ret (p : Packet) (l : List String) :
    (l.map (fun g => (⟨.nat, .ISTIO_OUTPUT, .append, [.gidOwner false g], .ret⟩ : Rule))).any (fun r => r.fires p) =
      l.contains p.gid := by
  induction l with
  | nil => rfl
  | cons g l ih =>
    simp only [List.map_cons, List.any_cons, ih, List.contains_cons]
    simp only [Rule.fires, List.all_cons, List.all_nil, Match.eval, Bool.false_xor, Bool.and_true]

/-- The owner-group capture filter. -/
theorem eval_ownerGroups (k : Chain → Packet → Res) (c : Config) (p : Packet) :
    evalRules k (ownerGroupRules c) p = if ownerGroupCaptured c p then .next p else .ret p := by
  unfold ownerGroupRules ownerGroupCaptured
  cases hog : c.ownerGroupsAll
  · simp only [Bool.false_eq_true, if_false, evalRules, Rule.fires, all_gidOwner_neg]
    cases c.ownerGroupsInclude.contains p.gid <;> simp
  · simp only [if_true]
    rw [evalRules_ret_seg' _ _ _ (by simp)]
    simp only [any_gidOwner_ret]
    cases c.ownerGroupsExclude.contains p.gid <;> simp

/-- `-d 127.0.0.1/32 -j RETURN`. -/
theorem eval_loReturn (k : Chain → Packet → Res) (c : Config) (p : Packet) :
    evalRules k [(⟨.nat, .ISTIO_OUTPUT, .append, [.dst false (loOf c p.fam)], .ret⟩ : Rule)] p =
      if loopbackDst c p then .ret p else .next p := by
  simp only [evalRules, Rule.fires, List.all_cons, List.all_nil, Match.eval, Bool.false_xor, Bool.and_true,
    loopbackDst, loOf_fam]
  by_cases h : (c.lo p).contains p.dst = true <;> simp [h]

/-- Outbound CIDR exclusions. -/
theorem eval_exclCidrs (k : Chain → Packet → Res) (c : Config) (p : Packet) :
    evalRules k ((exclOf c p.fam).map (fun x => (⟨.nat, .ISTIO_OUTPUT, .append, [.dst false x], .ret⟩ : Rule))) p =
      if dstExcluded c p then .ret p else .next p := by
  rw [evalRules_ret_seg' _ _ _ (by simp)]
  simp [dstExcluded, exclOf_fam, List.any_map, Function.comp_def, Rule.fires, Match.eval]

/-- Outbound port inclusions (jump to ISTIO_REDIRECT). -/
theorem eval_outPortsIncl (k : Chain → Packet → Res) (c : Config) (p : Packet)
    (hk : k .ISTIO_REDIRECT p = if isTcp p then .fin (.redirect c.proxyPort) else .next p) :
    evalRules k (c.outPortsInclude.map (fun port =>
      (⟨.nat, .ISTIO_OUTPUT, .append, [.proto .tcp, .dport false port], .jump .ISTIO_REDIRECT⟩ : Rule))) p =
      if outPortIncluded c p then .fin (.redirect c.proxyPort) else .next p := by
  by_cases ht : isTcp p = true
  · rw [evalRules_jump_seg_fin' _ _ _ .ISTIO_REDIRECT (.redirect c.proxyPort) (by simp) (by simp [hk, ht])]
    have ht' : (p.proto == Proto.tcp) = true := ht
    simp [outPortIncluded, ht, ht', List.any_map, Function.comp_def, Rule.fires, Match.eval, List.contains_eq_any_beq]
  · rw [evalRules_jump_seg_back' _ _ _ .ISTIO_REDIRECT (by simp) (by simp [hk, ht])]
    simp [outPortIncluded, ht]

/-- Outbound CIDR inclusions (jump to ISTIO_REDIRECT). -/
theorem eval_inclRules (k : Chain → Packet → Res) (c : Config) (p : Packet)
    (hk : k .ISTIO_REDIRECT p = if isTcp p then .fin (.redirect c.proxyPort) else .next p) :
    evalRules k (inclRules c p.fam) p =
      if isTcp p && dstIncluded c p then .fin (.redirect c.proxyPort) else .next p := by
  unfold inclRules dstIncluded
  rw [inclOf_fam_wild]
  cases hw : c.outIncludeAll
  · simp only [Bool.false_eq_true, if_false, Bool.false_or, inclOf_fam_cidrs c p hw]
    by_cases ht : isTcp p = true
    · rw [evalRules_jump_seg_fin' _ _ _ .ISTIO_REDIRECT (.redirect c.proxyPort) (by simp) (by simp [hk, ht])]
      simp [ht, List.any_map, Function.comp_def, Rule.fires, Match.eval]
    · rw [evalRules_jump_seg_back' _ _ _ .ISTIO_REDIRECT (by simp) (by simp [hk, ht])]
      simp [ht]
  · by_cases ht : isTcp p = true <;> simp [evalRules, Rule.fires, hk, ht]

end IstioModel.C20
