/-
C20 - executable model of the istio-iptables rule compiler.

Go sources modelled (istio/istio):
  tools/istio-iptables/pkg/capture/run.go
      IptablesConfigurator.Run, shortCircuitExcludeInterfaces, shortCircuitKubeInternalInterface,
      handleInboundPortsInclude, handleOutboundPortsInclude, handleOutboundIncludeRules,
      handleCaptureByOwnerGroup, SetupDNSRedir, addDNSConntrackZones
  tools/istio-iptables/pkg/builder/iptables_builder_impl.go
      AppendRule / AppendRuleV4 / AppendRuleV6 / InsertRule* / AppendVersionedRule (the two
      per-family rule lists), buildRestore + constructIptablesRestoreContents (restore text)
  tools/common/config  Config (already split / parsed, see Parse.lean), SeparateV4V6, ParseInterceptFilter
  tools/istio-iptables/pkg/constants  chain names, OutboundMark, IstioAgentDNSListenerPort

Source language : `Config` (structured form of config.Config; `Parse.lean` maps the raw strings).
Target language : `Rule` = (table, chain, -A | -I pos, ordered match list, target); `Rule.render`
prints exactly the parameter text the Go builder emits, `restoreLines` the iptables-restore input.
The meaning of the target language is in `Netfilter.lean`.
-/
namespace IstioModel.C20

/-! ## Target language: rule AST -/

inductive Table
  | filter | mangle | nat | raw
  deriving DecidableEq, Repr, Inhabited

def Table.name : Table → String
  | .filter => "filter" | .mangle => "mangle" | .nat => "nat" | .raw => "raw"

/-- `constructIptablesRestoreContents` walks the tables in sorted name order. -/
def Table.sorted : List Table := [.filter, .mangle, .nat, .raw]

/-- Every chain the compiler ever names (constants.go + the two built-in hooks it uses). -/
inductive Chain
  | PREROUTING | OUTPUT
  | ISTIO_OUTPUT | ISTIO_OUTPUT_DNS | ISTIO_INBOUND | ISTIO_DIVERT | ISTIO_TPROXY
  | ISTIO_REDIRECT | ISTIO_IN_REDIRECT | ISTIO_DROP
  deriving DecidableEq, Repr, Inhabited

def Chain.name : Chain → String
  | .PREROUTING => "PREROUTING" | .OUTPUT => "OUTPUT"
  | .ISTIO_OUTPUT => "ISTIO_OUTPUT" | .ISTIO_OUTPUT_DNS => "ISTIO_OUTPUT_DNS"
  | .ISTIO_INBOUND => "ISTIO_INBOUND" | .ISTIO_DIVERT => "ISTIO_DIVERT"
  | .ISTIO_TPROXY => "ISTIO_TPROXY" | .ISTIO_REDIRECT => "ISTIO_REDIRECT"
  | .ISTIO_IN_REDIRECT => "ISTIO_IN_REDIRECT" | .ISTIO_DROP => "ISTIO_DROP"

/-- `constants.BuiltInChainsAndTargetsMap` restricted to chains. -/
def Chain.builtin : Chain → Bool
  | .PREROUTING | .OUTPUT => true
  | _ => false

inductive Proto
  | tcp | udp | other
  deriving DecidableEq, Repr, Inhabited

def Proto.name : Proto → String
  | .tcp => "tcp" | .udp => "udp" | .other => "other"

/-- An address prefix. `addr` is the address as a number (32 or 128 bits), printed un-masked as
    `netip.Prefix.String` does. -/
structure Cidr where
  v6   : Bool
  addr : Nat
  len  : Nat
  deriving DecidableEq, Repr, Inhabited

inductive CtState
  | new | established | related | invalid
  deriving DecidableEq, Repr, Inhabited

def CtState.name : CtState → String
  | .new => "NEW" | .established => "ESTABLISHED" | .related => "RELATED" | .invalid => "INVALID"

/-- One match of a rule, in the shapes the compiler emits (`neg` = preceded by `!`). -/
inductive Match
  | proto (p : Proto)                          -- -p tcp
  | dport (neg : Bool) (port : Nat)            -- [!] --dport N
  | sport (port : Nat)                         -- --sport N
  | multiport (neg : Bool) (ports : List Nat)  -- -m multiport [!] --dports a,b
  | dst (neg : Bool) (c : Cidr)                -- [!] -d cidr
  | src (c : Cidr)                             -- -s cidr
  | inIf (name : String)                       -- -i name
  | outIf (name : String)                      -- -o name
  | uidOwner (neg : Bool) (uid : String)       -- -m owner [!] --uid-owner U
  | gidOwner (neg : Bool) (gid : String)       -- -m owner [!] --gid-owner G
  | ctstate (states : List CtState)            -- -m conntrack --ctstate A,B
  | mark (neg : Bool) (m : Nat)                -- -m mark [!] --mark M
  | connmark (m : Nat)                         -- -m connmark --mark M
  deriving DecidableEq, Repr, Inhabited

inductive Target
  | ret | accept | drop
  | jump (c : Chain)
  | redirect (port : Nat) (short : Bool)       -- -j REDIRECT --to-ports N   (short: --to-port N)
  | tproxy (mark : Nat) (port : Nat)           -- -j TPROXY --tproxy-mark M/0xffffffff --on-port N
  | setMark (m : Nat)                          -- -j MARK --set-mark M
  | connmarkSave | connmarkRestore             -- -j CONNMARK --save-mark / --restore-mark
  | ctZone (z : Nat)                           -- -j CT --zone Z
  deriving DecidableEq, Repr, Inhabited

inductive Op
  | append
  | insert (pos : Nat)
  deriving DecidableEq, Repr, Inhabited

structure Rule where
  table   : Table
  chain   : Chain
  op      : Op := .append
  conds   : List Match
  target  : Target
  deriving DecidableEq, Repr, Inhabited

/-! ## Rendering (exactly the builder's parameter text) -/

def v4Text (a : Nat) : String :=
  s!"{a / 16777216 % 256}.{a / 65536 % 256}.{a / 256 % 256}.{a % 256}"

def hexText (n : Nat) : String := String.ofList (Nat.toDigits 16 n)

/-- The eight 16-bit groups of an IPv6 address, most significant first. -/
def v6Groups (a : Nat) : List Nat :=
  (List.range 8).map fun i => a / 2 ^ (16 * (7 - i)) % 65536

/-- Length of the run of zeros starting at the head. -/
def zeroRun : List Nat → Nat
  | 0 :: t => zeroRun t + 1
  | _ => 0

/-- (start, length) of the first longest run of zero groups, scanning from index `i`. -/
def bestZeroRun : List Nat → Nat → Nat × Nat → Nat × Nat
  | [], _, best => best
  | g :: t, i, best =>
    let n := zeroRun (g :: t)
    bestZeroRun t (i + 1) (if n > best.2 then (i, n) else best)

/-- `netip.Addr.String` for IPv6 (RFC 5952: lower-case hex, first longest run of >= 2 zero groups
    becomes `::`; IPv4-mapped addresses print as `::ffff:a.b.c.d`). -/
def v6Text (a : Nat) : String :=
  if a / 2 ^ 32 == 0xffff then "::ffff:" ++ v4Text (a % 2 ^ 32) else
  let gs := v6Groups a
  let best := bestZeroRun gs 0 (0, 0)
  let hex := fun (l : List Nat) => ":".intercalate (l.map hexText)
  if best.2 < 2 then hex gs
  else hex (gs.take best.1) ++ "::" ++ hex (gs.drop (best.1 + best.2))

def Cidr.text (c : Cidr) : String :=
  (if c.v6 then v6Text c.addr else v4Text c.addr) ++ "/" ++ toString c.len

def neg (b : Bool) (l : List String) : List String := if b then "!" :: l else l

def portsText (l : List Nat) : String := ",".intercalate (l.map toString)

def Match.params : Match → List String
  | .proto p => ["-p", p.name]
  | .dport n port => neg n ["--dport", toString port]
  | .sport port => ["--sport", toString port]
  | .multiport n ports => ["-m", "multiport"] ++ neg n ["--dports", portsText ports]
  | .dst n c => neg n ["-d", c.text]
  | .src c => ["-s", c.text]
  | .inIf s => ["-i", s]
  | .outIf s => ["-o", s]
  | .uidOwner n u => ["-m", "owner"] ++ neg n ["--uid-owner", u]
  | .gidOwner n g => ["-m", "owner"] ++ neg n ["--gid-owner", g]
  | .ctstate ss => ["-m", "conntrack", "--ctstate", ",".intercalate (ss.map CtState.name)]
  | .mark n m => ["-m", "mark"] ++ neg n ["--mark", toString m]
  | .connmark m => ["-m", "connmark", "--mark", toString m]

def Target.params : Target → List String
  | .ret => ["-j", "RETURN"]
  | .accept => ["-j", "ACCEPT"]
  | .drop => ["-j", "DROP"]
  | .jump c => ["-j", c.name]
  | .redirect p short => ["-j", "REDIRECT", if short then "--to-port" else "--to-ports", toString p]
  | .tproxy m p => ["-j", "TPROXY", "--tproxy-mark", toString m ++ "/0xffffffff", "--on-port", toString p]
  | .setMark m => ["-j", "MARK", "--set-mark", toString m]
  | .connmarkSave => ["-j", "CONNMARK", "--save-mark"]
  | .connmarkRestore => ["-j", "CONNMARK", "--restore-mark"]
  | .ctZone z => ["-j", "CT", "--zone", toString z]

/-- `Rule.params` of the Go builder joined with spaces (`-A chain ...` / `-I chain pos ...`). -/
def Rule.render (r : Rule) : String :=
  let head := match r.op with
    | .append => ["-A", r.chain.name]
    | .insert pos => ["-I", r.chain.name, toString pos]
  " ".intercalate (head ++ r.conds.flatMap Match.params ++ r.target.params)

/-! ## Source language: the capture configuration -/

/-- `INBOUND_PORTS_INCLUDE`: empty string / `*` / anything else (split on commas). -/
inductive PortSel
  | none | all | ports (l : List Nat)
  deriving DecidableEq, Repr, Inhabited

/-- config.Config after `config.Split` and address parsing (see `Parse.lean`). Identities
    (uid, gid, group names) and interface names are opaque tokens compared by equality. -/
structure Config where
  proxyPort          : Nat := 15001
  inboundCapturePort : Nat := 15006
  inboundTunnelPort  : Nat := 15008
  proxyUIDs          : List String := []
  proxyGIDs          : List String := []
  tproxy             : Bool := false        -- InboundInterceptionMode == "TPROXY"
  tproxyMark         : Nat := 1337
  inboundInclude     : PortSel := .none
  inboundExclude     : List Nat := []
  ownerGroupsAll     : Bool := true         -- OwnerGroupsInclude == "*"
  ownerGroupsInclude : List String := []
  ownerGroupsExclude : List String := []
  outPortsInclude    : List Nat := []
  outPortsExclude    : List Nat := []
  outIncludeAll      : Bool := false        -- OutboundIPRangesInclude == "*"
  outInclude         : List Cidr := []
  outExclude         : List Cidr := []      -- never "*": Run refuses that value
  kubeVirtIfs        : List String := []
  exclIfs            : List String := []
  redirectDNS        : Bool := false
  dropInvalid        : Bool := false
  captureAllDNS      : Bool := false
  enableIPv6         : Bool := false
  dnsV4              : List Nat := []
  dnsV6              : List Nat := []
  loCidr             : Cidr := ⟨false, 2130706433, 32⟩   -- HostIPv4LoopbackCidr, 127.0.0.1/32
  deriving Repr, Inhabited

/-! ## config.SeparateV4V6 -/

/-- `netip.Addr.IsLoopback`. -/
def Cidr.isLoopback (c : Cidr) : Bool :=
  if c.v6 then
    (if c.addr / 2 ^ 32 == 0xffff then c.addr / 2 ^ 24 % 256 == 127 else c.addr == 1)
  else c.addr / 2 ^ 24 == 127     -- first octet (addresses are below 2^32)

structure NetRange where
  isWildcard  : Bool
  cidrs       : List Cidr
  hasLoopback : Bool
  deriving Repr

def separate (wild : Bool) (l : List Cidr) (v6 : Bool) : NetRange :=
  if wild then ⟨true, [], false⟩
  else ⟨false, l.filter (·.v6 == v6), (l.filter (·.v6 == v6)).any Cidr.isLoopback⟩

def Config.inclV4 (c : Config) : NetRange := separate c.outIncludeAll c.outInclude false
def Config.inclV6 (c : Config) : NetRange := separate c.outIncludeAll c.outInclude true
def Config.exclV4 (c : Config) : List Cidr := c.outExclude.filter (·.v6 == false)
def Config.exclV6 (c : Config) : List Cidr := c.outExclude.filter (·.v6 == true)

/-- `!ipv4RangesInclude.HasLoopBackIP && !ipv6RangesInclude.HasLoopBackIP`. -/
def Config.noLoopbackIncluded (c : Config) : Bool := !c.inclV4.hasLoopback && !c.inclV6.hasLoopback

/-- The effective `redirectDNS` of Run (three flags). -/
def Config.dns (c : Config) : Bool :=
  c.redirectDNS && !(!c.captureAllDNS && c.dnsV4.isEmpty && c.dnsV6.isEmpty)

/-! ## The builder's two rule lists -/

inductive Fam
  | v4 | v6
  deriving DecidableEq, Repr, Inhabited

/-- One builder call: `fam = none` is AppendRule/InsertRule (both lists), `some f` the V4/V6 forms. -/
structure Emit where
  fam  : Option Fam
  rule : Rule
  deriving Repr

def both (r : Rule) : Emit := ⟨none, r⟩
def only (f : Fam) (r : Rule) : Emit := ⟨some f, r⟩

def lo6 : Cidr := ⟨true, 1, 128⟩                    -- ::1/128
def src4 : Cidr := ⟨false, 2130706438, 32⟩          -- 127.0.0.6/32
def src6 : Cidr := ⟨true, 6, 128⟩                   -- ::6/128

/-- `AppendVersionedRule(ipv4, ipv6, ...)`: the rule with the placeholder replaced per family. -/
def versioned (v4 v6 : Cidr) (f : Cidr → Rule) : List Emit := [only .v4 (f v4), only .v6 (f v6)]

def outboundMark : Nat := 1338
def dnsAgentPort : Nat := 15053

/-! ## The compiler, in the order of `Run` -/

def shortCircuitExcludeInterfaces (c : Config) : List Emit :=
  c.exclIfs.flatMap (fun ifc =>
    [both ⟨.nat, .PREROUTING, .append, [.inIf ifc], .ret⟩,
     both ⟨.nat, .OUTPUT, .append, [.outIf ifc], .ret⟩]) ++
  (if c.tproxy then
    c.exclIfs.flatMap (fun ifc =>
      [both ⟨.mangle, .PREROUTING, .append, [.inIf ifc], .ret⟩,
       both ⟨.mangle, .OUTPUT, .append, [.outIf ifc], .ret⟩])
   else [])

def shortCircuitKubeInternalInterface (c : Config) : List Emit :=
  c.kubeVirtIfs.map fun ifc => both ⟨.nat, .PREROUTING, .insert 1, [.inIf ifc], .ret⟩

def dropInvalidRules (c : Config) : List Emit :=
  if c.dropInvalid then
    [both ⟨.mangle, .PREROUTING, .append, [.ctstate [.invalid]], .jump .ISTIO_DROP⟩,
     both ⟨.mangle, .ISTIO_DROP, .append, [], .drop⟩]
  else []

def baseChains (c : Config) : List Emit :=
  [both ⟨.nat, .ISTIO_INBOUND, .append, [.proto .tcp, .dport false c.inboundTunnelPort], .ret⟩,
   both ⟨.nat, .ISTIO_REDIRECT, .append, [.proto .tcp], .redirect c.proxyPort false⟩,
   both ⟨.nat, .ISTIO_IN_REDIRECT, .append, [.proto .tcp], .redirect c.inboundCapturePort false⟩]

/-- The table that receives the inbound rules. -/
def Config.inTable (c : Config) : Table := if c.tproxy then .mangle else .nat

def inboundAll (c : Config) : List Emit :=
  c.inboundExclude.map (fun port =>
    both ⟨c.inTable, .ISTIO_INBOUND, .append, [.proto .tcp, .dport false port], .ret⟩) ++
  (if c.tproxy then
    [both ⟨.mangle, .ISTIO_INBOUND, .append, [.proto .tcp, .ctstate [.related, .established]], .jump .ISTIO_DIVERT⟩,
     both ⟨.mangle, .ISTIO_INBOUND, .append, [.proto .tcp], .jump .ISTIO_TPROXY⟩]
   else
    [both ⟨.nat, .ISTIO_INBOUND, .append, [.proto .tcp], .jump .ISTIO_IN_REDIRECT⟩])

def inboundPorts (c : Config) (ports : List Nat) : List Emit :=
  ports.flatMap fun port =>
    if c.tproxy then
      [both ⟨.mangle, .ISTIO_INBOUND, .append,
             [.proto .tcp, .dport false port, .ctstate [.related, .established]], .jump .ISTIO_DIVERT⟩,
       both ⟨.mangle, .ISTIO_INBOUND, .append, [.proto .tcp, .dport false port], .jump .ISTIO_TPROXY⟩]
    else
      [both ⟨.nat, .ISTIO_INBOUND, .append, [.proto .tcp, .dport false port], .jump .ISTIO_IN_REDIRECT⟩]

def handleInboundPortsInclude (c : Config) : List Emit :=
  match c.inboundInclude with
  | .none => []
  | sel =>
    (if c.tproxy then
      [both ⟨.mangle, .ISTIO_DIVERT, .append, [], .setMark c.tproxyMark⟩,
       both ⟨.mangle, .ISTIO_DIVERT, .append, [], .accept⟩] ++
      versioned c.loCidr lo6 (fun x =>
        ⟨.mangle, .ISTIO_TPROXY, .append, [.dst true x, .proto .tcp], .tproxy c.tproxyMark c.inboundCapturePort⟩)
     else []) ++
    [both ⟨c.inTable, .PREROUTING, .append, [.proto .tcp], .jump .ISTIO_INBOUND⟩] ++
    (match sel with
     | .ports l => inboundPorts c l
     | _ => inboundAll c)

def outputJump : List Emit := [both ⟨.nat, .OUTPUT, .append, [], .jump .ISTIO_OUTPUT⟩]

def outboundPortsExclude (c : Config) : List Emit :=
  c.outPortsExclude.flatMap fun port =>
    [both ⟨.nat, .ISTIO_OUTPUT, .append, [.proto .tcp, .dport false port], .ret⟩,
     both ⟨.nat, .ISTIO_OUTPUT, .append, [.proto .udp, .dport false port], .ret⟩]

def passthroughSource : List Emit :=
  versioned src4 src6 (fun x => ⟨.nat, .ISTIO_OUTPUT, .append, [.outIf "lo", .src x], .ret⟩)

/-- The three rules emitted for one proxy UID. -/
def uidBlock (c : Config) (uid : String) : List Emit :=
  (if c.dns then
    versioned c.loCidr lo6 (fun x => ⟨.nat, .ISTIO_OUTPUT, .append,
      [.outIf "lo", .dst true x, .proto .tcp, .multiport true [53, c.inboundTunnelPort], .uidOwner false uid],
      .jump .ISTIO_IN_REDIRECT⟩)
   else
    versioned c.loCidr lo6 (fun x => ⟨.nat, .ISTIO_OUTPUT, .append,
      [.outIf "lo", .dst true x, .proto .tcp, .dport true c.inboundTunnelPort, .uidOwner false uid],
      .jump .ISTIO_IN_REDIRECT⟩)) ++
  (if c.noLoopbackIncluded then
    (if c.dns then
      [both ⟨.nat, .ISTIO_OUTPUT, .append,
             [.outIf "lo", .proto .tcp, .dport true 53, .uidOwner true uid], .ret⟩]
     else
      [both ⟨.nat, .ISTIO_OUTPUT, .append, [.outIf "lo", .uidOwner true uid], .ret⟩])
   else []) ++
  [both ⟨.nat, .ISTIO_OUTPUT, .append, [.uidOwner false uid], .ret⟩]

/-- The three rules emitted for one proxy GID (the first one has no DNS variant). -/
def gidBlock (c : Config) (gid : String) : List Emit :=
  versioned c.loCidr lo6 (fun x => ⟨.nat, .ISTIO_OUTPUT, .append,
    [.outIf "lo", .dst true x, .proto .tcp, .dport true c.inboundTunnelPort, .gidOwner false gid],
    .jump .ISTIO_IN_REDIRECT⟩) ++
  (if c.noLoopbackIncluded then
    (if c.dns then
      [both ⟨.nat, .ISTIO_OUTPUT, .append,
             [.outIf "lo", .proto .tcp, .dport true 53, .gidOwner true gid], .ret⟩]
     else
      [both ⟨.nat, .ISTIO_OUTPUT, .append, [.outIf "lo", .gidOwner true gid], .ret⟩])
   else []) ++
  [both ⟨.nat, .ISTIO_OUTPUT, .append, [.gidOwner false gid], .ret⟩]

/-- `handleCaptureByOwnerGroup (ParseInterceptFilter include exclude)`. -/
def handleCaptureByOwnerGroup (c : Config) : List Emit :=
  if c.ownerGroupsAll then
    c.ownerGroupsExclude.map fun g => both ⟨.nat, .ISTIO_OUTPUT, .append, [.gidOwner false g], .ret⟩
  else
    [both ⟨.nat, .ISTIO_OUTPUT, .append, c.ownerGroupsInclude.map (fun g => .gidOwner true g), .ret⟩]

def dnsCidr4 (a : Nat) : Cidr := ⟨false, a, 32⟩
def dnsCidr6 (a : Nat) : Cidr := ⟨true, a, 128⟩

def addDNSConntrackZones (c : Config) : List Emit :=
  c.proxyUIDs.flatMap (fun uid =>
    [both ⟨.raw, .ISTIO_OUTPUT_DNS, .append, [.proto .udp, .dport false 53, .uidOwner false uid], .ctZone 1⟩,
     both ⟨.raw, .ISTIO_OUTPUT_DNS, .append, [.proto .udp, .sport 15053, .uidOwner false uid], .ctZone 2⟩]) ++
  c.proxyGIDs.flatMap (fun gid =>
    [both ⟨.raw, .ISTIO_OUTPUT_DNS, .append, [.proto .udp, .dport false 53, .gidOwner false gid], .ctZone 1⟩,
     both ⟨.raw, .ISTIO_OUTPUT_DNS, .append, [.proto .udp, .sport 15053, .gidOwner false gid], .ctZone 2⟩]) ++
  (if c.captureAllDNS then
    [both ⟨.raw, .PREROUTING, .append, [], .jump .ISTIO_INBOUND⟩,
     both ⟨.raw, .ISTIO_OUTPUT_DNS, .append, [.proto .udp, .dport false 53], .ctZone 2⟩,
     both ⟨.raw, .ISTIO_INBOUND, .append, [.proto .udp, .sport 53], .ctZone 1⟩]
   else
    (if c.dnsV4.isEmpty then [] else [only .v4 ⟨.raw, .PREROUTING, .append, [], .jump .ISTIO_INBOUND⟩]) ++
    c.dnsV4.flatMap (fun s =>
      [only .v4 ⟨.raw, .ISTIO_OUTPUT_DNS, .append, [.proto .udp, .dport false 53, .dst false (dnsCidr4 s)], .ctZone 2⟩,
       only .v4 ⟨.raw, .ISTIO_INBOUND, .append, [.proto .udp, .sport 53, .src (dnsCidr4 s)], .ctZone 1⟩]) ++
    (if c.dnsV6.isEmpty then [] else [only .v6 ⟨.raw, .PREROUTING, .append, [], .jump .ISTIO_INBOUND⟩]) ++
    c.dnsV6.flatMap (fun s =>
      [only .v6 ⟨.raw, .ISTIO_OUTPUT_DNS, .append, [.proto .udp, .dport false 53, .dst false (dnsCidr6 s)], .ctZone 2⟩,
       only .v6 ⟨.raw, .ISTIO_INBOUND, .append, [.proto .udp, .sport 53, .src (dnsCidr6 s)], .ctZone 1⟩]))

def setupDNSRedir (c : Config) : List Emit :=
  [both ⟨.raw, .OUTPUT, .append, [], .jump .ISTIO_OUTPUT_DNS⟩] ++
  (if c.captureAllDNS || !c.dnsV4.isEmpty then
    [only .v4 ⟨.nat, .ISTIO_OUTPUT, .append, [], .jump .ISTIO_OUTPUT_DNS⟩] else []) ++
  (if c.captureAllDNS || !c.dnsV6.isEmpty then
    [only .v6 ⟨.nat, .ISTIO_OUTPUT, .append, [], .jump .ISTIO_OUTPUT_DNS⟩] else []) ++
  (if c.captureAllDNS then
    [both ⟨.nat, .ISTIO_OUTPUT_DNS, .append, [.proto .tcp, .dport false 53], .redirect dnsAgentPort false⟩]
   else
    c.dnsV4.map (fun s => only .v4 ⟨.nat, .ISTIO_OUTPUT_DNS, .append,
      [.proto .tcp, .dport false 53, .dst false (dnsCidr4 s)], .redirect dnsAgentPort false⟩) ++
    c.dnsV6.map (fun s => only .v6 ⟨.nat, .ISTIO_OUTPUT_DNS, .append,
      [.proto .tcp, .dport false 53, .dst false (dnsCidr6 s)], .redirect dnsAgentPort false⟩)) ++
  (if c.captureAllDNS then
    [both ⟨.nat, .ISTIO_OUTPUT_DNS, .append, [.proto .udp, .dport false 53], .redirect dnsAgentPort true⟩]
   else
    c.dnsV4.map (fun s => only .v4 ⟨.nat, .ISTIO_OUTPUT_DNS, .append,
      [.proto .udp, .dport false 53, .dst false (dnsCidr4 s)], .redirect dnsAgentPort true⟩) ++
    c.dnsV6.map (fun s => only .v6 ⟨.nat, .ISTIO_OUTPUT_DNS, .append,
      [.proto .udp, .dport false 53, .dst false (dnsCidr6 s)], .redirect dnsAgentPort true⟩)) ++
  addDNSConntrackZones c

def loopbackReturn (c : Config) : List Emit :=
  versioned c.loCidr lo6 (fun x => ⟨.nat, .ISTIO_OUTPUT, .append, [.dst false x], .ret⟩)

def outboundExcludeCidrs (c : Config) : List Emit :=
  c.exclV4.map (fun x => only .v4 ⟨.nat, .ISTIO_OUTPUT, .append, [.dst false x], .ret⟩) ++
  c.exclV6.map (fun x => only .v6 ⟨.nat, .ISTIO_OUTPUT, .append, [.dst false x], .ret⟩)

def handleOutboundPortsInclude (c : Config) : List Emit :=
  c.outPortsInclude.map fun port =>
    both ⟨.nat, .ISTIO_OUTPUT, .append, [.proto .tcp, .dport false port], .jump .ISTIO_REDIRECT⟩

def handleOutboundIncludeRules (c : Config) (r : NetRange) (f : Fam) : List Emit :=
  if r.isWildcard then
    [only f ⟨.nat, .ISTIO_OUTPUT, .append, [], .jump .ISTIO_REDIRECT⟩] ++
    c.kubeVirtIfs.map (fun ifc => only f ⟨.nat, .PREROUTING, .insert 1, [.inIf ifc], .jump .ISTIO_REDIRECT⟩)
  else
    r.cidrs.flatMap fun x =>
      c.kubeVirtIfs.map (fun ifc =>
        only f ⟨.nat, .PREROUTING, .insert 1, [.inIf ifc, .dst false x], .jump .ISTIO_REDIRECT⟩) ++
      [only f ⟨.nat, .ISTIO_OUTPUT, .append, [.dst false x], .jump .ISTIO_REDIRECT⟩]

def tproxyRules (c : Config) : List Emit :=
  if c.tproxy then
    [both ⟨.mangle, .PREROUTING, .append, [.proto .tcp, .mark false c.tproxyMark], .connmarkSave⟩,
     both ⟨.mangle, .OUTPUT, .append, [.proto .tcp, .outIf "lo", .mark false c.tproxyMark], .ret⟩] ++
    c.proxyUIDs.flatMap (fun uid => versioned c.loCidr lo6 (fun x => ⟨.mangle, .OUTPUT, .append,
      [.dst true x, .proto .tcp, .outIf "lo", .uidOwner false uid], .setMark outboundMark⟩)) ++
    c.proxyGIDs.flatMap (fun gid => versioned c.loCidr lo6 (fun x => ⟨.mangle, .OUTPUT, .append,
      [.dst true x, .proto .tcp, .outIf "lo", .gidOwner false gid], .setMark outboundMark⟩)) ++
    [both ⟨.mangle, .OUTPUT, .append, [.proto .tcp, .connmark c.tproxyMark], .connmarkRestore⟩,
     both ⟨.mangle, .ISTIO_INBOUND, .insert 1, [.proto .tcp, .mark false c.tproxyMark], .ret⟩,
     only .v4 ⟨.mangle, .ISTIO_INBOUND, .insert 2, [.proto .tcp, .src src4, .inIf "lo"], .ret⟩,
     only .v6 ⟨.mangle, .ISTIO_INBOUND, .insert 2, [.proto .tcp, .src src6, .inIf "lo"], .ret⟩,
     both ⟨.mangle, .ISTIO_INBOUND, .insert 3, [.proto .tcp, .inIf "lo", .mark true outboundMark], .ret⟩]
  else []

/-- `IptablesConfigurator.Run` up to `executeCommands`: every builder call, in order. -/
def compile (c : Config) : List Emit :=
  shortCircuitExcludeInterfaces c ++
  shortCircuitKubeInternalInterface c ++
  dropInvalidRules c ++
  baseChains c ++
  handleInboundPortsInclude c ++
  outputJump ++
  outboundPortsExclude c ++
  passthroughSource ++
  c.proxyUIDs.flatMap (uidBlock c) ++
  c.proxyGIDs.flatMap (gidBlock c) ++
  handleCaptureByOwnerGroup c ++
  (if c.dns then setupDNSRedir c else []) ++
  loopbackReturn c ++
  outboundExcludeCidrs c ++
  handleOutboundPortsInclude c ++
  handleOutboundIncludeRules c c.inclV4 .v4 ++
  handleOutboundIncludeRules c c.inclV6 .v6 ++
  tproxyRules c

/-- Does a builder call reach the rule list of family `f`? (`AppendRuleV6`/`InsertRuleV6` are
    no-ops unless `EnableIPv6`.) -/
def Emit.reaches (e : Emit) (f : Fam) : Bool :=
  match e.fam with
  | none => true
  | some g => g == f

/-- `rb.rules.rulesv4` / `rb.rules.rulesv6` after Run. -/
def rulesOf (c : Config) (f : Fam) : List Rule :=
  if f == .v6 && !c.enableIPv6 then []
  else ((compile c).filter (·.reaches f)).map (·.rule)

/-! ## buildRestore -/

def addSeen (seen : List (Table × Chain)) (k : Table × Chain) : List (Table × Chain) :=
  if seen.contains k then seen else seen ++ [k]

/-- The (table, chain) a rule jumps to, if its target is `-j CHAIN`. -/
def Rule.jumpKey (r : Rule) : Option (Table × Chain) :=
  match r.target with
  | .jump c => some (r.table, c)
  | _ => none

def addSeenOpt (seen : List (Table × Chain)) : Option (Table × Chain) → List (Table × Chain)
  | some k => addSeen seen k
  | none => seen

/-- Chains to declare with `-N`: first every rule's own chain, then every `-j CHAIN` target,
    in order of first appearance; built-in chains are never declared. -/
def declaredChains (rules : List Rule) : List (Table × Chain) :=
  let p1 := rules.foldl (fun seen r => addSeen seen (r.table, r.chain)) []
  let p2 := rules.foldl (fun seen r => addSeenOpt seen r.jumpKey) p1
  p2.filter (fun k => !k.2.builtin)

def tableLines (rules : List Rule) (t : Table) : List String :=
  ((declaredChains rules).filter (·.1 == t)).map (fun k => "-N " ++ k.2.name) ++
  (rules.filter (·.table == t)).map Rule.render

/-- The iptables-restore input (`BuildV4Restore` / `BuildV6Restore`), one element per line. -/
def restoreLines (rules : List Rule) : List String :=
  Table.sorted.flatMap fun t =>
    let ls := tableLines rules t
    if ls.isEmpty then [] else ["* " ++ t.name] ++ ls ++ ["COMMIT"]

/-! ## executeCommands on a clean network namespace -/

/-- `executeIptablesRestoreCommand`: the restore input is applied with `--noflush` (rules that are
    already in the table - kube-proxy, CNI - must survive). -/
def restoreArgs : List String := ["--noflush"]

/-- The external commands `Run` issues, in order, when no Istio residue exists (VerifyIptablesState
    finds a clean state, so there is no cleanup / guardrail phase; Reconcile, CleanupOnly, ForceApply
    unset): iptables-save and ip6tables-save for the state check, the restore(s), and the deferred
    final state dump. -/
def commandLog (c : Config) : List String :=
  ["iptables-save", "ip6tables-save", "iptables-restore " ++ " ".intercalate restoreArgs] ++
  (if c.enableIPv6 then ["ip6tables-restore " ++ " ".intercalate restoreArgs] else []) ++
  ["iptables-save"] ++ (if c.enableIPv6 then ["ip6tables-save"] else [])

/-- What the DependenciesStub records for one dry run of the binary (ProgramIptables with DryRun): the
    two state-check saves, the restore input of each family (the stub records the stdin lines of a
    restore, not the command), and the deferred final saves. -/
def dryRunLog (c : Config) : List String :=
  ["iptables-save", "ip6tables-save"] ++ restoreLines (rulesOf c .v4) ++
  (if c.enableIPv6 then restoreLines (rulesOf c .v6) else []) ++
  ["iptables-save"] ++ (if c.enableIPv6 then ["ip6tables-save"] else [])

end IstioModel.C20
