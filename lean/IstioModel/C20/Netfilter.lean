import IstioModel.C20.Model

/-
C20 - meaning of the target language: how netfilter evaluates a packet against the rule list an
iptables-restore input installs.  Written from the iptables / iptables-extensions manual pages
(this file is an assumption about the kernel; it is cross-checked on every run against an
independently written Go interpreter over the REAL rule text, stream `sem`).

* iptables-restore --noflush into an empty table: `-A` appends to its chain, `-I chain n` inserts
  at position n (1-based), in input order (`chainOf`).
* A packet at a hook traverses the tables raw, mangle, nat in that order; the nat table is only
  consulted for the packet that creates a connection's NAT binding (conntrack state NEW, or RELATED: the
  first packet of an expected connection), and only once per kind of
  address manipulation: a locally generated connection receives its destination-NAT binding (a REDIRECT
  or the null binding) at nat/OUTPUT, so when its packet comes back in through `lo`, nat/PREROUTING is
  NOT consulted again (`natConsulted`; every packet arriving on `lo` was locally generated). mangle and
  raw are consulted at every hook. (Kernel fact nf_nat_initialized/NF_NAT_MANIP_DST; confirmed by the
  live probe harness/c20/probe.py where an `unshare -n` namespace is available.)
* Inside a table the built-in chain of the hook is walked top down; the first rule whose matches
  all hold fires: ACCEPT / DROP / REDIRECT / TPROXY end the traversal of the table, RETURN (or the
  end of the chain) resumes in the calling chain, in a built-in chain it means the policy ACCEPT;
  `-j CHAIN` calls a user chain; MARK / CONNMARK / CT are non-terminating (the walk continues with
  the next rule, MARK and CONNMARK --restore-mark having changed the packet mark).
* The jump stack is bounded (the kernel sizes it by the number of user chains and refuses rule
  sets with loops); `d` below is that bound and `Verdict.loop` reports exhaustion.
-/
namespace IstioModel.C20

inductive Hook
  | prerouting | output
  deriving DecidableEq, Repr, Inhabited

def Hook.chain : Hook → Chain
  | .prerouting => .PREROUTING
  | .output => .OUTPUT

structure Packet where
  hook     : Hook
  v6       : Bool
  proto    : Proto
  src      : Nat
  dst      : Nat
  sport    : Nat
  dport    : Nat
  inIf     : String      -- "" at the OUTPUT hook
  outIf    : String      -- "" at the PREROUTING hook
  uid      : String      -- owner of the sending socket (OUTPUT hook)
  gid      : String
  ctstate  : CtState
  mark     : Nat
  connmark : Nat
  deriving DecidableEq, Repr, Inhabited

/-- Prefix containment: the top `len` bits agree (iptables masks both sides). -/
def Cidr.contains (c : Cidr) (a : Nat) : Bool :=
  a / 2 ^ ((if c.v6 then 128 else 32) - c.len) == c.addr / 2 ^ ((if c.v6 then 128 else 32) - c.len)

def Match.eval (p : Packet) : Match → Bool
  | .proto q => p.proto == q
  | .dport n port => n ^^ (p.dport == port)
  | .sport port => p.sport == port
  | .multiport n ports => n ^^ ports.contains p.dport
  | .dst n c => n ^^ c.contains p.dst
  | .src c => c.contains p.src
  | .inIf s => p.inIf == s
  | .outIf s => p.outIf == s
  | .uidOwner n u => n ^^ (p.uid == u)
  | .gidOwner n g => n ^^ (p.gid == g)
  | .ctstate ss => ss.contains p.ctstate
  | .mark n m => n ^^ (p.mark == m)
  | .connmark m => p.connmark == m

def Rule.fires (r : Rule) (p : Packet) : Bool := r.conds.all (Match.eval p)

/-- What a table decides for a packet. `accept p'`: the packet goes on (with the marks of `p'`). -/
inductive Verdict
  | accept (p : Packet)
  | drop
  | redirect (port : Nat)
  | tproxy (port : Nat) (p : Packet)
  | loop
  deriving DecidableEq, Repr, Inhabited

/-- Result of walking a rule list. -/
inductive Res
  | next (p : Packet)   -- no rule decided: continue after this list
  | ret (p : Packet)    -- RETURN fired
  | fin (v : Verdict)
  deriving DecidableEq, Repr, Inhabited

/-- Walk a rule list; `callee` evaluates a user chain. -/
def evalRules (callee : Chain → Packet → Res) : List Rule → Packet → Res
  | [], p => .next p
  | r :: rest, p =>
    if r.fires p then
      match r.target with
      | .ret => .ret p
      | .accept => .fin (.accept p)
      | .drop => .fin .drop
      | .redirect port _ => .fin (.redirect port)
      | .tproxy m port => .fin (.tproxy port { p with mark := m })
      | .setMark m => evalRules callee rest { p with mark := m }
      | .connmarkSave => evalRules callee rest { p with connmark := p.mark }
      | .connmarkRestore => evalRules callee rest { p with mark := p.connmark }
      | .ctZone _ => evalRules callee rest p
      | .jump c =>
        match callee c p with
        | .next p' => evalRules callee rest p'
        | .ret p' => evalRules callee rest p'
        | .fin v => .fin v
    else evalRules callee rest p

/-- iptables-restore: one command applied to the current content of its chain. -/
def applyCmd (acc : List Rule) (r : Rule) : List Rule :=
  match r.op with
  | .append => acc ++ [r]
  | .insert pos => acc.insertIdx (pos - 1) r

/-- Content of chain `c` of table `t` after the whole input was applied to an empty table. -/
def chainOf (rules : List Rule) (t : Table) (c : Chain) : List Rule :=
  (rules.filter (fun r => r.table == t && r.chain == c)).foldl applyCmd []

/-! ### What iptables-restore accepts

`chainOf` is only the meaning of an input that iptables-restore accepts; it rejects the whole table
(and `Run` fails) when an `-I` position is beyond the end of the chain, when a rule jumps to a chain
that is neither built in nor declared with `-N`, or when an address literal is of the other family
(all three confirmed by the live probe). `wellFormed` states these demands; `rulesOf_wellFormed`
(Theorems.lean) proves them for every configuration. -/

def Table.all : List Table := [.filter, .mangle, .nat, .raw]

def Chain.all : List Chain :=
  [.PREROUTING, .OUTPUT, .ISTIO_OUTPUT, .ISTIO_OUTPUT_DNS, .ISTIO_INBOUND, .ISTIO_DIVERT, .ISTIO_TPROXY,
   .ISTIO_REDIRECT, .ISTIO_IN_REDIRECT, .ISTIO_DROP]

/-- Are all `-I` positions of one chain's command list within range (1 <= pos <= length + 1)?
    `len` = rules already in the chain. -/
def insertsInRange : Nat → List Rule → Bool
  | _, [] => true
  | len, r :: rest =>
    (match r.op with
     | .append => true
     | .insert pos => 1 ≤ pos && pos ≤ len + 1) && insertsInRange (len + 1) rest

def Match.cidrs : Match → List Cidr
  | .dst _ c => [c]
  | .src c => [c]
  | _ => []

/-- Hook labelling of the chains the compiler uses: the hooks a chain can be entered from. `hookValid`
    checks locally that the labelling is consistent with every jump (caller's hooks are among the callee's)
    and that every match / target is one the kernel accepts at all hooks of its chain: owner and `-o`
    matches only at OUTPUT, `-i` only at PREROUTING, TPROXY only in mangle at PREROUTING, REDIRECT only in nat. -/
def hooksOf : Table → Chain → List Hook
  | _, .PREROUTING => [.prerouting]
  | _, .OUTPUT => [.output]
  | _, .ISTIO_OUTPUT => [.output]
  | _, .ISTIO_OUTPUT_DNS => [.output]
  | _, .ISTIO_INBOUND => [.prerouting]
  | _, .ISTIO_DIVERT => [.prerouting]
  | _, .ISTIO_TPROXY => [.prerouting]
  | _, .ISTIO_DROP => [.prerouting]
  | _, .ISTIO_REDIRECT => [.prerouting, .output]
  | _, .ISTIO_IN_REDIRECT => [.prerouting, .output]

def Match.hookOK (hs : List Hook) : Match → Bool
  | .uidOwner _ _ | .gidOwner _ _ | .outIf _ => hs.all (· == .output)
  | .inIf _ => hs.all (· == .prerouting)
  | _ => true

def Rule.hookValid (r : Rule) : Bool :=
  r.conds.all (Match.hookOK (hooksOf r.table r.chain)) &&
  (match r.target with
   | .jump ch => (hooksOf r.table r.chain).all (hooksOf r.table ch).contains
   | .tproxy _ _ => r.table == .mangle && (hooksOf r.table r.chain).all (· == .prerouting)
   | .redirect _ _ => r.table == .nat
   | _ => true)

/-- Words of the restore line of a rule. -/
def Rule.tokens (r : Rule) : Nat :=
  (match r.op with | .append => 2 | .insert _ => 3) + (r.conds.flatMap Match.params).length + r.target.params.length

/-- iptables-restore holds at most 254 arguments per line (`MAX_ARGC` 255, "Parser cannot handle more
    arguments"), three of which it supplies itself (program name, `-t`, table): 251 words are left. -/
def maxLineTokens : Nat := 251

def wellFormed (f : Fam) (rules : List Rule) : Bool :=
  rules.all (fun r => r.tokens ≤ maxLineTokens) &&
  rules.all Rule.hookValid &&
  -- every -I position exists when the command is executed
  (Table.all.all fun t => Chain.all.all fun ch =>
    insertsInRange 0 (rules.filter (fun r => r.table == t && r.chain == ch))) &&
  -- a jump goes to a user chain, and buildRestore declares it (`-N`)
  (rules.all fun r => match r.target with
    | .jump ch => !ch.builtin && (declaredChains rules).contains (r.table, ch)
    | _ => true) &&
  -- every user chain that receives a rule is declared
  (rules.all fun r => r.chain.builtin || (declaredChains rules).contains (r.table, r.chain)) &&
  -- address literals are of the table's family
  (rules.all fun r => r.conds.all fun m => m.cidrs.all fun x => x.v6 == (f == .v6))

/-- Evaluate user chain `c` of table `t` with `d` levels of jump stack left. -/
def evalChain (rules : List Rule) (t : Table) : Nat → Chain → Packet → Res
  | 0, _, _ => .fin .loop
  | d + 1, c, p => evalRules (evalChain rules t d) (chainOf rules t c) p

/-- One table at one hook (built-in chain, policy ACCEPT). -/
def evalTable (d : Nat) (rules : List Rule) (t : Table) (h : Hook) (p : Packet) : Verdict :=
  match evalRules (evalChain rules t d) (chainOf rules t h.chain) p with
  | .next p' => .accept p'
  | .ret p' => .accept p'
  | .fin v => v

/-- What finally happens to a packet at a hook. -/
structure Fate where
  dropped  : Bool := false
  loop     : Bool := false
  tproxy   : Option Nat := none     -- TPROXY --on-port (mangle)
  redirect : Option Nat := none     -- REDIRECT --to-ports (nat)
  pkt      : Packet                 -- the packet with its final marks
  deriving DecidableEq, Repr

/-- Is the nat table consulted for this packet at this hook? -/
def natConsulted (h : Hook) (ct : CtState) (inIf : String) : Bool :=
  -- the packet that sets up the NAT binding of a connection: conntrack NEW, or RELATED - the first
  -- packet of an expected connection (nf_nat_inet_fn falls through from IP_CT_RELATED to IP_CT_NEW);
  -- a packet of state RELATED stands for that first packet here
  (ct == .new || ct == .related) && !(h == .prerouting && inIf == "lo")

def stepTable (d : Nat) (rules : List Rule) (h : Hook) (f : Fate) (t : Table) : Fate :=
  if f.dropped || f.loop then f
  else if t == .nat && !natConsulted h f.pkt.ctstate f.pkt.inIf then f
  else
    match evalTable d rules t h f.pkt with
    | .accept p' => { f with pkt := p' }
    | .drop => { f with dropped := true }
    | .loop => { f with loop := true }
    | .redirect port => { f with redirect := some port }
    | .tproxy port p' => { f with tproxy := some port, pkt := p' }

/-- raw, mangle, nat in hook order. -/
def traverse (d : Nat) (rules : List Rule) (p : Packet) : Fate :=
  [Table.raw, Table.mangle, Table.nat].foldl (stepTable d rules p.hook) { pkt := p }

/-- The rule list a packet meets: iptables for IPv4 packets, ip6tables for IPv6 packets. -/
def Packet.fam (p : Packet) : Fam := if p.v6 then .v6 else .v4

/-- Jump-stack bound used when the model is executed (the compiler names ten chains). -/
def stackDepth : Nat := 10

def fateOf (c : Config) (p : Packet) : Fate := traverse stackDepth (rulesOf c p.fam) p

/-! ## Across hooks: a locally generated packet sent on `lo` comes back in at PREROUTING -/

/-- The packet as it re-enters through `lo` after the OUTPUT hook: same packet with the marks it left
    OUTPUT with, now at PREROUTING with input interface `lo`; a REDIRECT at OUTPUT rewrote its
    destination port (and its destination address to the local address `dst'`). -/
def reenterLo (f : Fate) (dst' : Nat) : Packet :=
  { f.pkt with hook := .prerouting, inIf := "lo", outIf := "",
               dst := if f.redirect.isSome then dst' else f.pkt.dst,
               dport := f.redirect.getD f.pkt.dport }

/-- Both hooks of the loopback journey of a packet sent at OUTPUT (`none`: it never came back). -/
def loJourney (d : Nat) (rules : List Rule) (p : Packet) (dst' : Nat) : Fate × Option Fate :=
  let f1 := traverse d rules p
  (f1, if f1.dropped || f1.loop then none else some (traverse d rules (reenterLo f1 dst')))

end IstioModel.C20
