import IstioModel.C20.Raw

/-! C20 - the mangle table: drop-invalid (both modes) and the TPROXY-mode rules (inbound TPROXY /
    divert, outbound re-marking), with the three `-I ISTIO_INBOUND n` insertions. -/
namespace IstioModel.C20
set_option linter.unusedSimpArgs false

/-! ## Closed forms of the mangle chains -/

def mgPre (c : Config) : List Rule :=
  (if c.tproxy then c.exclIfs.map (fun ifc => (⟨.mangle, .PREROUTING, .append, [.inIf ifc], .ret⟩ : Rule)) else []) ++
  (if c.dropInvalid then [⟨.mangle, .PREROUTING, .append, [.ctstate [.invalid]], .jump .ISTIO_DROP⟩] else []) ++
  (if c.inboundOn && c.tproxy then [⟨.mangle, .PREROUTING, .append, [.proto .tcp], .jump .ISTIO_INBOUND⟩] else []) ++
  (if c.tproxy then [⟨.mangle, .PREROUTING, .append, [.proto .tcp, .mark false c.tproxyMark], .connmarkSave⟩] else [])

def mgDrop (c : Config) : List Rule :=
  if c.dropInvalid then [⟨.mangle, .ISTIO_DROP, .append, [], .drop⟩] else []

def mgDivert (c : Config) : List Rule :=
  if c.inboundOn && c.tproxy then
    [⟨.mangle, .ISTIO_DIVERT, .append, [], .setMark c.tproxyMark⟩, ⟨.mangle, .ISTIO_DIVERT, .append, [], .accept⟩]
  else []

def mgTproxy (c : Config) (f : Fam) : List Rule :=
  if c.inboundOn && c.tproxy then
    [⟨.mangle, .ISTIO_TPROXY, .append, [.dst true (loOf c f), .proto .tcp], .tproxy c.tproxyMark c.inboundCapturePort⟩]
  else []

def mgOut (c : Config) (f : Fam) : List Rule :=
  if c.tproxy then
    c.exclIfs.map (fun ifc => (⟨.mangle, .OUTPUT, .append, [.outIf ifc], .ret⟩ : Rule)) ++
    [⟨.mangle, .OUTPUT, .append, [.proto .tcp, .outIf "lo", .mark false c.tproxyMark], .ret⟩] ++
    c.identities.map (fun o => ⟨.mangle, .OUTPUT, .append,
      [.dst true (loOf c f), .proto .tcp, .outIf "lo", ownerMatch false o], .setMark outboundMark⟩) ++
    [⟨.mangle, .OUTPUT, .append, [.proto .tcp, .connmark c.tproxyMark], .connmarkRestore⟩]
  else []

/-- The appended body of mangle/ISTIO_INBOUND. -/
def mgInboundBody (c : Config) : List Rule :=
  if c.tproxy then
    match c.inboundInclude with
    | .none => []
    | .all =>
      c.inboundExclude.map (fun port => (⟨.mangle, .ISTIO_INBOUND, .append, [.proto .tcp, .dport false port], .ret⟩ : Rule)) ++
      [⟨.mangle, .ISTIO_INBOUND, .append, [.proto .tcp, .ctstate [.related, .established]], .jump .ISTIO_DIVERT⟩,
       ⟨.mangle, .ISTIO_INBOUND, .append, [.proto .tcp], .jump .ISTIO_TPROXY⟩]
    | .ports l =>
      l.flatMap (fun port =>
        [(⟨.mangle, .ISTIO_INBOUND, .append, [.proto .tcp, .dport false port, .ctstate [.related, .established]], .jump .ISTIO_DIVERT⟩ : Rule),
         ⟨.mangle, .ISTIO_INBOUND, .append, [.proto .tcp, .dport false port], .jump .ISTIO_TPROXY⟩])
  else []

/-- The three rules inserted at positions 1, 2, 3 of mangle/ISTIO_INBOUND. -/
def mgInboundHead (c : Config) (f : Fam) : List Rule :=
  [⟨.mangle, .ISTIO_INBOUND, .insert 1, [.proto .tcp, .mark false c.tproxyMark], .ret⟩,
   ⟨.mangle, .ISTIO_INBOUND, .insert 2, [.proto .tcp, .src (srcOf f), .inIf "lo"], .ret⟩,
   ⟨.mangle, .ISTIO_INBOUND, .insert 3, [.proto .tcp, .inIf "lo", .mark true outboundMark], .ret⟩]

theorem sel_handleInbound_mangle (c : Config) (f : Fam) :
    sel f .mangle .PREROUTING (handleInboundPortsInclude c) =
      (if c.inboundOn && c.tproxy then [(⟨.mangle, .PREROUTING, .append, [.proto .tcp], .jump .ISTIO_INBOUND⟩ : Rule)] else []) ∧
    sel f .mangle .ISTIO_DIVERT (handleInboundPortsInclude c) = mgDivert c ∧
    sel f .mangle .ISTIO_TPROXY (handleInboundPortsInclude c) = mgTproxy c f ∧
    sel f .mangle .ISTIO_INBOUND (handleInboundPortsInclude c) = mgInboundBody c ∧
    sel f .mangle .OUTPUT (handleInboundPortsInclude c) = [] ∧
    sel f .mangle .ISTIO_DROP (handleInboundPortsInclude c) = [] := by
  unfold handleInboundPortsInclude mgDivert mgTproxy mgInboundBody Config.inboundOn
  cases f <;> cases ht : c.tproxy <;> cases hi : c.inboundInclude <;>
    simp [ht, hi, sel_append, sel_cons, sel_flatMap, sel_map, sel_ite, versioned, both, only, Emit.reaches,
      inboundAll, inboundPorts, Config.inTable, flatMap_nil', flatMap_singleton', loOf]


theorem sel_none_of_table (f : Fam) (t : Table) (ch : Chain) (es : List Emit)
    (h : es.all (fun e => e.rule.table != t) = true) : sel f t ch es = [] := by
  induction es with
  | nil => rfl
  | cons e rest ih =>
    simp only [List.all_cons, Bool.and_eq_true] at h
    have h1 : (e.rule.table == t) = false := by simpa using h.1
    simp [sel_cons, h1, ih h.2]

/-- Segments of `compile` that never touch the mangle table. -/
theorem noMangle_segments (c : Config) (f : Fam) (ch : Chain) :
    sel f .mangle ch (shortCircuitKubeInternalInterface c) = [] ∧
    sel f .mangle ch (baseChains c) = [] ∧
    sel f .mangle ch outputJump = [] ∧
    sel f .mangle ch (outboundPortsExclude c) = [] ∧
    sel f .mangle ch passthroughSource = [] ∧
    sel f .mangle ch (c.proxyUIDs.flatMap (uidBlock c)) = [] ∧
    sel f .mangle ch (c.proxyGIDs.flatMap (gidBlock c)) = [] ∧
    sel f .mangle ch (handleCaptureByOwnerGroup c) = [] ∧
    sel f .mangle ch (if c.dns then setupDNSRedir c else []) = [] ∧
    sel f .mangle ch (loopbackReturn c) = [] ∧
    sel f .mangle ch (outboundExcludeCidrs c) = [] ∧
    sel f .mangle ch (handleOutboundPortsInclude c) = [] ∧
    sel f .mangle ch (handleOutboundIncludeRules c c.inclV4 .v4) = [] ∧
    sel f .mangle ch (handleOutboundIncludeRules c c.inclV6 .v6) = [] := by
  refine ⟨?_, ?_, ?_, ?_, ?_, ?_, ?_, ?_, ?_, ?_, ?_, ?_, ?_, ?_⟩ <;> apply sel_none_of_table <;>
    simp [shortCircuitKubeInternalInterface, baseChains, outputJump, outboundPortsExclude,
      passthroughSource, handleCaptureByOwnerGroup, loopbackReturn, outboundExcludeCidrs, handleOutboundPortsInclude,
      handleOutboundIncludeRules, uidBlock, gidBlock, setupDNSRedir, addDNSConntrackZones,
      List.all_append, List.all_flatMap, List.all_map, Function.comp_def, both, only, versioned,
      apply_ite (List.all · (fun (e : Emit) => e.rule.table != Table.mangle))]

theorem sel_tproxyRules_mangle (c : Config) (f : Fam) :
    sel f .mangle .PREROUTING (tproxyRules c) =
      (if c.tproxy then [(⟨.mangle, .PREROUTING, .append, [.proto .tcp, .mark false c.tproxyMark], .connmarkSave⟩ : Rule)] else []) ∧
    sel f .mangle .OUTPUT (tproxyRules c) =
      (if c.tproxy then
        [(⟨.mangle, .OUTPUT, .append, [.proto .tcp, .outIf "lo", .mark false c.tproxyMark], .ret⟩ : Rule)] ++
        c.identities.map (fun o => ⟨.mangle, .OUTPUT, .append,
          [.dst true (loOf c f), .proto .tcp, .outIf "lo", ownerMatch false o], .setMark outboundMark⟩) ++
        [⟨.mangle, .OUTPUT, .append, [.proto .tcp, .connmark c.tproxyMark], .connmarkRestore⟩]
       else []) ∧
    sel f .mangle .ISTIO_INBOUND (tproxyRules c) = (if c.tproxy then mgInboundHead c f else []) ∧
    sel f .mangle .ISTIO_DIVERT (tproxyRules c) = [] ∧
    sel f .mangle .ISTIO_TPROXY (tproxyRules c) = [] ∧
    sel f .mangle .ISTIO_DROP (tproxyRules c) = [] := by
  unfold tproxyRules mgInboundHead
  cases f <;> cases ht : c.tproxy <;>
    simp [ht, sel_append, sel_cons, sel_flatMap, sel_map, versioned, both, only, Emit.reaches, flatMap_nil',
      flatMap_singleton', Config.identities, List.map_append, List.map_map, Function.comp_def, ownerMatch, loOf, srcOf]

theorem sel_exclIfs_mangle (c : Config) (f : Fam) :
    sel f .mangle .PREROUTING (shortCircuitExcludeInterfaces c) =
      (if c.tproxy then c.exclIfs.map (fun ifc => (⟨.mangle, .PREROUTING, .append, [.inIf ifc], .ret⟩ : Rule)) else []) ∧
    sel f .mangle .OUTPUT (shortCircuitExcludeInterfaces c) =
      (if c.tproxy then c.exclIfs.map (fun ifc => (⟨.mangle, .OUTPUT, .append, [.outIf ifc], .ret⟩ : Rule)) else []) ∧
    sel f .mangle .ISTIO_INBOUND (shortCircuitExcludeInterfaces c) = [] ∧
    sel f .mangle .ISTIO_DIVERT (shortCircuitExcludeInterfaces c) = [] ∧
    sel f .mangle .ISTIO_TPROXY (shortCircuitExcludeInterfaces c) = [] ∧
    sel f .mangle .ISTIO_DROP (shortCircuitExcludeInterfaces c) = [] := by
  unfold shortCircuitExcludeInterfaces
  cases f <;> cases ht : c.tproxy <;>
    simp [ht, sel_append, sel_cons, sel_flatMap, sel_map, both, only, Emit.reaches, flatMap_nil', flatMap_singleton']

theorem sel_dropInvalid_mangle (c : Config) (f : Fam) :
    sel f .mangle .PREROUTING (dropInvalidRules c) =
      (if c.dropInvalid then [(⟨.mangle, .PREROUTING, .append, [.ctstate [.invalid]], .jump .ISTIO_DROP⟩ : Rule)] else []) ∧
    sel f .mangle .ISTIO_DROP (dropInvalidRules c) = mgDrop c ∧
    sel f .mangle .OUTPUT (dropInvalidRules c) = [] ∧
    sel f .mangle .ISTIO_INBOUND (dropInvalidRules c) = [] ∧
    sel f .mangle .ISTIO_DIVERT (dropInvalidRules c) = [] ∧
    sel f .mangle .ISTIO_TPROXY (dropInvalidRules c) = [] := by
  unfold dropInvalidRules mgDrop
  cases f <;> cases hd : c.dropInvalid <;> simp [hd, sel_cons, both, Emit.reaches]

/-- The command list of every mangle chain. -/
theorem sel_compile_mangle (c : Config) (f : Fam) :
    sel f .mangle .PREROUTING (compile c) = mgPre c ∧
    sel f .mangle .OUTPUT (compile c) = mgOut c f ∧
    sel f .mangle .ISTIO_INBOUND (compile c) = mgInboundBody c ++ (if c.tproxy then mgInboundHead c f else []) ∧
    sel f .mangle .ISTIO_DIVERT (compile c) = mgDivert c ∧
    sel f .mangle .ISTIO_TPROXY (compile c) = mgTproxy c f ∧
    sel f .mangle .ISTIO_DROP (compile c) = mgDrop c := by
  have h1 := fun ch => noMangle_segments c f ch
  have h2 := sel_tproxyRules_mangle c f
  have h3 := sel_exclIfs_mangle c f
  have h4 := sel_dropInvalid_mangle c f
  have h5 := sel_handleInbound_mangle c f
  unfold compile mgPre mgOut
  refine ⟨?_, ?_, ?_, ?_, ?_, ?_⟩ <;>
    simp only [sel_append, h1, h2, h3, h4, h5, List.append_nil, List.nil_append, List.append_assoc]
  cases c.tproxy <;> simp


/-! ## Installed mangle chains -/

theorem foldl_applyCmd_head3 (body : List Rule) (i1 i2 i3 : Rule) (hb : allAppend body = true)
    (h1 : i1.op = .insert 1) (h2 : i2.op = .insert 2) (h3 : i3.op = .insert 3) :
    (body ++ [i1, i2, i3]).foldl applyCmd [] = i1 :: i2 :: i3 :: body := by
  simp [List.foldl_append, foldl_applyCmd_append' body [] hb, applyCmd, h1, h2, h3]

theorem allAppend_mgInboundBody (c : Config) : allAppend (mgInboundBody c) = true := by
  unfold allAppend mgInboundBody
  cases c.tproxy <;> cases c.inboundInclude <;>
    simp [List.all_append, List.all_map, List.all_flatMap, Function.comp_def]

/-- mangle/ISTIO_INBOUND as installed: the three inserted rules first. -/
def mgInbound (c : Config) (f : Fam) : List Rule :=
  if c.tproxy then mgInboundHead c f ++ mgInboundBody c else []

theorem chain_mgInbound (c : Config) (f : Fam) (h : famOn c f = true) :
    chainOf (rulesOf c f) .mangle .ISTIO_INBOUND = mgInbound c f := by
  rw [chainOf_rulesOf c f _ _ h, (sel_compile_mangle c f).2.2.1]
  unfold mgInbound
  cases ht : c.tproxy
  · have : mgInboundBody c = [] := by simp [mgInboundBody, ht]
    simp [this]
  · simp only [if_true, mgInboundHead]
    rw [foldl_applyCmd_head3 _ _ _ _ (allAppend_mgInboundBody c) rfl rfl rfl]
    rfl

theorem chain_mgPre (c : Config) (f : Fam) (h : famOn c f = true) :
    chainOf (rulesOf c f) .mangle .PREROUTING = mgPre c := by
  apply chainOf_closed c f _ _ _ h (sel_compile_mangle c f).1
  unfold allAppend mgPre
  cases c.tproxy <;> cases c.dropInvalid <;> cases c.inboundOn <;>
    simp [List.all_append, List.all_map, Function.comp_def]

theorem chain_mgOut (c : Config) (f : Fam) (h : famOn c f = true) :
    chainOf (rulesOf c f) .mangle .OUTPUT = mgOut c f := by
  apply chainOf_closed c f _ _ _ h (sel_compile_mangle c f).2.1
  unfold allAppend mgOut
  cases c.tproxy <;> simp [List.all_append, List.all_map, Function.comp_def]

theorem chain_mgDivert (c : Config) (f : Fam) (h : famOn c f = true) :
    chainOf (rulesOf c f) .mangle .ISTIO_DIVERT = mgDivert c := by
  apply chainOf_closed c f _ _ _ h (sel_compile_mangle c f).2.2.2.1
  unfold allAppend mgDivert
  cases (c.inboundOn && c.tproxy) <;> simp

theorem chain_mgTproxy (c : Config) (f : Fam) (h : famOn c f = true) :
    chainOf (rulesOf c f) .mangle .ISTIO_TPROXY = mgTproxy c f := by
  apply chainOf_closed c f _ _ _ h (sel_compile_mangle c f).2.2.2.2.1
  unfold allAppend mgTproxy
  cases (c.inboundOn && c.tproxy) <;> simp

theorem chain_mgDrop (c : Config) (f : Fam) (h : famOn c f = true) :
    chainOf (rulesOf c f) .mangle .ISTIO_DROP = mgDrop c := by
  apply chainOf_closed c f _ _ _ h (sel_compile_mangle c f).2.2.2.2.2
  unfold allAppend mgDrop
  cases c.dropInvalid <;> simp

/-! ## mangle/OUTPUT -/

theorem proxyOwned_iff_identities' (c : Config) (p : Packet) :
    c.identities.any (OwnerId.owns p) = proxyOwned c p := by
  simp only [proxyOwned, Config.identities, List.any_append, List.any_map, Function.comp_def, OwnerId.owns,
    List.contains_eq_any_beq]


/-- The MARK 1338 rules: non-terminating, they only re-mark. -/
theorem eval_markRules (k : Chain → Packet → Res) (c : Config) (p : Packet) (l : List OwnerId) :
    evalRules k (l.map (fun o => (⟨.mangle, .OUTPUT, .append,
        [.dst true (c.lo p), .proto .tcp, .outIf "lo", ownerMatch false o], .setMark outboundMark⟩ : Rule))) p =
      .next (if isTcp p && onLo p && !loopbackDst c p && l.any (OwnerId.owns p) then { p with mark := outboundMark } else p) := by
  induction l generalizing p with
  | nil => simp [evalRules]
  | cons o rest ih =>
    simp only [List.map_cons, evalRules, List.any_cons]
    have hf : (⟨.mangle, .OUTPUT, .append,
        [.dst true (c.lo p), .proto .tcp, .outIf "lo", ownerMatch false o], .setMark outboundMark⟩ : Rule).fires p =
        (isTcp p && onLo p && !loopbackDst c p && o.owns p) := by
      cases o <;> simp only [Rule.fires, List.all_cons, List.all_nil, Match.eval, ownerMatch, OwnerId.owns, isTcp, onLo,
        loopbackDst, Bool.true_xor, Bool.false_xor, Bool.and_true] <;>
        cases (c.lo p).contains p.dst <;> cases p.proto == Proto.tcp <;> cases p.outIf == "lo" <;> simp
    rw [hf]
    by_cases h1 : (isTcp p && onLo p && !loopbackDst c p && o.owns p) = true
    · simp only [h1, if_true]
      have := ih { p with mark := outboundMark }
      simp only [Config.lo, isTcp, onLo, loopbackDst] at this h1 ⊢
      rw [this]
      simp only [Bool.and_eq_true] at h1
      simp [h1.1.1.1, h1.1.1.2, h1.1.2, h1.2]
    · simp only [h1, Bool.false_eq_true, if_false, ih p]
      cases h2 : (isTcp p && onLo p && !loopbackDst c p) <;> simp_all


theorem any_exclIfs_out_mangle (c : Config) (p : Packet) :
    (c.exclIfs.map (fun ifc => (⟨.mangle, .OUTPUT, .append, [.outIf ifc], .ret⟩ : Rule))).any (fun r => r.fires p) =
      outIfExcluded c p := by
  simp only [outIfExcluded, List.any_map, Function.comp_def, Rule.fires, List.all_cons, List.all_nil, Match.eval,
    Bool.and_true, List.contains_eq_any_beq]

/-- **mangle/OUTPUT re-marks as the policy says** (and never ends the traversal). -/
theorem mangle_output_correct (c : Config) (p : Packet) (d : Nat) (h : famOn c p.fam = true) :
    evalTable (d + 1) (rulesOf c p.fam) .mangle .output p = mangleOutputSpec c p := by
  unfold evalTable mangleOutputSpec
  simp only [Hook.chain, chain_mgOut c _ h, mgOut, loOf_fam]
  cases ht : c.tproxy
  · simp [evalRules]
  · simp only [if_true, Bool.not_true, Bool.false_or, evalRules_append]
    rw [evalRules_ret_seg' _ _ _ (by simp [List.all_map, Function.comp_def]), any_exclIfs_out_mangle]
    by_cases h0 : outIfExcluded c p = true
    · simp [h0]
    · simp only [h0, Bool.false_eq_true, if_false, Res.andThen_next]
      have hf : (⟨.mangle, .OUTPUT, .append, [.proto .tcp, .outIf "lo", .mark false c.tproxyMark], .ret⟩ : Rule).fires p =
          (isTcp p && onLo p && p.mark == c.tproxyMark) := by
        simp only [Rule.fires, List.all_cons, List.all_nil, Match.eval, Bool.false_xor, Bool.and_true, isTcp, onLo,
          Bool.and_assoc]
      simp only [evalRules, hf]
      by_cases h1 : (isTcp p && onLo p && p.mark == c.tproxyMark) = true
      · simp [h1]
      · simp only [h1, Bool.false_eq_true, if_false, Res.andThen_next, eval_markRules, proxyOwned_iff_identities']
        have ht' : isTcp p = (p.proto == Proto.tcp) := rfl
        by_cases hm : (isTcp p && onLo p && !loopbackDst c p && proxyOwned c p) = true
        · simp only [hm, if_true]
          by_cases hc : (p.proto == Proto.tcp && p.connmark == c.tproxyMark) = true <;>
            simp [hc, ht', evalRules, Rule.fires, Match.eval]
        · simp only [hm, Bool.false_eq_true, if_false]
          by_cases hc : (p.proto == Proto.tcp && p.connmark == c.tproxyMark) = true <;>
            simp [hc, ht', evalRules, Rule.fires, Match.eval]


/-! ## mangle/PREROUTING -/

def ctReply (p : Packet) : Bool := p.ctstate == .related || p.ctstate == .established

def marked (c : Config) (p : Packet) : Packet := { p with mark := c.tproxyMark }

/-- What the TPROXY-mode inbound rules do with a selected TCP packet. -/
def tproxyAction (c : Config) (p : Packet) (back : Res) : Res :=
  if ctReply p then .fin (.accept (marked c p))
  else if !loopbackDst c p then .fin (.tproxy c.inboundCapturePort (marked c p))
  else back

theorem eval_mgPorts (k : Chain → Packet → Res) (c : Config) (p : Packet) (l : List Nat) (ht : isTcp p = true)
    (hD : k .ISTIO_DIVERT p = .fin (.accept (marked c p)))
    (hT : k .ISTIO_TPROXY p = if !loopbackDst c p then .fin (.tproxy c.inboundCapturePort (marked c p)) else .next p) :
    evalRules k (l.flatMap (fun port =>
        [(⟨.mangle, .ISTIO_INBOUND, .append, [.proto .tcp, .dport false port, .ctstate [.related, .established]], .jump .ISTIO_DIVERT⟩ : Rule),
         ⟨.mangle, .ISTIO_INBOUND, .append, [.proto .tcp, .dport false port], .jump .ISTIO_TPROXY⟩])) p =
      if l.contains p.dport then tproxyAction c p (.next p) else .next p := by
  have ht' : (p.proto == Proto.tcp) = true := ht
  induction l with
  | nil => simp [evalRules]
  | cons a rest ih =>
    simp only [List.flatMap_cons, List.cons_append, List.nil_append, evalRules, Rule.fires, List.all_cons, List.all_nil,
      Match.eval, ht', Bool.false_xor, Bool.and_true, Bool.true_and, hD, hT, ih, List.contains_cons, tproxyAction,
      ctReply, List.contains_nil, Bool.or_false]
    by_cases h1 : (p.dport == a) = true
    · by_cases h2 : (p.ctstate == CtState.related || p.ctstate == CtState.established) = true
      · simp [h1, h2]
      · by_cases h3 : loopbackDst c p = true
        · simp only [h1, h2, h3]
          simp [ih, tproxyAction, ctReply, h2, h3]
        · simp [h1, h2, h3]
    · simp [h1, ih, tproxyAction, ctReply]


/-- The appended body of mangle/ISTIO_INBOUND for a TCP packet (TPROXY mode): selected packets get
    `tproxyAction`, the others come back unchanged (by RETURN or by the end of the chain). -/
theorem eval_mgInboundBody (k : Chain → Packet → Res) (c : Config) (p : Packet) (ht : isTcp p = true)
    (hmode : c.tproxy = true)
    (hD : k .ISTIO_DIVERT p = .fin (.accept (marked c p)))
    (hT : k .ISTIO_TPROXY p = if !loopbackDst c p then .fin (.tproxy c.inboundCapturePort (marked c p)) else .next p) :
    ∃ b, (b = .ret p ∨ b = .next p) ∧
      evalRules k (mgInboundBody c) p = if tproxyPortSelected c p then tproxyAction c p (.next p) else b := by
  have ht' : (p.proto == Proto.tcp) = true := ht
  unfold mgInboundBody tproxyPortSelected
  simp only [hmode, if_true]
  cases hi : c.inboundInclude with
  | none => exact ⟨.next p, Or.inr rfl, by simp [evalRules]⟩
  | ports l =>
    refine ⟨.next p, Or.inr rfl, ?_⟩
    simp only [eval_mgPorts k c p l ht hD hT]
  | all =>
    simp only [evalRules_append]
    rw [evalRules_ret_seg' _ _ _ (by simp [List.all_map, Function.comp_def]), any_tcp_dport p _ _ _ _ ht]
    by_cases h2 : c.inboundExclude.contains p.dport = true
    · exact ⟨.ret p, Or.inl rfl, by simp only [h2, if_true, Res.andThen_ret, Bool.not_true, Bool.false_eq_true, if_false]⟩
    · refine ⟨.next p, Or.inr rfl, ?_⟩
      simp only [h2, Bool.false_eq_true, if_false, Res.andThen_next, evalRules, Rule.fires, List.all_cons, List.all_nil,
        Match.eval, ht', Bool.and_true, Bool.true_and, hD, hT, Bool.not_false, if_true, tproxyAction, ctReply,
        List.contains_cons, List.contains_nil, Bool.or_false]
      by_cases h3 : (p.ctstate == CtState.related || p.ctstate == CtState.established) = true
      · simp [h3]
      · by_cases h4 : loopbackDst c p = true <;> simp [h3, h4]

/-- The three inserted head rules = `tproxyBypass`. -/
theorem eval_mgInboundHead (k : Chain → Packet → Res) (c : Config) (p : Packet) (ht : isTcp p = true) :
    evalRules k (mgInboundHead c p.fam) p = if tproxyBypass c p then .ret p else .next p := by
  have ht' : (p.proto == Proto.tcp) = true := ht
  rw [evalRules_ret_seg' _ _ _ (by simp [mgInboundHead])]
  congr 1
  simp only [mgInboundHead, List.any_cons, List.any_nil, Rule.fires, List.all_cons, List.all_nil, Match.eval, ht',
    Bool.true_and, Bool.and_true, Bool.false_xor, Bool.true_xor, Bool.or_false, tproxyBypass, inLo, srcOf_fam]
  cases p.mark == c.tproxyMark <;> cases p.inIf == "lo" <;> cases (if p.v6 = true then src6 else src4).contains p.src <;>
    cases hm : p.mark == outboundMark <;> simp [bne, hm]


theorem any_exclIfs_in_mangle (c : Config) (p : Packet) :
    (c.exclIfs.map (fun ifc => (⟨.mangle, .PREROUTING, .append, [.inIf ifc], .ret⟩ : Rule))).any (fun r => r.fires p) =
      inIfExcluded c p := by
  simp only [inIfExcluded, List.any_map, Function.comp_def, Rule.fires, List.all_cons, List.all_nil, Match.eval,
    Bool.and_true, List.contains_eq_any_beq]

theorem call_mgDrop (c : Config) (p : Packet) (d : Nat) (h : famOn c p.fam = true) (hd : c.dropInvalid = true) :
    evalChain (rulesOf c p.fam) .mangle (d + 1) .ISTIO_DROP p = .fin .drop := by
  simp [evalChain_succ, chain_mgDrop c _ h, mgDrop, hd, evalRules, Rule.fires]

theorem call_mgDivert (c : Config) (p : Packet) (d : Nat) (h : famOn c p.fam = true)
    (hon : (c.inboundOn && c.tproxy) = true) :
    evalChain (rulesOf c p.fam) .mangle (d + 1) .ISTIO_DIVERT p = .fin (.accept (marked c p)) := by
  simp [evalChain_succ, chain_mgDivert c _ h, mgDivert, hon, evalRules, Rule.fires, marked]

theorem call_mgTproxy (c : Config) (p : Packet) (d : Nat) (h : famOn c p.fam = true) (ht : isTcp p = true)
    (hon : (c.inboundOn && c.tproxy) = true) :
    evalChain (rulesOf c p.fam) .mangle (d + 1) .ISTIO_TPROXY p =
      if !loopbackDst c p then .fin (.tproxy c.inboundCapturePort (marked c p)) else .next p := by
  have ht' : (p.proto == Proto.tcp) = true := ht
  simp only [evalChain_succ, chain_mgTproxy c _ h, mgTproxy, hon, if_true, evalRules, Rule.fires, List.all_cons,
    List.all_nil, Match.eval, ht', Bool.and_true, Bool.true_xor, loOf_fam, loopbackDst, marked]
  by_cases hl : (c.lo p).contains p.dst = true <;> simp [hl]

/-- mangle/ISTIO_INBOUND for a TCP packet in TPROXY mode. -/
theorem call_mgInbound (c : Config) (p : Packet) (d : Nat) (h : famOn c p.fam = true) (ht : isTcp p = true)
    (hon : (c.inboundOn && c.tproxy) = true) :
    ∃ b, (b = .ret p ∨ b = .next p) ∧
      evalChain (rulesOf c p.fam) .mangle (d + 1 + 1) .ISTIO_INBOUND p =
        if !tproxyBypass c p && tproxyPortSelected c p then tproxyAction c p (.next p) else b := by
  have hmode : c.tproxy = true := by
    simp only [Bool.and_eq_true] at hon; exact hon.2
  rcases eval_mgInboundBody (evalChain (rulesOf c p.fam) .mangle (d + 1)) c p ht hmode
    (call_mgDivert c p d h hon) (call_mgTproxy c p d h ht hon) with ⟨b, hb, hbody⟩
  rw [evalChain_succ, chain_mgInbound c _ h]
  simp only [mgInbound, hmode, if_true, evalRules_append, eval_mgInboundHead _ c p ht]
  by_cases hby : tproxyBypass c p = true
  · exact ⟨.ret p, Or.inl rfl, by simp [hby]⟩
  · refine ⟨b, hb, ?_⟩
    simp [hby, hbody]

/-- **mangle/PREROUTING decides as the policy says**: drop-invalid in both modes, TPROXY capture
    (mark + divert for established connections, TPROXY for new ones) in TPROXY mode. -/
theorem mangle_prerouting_correct (c : Config) (p : Packet) (d : Nat) (h : famOn c p.fam = true) :
    evalTable (d + 2) (rulesOf c p.fam) .mangle .prerouting p = manglePreroutingSpec c p := by
  show evalTable (d + 1 + 1) (rulesOf c p.fam) .mangle .prerouting p = manglePreroutingSpec c p
  unfold evalTable manglePreroutingSpec
  simp only [Hook.chain, chain_mgPre c _ h, mgPre]
  -- the drop-invalid rule
  have eDrop : ∀ q : Packet, q = p → evalRules (evalChain (rulesOf c p.fam) .mangle (d + 1 + 1))
      (if c.dropInvalid then [(⟨.mangle, .PREROUTING, .append, [.ctstate [.invalid]], .jump .ISTIO_DROP⟩ : Rule)] else []) q =
      if c.dropInvalid && p.ctstate == .invalid then .fin .drop else .next p := by
    intro q hq; subst hq
    cases hd : c.dropInvalid
    · simp [evalRules]
    · by_cases hi : q.ctstate = CtState.invalid
      · simp [evalRules, Rule.fires, Match.eval, hi, call_mgDrop c q (d + 1) h hd]
      · simp [evalRules, Rule.fires, Match.eval, hi]
  cases hT : c.tproxy
  · -- REDIRECT mode: only drop-invalid
    simp only [Bool.false_eq_true, if_false, Bool.and_false, List.nil_append, List.append_nil, eDrop p rfl,
      Bool.false_and, Bool.not_false, if_true]
    by_cases hd : (c.dropInvalid && p.ctstate == CtState.invalid) = true <;> simp [hd]
  · simp only [if_true, Bool.true_and, Bool.and_true, evalRules_append, Bool.not_true, Bool.false_eq_true, if_false]
    rw [evalRules_ret_seg' _ _ _ (by simp [List.all_map, Function.comp_def]), any_exclIfs_in_mangle]
    by_cases hx : inIfExcluded c p = true
    · simp [hx]
    simp only [hx, Bool.false_eq_true, if_false, Res.andThen_next, eDrop p rfl]
    by_cases hd : (c.dropInvalid && p.ctstate == CtState.invalid) = true
    · simp [hd]
    simp only [hd, Bool.false_eq_true, if_false, Res.andThen_next]
    by_cases ht : isTcp p = true
    · have ht' : (p.proto == Proto.tcp) = true := ht
      have htp : p.proto = Proto.tcp := by simpa using ht'
      by_cases hon : c.inboundOn = true
      · rcases call_mgInbound c p d h ht (by simp [hon, hT]) with ⟨b, hb, hcall⟩
        simp only [hon, if_true, evalRules, Rule.fires, List.all_cons, List.all_nil, Match.eval, ht', Bool.and_true,
          hcall, ht, Bool.true_and]
        by_cases hsel : (!tproxyBypass c p && tproxyPortSelected c p) = true
        · simp only [hsel, if_true, tproxyAction, ctReply, marked]
          by_cases h3 : (p.ctstate == CtState.related || p.ctstate == CtState.established) = true
          · simp [h3]
          · by_cases h4 : loopbackDst c p = true
            · simp only [h3, h4, Bool.false_eq_true, if_false, Bool.not_true, Res.andThen_next]
              by_cases hm : p.mark = c.tproxyMark <;> simp [hm, htp]
            · simp [h3, h4]
        · simp only [hsel, Bool.false_eq_true, if_false]
          rcases hb with hb | hb <;> by_cases hm : p.mark = c.tproxyMark <;> simp [hb, hm, htp]
      · have hsel : tproxyPortSelected c p = false := by
          unfold Config.inboundOn at hon
          unfold tproxyPortSelected
          cases hi : c.inboundInclude <;> simp_all
        by_cases hm : p.mark = c.tproxyMark <;> simp [hon, hsel, evalRules, Rule.fires, Match.eval, ht, htp, hm]
    · have ht' : (p.proto == Proto.tcp) = false := by simpa [isTcp] using ht
      have htp : p.proto ≠ Proto.tcp := by simpa using ht'
      cases c.inboundOn <;> simp [evalRules, Rule.fires, Match.eval, ht, htp]

end IstioModel.C20
