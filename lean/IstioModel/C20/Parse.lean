import IstioModel.C20.Model

/-
C20 - from the raw string fields of config.Config to the structured `Config`:
  config.Split, the `""` / `"*"` tests of Run, netip.ParsePrefix (the textual forms the property's
  grammar uses: dotted IPv4, hex-group IPv6 with one optional `::`, no zone, no embedded IPv4),
  Config.Validate (ValidateOwnerGroups, ValidateIPv4LoopbackCidr) and the three early error
  returns of Run (SeparateV4V6 errors, exclude == "*").
Tokens outside the modelled grammar (non-numeric ports or marks) give `unmodelled`.
-/
namespace IstioModel.C20

/-- `config.Split`: split on commas, drop empty elements. -/
def splitList (s : String) : List String :=
  if s.isEmpty then [] else (s.splitOn ",").filter (· ≠ "")

def isDigits (s : String) : Bool := !s.isEmpty && s.toList.all Char.isDigit

/-- A canonical decimal numeral (no sign, no leading zero). -/
def parseNat (s : String) : Option Nat :=
  if isDigits s && (s.length == 1 || s.toList.head? != some '0') then s.toNat? else none

/-- A port: what iptables accepts for `--dport` / `--to-ports`. -/
def parsePort (s : String) : Option Nat :=
  match parseNat s with
  | some n => if n ≤ 65535 then some n else none
  | none => none

/-- A packet mark: 32 bits. -/
def parseMark (s : String) : Option Nat :=
  match parseNat s with
  | some n => if n ≤ 4294967295 then some n else none
  | none => none

def parseNats : List String → Option (List Nat)
  | [] => some []
  | s :: t => match parsePort s, parseNats t with
    | some n, some l => some (n :: l)
    | _, _ => none

/-- One IPv4 field: 1-3 digits, no leading zero, <= 255. -/
def parseOctet (s : String) : Option Nat :=
  match parseNat s with
  | some n => if n ≤ 255 && s.length ≤ 3 then some n else none
  | none => none

def parseV4 (s : String) : Option Nat :=
  match (s.splitOn ".").map parseOctet with
  | [some a, some b, some c, some d] => some (a * 16777216 + b * 65536 + c * 256 + d)
  | _ => none

def hexVal (c : Char) : Option Nat :=
  if '0' ≤ c ∧ c ≤ '9' then some (c.toNat - 48)
  else if 'a' ≤ c ∧ c ≤ 'f' then some (c.toNat - 87)
  else if 'A' ≤ c ∧ c ≤ 'F' then some (c.toNat - 55)
  else none

def parseHexGroup (s : String) : Option Nat :=
  if s.isEmpty || s.length > 4 then none
  else s.toList.foldl (fun acc ch => match acc, hexVal ch with
    | some a, some v => some (a * 16 + v)
    | _, _ => none) (some 0)

/-- Colon-separated groups; the last one may be an embedded dotted IPv4 address (two groups). -/
def parseGroupList : List String → Option (List Nat)
  | [] => some []
  | [g] =>
    if g.contains '.' then (parseV4 g).map (fun a => [a / 65536, a % 65536])
    else (parseHexGroup g).map (fun v => [v])
  | g :: t => match parseHexGroup g, parseGroupList t with
    | some v, some l => some (v :: l)
    | _, _ => none

def parseHexGroups (s : String) : Option (List Nat) :=
  if s.isEmpty then some [] else parseGroupList (s.splitOn ":")

def groupsToNat (l : List Nat) : Nat := l.foldl (fun acc g => acc * 65536 + g) 0

/-- IPv6 text: eight hex groups, or fewer with exactly one `::`; an embedded IPv4 tail counts as two. -/
def parseV6 (s : String) : Option Nat :=
  match s.splitOn "::" with
  | [whole] =>
    match parseHexGroups whole with
    | some l => if l.length == 8 then some (groupsToNat l) else none
    | none => none
  | [a, b] =>
    if a.contains '.' then none else
    match parseHexGroups a, parseHexGroups b with
    | some la, some lb =>
      if la.length + lb.length ≤ 7 then
        some (groupsToNat (la ++ List.replicate (8 - la.length - lb.length) 0 ++ lb))
      else none
    | _, _ => none
  | _ => none

/-- `netip.ParsePrefix` on the modelled textual forms. -/
def parsePrefix (s : String) : Option Cidr :=
  match s.splitOn "/" with
  | [ip, bits] =>
    match parseNat bits with
    | none => none
    | some n =>
      if ip.contains ':' then
        match parseV6 ip with
        | some a => if n ≤ 128 then some ⟨true, a, n⟩ else none
        | none => none
      else
        match parseV4 ip with
        | some a => if n ≤ 32 then some ⟨false, a, n⟩ else none
        | none => none
  | _ => none

def parsePrefixes : List String → Option (List Cidr)
  | [] => some []
  | s :: t => match parsePrefix s, parsePrefixes t with
    | some c, some l => some (c :: l)
    | _, _ => none

def parseAddrs (v6 : Bool) : List String → Option (List Nat)
  | [] => some []
  | s :: t => match (if v6 then parseV6 s else parseV4 s), parseAddrs v6 t with
    | some a, some l => some (a :: l)
    | _, _ => none

/-- config.Config, the fields Run reads, as raw strings. -/
structure RawConfig where
  proxyPort          : String
  inboundCapturePort : String
  inboundTunnelPort  : String
  proxyUID           : String
  proxyGID           : String
  mode               : String
  tproxyMark         : String
  inboundInclude     : String
  inboundExclude     : String
  ownerGroupsInclude : String
  ownerGroupsExclude : String
  outPortsInclude    : String
  outPortsExclude    : String
  outInclude         : String
  outExclude         : String
  kubeVirtIfs        : String
  exclIfs            : String
  redirectDNS        : Bool
  dropInvalid        : Bool
  captureAllDNS      : Bool
  enableIPv6         : Bool
  dnsV4              : List String
  dnsV6              : List String
  loCidr             : String
  forceBinary        : String := ""   -- FORCE_IPTABLES_BINARY

/-- Result classes printed by both sides. -/
inductive Outcome
  | ok (c : Config)
  | invalid (why : String)     -- Config.Validate refused
  | error (why : String)       -- Run returned an error before emitting anything
  | unmodelled (why : String)  -- outside the modelled grammar

/-- `ValidateIPv4LoopbackCidr`. -/
def validLoopbackCidr (s : String) : Option Cidr :=
  match parsePrefix s with
  | some c => if !c.v6 && c.isLoopback && 8 ≤ c.len && c.len ≤ 32 then some c else none
  | none => none

def maxOwnerGroupsInclude : Nat := 64

def RawConfig.parse (r : RawConfig) : Outcome :=
  -- Config.Validate
  if r.ownerGroupsInclude != "*" && (splitList r.ownerGroupsInclude).length > maxOwnerGroupsInclude then
    .invalid "ownergroups" else
  -- ValidateIptablesBinary
  if !(r.forceBinary == "" || r.forceBinary == "legacy" || r.forceBinary == "nft") then .invalid "binary" else
  match validLoopbackCidr r.loCidr with
  | none => .invalid "loopbackcidr"
  | some lo =>
  -- Run: SeparateV4V6(exclude), wildcard test, SeparateV4V6(include)
  match (if r.outExclude == "*" then some [] else parsePrefixes (splitList r.outExclude)) with
  | none => .error "cidr"
  | some excl =>
  if r.outExclude == "*" then .error "exclude-wildcard" else
  match (if r.outInclude == "*" then some [] else parsePrefixes (splitList r.outInclude)) with
  | none => .error "cidr"
  | some incl =>
  match parsePort r.proxyPort, parsePort r.inboundCapturePort, parsePort r.inboundTunnelPort,
        parseMark r.tproxyMark with
  | some pp, some ic, some tp, some tmark =>
    match parseNats (splitList r.inboundExclude), parseNats (splitList r.outPortsInclude),
          parseNats (splitList r.outPortsExclude),
          (if r.inboundInclude == "*" then some [] else parseNats (splitList r.inboundInclude)),
          parseAddrs false r.dnsV4, parseAddrs true r.dnsV6 with
    | some ie, some opi, some ope, some ii, some d4, some d6 =>
      .ok {
        proxyPort := pp, inboundCapturePort := ic, inboundTunnelPort := tp,
        proxyUIDs := splitList r.proxyUID, proxyGIDs := splitList r.proxyGID,
        tproxy := r.mode == "TPROXY", tproxyMark := tmark,
        inboundInclude := if r.inboundInclude == "" then .none
                          else if r.inboundInclude == "*" then .all else .ports ii,
        inboundExclude := ie,
        ownerGroupsAll := r.ownerGroupsInclude == "*",
        ownerGroupsInclude := splitList r.ownerGroupsInclude,
        ownerGroupsExclude := splitList r.ownerGroupsExclude,
        outPortsInclude := opi, outPortsExclude := ope,
        outIncludeAll := r.outInclude == "*", outInclude := incl,
        outExclude := excl,
        kubeVirtIfs := splitList r.kubeVirtIfs, exclIfs := splitList r.exclIfs,
        redirectDNS := r.redirectDNS, dropInvalid := r.dropInvalid,
        captureAllDNS := r.captureAllDNS, enableIPv6 := r.enableIPv6,
        dnsV4 := d4, dnsV6 := d6, loCidr := lo }
    | _, _, _, _, _, _ => .unmodelled "list"
  | _, _, _, _ => .unmodelled "port"

/-! ## config.DefaultConfig + command-line flags + Config.FillConfigFromEnvironment -/

/-- What FillConfigFromEnvironment reads from outside the flags. -/
structure Environment where
  ownerGroupsInclude : Option String   -- ISTIO_OUTBOUND_OWNER_GROUPS (unset: "*")
  ownerGroupsExclude : Option String   -- ISTIO_OUTBOUND_OWNER_GROUPS_EXCLUDE (unset: "")
  loCidr             : Option String   -- ISTIO_OUTBOUND_IPV4_LOOPBACK_CIDR (unset: 127.0.0.1/32)
  envoyUID           : String          -- uid of ENVOY_USER, or DefaultProxyUID when the lookup fails
  dualStack          : Bool            -- --dual-stack
  addrError          : Bool := false   -- net.InterfaceAddrs() fails
  forceBinary        : String := ""    -- --force-iptables-binary
  localAddrs         : List String     -- net.InterfaceAddrs(), in order
  resolvConf         : Option (List String)  -- nameservers of /etc/resolv.conf; none: the file cannot be read

/-- An interface address: family and value (`Unmap` applied: IPv4-mapped text is IPv4). -/
def parseLocalAddr (s : String) : Option (Bool × Nat) :=
  if s.startsWith "ipaddr:" then none else     -- a net.Addr that is not a *net.IPNet is skipped
  if s.contains ':' then
    match parseV6 s with
    | some a => if a / 2 ^ 32 == 0xffff then some (false, a % 2 ^ 32) else some (true, a)
    | none => none
  else (parseV4 s).map (fun a => (false, a))

/-- `!IsLoopback() && !IsLinkLocalUnicast() && !IsLinkLocalMulticast()` of net/netip. -/
def usableLocalAddr (v6 : Bool) (a : Nat) : Bool :=
  if v6 then
    a != 1 &&                                              -- ::1
    a / 2 ^ 118 != 0x3fa &&                                -- fe80::/10
    !(a / 2 ^ 120 == 0xff && a / 2 ^ 112 % 16 == 2)        -- ffx2::/16
  else
    a / 2 ^ 24 != 127 &&                                   -- 127.0.0.0/8
    a / 2 ^ 16 != 0xa9fe &&                                -- 169.254.0.0/16
    a / 2 ^ 8 != 0xe00000                                  -- 224.0.0.0/24

/-- `getLocalIP(dualStack)`: is the pod's address IPv6 (`none`: no usable address, an error).
    Without dual stack the first usable address decides; with dual stack the scan goes on until the
    first usable IPv6 address (`seen`: a usable address was met before). -/
def getLocalIsV6 (dual : Bool) : List (Bool × Nat) → Bool → Option Bool
  | [], seen => if seen then some false else none
  | (v6, a) :: rest, seen =>
    if usableLocalAddr v6 a then
      if !dual then some v6
      else if v6 then some true
      else getLocalIsV6 dual rest true
    else getLocalIsV6 dual rest seen

def orDefault (s d : String) : String := if s.isEmpty then d else s

/-- `netutil.IPsSplitV4V6`: unparsable entries are dropped, the rest printed canonically. -/
def ipsSplitV4V6 (l : List String) : List String × List String :=
  (l.filterMap (fun s => if s.contains ':' then none else (parseV4 s).map v4Text),
   l.filterMap (fun s => if s.contains ':' then (parseV6 s).map v6Text else none))

/-- `flags`: the values given on the command line or through the flags' environment variables
    ("" = absent, DefaultConfig value stays). `none`: FillConfigFromEnvironment returns an error. -/
def RawConfig.fill (flags : RawConfig) (e : Environment) : Option RawConfig :=
  if e.addrError then none else
  match getLocalIsV6 e.dualStack (e.localAddrs.filterMap parseLocalAddr) false with
  | none => none
  | some isV6 =>
  let uid := orDefault flags.proxyUID e.envoyUID
  let useResolv := flags.redirectDNS && !flags.captureAllDNS
  -- "failed to load /etc/resolv.conf" (only consulted for REDIRECT_DNS without CAPTURE_ALL_DNS)
  if useResolv && e.resolvConf.isNone then none else
  let servers := e.resolvConf.getD []
  some { flags with
    proxyPort := orDefault flags.proxyPort "15001",
    inboundCapturePort := orDefault flags.inboundCapturePort "15006",
    inboundTunnelPort := orDefault flags.inboundTunnelPort "15008",
    tproxyMark := orDefault flags.tproxyMark "1337",
    proxyUID := uid,
    proxyGID := orDefault flags.proxyGID uid,
    ownerGroupsInclude := e.ownerGroupsInclude.getD "*",
    ownerGroupsExclude := e.ownerGroupsExclude.getD "",
    loCidr := e.loCidr.getD "127.0.0.1/32",
    enableIPv6 := isV6,
    forceBinary := e.forceBinary,
    dnsV4 := if useResolv then (ipsSplitV4V6 servers).1 else [],
    dnsV6 := if useResolv then (ipsSplitV4V6 servers).2 else [] }

end IstioModel.C20
