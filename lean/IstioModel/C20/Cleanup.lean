import IstioModel.C20.Model

/-! C20 - the tables of one address family as `executeCommands` sees them, and the cleanup step
    (`BuildCleanupV4` / `BuildCleanupV6` = `buildCleanupRules` + `UndoRules`, run with
    `tryExecuteIptablesCommands`: a command that fails is ignored).

    State: the user chains that exist (per table) and the rules, each with its table and chain. A rule in
    the tables has no `-A` / `-I n` any more: `Rule.norm`. -/
namespace IstioModel.C20

structure NS where
  chains : List (Table × Chain) := []
  rules  : List Rule := []
  deriving Repr

def Rule.norm (r : Rule) : Rule := { r with op := .append }

/-- `iptables-restore --noflush` of the compiled text into empty tables (`-N` lines, then the rules). -/
def install (rs : List Rule) : NS := { chains := declaredChains rs, rules := rs.map Rule.norm }

def Rule.isJump (r : Rule) : Bool :=
  match r.target with
  | .jump _ => true
  | _ => false

/-- `UndoRules`: a rule becomes a `-D` command unless it sits in an ISTIO_* chain and is not a jump to an
    ISTIO_* chain ("we will flush the chain anyway"). Every chain that is not built in is an ISTIO_* chain
    and every jump the compiler emits goes to one. -/
def Rule.undone (r : Rule) : Bool := r.chain.builtin || r.isJump

/-- `iptables -t T -D chain spec`: the first rule with that specification goes; no such rule: the command fails (ignored). -/
def NS.delete (s : NS) (r : Rule) : NS := { s with rules := s.rules.erase r.norm }

/-- `iptables -t T -F chain`. -/
def NS.flush (s : NS) (k : Table × Chain) : NS :=
  { s with rules := s.rules.filter (fun r => !((r.table, r.chain) == k)) }

/-- `iptables -t T -X chain`: fails (ignored) while the chain holds a rule or a rule of its table jumps to it. -/
def NS.delChain (s : NS) (k : Table × Chain) : NS :=
  if s.rules.any (fun r => (r.table, r.chain) == k || r.jumpKey == some k) then s
  else { s with chains := s.chains.filter (fun c => !(c == k)) }

/-- The chains `buildCleanupRules` flushes and deletes: the chain of every rule, walking the rules
    backwards, each (chain, table) once, never a built-in chain. -/
def ownedChains (rs : List Rule) : List (Table × Chain) :=
  (rs.reverse.foldl (fun seen r => addSeen seen (r.table, r.chain)) []).filter (fun k => !k.2.builtin)

/-- `buildCleanupRules`: the `-D` commands of the reversed rule list, then `-F` / `-X` per owned chain. -/
def cleanup (rs : List Rule) (s : NS) : NS :=
  let s1 := (rs.reverse.filter Rule.undone).foldl NS.delete s
  (ownedChains rs).foldl (fun s k => (s.flush k).delChain k) s1

/-- CleanupOnly over the configuration's own rules. -/
def cleanupResidue (rs : List Rule) : NS := cleanup rs (install rs)

end IstioModel.C20
