import IstioModel.C20.Fate

/-! C20 - support for `rulesOf_wellFormed`: what buildRestore declares, insert positions, invariants
    over every builder call (operation kinds, jump targets, address families). -/
namespace IstioModel.C20
set_option linter.unusedSimpArgs false

/-! ## The restore input is well-formed -/

theorem mem_addSeen (seen : List (Table × Chain)) (k x : Table × Chain) :
    x ∈ addSeen seen k ↔ x ∈ seen ∨ x = k := by
  unfold addSeen
  split
  · rename_i h
    constructor
    · exact Or.inl
    · rintro (h' | rfl)
      · exact h'
      · simpa using h
  · simp

theorem mem_foldl_addSeenOpt {α} (l : List α) (g : α → Option (Table × Chain)) (seen : List (Table × Chain))
    (x : Table × Chain) :
    x ∈ l.foldl (fun s a => addSeenOpt s (g a)) seen ↔ x ∈ seen ∨ ∃ a ∈ l, g a = some x := by
  induction l generalizing seen with
  | nil => simp
  | cons a rest ih =>
    simp only [List.foldl_cons, ih, List.mem_cons]
    cases hg : g a with
    | none =>
      simp only [addSeenOpt]
      constructor
      · rintro (h | ⟨b, hb, hgb⟩)
        · exact Or.inl h
        · exact Or.inr ⟨b, Or.inr hb, hgb⟩
      · rintro (h | ⟨b, hb | hb, hgb⟩)
        · exact Or.inl h
        · subst hb; simp [hg] at hgb
        · exact Or.inr ⟨b, hb, hgb⟩
    | some k =>
      simp only [addSeenOpt, mem_addSeen]
      constructor
      · rintro ((h | rfl) | ⟨b, hb, hgb⟩)
        · exact Or.inl h
        · exact Or.inr ⟨a, Or.inl rfl, hg⟩
        · exact Or.inr ⟨b, Or.inr hb, hgb⟩
      · rintro (h | ⟨b, hb | hb, hgb⟩)
        · exact Or.inl (Or.inl h)
        · subst hb; rw [hg] at hgb; injection hgb with hgb; exact Or.inl (Or.inr hgb.symm)
        · exact Or.inr ⟨b, hb, hgb⟩

/-- buildRestore declares exactly the user chains that receive a rule or are jumped to. -/
theorem mem_declaredChains (rules : List Rule) (x : Table × Chain) :
    x ∈ declaredChains rules ↔
      x.2.builtin = false ∧ ((∃ r ∈ rules, (r.table, r.chain) = x) ∨ (∃ r ∈ rules, r.jumpKey = some x)) := by
  unfold declaredChains
  have e1 : ∀ seen, rules.foldl (fun seen r => addSeen seen (r.table, r.chain)) seen =
      rules.foldl (fun s a => addSeenOpt s ((fun r : Rule => some (r.table, r.chain)) a)) seen := fun _ => rfl
  simp only [List.mem_filter, Bool.not_eq_true', mem_foldl_addSeenOpt, e1]
  constructor
  · rintro ⟨(h | ⟨r, hr, hg⟩) | ⟨r, hr, hg⟩, hb⟩
    · simp at h
    · injection hg with hg; exact ⟨hb, Or.inl ⟨r, hr, hg⟩⟩
    · exact ⟨hb, Or.inr ⟨r, hr, hg⟩⟩
  · rintro ⟨hb, ⟨r, hr, hg⟩ | ⟨r, hr, hg⟩⟩
    · exact ⟨Or.inl (Or.inr ⟨r, hr, by simp [hg]⟩), hb⟩
    · exact ⟨Or.inr ⟨r, hr, hg⟩, hb⟩


/-! ### insert positions -/

theorem insertsInRange_of_append_or_1 (l : List Rule) (n : Nat)
    (h : ∀ r ∈ l, r.op = .append ∨ r.op = .insert 1) : insertsInRange n l = true := by
  induction l generalizing n with
  | nil => rfl
  | cons r rest ih =>
    simp only [insertsInRange, Bool.and_eq_true]
    refine ⟨?_, ih _ (fun r' hr' => h r' (by simp [hr']))⟩
    rcases h r (by simp) with hr | hr <;> simp [hr]

theorem insertsInRange_append (a b : List Rule) (n : Nat) (ha : allAppend a = true) :
    insertsInRange n (a ++ b) = insertsInRange (n + a.length) b := by
  induction a generalizing n with
  | nil => simp
  | cons r rest ih =>
    simp only [allAppend, List.all_cons, Bool.and_eq_true, beq_iff_eq] at ha
    have := ih (n + 1) (by simpa [allAppend] using ha.2)
    simp [insertsInRange, ha.1, this, Nat.add_assoc, Nat.add_comm 1]

/-- Only nat/PREROUTING (`-I 1`) and mangle/ISTIO_INBOUND ever receive insertions. -/
def opOK (e : Emit) : Bool :=
  e.rule.op == .append ||
  (e.rule.table == .nat && e.rule.chain == .PREROUTING && e.rule.op == .insert 1) ||
  (e.rule.table == .mangle && e.rule.chain == .ISTIO_INBOUND)

def jumpOK (e : Emit) : Bool :=
  match e.rule.target with
  | .jump ch => !ch.builtin
  | _ => true

def okE (e : Emit) : Bool := opOK e && jumpOK e

theorem handleInbound_opOK (c : Config) : (handleInboundPortsInclude c).all okE = true := by
  unfold handleInboundPortsInclude
  cases ht : c.tproxy <;> cases hi : c.inboundInclude <;>
    simp [okE, opOK, jumpOK, Chain.builtin, inboundAll, inboundPorts, Config.inTable, ht,
      List.all_append, List.all_flatMap, List.all_map, Function.comp_def, both, only, versioned]

theorem compile_opOK (c : Config) : (compile c).all okE = true := by
  unfold compile
  simp only [List.all_append, Bool.and_eq_true]
  refine ⟨⟨⟨⟨⟨⟨⟨⟨⟨⟨⟨⟨⟨⟨⟨⟨⟨?_, ?_⟩, ?_⟩, ?_⟩, ?_⟩, ?_⟩, ?_⟩, ?_⟩, ?_⟩, ?_⟩, ?_⟩, ?_⟩, ?_⟩, ?_⟩, ?_⟩, ?_⟩, ?_⟩, ?_⟩
  all_goals first | exact handleInbound_opOK c |
    simp [okE, opOK, jumpOK, Chain.builtin, shortCircuitExcludeInterfaces,
      shortCircuitKubeInternalInterface, dropInvalidRules, baseChains, outputJump, outboundPortsExclude,
      passthroughSource, handleCaptureByOwnerGroup, loopbackReturn, outboundExcludeCidrs, handleOutboundPortsInclude,
      handleOutboundIncludeRules, tproxyRules, uidBlock, gidBlock, setupDNSRedir, addDNSConntrackZones,
      List.all_append, List.all_flatMap, List.all_map, Function.comp_def, both, only, versioned,
      apply_ite (List.all · okE)]


/-! ### address family of the literals -/

def Rule.famFits (f : Fam) (r : Rule) : Bool := r.conds.all fun m => m.cidrs.all fun x => x.v6 == (f == .v6)

/-- Every builder call only reaches rule lists of the family of its address literals. -/
def famOK (e : Emit) : Bool := (!e.reaches .v4 || e.rule.famFits .v4) && (!e.reaches .v6 || e.rule.famFits .v6)

theorem handleInbound_famOK (c : Config) (hlo : c.loCidr.v6 = false) : (handleInboundPortsInclude c).all famOK = true := by
  unfold handleInboundPortsInclude
  cases ht : c.tproxy <;> cases hi : c.inboundInclude <;>
    simp [famOK, Rule.famFits, Match.cidrs, Emit.reaches, inboundAll, inboundPorts, Config.inTable, ht, hlo, lo6,
      List.all_append, List.all_flatMap, List.all_map, Function.comp_def, both, only, versioned]

theorem mem_filter_v6 (l : List Cidr) (b : Bool) (x : Cidr) (h : x ∈ l.filter (·.v6 == b)) : x.v6 = b := by
  simp only [List.mem_filter, beq_iff_eq] at h
  exact h.2

theorem inclRange_famOK (c : Config) (r : NetRange) (f : Fam) (hr : ∀ x ∈ r.cidrs, x.v6 = (f == .v6)) :
    (handleOutboundIncludeRules c r f).all famOK = true := by
  unfold handleOutboundIncludeRules
  cases r.isWildcard
  · simp only [Bool.false_eq_true, if_false, List.all_flatMap, List.all_append, List.all_map, Function.comp_def,
      List.all_eq_true]
    intro x hx
    have := hr x hx
    cases f <;> simp_all [famOK, Rule.famFits, Match.cidrs, Emit.reaches, only]
  · cases f <;> simp [famOK, Rule.famFits, Match.cidrs, Emit.reaches, only, List.all_map, Function.comp_def]

theorem compile_famOK (c : Config) (hlo : c.loCidr.v6 = false) : (compile c).all famOK = true := by
  unfold compile
  simp only [List.all_append, Bool.and_eq_true]
  refine ⟨⟨⟨⟨⟨⟨⟨⟨⟨⟨⟨⟨⟨⟨⟨⟨⟨?_, ?_⟩, ?_⟩, ?_⟩, ?_⟩, ?_⟩, ?_⟩, ?_⟩, ?_⟩, ?_⟩, ?_⟩, ?_⟩, ?_⟩, ?_⟩, ?_⟩, ?_⟩, ?_⟩, ?_⟩
  case refine_5 => exact handleInbound_famOK c hlo
  case refine_16 =>
    apply inclRange_famOK
    intro x hx
    unfold Config.inclV4 separate at hx
    split at hx
    · simp at hx
    · exact mem_filter_v6 _ _ _ hx
  case refine_17 =>
    apply inclRange_famOK
    intro x hx
    unfold Config.inclV6 separate at hx
    split at hx
    · simp at hx
    · exact mem_filter_v6 _ _ _ hx
  case refine_14 =>
    unfold outboundExcludeCidrs Config.exclV4 Config.exclV6
    simp only [List.all_append, List.all_map, Function.comp_def, Bool.and_eq_true, List.all_eq_true]
    constructor <;> intro x hx <;> have := mem_filter_v6 _ _ _ hx <;>
      simp_all [famOK, Rule.famFits, Match.cidrs, Emit.reaches, only]
  all_goals
    simp [famOK, Rule.famFits, Match.cidrs, Emit.reaches, hlo, lo6, src4, src6, dnsCidr4, dnsCidr6,
      shortCircuitExcludeInterfaces,
      shortCircuitKubeInternalInterface, dropInvalidRules, baseChains, outputJump, outboundPortsExclude,
      passthroughSource, handleCaptureByOwnerGroup, loopbackReturn, handleOutboundPortsInclude,
      tproxyRules, uidBlock, gidBlock, setupDNSRedir, addDNSConntrackZones,
      List.all_append, List.all_flatMap, List.all_map, Function.comp_def, both, only, versioned,
      apply_ite (List.all · famOK)]


/-! ### the theorem -/

theorem mem_rulesOf' (c : Config) (f : Fam) (r : Rule) (h : r ∈ rulesOf c f) :
    ∃ e ∈ compile c, e.reaches f = true ∧ e.rule = r := by
  unfold rulesOf at h
  split at h
  · simp at h
  · simp only [List.mem_map, List.mem_filter] at h
    rcases h with ⟨e, ⟨he, hr⟩, rfl⟩
    exact ⟨e, he, hr, rfl⟩

theorem filter_rulesOf (c : Config) (f : Fam) (t : Table) (ch : Chain) :
    (rulesOf c f).filter (fun r => r.table == t && r.chain == ch) =
      if famOn c f then sel f t ch (compile c) else [] := by
  unfold rulesOf famOn sel
  cases (f == .v6 && !c.enableIPv6) <;> simp


/-! ### hook validity -/

def hookE (e : Emit) : Bool := e.rule.hookValid

theorem handleInbound_hookE (c : Config) : (handleInboundPortsInclude c).all hookE = true := by
  unfold handleInboundPortsInclude
  cases ht : c.tproxy <;> cases hi : c.inboundInclude <;>
    simp [hookE, Rule.hookValid, Match.hookOK, hooksOf, inboundAll, inboundPorts, Config.inTable, ht,
      List.all_append, List.all_flatMap, List.all_map, Function.comp_def, both, only, versioned]

theorem compile_hookE (c : Config) : (compile c).all hookE = true := by
  unfold compile
  simp only [List.all_append, Bool.and_eq_true]
  refine ⟨⟨⟨⟨⟨⟨⟨⟨⟨⟨⟨⟨⟨⟨⟨⟨⟨?_, ?_⟩, ?_⟩, ?_⟩, ?_⟩, ?_⟩, ?_⟩, ?_⟩, ?_⟩, ?_⟩, ?_⟩, ?_⟩, ?_⟩, ?_⟩, ?_⟩, ?_⟩, ?_⟩, ?_⟩
  all_goals first | exact handleInbound_hookE c |
    simp [hookE, Rule.hookValid, Match.hookOK, hooksOf, shortCircuitExcludeInterfaces,
      shortCircuitKubeInternalInterface, dropInvalidRules, baseChains, outputJump, outboundPortsExclude,
      passthroughSource, handleCaptureByOwnerGroup, loopbackReturn, outboundExcludeCidrs, handleOutboundPortsInclude,
      handleOutboundIncludeRules, tproxyRules, uidBlock, gidBlock, setupDNSRedir, addDNSConntrackZones,
      List.all_append, List.all_flatMap, List.all_map, Function.comp_def, both, only, versioned,
      apply_ite (List.all · hookE)]

/-! ### line length -/

theorem gidOwner_params_length (l : List String) :
    ((l.map (fun g => Match.gidOwner true g)).flatMap Match.params).length = 5 * l.length := by
  induction l with
  | nil => rfl
  | cons g t ih =>
    simp only [List.map_cons, List.flatMap_cons, List.length_append, ih, List.length_cons]
    simp [Match.params, neg]
    omega

def tokE (e : Emit) : Bool := e.rule.tokens ≤ maxLineTokens

theorem handleInbound_tokE (c : Config) : (handleInboundPortsInclude c).all tokE = true := by
  unfold handleInboundPortsInclude
  cases ht : c.tproxy <;> cases hi : c.inboundInclude <;>
    simp [tokE, Rule.tokens, maxLineTokens, Match.params, Target.params, neg, inboundAll, inboundPorts, Config.inTable, ht,
      List.all_append, List.all_flatMap, List.all_map, Function.comp_def, both, only, versioned]

theorem ownerGroup_tokE (c : Config) (h : c.ownerGroupsAll = true ∨ c.ownerGroupsInclude.length ≤ 49) :
    (handleCaptureByOwnerGroup c).all tokE = true := by
  unfold handleCaptureByOwnerGroup
  cases hog : c.ownerGroupsAll
  · have hn : c.ownerGroupsInclude.length ≤ 49 := by
      rcases h with h | h
      · simp [hog] at h
      · exact h
    simp only [Bool.false_eq_true, if_false, List.all_cons, List.all_nil, Bool.and_true, tokE, both, Rule.tokens,
      gidOwner_params_length, maxLineTokens, Target.params, List.length_cons, List.length_nil, decide_eq_true_eq]
    omega
  · simp [tokE, Rule.tokens, maxLineTokens, Match.params, Target.params, neg, List.all_map, Function.comp_def, both]

theorem compile_tokE (c : Config) (h : c.ownerGroupsAll = true ∨ c.ownerGroupsInclude.length ≤ 49) :
    (compile c).all tokE = true := by
  unfold compile
  simp only [List.all_append, Bool.and_eq_true]
  refine ⟨⟨⟨⟨⟨⟨⟨⟨⟨⟨⟨⟨⟨⟨⟨⟨⟨?_, ?_⟩, ?_⟩, ?_⟩, ?_⟩, ?_⟩, ?_⟩, ?_⟩, ?_⟩, ?_⟩, ?_⟩, ?_⟩, ?_⟩, ?_⟩, ?_⟩, ?_⟩, ?_⟩, ?_⟩
  all_goals first | exact handleInbound_tokE c | exact ownerGroup_tokE c h |
    simp [tokE, Rule.tokens, maxLineTokens, Match.params, Target.params, neg, shortCircuitExcludeInterfaces,
      shortCircuitKubeInternalInterface, dropInvalidRules, baseChains, outputJump, outboundPortsExclude,
      passthroughSource, loopbackReturn, outboundExcludeCidrs, handleOutboundPortsInclude,
      handleOutboundIncludeRules, tproxyRules, uidBlock, gidBlock, setupDNSRedir, addDNSConntrackZones,
      List.all_append, List.all_flatMap, List.all_map, Function.comp_def, both, only, versioned,
      apply_ite (List.all · tokE)]

end IstioModel.C20
