import IstioModel.C20.Eval

/-! C20 - the nat table at the OUTPUT hook: installed chains and their evaluation. -/
namespace IstioModel.C20
set_option linter.unusedSimpArgs false

/-- A segment of REDIRECT rules to one port. -/
theorem evalRules_redirect_seg (k : Chain → Packet → Res) (l : List Rule) (p : Packet) (port : Nat)
    (h : l.all (fun r => r.target == .redirect port false || r.target == .redirect port true) = true) :
    evalRules k l p = if l.any (·.fires p) then .fin (.redirect port) else .next p := by
  induction l with
  | nil => simp [evalRules]
  | cons r rest ih =>
    simp only [List.all_cons, Bool.and_eq_true, Bool.or_eq_true, beq_iff_eq] at h
    have ih' := ih h.2
    by_cases hf : r.fires p = true
    · rcases h.1 with hr | hr <;> simp [evalRules, hr, hf]
    · simp [evalRules, hf, ih']

/-- nat/ISTIO_OUTPUT_DNS. -/
theorem eval_natDNS (k : Chain → Packet → Res) (c : Config) (p : Packet) :
    evalRules k (chNatDNS c p.fam) p =
      if dnsCaptured c p then .fin (.redirect dnsAgentPort) else .next p := by
  unfold chNatDNS
  rw [evalRules_redirect_seg k _ p dnsAgentPort (by
    cases c.dns <;> cases c.captureAllDNS <;> simp [List.all_append, List.all_map, Function.comp_def])]
  congr 1
  cases hd : c.dns <;> cases hc : c.captureAllDNS <;>
    simp [dnsCaptured, ← dns_eq_dnsActive, hd, hc, isTcpUdp, Rule.fires, Match.eval, List.any_append, List.any_map, Function.comp_def,
      dnsCidr_contains, dnsOf_fam, List.contains_eq_any_beq]
  all_goals grind


theorem allAppend_chOutput (c : Config) (f : Fam) : allAppend (chOutput c f) = true := by
  unfold allAppend chOutput ownerGroupRules inclRules
  cases c.ownerGroupsAll <;> cases (inclOf c f).isWildcard <;> cases dnsJump c f <;>
    simp [List.all_append, List.all_flatMap, List.all_map, Function.comp_def, blockRules] <;>
    (intro o _; cases c.noLoopbackIncluded <;> simp)

theorem allAppend_chNatDNS (c : Config) (f : Fam) : allAppend (chNatDNS c f) = true := by
  unfold allAppend chNatDNS
  cases c.dns <;> cases c.captureAllDNS <;> simp [List.all_append, List.all_map, Function.comp_def]

/-- The user chains of the nat table reachable from OUTPUT, as installed. -/
theorem chain_natOutput (c : Config) (f : Fam) (h : famOn c f = true) :
    chainOf (rulesOf c f) .nat .ISTIO_OUTPUT = chOutput c f :=
  chainOf_closed c f _ _ _ h (sel_compile_natOutput c f) (allAppend_chOutput c f)

theorem chain_natOUTPUT (c : Config) (f : Fam) (h : famOn c f = true) :
    chainOf (rulesOf c f) .nat .OUTPUT = chNatOUTPUT c :=
  chainOf_closed c f _ _ _ h (sel_compile_natOUTPUT c f)
    (by simp [allAppend, chNatOUTPUT, List.all_append, List.all_map, Function.comp_def])

theorem chain_natRedirect (c : Config) (f : Fam) (h : famOn c f = true) :
    chainOf (rulesOf c f) .nat .ISTIO_REDIRECT = chRedirect c :=
  chainOf_closed c f _ _ _ h (sel_compile_natRedirect c f) (by simp [allAppend, chRedirect])

theorem chain_natInRedirect (c : Config) (f : Fam) (h : famOn c f = true) :
    chainOf (rulesOf c f) .nat .ISTIO_IN_REDIRECT = chInRedirect c :=
  chainOf_closed c f _ _ _ h (sel_compile_natInRedirect c f) (by simp [allAppend, chInRedirect])

theorem chain_natDNS (c : Config) (f : Fam) (h : famOn c f = true) :
    chainOf (rulesOf c f) .nat .ISTIO_OUTPUT_DNS = chNatDNS c f :=
  chainOf_closed c f _ _ _ h (sel_compile_natDNS c f) (allAppend_chNatDNS c f)

theorem call_redirect (c : Config) (p : Packet) (d : Nat) (h : famOn c p.fam = true) :
    evalChain (rulesOf c p.fam) .nat (d + 1) .ISTIO_REDIRECT p =
      if isTcp p then .fin (.redirect c.proxyPort) else .next p := by
  simp only [evalChain, chain_natRedirect c _ h, chRedirect, evalRules, Rule.fires, List.all_cons, List.all_nil,
    Match.eval, Bool.and_true, isTcp]
  by_cases ht : (p.proto == Proto.tcp) = true <;> simp [ht]

theorem call_inRedirect (c : Config) (p : Packet) (d : Nat) (h : famOn c p.fam = true) :
    evalChain (rulesOf c p.fam) .nat (d + 1) .ISTIO_IN_REDIRECT p =
      if isTcp p then .fin (.redirect c.inboundCapturePort) else .next p := by
  simp only [evalChain, chain_natInRedirect c _ h, chInRedirect, evalRules, Rule.fires, List.all_cons, List.all_nil,
    Match.eval, Bool.and_true, isTcp]
  by_cases ht : (p.proto == Proto.tcp) = true <;> simp [ht]

theorem call_natDNS (c : Config) (p : Packet) (d : Nat) (h : famOn c p.fam = true) :
    evalChain (rulesOf c p.fam) .nat (d + 1) .ISTIO_OUTPUT_DNS p =
      if dnsCaptured c p then .fin (.redirect dnsAgentPort) else .next p := by
  simp only [evalChain, chain_natDNS c _ h, eval_natDNS]

theorem dnsCaptured_jump (c : Config) (p : Packet) (h : dnsCaptured c p = true) : dnsJump c p.fam = true := by
  unfold dnsCaptured at h
  rw [← dns_eq_dnsActive] at h
  unfold dnsJump
  rw [dnsOf_fam]
  cases hc : c.captureAllDNS
  · simp only [Bool.and_eq_true, hc, Bool.false_or] at h
    have hm := h.2
    cases hl : (if p.v6 then c.dnsV6 else c.dnsV4) with
    | nil => simp [hl] at hm
    | cons a l => simp [h.1.1.1]
  · simp only [Bool.and_eq_true] at h
    simp [h.1.1.1]

/-- The DNS jump of nat/ISTIO_OUTPUT. -/
theorem eval_dnsJump (c : Config) (p : Packet) (d : Nat) (h : famOn c p.fam = true) :
    evalRules (evalChain (rulesOf c p.fam) .nat (d + 1))
      (if dnsJump c p.fam then [(⟨.nat, .ISTIO_OUTPUT, .append, [], .jump .ISTIO_OUTPUT_DNS⟩ : Rule)] else []) p =
      if dnsCaptured c p then .fin (.redirect dnsAgentPort) else .next p := by
  by_cases hc : dnsCaptured c p = true
  · simp [dnsCaptured_jump c p hc, evalRules, Rule.fires, call_natDNS c p d h, hc]
  · by_cases hj : dnsJump c p.fam = true <;> simp [hj, evalRules, Rule.fires, call_natDNS c p d h, hc]

/-- nat/ISTIO_OUTPUT as a decision cascade. -/
theorem eval_chOutput (c : Config) (p : Packet) (d : Nat) (h : famOn c p.fam = true) :
    evalRules (evalChain (rulesOf c p.fam) .nat (d + 1)) (chOutput c p.fam) p =
      if outPortExcluded c p then .ret p
      else if fromPassthrough p then .ret p
      else match identityWalk c p c.identities with
        | some true => .fin (.redirect c.inboundCapturePort)
        | some false => .ret p
        | none =>
          if ownerGroupCaptured c p then
            (if dnsCaptured c p then .fin (.redirect dnsAgentPort)
             else if loopbackDst c p then .ret p
             else if dstExcluded c p then .ret p
             else if outPortIncluded c p then .fin (.redirect c.proxyPort)
             else if isTcp p && dstIncluded c p then .fin (.redirect c.proxyPort)
             else .next p)
          else .ret p := by
  unfold chOutput
  have e1 := eval_outPortsExcl (evalChain (rulesOf c p.fam) .nat (d + 1)) c p
  have e2 := eval_passthrough (evalChain (rulesOf c p.fam) .nat (d + 1)) p
  have e3 := eval_blocks _ c p c.identities (call_inRedirect c p d h)
  have e4 := eval_ownerGroups (evalChain (rulesOf c p.fam) .nat (d + 1)) c p
  have e5 := eval_dnsJump c p d h
  have e6 := eval_loReturn (evalChain (rulesOf c p.fam) .nat (d + 1)) c p
  have e7 := eval_exclCidrs (evalChain (rulesOf c p.fam) .nat (d + 1)) c p
  have e8 := eval_outPortsIncl _ c p (call_redirect c p d h)
  have e9 := eval_inclRules _ c p (call_redirect c p d h)
  simp only [evalRules_append, e1]
  by_cases h1 : outPortExcluded c p = true
  · simp [h1]
  simp only [h1, Bool.false_eq_true, if_false, Res.andThen_next, e2]
  by_cases h2 : fromPassthrough p = true
  · simp [h2]
  simp only [h2, Bool.false_eq_true, if_false, Res.andThen_next, e3]
  cases identityWalk c p c.identities with
  | some b => cases b <;> simp
  | none =>
    simp only [Res.andThen_next, e4]
    by_cases h3 : ownerGroupCaptured c p = true
    · simp only [h3, if_true, Res.andThen_next, e5]
      by_cases h4 : dnsCaptured c p = true
      · simp [h4]
      simp only [h4, Bool.false_eq_true, if_false, Res.andThen_next, e6]
      by_cases h5 : loopbackDst c p = true
      · simp [h5]
      simp only [h5, Bool.false_eq_true, if_false, Res.andThen_next, e7]
      by_cases h6 : dstExcluded c p = true
      · simp [h6]
      simp only [h6, Bool.false_eq_true, if_false, Res.andThen_next, e8]
      by_cases h7 : outPortIncluded c p = true
      · simp [h7]
      simp only [h7, Bool.false_eq_true, if_false, Res.andThen_next, e9]
    · simp [h3]

theorem evalChain_succ (rules : List Rule) (t : Table) (d : Nat) (ch : Chain) (p : Packet) :
    evalChain rules t (d + 1) ch p = evalRules (evalChain rules t d) (chainOf rules t ch) p := rfl

/-- **nat/OUTPUT decides as the policy says.** -/
theorem nat_output_correct (c : Config) (p : Packet) (d : Nat) (h : famOn c p.fam = true) :
    evalTable (d + 2) (rulesOf c p.fam) .nat .output p = natOutputSpec c p := by
  show evalTable (d + 1 + 1) (rulesOf c p.fam) .nat .output p = natOutputSpec c p
  unfold evalTable natOutputSpec
  simp only [Hook.chain, chain_natOUTPUT c _ h, chNatOUTPUT, evalRules_append, eval_exclIfs_out]
  by_cases h0 : outIfExcluded c p = true
  · simp [h0]
  · simp only [h0, Bool.false_eq_true, if_false, Res.andThen_next, evalRules, Rule.fires, List.all_nil, if_true,
      evalChain_succ, chain_natOutput c _ h, eval_chOutput c p d h, Bool.false_or]
    by_cases h1 : outPortExcluded c p = true
    · simp [h1]
    by_cases h2 : fromPassthrough p = true
    · simp [h1, h2]
    simp only [h1, h2, Bool.false_eq_true, if_false, Bool.or_self]
    cases identityWalk c p c.identities with
    | some b => cases b <;> simp
    | none =>
      by_cases h3 : ownerGroupCaptured c p = true
      · by_cases h4 : dnsCaptured c p = true
        · simp [h3, h4]
        by_cases h5 : loopbackDst c p = true
        · simp [h3, h4, h5]
        by_cases h6 : dstExcluded c p = true
        · simp [h3, h4, h5, h6]
        by_cases h7 : outPortIncluded c p = true
        · have h8 : isTcp p = true := by
            simp only [outPortIncluded, Bool.and_eq_true] at h7; exact h7.1
          simp [h3, h4, h5, h6, h7, h8]
        by_cases h8 : isTcp p = true <;> by_cases h9 : dstIncluded c p = true <;> simp [h3, h4, h5, h6, h7, h8, h9]
      · simp [h3]

end IstioModel.C20
