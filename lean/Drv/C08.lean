import IstioModel.C08.Driver
def main (_ : List String) : IO Unit := IstioModel.Wire.run ({} : IstioModel.C08.DState) IstioModel.C08.step
