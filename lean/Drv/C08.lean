import IstioModel.C08.Driver
def main (args : List String) : IO Unit :=
  if args == ["hyps"] then IstioModel.Wire.run ({} : IstioModel.C08.DState) IstioModel.C08.stepHyps
  else IstioModel.Wire.run ({} : IstioModel.C08.DState) IstioModel.C08.step
