import IstioModel.C06.Driver
def main (_ : List String) : IO Unit := IstioModel.Wire.run IstioModel.C06.DState.init IstioModel.C06.step
