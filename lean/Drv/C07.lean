import IstioModel.C07.Driver
def main (_ : List String) : IO Unit := IstioModel.Wire.run ({} : IstioModel.C07.DState) IstioModel.C07.stepD
