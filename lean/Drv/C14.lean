import IstioModel.C14.Driver
def main (_ : List String) : IO Unit := IstioModel.Wire.run ({} : IstioModel.C14.DState) IstioModel.C14.stepD
