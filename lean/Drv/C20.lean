import IstioModel.C20.Driver
def main (args : List String) : IO Unit := IstioModel.Wire.run (IstioModel.C20.DState.init args) IstioModel.C20.step
