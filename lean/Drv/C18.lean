import IstioModel.C18.Driver
def main (_ : List String) : IO Unit := IstioModel.Wire.run ({} : IstioModel.C18.DState) IstioModel.C18.stepD
