import IstioModel.C03.Driver
def main (_ : List String) : IO Unit := IstioModel.Wire.run ({} : IstioModel.C03.DState) IstioModel.C03.stepD
