import IstioModel.C01.Driver
def main (_ : List String) : IO Unit := IstioModel.Wire.run ({} : IstioModel.C01.DState) IstioModel.C01.stepD
