import IstioModel.C17.Driver
def main (_ : List String) : IO Unit := IstioModel.Wire.run () IstioModel.C17.step
