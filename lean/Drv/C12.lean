import IstioModel.C12.Driver
def main (args : List String) : IO Unit :=
  -- streams `known-<s>` hold the witnesses of known findings; they behave like stream <s>
  let s := args.headD "routes"
  let s := if s.startsWith "known-" then (s.drop 6).toString else s
  IstioModel.Wire.run ({ stream := s } : IstioModel.C12.DState) IstioModel.C12.stepD
