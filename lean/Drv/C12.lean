import IstioModel.C12.Driver
def main (args : List String) : IO Unit :=
  IstioModel.Wire.run ({ stream := args.headD "routes" } : IstioModel.C12.DState) IstioModel.C12.stepD
