import IstioModel.C04.Driver2
def main (_ : List String) : IO Unit := IstioModel.Wire.run ({} : IstioModel.C04.PState) IstioModel.C04.stepP
