import IstioModel.C04.Driver
def main (_ : List String) : IO Unit := IstioModel.Wire.run ({} : IstioModel.C04.DState) IstioModel.C04.stepD
