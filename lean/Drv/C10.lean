import IstioModel.C10.Driver
def main (_ : List String) : IO Unit := IstioModel.Wire.run ({} : IstioModel.C10.DState) IstioModel.C10.step
