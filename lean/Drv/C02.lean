import IstioModel.C02.Driver
def main (_ : List String) : IO Unit := IstioModel.Wire.run ({} : IstioModel.C02.DState) IstioModel.C02.step
