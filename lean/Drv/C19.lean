import IstioModel.C19.Driver
def main (_ : List String) : IO Unit := IstioModel.Wire.run IstioModel.C19.DState.init IstioModel.C19.step
