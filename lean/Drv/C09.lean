import IstioModel.C09.Driver
def main (_ : List String) : IO Unit := IstioModel.Wire.run ({} : IstioModel.C09.DState) IstioModel.C09.stepD
