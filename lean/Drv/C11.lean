import IstioModel.C11.Driver
def main (_ : List String) : IO Unit := IstioModel.Wire.run ({} : IstioModel.C11.DState) IstioModel.C11.stepD
