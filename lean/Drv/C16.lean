import IstioModel.C16.JoinDriver
def main (_ : List String) : IO Unit := IstioModel.Wire.run ({} : IstioModel.C16.AllState) IstioModel.C16.stepAll
