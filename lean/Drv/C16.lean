import IstioModel.C16.Driver
def main (_ : List String) : IO Unit := IstioModel.Wire.run ({} : IstioModel.C16.DState) IstioModel.C16.stepD
