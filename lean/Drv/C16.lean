import IstioModel.C16.MemDriver
def main (_ : List String) : IO Unit := IstioModel.Wire.run ({} : IstioModel.C16.TopState) IstioModel.C16.stepTop
