import IstioModel.C13.Driver
def main (_ : List String) : IO Unit := IstioModel.Wire.run ({} : IstioModel.C13.Top) IstioModel.C13.stepD
