import IstioModel.C03.Driver
-- C05 shares the C03 system model (stream `reconn`: histories with stream cuts and reconnects).
def main (_ : List String) : IO Unit := IstioModel.Wire.run ({} : IstioModel.C03.DState) IstioModel.C03.stepD
