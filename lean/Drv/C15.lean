import IstioModel.C15.Driver
def main (args : List String) : IO Unit :=
  if args.head? == some "classify" then
    IstioModel.Wire.run ({} : IstioModel.C15.CState) IstioModel.C15.stepClassify
  else
    IstioModel.Wire.run ({} : IstioModel.C15.DState) IstioModel.C15.stepD
