#!/usr/bin/env python3
"""Compare a `go test -json` log of /repo (guard off) with the stable baseline list.
usage: baseline_compare.py <run.json>"""
import ast
import json
import sys

b = json.load(open("/root/.vp/BASELINE.json"))
stable = b["stable_pass"]
if isinstance(stable, str):
    stable = ast.literal_eval(stable)
stable = set(stable)
res = {}
for line in open(sys.argv[1], errors="replace"):
    line = line.strip()
    if not line.startswith("{"):
        continue
    try:
        e = json.loads(line)
    except ValueError:
        continue
    if e.get("Action") in ("pass", "fail", "skip") and e.get("Test"):
        res["%s::%s" % (e["Package"], e["Test"])] = e["Action"]
passed = {k for k, v in res.items() if v == "pass"}
failed = {k for k, v in res.items() if v == "fail"}
missing = sorted(stable - passed)
print("stable baseline: %d ; passed now: %d ; failed now: %d" % (len(stable), len(passed), len(failed)))
print("stable tests not passing now: %d" % len(missing))
for m in missing[:60]:
    print("  ", m, res.get(m, "not-run"))
print("failed (any):")
for f in sorted(failed)[:40]:
    print("  ", f, "(in stable)" if f in stable else "")
