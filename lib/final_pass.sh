#!/bin/bash
# lib/final_pass.sh <step>...   - the coordinator's end-of-round audit (not a registered check command)
#   repo      /repo is clean, no test/testdata file differs from the pinned snapshot, every commit is a hook or a fix:,
#             hook commits only add lines, every fix: commit has an entry in known-findings.json
#   baseline  full baseline suite on a scratch worktree of HEAD, compared with /root/.vp/BASELINE.json
#   sweep     every check, quick tier, VERIF_SEED in $SWEEP_SEEDS (default 1..8) on the unchanged tree (4 at a time)
#   load      every check once, all 20 at the same time (false alarms under load)
#   seeds     seeded/recheck.sh for every stored seed (fresh worktree of HEAD + stored patch), 3 at a time
#   docs      MANIFEST.json, DESIGN.md tables, schema validation
set -u
cd /verif
export GOFLAGS=-mod=mod GOPROXY=off
OUT=/verif/work/final; mkdir -p $OUT
PIDS=$(python3 -c "import json;print(' '.join(json.loads(l)['id'] for l in open('/verif/properties.jsonl')))")
for step in "$@"; do
case $step in
repo)
  echo "== /repo status (must be empty)"; git -C /repo status --short
  echo "== stash list (must be empty)"; git -C /repo stash list
  echo "== test / testdata files differing from the snapshot (must be 0): $(git -C /repo diff --stat 8d5216c -- '*_test.go' '*/testdata/*' | wc -l)"
  echo "== commits that are neither hook nor fix:"
  git -C /repo log --format='%h %s' 8d5216c..HEAD | grep -v ' verif hook' | grep -v '^[0-9a-f]* fix:' | grep -v '^[0-9a-f]* verif hook'
  echo "== hook commits touching a file that is not zz_verif_*.go with deletions:"
  git -C /repo log --format='%h' 8d5216c..HEAD --grep='verif hook' | while read h; do
    git -C /repo show --numstat --format= $h | awk -v h=$h '$3 !~ /zz_verif_/ && $2 > 0 {print h, $0}'
  done
  echo "== fix: commits without an entry in known-findings.json:"
  python3 - <<'EOF'
import json, subprocess
k = json.load(open('/verif/known-findings.json'))['findings']
txt = json.dumps(k)
for l in subprocess.run(['git', '-C', '/repo', 'log', '--format=%h %s', '8d5216c..HEAD'], capture_output=True, text=True).stdout.splitlines():
    h, s = l.split(' ', 1)
    if s.startswith('fix:') and h[:7] not in txt:
        print('  ', l)
EOF
  ;;
baseline)
  WT=/tmp/baseline-wt
  git -C /repo worktree remove --force $WT >/dev/null 2>&1; rm -rf $WT
  git -C /repo worktree add --detach $WT HEAD >/dev/null
  (cd $WT && go test -mod=mod -json -vet=off -count=1 -timeout 40m ./... > $OUT/baseline.json 2> $OUT/baseline.err)
  python3 lib/baseline_compare.py $OUT/baseline.json | tee $OUT/baseline.txt | tail -20
  git -C /repo worktree remove --force $WT >/dev/null 2>&1
  ;;
sweep)
  for s in ${SWEEP_SEEDS:-1 2 3 4 5 6 7 8}; do
    printf "%s\n" $PIDS | xargs -P ${SWEEP_PAR:-6} -I{} bash -c "VERIF_SEED=$s ./check {} > $OUT/sweep_{}_$s.log 2>&1; echo \"{} seed=$s rc=\$? \$(grep -c '^VIOLATION' $OUT/sweep_{}_$s.log) violations \$(grep -c '^KNOWN-FINDING' $OUT/sweep_{}_$s.log) known \$(tail -1 $OUT/sweep_{}_$s.log | grep -o '^\[[^]]*\]')\""
  done | tee $OUT/sweep.txt
  ;;
load)
  printf "%s\n" $PIDS | xargs -P 20 -I{} bash -c "./check {} > $OUT/load_{}.log 2>&1; echo \"{} rc=\$? \$(grep -c '^VIOLATION' $OUT/load_{}.log) violations \$(tail -1 $OUT/load_{}.log | grep -o '^\[[^]]*\]')\"" | tee $OUT/load.txt
  ;;
seeds)
  ls -d seeded/C??-? | xargs -n1 basename | xargs -P ${SEEDS_PAR:-4} -I{} seeded/recheck.sh {} 2>&1 | tee $OUT/seeds.txt
  ;;
docs)
  python3 lib/mkmanifest.py && python3 lib/mkstatus.py
  python3-vt - <<'EOF'
import json, glob, jsonschema
es = json.load(open('/root/.vp/EVIDENCE.schema.json')); ms = json.load(open('/root/.vp/MANIFEST.schema.json'))
jsonschema.validate(json.load(open('/verif/MANIFEST.json')), ms)
for f in sorted(glob.glob('/verif/evidence/*.json')):
    jsonschema.validate(json.load(open(f)), es)
print("schemas ok:", len(glob.glob('/verif/evidence/*.json')), "evidence files")
EOF
  ;;
esac
done
