#!/usr/bin/env python3
"""lib/savereview.py <name> <task-output-jsonl>  - stores the last assistant text of a reviewer sub-agent transcript
as notes/reviews/<name>.md (coordinator helper, not part of any check)."""
import json, sys
name, path = sys.argv[1], sys.argv[2]
last = None
for l in open(path):
    try:
        d = json.loads(l)
    except ValueError:
        continue
    if d.get('type') == 'assistant':
        for c in d['message']['content']:
            if c.get('type') == 'text':
                last = c['text']
open('/verif/notes/reviews/%s.md' % name, 'w').write("# Independent review %s\n\n" % name + last + "\n")
print(len(last))
