"""Shared machinery of the /verif checks.

A check (checks/Cxx.py) is a function run(ctx) that uses the building blocks below:

  ctx.go_build()                 build harness/<cxx> against /repo's working tree (-tags verif)
  ctx.harness(args...)           run the harness binary
  ctx.lean_prove(mods)           lake build the theorem modules, audit axioms, count obligations
  ctx.drv(stream, ops, out)      run the compiled Lean model driver on an ops file
  ctx.diff_stream(...)           gen -> exec (real code) -> drv (model) -> compare, shrink
  ctx.violation(...)             record a violation (known findings are filtered here)
  ctx.note_case(...)             coverage accounting (evaluations / distinct / samples)

The driver (../check) writes evidence/<id>.json and prints the VIOLATION / KNOWN-FINDING lines.
"""
import hashlib
import json
import os
import re
import shutil
import subprocess
import sys
import time

ROOT = os.path.dirname(os.path.dirname(os.path.abspath(__file__)))
REPO = os.environ.get("VERIF_REPO", "/repo")
LEAN = os.path.join(ROOT, "lean")
HARNESS = os.path.join(ROOT, "harness")
BIN = os.path.join(HARNESS, "bin")
WORK = os.path.join(ROOT, "work")
REPLAYS = os.path.join(ROOT, "replays")
EVIDENCE = os.path.join(ROOT, "evidence")
KNOWN = os.path.join(ROOT, "known-findings.json")
ALLOWED_AXIOMS = {"propext", "Classical.choice", "Quot.sound"}
FORBIDDEN = re.compile(
    r"\bsorry\b|\badmit\b|^\s*axiom\s|native_decide|bv_decide|implemented_by|\bunsafe\s|maxHeartbeats\s+0\b|"
    r"\bextern\b|ofReduceBool|reduceBool")

BASE_TRUSTED = [
    "Lean 4.33.0 kernel; axioms limited to propext, Classical.choice, Quot.sound (audited per theorem by #audit_module)",
    "hand-written Lean model of the anchored Go functions (tied to /repo by the differential/generated correspondence of this run, which is testing, not proof)",
    "the Go harness, its generators and canonicalisers, and the line protocol (harness/, lean/IstioModel/Common/Wire.lean)",
]


def go_env():
    env = dict(os.environ)
    env["GOFLAGS"] = "-mod=mod"
    env["GOPROXY"] = "off"
    env.pop("GOSUMDB", None)  # GOSUMDB=off breaks the local toolchain switch
    if env.get("GOTOOLCHAIN") == "local":
        env.pop("GOTOOLCHAIN")
    env.setdefault("GOMAXPROCS", str(os.cpu_count() or 4))
    return env


def sh(cmd, cwd=None, env=None, timeout=None, stdin=None, stdout=None):
    """Run a command; returns (rc, output). Never raises on failure."""
    t0 = time.time()
    try:
        p = subprocess.run(cmd, cwd=cwd, env=env, timeout=timeout, stdin=stdin,
                           stdout=stdout if stdout is not None else subprocess.PIPE,
                           stderr=subprocess.STDOUT if stdout is None else subprocess.PIPE)
        out = p.stdout if stdout is None else p.stderr
        return p.returncode, (out or b"").decode("utf-8", "replace"), time.time() - t0
    except subprocess.TimeoutExpired as e:
        out = (e.stdout or b"") if stdout is None else (e.stderr or b"")
        return 124, out.decode("utf-8", "replace") + "\n[timeout after %ss]" % timeout, time.time() - t0


class Mismatch:
    def __init__(self, stream, case_lines, line_in_case, impl_line, model_line, case_no):
        self.stream = stream
        self.case_lines = case_lines
        self.line_in_case = line_in_case
        self.impl_line = impl_line
        self.model_line = model_line
        self.case_no = case_no

    def to_json(self):
        return {"stream": self.stream, "case_no": self.case_no, "ops": self.case_lines,
                "first_difference_at_op": self.line_in_case, "implementation": self.impl_line,
                "model": self.model_line}


class Ctx:
    def __init__(self, pid, tier, seed, replay=None):
        self.pid = pid
        self.lc = pid.lower()
        self.tier = tier
        self.seed = seed
        self.replay = replay
        self.t0 = time.time()
        self.violations = []
        self.known_hits = []
        self.evaluations = 0
        self.distinct = set()
        self.samples = []
        self.counters = {}
        self.obligations = 0
        self.discharged = 0
        self.theorems = []
        self.checker_cmds = []
        self.trusted = list(BASE_TRUSTED)
        self.assumptions = []
        self.rule = ""
        self.extra = {}
        self.streams = {}
        self.exhaustive = None
        # a run against a scratch worktree (VERIF_REPO) gets its own work directory, so that it can run next to
        # a run of the same check on /repo or on another worktree
        self.work = os.path.join(WORK, pid if REPO == "/repo" else pid + ".alt-" + hashlib.sha1(REPO.encode()).hexdigest()[:8])
        os.makedirs(self.work, exist_ok=True)
        os.makedirs(REPLAYS, exist_ok=True)
        os.makedirs(EVIDENCE, exist_ok=True)
        self.known = []
        if os.path.exists(KNOWN):
            with open(KNOWN) as f:
                self.known = [k for k in json.load(f).get("findings", []) if k.get("property_id") == pid]
        self.harness_ok = False
        self.lean_ok = False
        self.lean_failure = None

    # ------------------------------------------------------------------ logging
    def log(self, *a):
        print("[%s %6.1fs]" % (self.pid, time.time() - self.t0), *a, flush=True)

    def quick(self):
        return self.tier == "quick"

    def n(self, quick, thorough):
        """Pick a size by tier."""
        return quick if self.tier == "quick" else thorough

    def count(self, key, by=1):
        self.counters[key] = self.counters.get(key, 0) + by

    # ------------------------------------------------------------------ coverage
    def note_case(self, canonical, nontrivial=True, sample=None):
        """Account one explored case. `canonical` is hashed for the distinct count."""
        self.evaluations += 1
        if nontrivial:
            self.distinct.add(hashlib.sha1(canonical.encode()).digest()[:10])
        if sample is not None and len(self.samples) < 6:
            self.samples.append(sample)

    # ------------------------------------------------------------------ violations
    def violation(self, fingerprint, what, replay_obj, found_input):
        """Record a violation. `fingerprint` names the minimal failing input class; a fingerprint
        listed as status=known in known-findings.json becomes a KNOWN-FINDING line."""
        for k in self.known:
            if k.get("status") == "known" and k.get("fingerprint") == fingerprint:
                if fingerprint not in [h["fingerprint"] for h in self.known_hits]:
                    self.known_hits.append({"fingerprint": fingerprint, "what": k.get("what", what)})
                return
        if any(v["fingerprint"] == fingerprint for v in self.violations):
            return
        # one file per (tree, fingerprint): runs against different scratch worktrees do not overwrite each other's
        # replay files, and a --replay run never rewrites the file it was given
        salt = "" if os.path.realpath(REPO) == "/repo" else os.path.realpath(REPO)
        h = hashlib.sha1((self.pid + fingerprint + salt).encode()).hexdigest()[:10]
        path = os.path.join(REPLAYS, "%s-%s.json" % (self.pid, h))
        if self.replay and os.path.exists(path) and os.path.realpath(path) == os.path.realpath(self.replay):
            path = os.path.join(REPLAYS, "%s-%s.again.json" % (self.pid, h))
        obj = {"property_id": self.pid, "fingerprint": fingerprint, "what": what,
               "failing_input_found": bool(found_input), "tier": self.tier, "seed": self.seed,
               "replay": replay_obj}
        with open(path, "w") as f:
            json.dump(obj, f, indent=1, sort_keys=True)
        self.violations.append({"fingerprint": fingerprint, "what": what, "path": path,
                                "found": bool(found_input)})
        self.log("violation recorded:", fingerprint, "-", what)

    def tie_broken(self, name, detail, extra=None):
        """A proof obligation or correspondence no longer checks and no failing input was found."""
        self.violation("tie-broken:" + name,
                       "%s no longer checks; no failing input found" % name,
                       {"broken": name, "detail": detail[-6000:], "extra": extra}, False)

    # ------------------------------------------------------------------ Go harness
    def go_build(self, pkg=None, timeout=1500, out_name=None, tags="verif"):
        # tags: Go build tags (space separated); always contains `verif`, e.g. "verif vtprotobuf disable_pgv" for the
        # tag set istiod is shipped with
        pkg = pkg or self.lc
        os.makedirs(BIN, exist_ok=True)
        # out_name: binary name under harness/bin (default: the package name); a check that shares another
        # property's harness package builds its own copy so that concurrent checks never delete each other's binary
        out = os.path.join(BIN, out_name or pkg)
        extra = []
        if os.path.realpath(REPO) == "/repo":
            if os.path.exists(out):
                os.remove(out)  # never run a stale binary
            try:
                shutil.copyfile(os.path.join(REPO, "go.sum"), os.path.join(HARNESS, "go.sum"))
            except OSError:
                pass
        else:
            # VERIF_REPO=<scratch worktree>: build against it through an alternate go.mod, so that
            # mutation experiments never touch /repo (binary goes to a separate path as well)
            out = os.path.join(BIN, (out_name or pkg) + ".alt-" + hashlib.sha1(REPO.encode()).hexdigest()[:8])
            if os.path.exists(out):
                os.remove(out)
            alt = os.path.join(self.work, "alt.go.mod")
            with open(os.path.join(HARNESS, "go.mod")) as f:
                txt = f.read().replace("=> /repo", "=> " + os.path.realpath(REPO))
            with open(alt, "w") as f:
                f.write(txt)
            shutil.copyfile(os.path.join(REPO, "go.sum"), os.path.join(self.work, "alt.go.sum"))
            extra = ["-modfile=" + alt]
        self.bin_path = out
        if not hasattr(self, "bins"):
            self.bins = {}
        self.bins[pkg] = out
        rc, log, dt = sh(["go", "build", "-tags", tags] + extra + ["-o", out, "./" + pkg], cwd=HARNESS,
                         env=go_env(), timeout=timeout)
        for attempt in range(5):
            if not (rc != 0 and (".cache/go-build" in log or "go-build" in log) and
                    ("no such file or directory" in log or "no space left on device" in log)):
                break
            # an entry of the shared Go build cache vanished (or the disk was full) while the build ran: that is a fact
            # about the machine, not about /repo - wait a little and build again
            time.sleep((10, 20, 40, 60, 90)[attempt])
            rc, log, dt = sh(["go", "build", "-tags", tags] + extra + ["-o", out, "./" + pkg], cwd=HARNESS,
                             env=go_env(), timeout=timeout)
        if rc == 124:
            # the build did not finish within the limit: on this code base that only happens on a machine that is
            # overloaded or whose build cache was just emptied - the partial results are cached, so once more, with
            # twice the time, before the tie counts as broken
            self.count("harness-build.timeout-repeated")
            rc, log, dt = sh(["go", "build", "-tags", tags] + extra + ["-o", out, "./" + pkg], cwd=HARNESS,
                             env=go_env(), timeout=2 * timeout)
        self.log("go build ./%s rc=%d (%.1fs)" % (pkg, rc, dt))
        if rc != 0:
            self.harness_ok = False
            self.tie_broken("harness-build:" + pkg,
                            "the harness (and the verif-tagged hooks it uses) no longer builds against /repo:\n" + log)
            return False
        self.harness_ok = True
        return True

    def harness(self, *args, pkg=None, timeout=1800, stdin=None, env_extra=None):
        env = go_env()
        env["VERIF_SEED"] = str(self.seed)
        env["VERIF_TIER"] = self.tier
        env["VERIF_REPO"] = REPO
        if env_extra:
            env.update(env_extra)
        exe = getattr(self, "bin_path", None) if pkg is None else getattr(self, "bins", {}).get(pkg, os.path.join(BIN, pkg))
        rc, out, dt = sh([exe or os.path.join(BIN, self.lc)] + [str(a) for a in args], cwd=self.work,
                         env=env, timeout=timeout, stdin=stdin)
        return rc, out

    # ------------------------------------------------------------------ Lean
    def lean_sources(self, mods):
        return [os.path.join(LEAN, m.replace(".", "/") + ".lean") for m in mods]

    def grep_forbidden(self, mods):
        bad = []
        for p in self.lean_sources(mods):
            if not os.path.exists(p):
                continue
            text = open(p).read()
            # strip block and line comments
            text = re.sub(r"/-.*?-/", lambda m: "\n" * m.group(0).count("\n"), text, flags=re.S)
            for i, line in enumerate(text.split("\n"), 1):
                line = line.split("--")[0]
                if FORBIDDEN.search(line):
                    bad.append("%s:%d: %s" % (os.path.relpath(p, ROOT), i, line.strip()))
        return bad

    def lake_build(self, targets, timeout=3000):
        rc, out, dt = sh(["lake", "build"] + targets, cwd=LEAN, timeout=timeout)
        self.log("lake build %s rc=%d (%.1fs)" % (" ".join(targets), rc, dt))
        return rc, out

    def lean_prove(self, theorem_mods, all_mods=None, leanchecker=None):
        """Build the theorem modules, audit them; sets obligations/discharged.
        theorem_mods: modules whose theorems are the property's obligations.
        all_mods: every module to grep for forbidden constructs (defaults to IstioModel/<pid>/*)."""
        d = os.path.join(LEAN, "IstioModel", self.pid)
        if all_mods is None:
            all_mods = ["IstioModel.%s.%s" % (self.pid, f[:-5]) for f in sorted(os.listdir(d)) if f.endswith(".lean")]
            gd = os.path.join(LEAN, "IstioModel", "Generated")
            if os.path.isdir(gd):
                all_mods += ["IstioModel.Generated." + f[:-5] for f in sorted(os.listdir(gd))
                             if f.endswith(".lean") and f.startswith(self.pid)]
        bad = self.grep_forbidden(all_mods)
        if bad:
            self.tie_broken("lean-forbidden-construct", "\n".join(bad))
            return False
        declared = 0
        for p in self.lean_sources(theorem_mods):
            if os.path.exists(p):
                declared += len(re.findall(r"^\s*(?:@\[[^\]]*\]\s*)?(?:protected\s+)?theorem\s", open(p).read(), flags=re.M))
        rc, out = self.lake_build(theorem_mods)
        cmd = "cd lean && lake build " + " ".join(theorem_mods)
        self.checker_cmds.append(cmd)
        if rc != 0:
            errs = [l for l in out.split("\n") if "error" in l][:20]
            self.obligations = max(self.obligations, declared)
            self.discharged = 0
            self.lean_ok = False
            self.lean_failure = out
            self.log("lean proof build FAILED:\n" + "\n".join(errs))
            return False
        # audit
        audit = os.path.join(self.work, "audit.lean")
        with open(audit, "w") as f:
            f.write("import IstioModel.Common.Audit\n")
            for m in theorem_mods:
                f.write("import %s\n" % m)
            for m in theorem_mods:
                f.write("#audit_module %s\n" % m)
        rc2, out2 = self.lake_build(["IstioModel.Common.Audit"])
        rc2, out2, dt = sh(["lake", "env", "lean", audit], cwd=LEAN, timeout=1200)
        if rc2 == 124:
            # seconds on a calm machine; a time-out is the machine (or a concurrent lake build holding the lock)
            self.count("lean-audit.timeout-repeated")
            rc2, out2, dt = sh(["lake", "env", "lean", audit], cwd=LEAN, timeout=3600)
        self.checker_cmds.append("lake env lean %s  (#audit_module: axioms of every theorem)" % os.path.relpath(audit, ROOT))
        thms = []
        badax = []
        for line in out2.split("\n"):
            m = re.match(r".*AUDIT (\S+) : \[(.*)\]", line)
            if m:
                axs = [a.strip() for a in m.group(2).split(",") if a.strip()]
                thms.append({"theorem": m.group(1), "axioms": axs})
                extra = [a for a in axs if a not in ALLOWED_AXIOMS]
                if extra:
                    badax.append("%s uses %s" % (m.group(1), extra))
        if rc2 != 0 or not thms:
            self.lean_ok = False
            self.lean_failure = out2
            self.tie_broken("lean-audit", out2)
            return False
        self.theorems = thms
        self.obligations = len(thms)
        self.discharged = len(thms) - len(badax)
        if badax:
            self.tie_broken("lean-axioms", "\n".join(badax))
            return False
        if leanchecker if leanchecker is not None else (self.tier == "thorough"):
            for m in theorem_mods:
                rc3, out3, dt = sh(["lake", "env", "leanchecker", m], cwd=LEAN, timeout=3000)
                self.log("leanchecker %s rc=%d (%.1fs)" % (m, rc3, dt))
                self.checker_cmds.append("lake env leanchecker " + m)
                if rc3 != 0:
                    self.tie_broken("leanchecker:" + m, out3)
                    return False
        self.lean_ok = True
        self.log("lean: %d theorems, all axioms within {propext, Classical.choice, Quot.sound}" % len(thms))
        return True

    def build_drv(self):
        exe = "drv_" + self.lc
        rc, out = self.lake_build([exe])
        self.drv_path = os.path.join(LEAN, ".lake", "build", "bin", exe)
        if rc != 0 or not os.path.exists(self.drv_path):
            self.tie_broken("lean-driver-build", out)
            return False
        return True

    def drv(self, stream, ops_path, out_path, timeout=1800):
        with open(ops_path, "rb") as fi, open(out_path, "wb") as fo:
            rc, err, dt = sh([self.drv_path, stream], stdin=fi, stdout=fo, timeout=timeout)
        return rc, err

    # ------------------------------------------------------------------ differential streams
    @staticmethod
    def read_lines(path):
        with open(path, errors="replace") as f:
            return [l.rstrip("\n") for l in f]

    def compare(self, stream, ops_path, impl_path, model_path):
        """Line-by-line comparison; returns (n_cases, n_ops, first Mismatch or None)."""
        ops = self.read_lines(ops_path)
        impl = self.read_lines(impl_path)
        model = self.read_lines(model_path)
        ncases = sum(1 for l in ops if l.startswith("case"))
        mism = None
        n = len(ops)
        for i in range(n):
            a = impl[i] if i < len(impl) else "<missing: harness stopped>"
            b = model[i] if i < len(model) else "<missing: model driver stopped>"
            if a != b:
                s = i
                while s > 0 and not ops[s].startswith("case"):
                    s -= 1
                e = i + 1
                while e < n and not ops[e].startswith("case"):
                    e += 1
                case_no = sum(1 for l in ops[:s + 1] if l.startswith("case"))
                mism = Mismatch(stream, ops[s:e], i - s, a, b, case_no)
                break
        if mism is None and (len(impl) != n or len(model) != n):
            mism = Mismatch(stream, ops[-1:], 0, "<%d lines>" % len(impl), "<%d lines>" % len(model), ncases)
        return ncases, n, mism

    def run_pair(self, stream, ops_path, tag):
        """Run the real code and the model on one ops file. Returns (ok, impl_path, model_path, log)."""
        impl = os.path.join(self.work, "%s.%s.impl" % (stream, tag))
        model = os.path.join(self.work, "%s.%s.model" % (stream, tag))
        for p in (impl, model):
            if os.path.exists(p):
                os.remove(p)
        rc, out = self.harness("exec", stream, ops_path, impl)
        if rc != 0:
            return False, impl, model, "harness exec rc=%d: %s" % (rc, out[-3000:])
        rc, err = self.drv(stream, ops_path, model)
        if rc != 0:
            return False, impl, model, "lean driver rc=%d: %s" % (rc, err[-3000:])
        return True, impl, model, ""

    def shrink(self, stream, case_lines, max_rounds=200):
        """Delta-debug one failing case (first line = `case ...` header is kept)."""
        head, body = case_lines[0], list(case_lines[1:])

        def fails(lines):
            p = os.path.join(self.work, "%s.shrink.ops" % stream)
            with open(p, "w") as f:
                f.write("\n".join([head] + lines) + "\n")
            ok, impl, model, log = self.run_pair(stream, p, "shrink")
            if not ok:
                return False
            _, _, m = self.compare(stream, p, impl, model)
            return m is not None

        rounds = 0
        chunk = max(1, len(body) // 2)
        while chunk >= 1 and rounds < max_rounds:
            i = 0
            progressed = False
            while i < len(body) and rounds < max_rounds:
                cand = body[:i] + body[i + chunk:]
                rounds += 1
                if cand != body and fails(cand):
                    body = cand
                    progressed = True
                else:
                    i += chunk
            if chunk == 1 and not progressed:
                break
            chunk = max(1, chunk // 2) if chunk > 1 else (1 if progressed else 0)
        return [head] + body

    def diff_stream(self, stream, ncases, corpus=True, oracle=None, nontrivial=None, gen_args=()):
        """The T-diff tie for one stream: corpus first, then `ncases` generated cases.

        gen:  harness gen <stream> <seed> <ncases> <ops>     (structured, seeded)
        exec: harness exec <stream> <ops> <impl-out>         (real code, one line per op)
        drv:  drv_<id> <stream> < ops > model-out            (Lean model)
        On a mismatch the case is shrunk and `oracle(ctx, stream, case_lines)` (property-level
        search on the implementation) decides between a replayable violation and
        no-failing-input-found.  Returns True when the stream agrees everywhere."""
        st = {"cases": 0, "ops": 0, "agree": True}
        self.streams[stream] = st
        files = []
        cdir = os.path.join(HARNESS, "corpus", self.pid)
        if corpus and os.path.isdir(cdir):
            for f in sorted(os.listdir(cdir)):
                if f.startswith(stream + ".") and f.endswith(".ops"):
                    files.append(("corpus:" + f, os.path.join(cdir, f)))
        if ncases > 0:
            ops = os.path.join(self.work, "%s.gen.ops" % stream)
            if os.path.exists(ops):
                os.remove(ops)
            rc, out = self.harness("gen", stream, self.seed, ncases, ops, *gen_args)
            if rc != 0 or not os.path.exists(ops):
                self.tie_broken("harness-gen:" + stream, out)
                st["agree"] = False
                return False
            files.append(("generated", ops))
        all_ok = True
        for tag, ops in files:
            ok, impl, model, log = self.run_pair(stream, ops, "run")
            if not ok:
                self.tie_broken("stream-run:%s" % stream, log, {"ops_file": tag})
                st["agree"] = False
                all_ok = False
                continue
            nc, nops, mism = self.compare(stream, ops, impl, model)
            st["cases"] += nc
            st["ops"] += nops
            self.account(stream, ops, impl, nontrivial)
            if mism is not None:
                all_ok = False
                st["agree"] = False
                self.log("stream %s (%s): model and implementation differ at case %d op %d\n   impl : %s\n   model: %s"
                         % (stream, tag, mism.case_no, mism.line_in_case, mism.impl_line, mism.model_line))
                small = self.shrink(stream, mism.case_lines)
                # recompute outputs of the shrunk case
                p = os.path.join(self.work, "%s.min.ops" % stream)
                with open(p, "w") as f:
                    f.write("\n".join(small) + "\n")
                ok2, impl2, model2, _ = self.run_pair(stream, p, "min")
                m2 = self.compare(stream, p, impl2, model2)[2] if ok2 else None
                rep = (m2 or mism).to_json()
                rep["source"] = tag
                found = None
                if oracle is not None:
                    found = oracle(self, stream, small, rep)
                if found:
                    fp, what, robj = found
                    self.violation(fp, what, robj, True)
                else:
                    self.tie_broken("correspondence:%s" % stream,
                                    "model and implementation disagree on stream %s; the property oracle found no failing input" % stream,
                                    rep)
        self.log("stream %s: %d cases, %d ops, %s" % (stream, st["cases"], st["ops"],
                                                       "agree" if all_ok else "DIFFER"))
        return all_ok

    def account(self, stream, ops_path, impl_path, nontrivial=None):
        """Coverage accounting: one evaluation per case; distinct by hash of (ops, impl outputs)."""
        ops = self.read_lines(ops_path)
        impl = self.read_lines(impl_path)
        cur = []
        curo = []

        def flush():
            if not cur:
                return
            body = [l.split(" ", 2)[-1] if l.startswith("case") else l for l in cur]
            canon = stream + "\n" + "\n".join(body[1:]) + "\n" + "\n".join(curo)
            nt = True
            if nontrivial is not None:
                nt = nontrivial(cur, curo)
            elif len(cur) <= 1:
                nt = False
            sample = None
            if len(self.samples) < 6 and nt and not any(s.get("stream") == stream for s in self.samples[2:]):
                sample = {"stream": stream, "ops": cur[:12], "implementation_output": curo[:12]}
            self.note_case(canon, nt, sample)
            for l in cur[1:]:
                self.count("%s.op.%s" % (stream, l.split(" ", 1)[0]))

        for i, l in enumerate(ops):
            if l.startswith("case"):
                flush()
                cur, curo = [], []
            cur.append(l)
            curo.append(impl[i] if i < len(impl) else "")
        flush()

    # ------------------------------------------------------------------ evidence
    def write_evidence(self):
        cov = {
            "obligations": self.obligations,
            "discharged": self.discharged,
            "checker_cmd": " && ".join(self.checker_cmds) if self.checker_cmds else "none run",
            "trusted_base": self.trusted,
            "evaluations": self.evaluations,
            "distinct_nontrivial": len(self.distinct),
            "rule": self.rule,
            "samples": self.samples if self.samples else [{"note": "no case was executed in this run"}],
            "theorems": self.theorems,
            "streams": self.streams,
            "counters": dict(sorted(self.counters.items())),
            "known_findings_reproduced": self.known_hits,
        }
        if self.exhaustive is not None:
            cov["exhaustive"] = self.exhaustive
        cov.update(self.extra)
        ev = {
            "property_id": self.pid,
            "tier": self.tier,
            "seed": int(self.seed),
            "level": "proof",
            "coverage": cov,
            "assumptions": self.assumptions,
            "wall_s": round(time.time() - self.t0, 2),
            "violations": len(self.violations),
        }
        path = os.path.join(EVIDENCE, self.pid + ".json")
        if os.path.realpath(REPO) != "/repo":
            path = os.path.join(self.work, "evidence.alt.json")  # scratch-worktree runs are not evidence
        tmp = path + ".tmp"
        with open(tmp, "w") as f:
            json.dump(ev, f, indent=1, sort_keys=True)
            f.write("\n")
        os.replace(tmp, path)
        return path

    def finish(self, write=True):
        if self.lean_failure is not None and not any(v["found"] for v in self.violations):
            errs = "\n".join(l for l in self.lean_failure.split("\n") if "error" in l or "theorem" in l)[:3000]
            self.tie_broken("lean-proof", "a proof obligation no longer checks:\n" + errs + "\n----\n" + self.lean_failure[-3000:])
        path = self.write_evidence() if write else os.path.join(EVIDENCE, self.pid + ".json (not rewritten in replay mode)")
        for h in self.known_hits:
            print("KNOWN-FINDING: property=%s %s" % (self.pid, h["what"]), flush=True)
        for v in self.violations:
            tail = "" if v["found"] else " no-failing-input-found"
            print("VIOLATION property=%s replay=%s%s" % (self.pid, v["path"], tail), flush=True)
        self.log("evidence -> %s ; obligations %d/%d ; evaluations %d (distinct non-trivial %d) ; violations %d ; known %d"
                 % (os.path.relpath(path, ROOT), self.discharged, self.obligations, self.evaluations,
                    len(self.distinct), len(self.violations), len(self.known_hits)))
        return 1 if self.violations else 0
