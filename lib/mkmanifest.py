#!/usr/bin/env python3
"""Regenerates MANIFEST.json from the MANIFEST dict of every checks/Cxx.py (run after adding a check)."""
import importlib
import json
import os
import subprocess
import sys

ROOT = os.path.dirname(os.path.dirname(os.path.abspath(__file__)))
sys.path.insert(0, ROOT)
sys.path.insert(0, os.path.join(ROOT, "lib"))

NOT_YET = "check not built yet in this round (design in DESIGN.md section 5); not claimed"


def hook_commits():
    try:
        out = subprocess.run(["git", "-C", "/repo", "log", "--format=%H %s"], capture_output=True, text=True).stdout
    except Exception:
        return []
    return [l.split()[0] for l in out.splitlines() if " verif hook" in l]


def main():
    props = [json.loads(l)["id"] for l in open(os.path.join(ROOT, "properties.jsonl"))]
    checks, na = [], []
    overrides = {}
    op = os.path.join(ROOT, "not_applicable.json")
    if os.path.exists(op):
        overrides = json.load(open(op))
    for pid in props:
        path = os.path.join(ROOT, "checks", pid + ".py")
        if not os.path.exists(path) or pid in overrides:
            na.append({"property_id": pid, "reason": overrides.get(pid, NOT_YET)})
            continue
        mod = importlib.import_module("checks." + pid)
        m = getattr(mod, "MANIFEST", None)
        if m is None:
            na.append({"property_id": pid, "reason": NOT_YET})
            continue
        checks.append({
            "property_id": pid,
            "quick_cmd": "./check %s --tier quick" % pid,
            "thorough_cmd": "./check %s --tier thorough" % pid,
            "evidence_file": "evidence/%s.json" % pid,
            "replay_cmd_template": "./check %s --replay {path}" % pid,
            "engine": "lean4-proof+go-differential",
            "level_claimed": {"category": "proof", "text": m["level_text"], "design_ref": m.get("design_ref", "DESIGN.md section 5 " + pid)},
            "level_note": m["level_note"],
            "technique": m["technique"],
        })
    man = {
        "version": 1,
        "setup_cmd": "./setup.sh",
        "hooks": {
            "guard": "verif",
            "enable": "go build -tags verif (the harness module harness/go.mod replaces istio.io/istio => /repo); hook files are add-only zz_verif_*.go with //go:build verif",
            "baseline_off_cmd": "cd /repo && go test -mod=mod -json -vet=off -count=1 -timeout 25m ./...",
            "source_commits": hook_commits(),
            "add_only": True,
        },
        "engines": [{
            "name": "lean4-proof+go-differential",
            "path": "check",
            "serves_properties": [c["property_id"] for c in checks],
            "kind_free_text": ("Lean 4.33 theorems about hand-written executable models (lean/IstioModel/Cxx); models tied to /repo on every run by "
                               "regenerated tables (decide +kernel) and line-protocol differential runs of the real Go functions (harness/cxx) against the "
                               "compiled Lean drivers; property oracles on the real code search for a failing input when a tie breaks"),
        }],
        "checks": checks,
        "not_applicable": na,
        "notes": "See DESIGN.md. known-findings.json lists genuine defects (known / fixed). Seeded breaking changes used to test the checks are under seeded/.",
    }
    with open(os.path.join(ROOT, "MANIFEST.json"), "w") as f:
        json.dump(man, f, indent=1)
        f.write("\n")
    print("MANIFEST.json: %d checks, %d not applicable" % (len(checks), len(na)))


if __name__ == "__main__":
    main()
