#!/usr/bin/env python3
"""Regenerates the machine-derived parts of DESIGN.md (between <!-- BEGIN:x --> / <!-- END:x --> markers):
   as-built table (from evidence/*.json, MANIFEST.json), findings (known-findings.json), seeded-change matrix (seeded/*/confirm.json)."""
import glob
import json
import os
import re

ROOT = os.path.dirname(os.path.dirname(os.path.abspath(__file__)))


def as_built():
    man = json.load(open(os.path.join(ROOT, "MANIFEST.json")))
    claimed = {c["property_id"] for c in man["checks"]}
    props = [json.loads(l) for l in open(os.path.join(ROOT, "properties.jsonl"))]
    kf = json.load(open(os.path.join(ROOT, "known-findings.json")))["findings"]
    rows = ["| id | theorems (obligations) | correspondence streams (cases in the last quick run) | evaluations | quick wall s | findings fixed / known | notes |",
            "|---|---|---|---|---|---|---|"]
    for p in props:
        pid = p["id"]
        ev_path = os.path.join(ROOT, "evidence", pid + ".json")
        if pid not in claimed or not os.path.exists(ev_path):
            rows.append("| %s | - | not built | - | - | - | - |" % pid)
            continue
        ev = json.load(open(ev_path))
        cov = ev["coverage"]
        streams = cov.get("streams", {})
        st = ", ".join("%s (%d)" % (k, v.get("cases", 0)) for k, v in streams.items()) or "see notes"
        fixed = sum(1 for f in kf if f["property_id"] == pid and f["status"] == "fixed")
        known = sum(1 for f in kf if f["property_id"] == pid and f["status"] == "known")
        rows.append("| %s | %d/%d | %s | %d (%d distinct) | %.0f | %d / %d | notes/%s.md |" % (
            pid, cov.get("discharged", 0), cov.get("obligations", 0), st, cov.get("evaluations", 0),
            cov.get("distinct_nontrivial", 0), ev.get("wall_s", 0), fixed, known, pid))
    return "\n".join(rows)


def findings():
    kf = json.load(open(os.path.join(ROOT, "known-findings.json")))["findings"]
    rows = ["| property | status | commit | fingerprint | what |", "|---|---|---|---|---|"]
    for f in sorted(kf, key=lambda x: (x["property_id"], x["status"])):
        what = re.sub(r"^(fixed|known): property=\S+ (\S+ )?", "", f.get("what", ""))
        rows.append("| %s | %s | %s | `%s` | %s |" % (f["property_id"], f["status"], f.get("commit", "-"), f["fingerprint"], what.replace("|", "\\|")))
    return "\n".join(rows)


def seeded():
    rows = ["| seeded change | breaks | touched | existing tests with change | demo with / without | checks run -> verdict |", "|---|---|---|---|---|---|"]
    for d in sorted(glob.glob(os.path.join(ROOT, "seeded", "C*-*"))):
        cj = os.path.join(d, "confirm.json")
        if not os.path.exists(cj):
            continue
        c = json.load(open(cj))
        patch = open(os.path.join(d, "patch.diff")).read() if os.path.exists(os.path.join(d, "patch.diff")) else ""
        files = sorted(set(re.findall(r"^\+\+\+ b/(\S+)", patch, flags=re.M)))
        vj = os.path.join(d, "verdict.json")
        if os.path.exists(vj):
            # the final re-run on a fresh worktree of HEAD + the stored patch (seeded/recheck.sh) supersedes the first verdict
            v = json.load(open(vj))
            if not v.get("applies", True):
                verdicts = "patch no longer applies on %s" % v.get("head")
            else:
                def one(x):
                    if x["exit"] != 1:
                        return "%s: missed (exit %d)" % (x["check"], x["exit"])
                    if x.get("harness_build_broken"):
                        return "%s: harness no longer builds (tie broken, not a detection of the behaviour)" % x["check"]
                    return "%s: CAUGHT%s" % (x["check"], "" if x.get("with_failing_input", 0) > 0 else " (no-failing-input-found)")
                verdicts = "; ".join(one(x) for x in v["checks"]) + " @%s" % v.get("head")
        else:
            verdicts = "; ".join("%s: %s" % (x["check"], ("CAUGHT" + (" (no-failing-input-found)" if "no-failing-input-found" in x["lines"] and x["lines"].count("VIOLATION") == x["lines"].count("no-failing-input-found") else "")) if x["exit"] == 1 else "missed") for x in c["checks"])
        nj = os.path.join(d, "NOTE.md")
        if os.path.exists(nj):
            verdicts += " - NOTE: " + open(nj).read().strip().replace("\n", " ").replace("|", "/")
        rows.append("| %s | %s | %s | %s | %s / %s | %s |" % (
            c["seed"], c["property"], ", ".join(files), "pass" if c["existing_tests_exit_with_change"] == 0 else "FAIL",
            "fails" if c["demo_exit_with_change"] != 0 else "passes(!)", "passes" if c["demo_exit_without_change"] == 0 else "fails(!)", verdicts))
    return "\n".join(rows)


def main():
    path = os.path.join(ROOT, "DESIGN.md")
    s = open(path).read()
    for key, fn in (("asbuilt", as_built), ("findings", findings), ("seeded", seeded)):
        b, e = "<!-- BEGIN:%s -->" % key, "<!-- END:%s -->" % key
        if b in s and e in s:
            s = s[:s.index(b) + len(b)] + "\n" + fn() + "\n" + s[s.index(e):]
    open(path, "w").write(s)
    print("DESIGN.md regenerated sections")


if __name__ == "__main__":
    main()
