"""C09 - issued workload certificates carry exactly the caller's authenticated identity.

Proof: lean/IstioModel/C09/Theorems.lean (+ AuthnTheorems.lean): data flow of Server.CreateCertificate over IstioCA -
only authenticated callers, SANs == authenticated identities (or the one impersonated identity that passes the
node-authorizer gate), non-interference of CSR content and request metadata, never CA, binds the CSR key,
lifetime bounds, errors not crashes; authenticator post-processing (kube JWT, OIDC sub, XFCC, client cert).
Tie: T-diff - the REAL ca.NewIstioCA (self-signed RSA root, plugged-in ECDSA intermediates with chain, short-lived,
expired, missing signer) behind the REAL Server built by New() (real node authorizer over fake kube clients),
scripted authenticators, adversarial CSRs; the returned leaf certificate is parsed and printed as one canonical
line that the Lean model must predict (stream issue).  Stream authn: the real authenticators' identity
construction against the model.
On break: harness `oracle` states the property directly on the parsed certificate.
"""
import json
import os

ROOT = os.path.dirname(os.path.dirname(os.path.abspath(__file__)))
CORPUS = os.path.join(ROOT, "harness", "corpus", "C09")
THEOREMS = ["IstioModel.C09.Theorems", "IstioModel.C09.AuthnTheorems", "IstioModel.C09.ComposeTheorems"]
STREAMS = ("issue", "authn")


# The one recorded, unrepaired finding of this property (see notes/C09.md, "Findings", 4). The coordinator
# owns known-findings.json; until the entry is there this local copy is used, so that the class is reported as
# KNOWN-FINDING while every other violation still fails the run.
LOCAL_KNOWN = []  # every known finding lives in /verif/known-findings.json


def known_fingerprints(ctx):
    have = {k.get("fingerprint") for k in ctx.known}
    for k in LOCAL_KNOWN:
        if k["fingerprint"] not in have:
            ctx.known.append(k)
    return {k.get("fingerprint") for k in ctx.known if k.get("status") == "known"}


def verdict_cases(ctx, stream, ops):
    """Run the oracle over an ops file; yields (fingerprint, what, replay_obj) for every FAIL verdict."""
    out = os.path.join(ctx.work, os.path.basename(ops) + ".verdict")
    if os.path.exists(out):
        os.remove(out)
    rc, log = ctx.harness("oracle", stream, ops, out)
    if rc != 0 or not os.path.exists(out):
        return None, log
    verdicts = ctx.read_lines(out)
    lines = ctx.read_lines(ops)
    starts = [k for k, l in enumerate(lines) if l.startswith("case")]
    res = []
    for i, v in enumerate(verdicts):
        if v.startswith("FAIL") and i < len(starts):
            clause = v.split()[1]
            s = starts[i]
            e = starts[i + 1] if i + 1 < len(starts) else len(lines)
            res.append(("%s:%s" % (stream, clause),
                        "certificate issuance (%s) violates clause '%s' on the real code" % (stream, clause),
                        {"stream": stream, "ops": lines[s:e], "oracle_verdict": v}))
    return (len(verdicts), res), ""


def oracle(ctx, stream, case_lines, rep):
    """Property-level search on the implementation for a model/implementation difference: first the shrunk case,
    then everything generated, then the corpus. Known-finding classes cannot explain a new difference."""
    known = known_fingerprints(ctx)
    cands = []
    p = os.path.join(ctx.work, "%s.oracle.ops" % stream)
    with open(p, "w") as f:
        f.write("\n".join(case_lines) + "\n")
    cands.append(p)
    g = os.path.join(ctx.work, "%s.gen.ops" % stream)
    if os.path.exists(g):
        cands.append(g)
    if os.path.isdir(CORPUS):
        for f in sorted(os.listdir(CORPUS)):
            if f.startswith(stream + ".") and f.endswith(".ops"):
                cands.append(os.path.join(CORPUS, f))
    for ops in cands:
        got, _ = verdict_cases(ctx, stream, ops)
        if not got:
            continue
        for fp, what, robj in got[1]:
            if fp in known:
                continue
            robj["correspondence"] = rep
            return fp, what, robj
    return None


def oracle_all(ctx, stream, path):
    """Second line of defence: the oracle over a whole ops file, independent of the model; every distinct failing
    clause becomes a violation (known-finding classes are turned into KNOWN-FINDING lines by ctx.violation)."""
    known_fingerprints(ctx)
    got, log = verdict_cases(ctx, stream, path)
    if got is None:
        ctx.tie_broken("oracle-run:%s" % stream, log[-3000:])
        return
    ctx.count("oracle.%s.cases" % stream, got[0])
    seen = set()
    for fp, what, robj in got[1]:
        ctx.count("oracle.%s.fail.%s" % (stream, fp.split(":", 1)[1]))
        if fp in seen:
            continue
        seen.add(fp)
        ctx.violation(fp, what, robj, True)


# The harness' TLS server for the client-certificate path (harness/c09/tlscert.go) is a hand copy of the tls.Config
# that pilot/pkg/bootstrap/server.go builds inline in initSecureDiscoveryService (it cannot be reached without a whole
# istiod). These source facts tie the copy to the original: if the wiring changes, the tie breaks instead of passing.
BOOTSTRAP_TLS_FACTS = [
    r"ClientAuth:\s+tls\.VerifyClientCertIfGiven,",
    r"ClientCAs:\s+peerCertVerifier\.GetGeneralCertPool\(\),",
    r"VerifyPeerCertificate: func\(rawCerts \[\]\[\]byte, verifiedChains \[\]\[\]\*x509\.Certificate\) error \{\s+err := peerCertVerifier\.VerifyPeerCert\(rawCerts, verifiedChains\)",
    r"peerCertVerifier\.AddMappingFromPEM\(trustDomain, rootCertBytes\)",
]


def source_facts(ctx):
    import re
    from verif import REPO
    path = os.path.join(REPO, "pilot", "pkg", "bootstrap", "server.go")
    try:
        text = open(path).read()
    except OSError as e:
        ctx.tie_broken("bootstrap-tls-wiring", "cannot read %s: %s" % (path, e))
        return
    missing = [f for f in BOOTSTRAP_TLS_FACTS if not re.search(f, text)]
    ctx.count("source-facts.bootstrap-tls.checked", len(BOOTSTRAP_TLS_FACTS))
    if missing:
        ctx.tie_broken("bootstrap-tls-wiring",
                       "pilot/pkg/bootstrap/server.go no longer configures the secure gRPC port the way harness/c09/tlscert.go copies it; "
                       "missing: " + " | ".join(missing))


def branch_counters(ctx, stream):
    """Distribution of the generated inputs over the branches of the modelled code (auditable from the evidence)."""
    from urllib.parse import unquote
    g = os.path.join(ctx.work, "%s.gen.ops" % stream)
    i = os.path.join(ctx.work, "%s.run.impl" % stream)
    if not (os.path.exists(g) and os.path.exists(i)):
        return
    ops, impl = ctx.read_lines(g), ctx.read_lines(i)

    def c(key):
        ctx.count("branch.%s.%s" % (stream, key))

    for n, l in enumerate(ops):
        f = l.split()
        out = impl[n].split() if n < len(impl) else ["?"]
        res = out[0] + ((":" + out[1]) if out[0] == "err" and len(out) > 1 else "")
        if stream == "issue":
            if f[0] == "ca":
                c("ca.kind." + f[1])
                d, m = int(f[5]), int(f[6])
                c("ca.default-above-max" if d > m else "ca.default-within-max")
                c("ca.result." + out[0])
            elif f[0] in ("na", "nap"):
                c("world." + ("none" if len(f) == 2 else ("private" if f[0] == "nap" else "shared")))
                if "hide" in f:
                    c("world.hidden-namespace")
            elif f[0] in ("pod", "cl"):
                c("event." + f[0] + "." + f[1])
            elif f[0] == "req":
                fl = f[1]
                c("ctx." + ("xdsauth-off" if fl[0] == "0" else "no-peer" if fl[1] == "0" else
                            ("plaintext" if fl[3] == "1" else "not-tls") if fl[2] == "0" else "authenticating"))
                kinds = [unquote(o).split("|")[0] for o in f[2].split(",")] if f[2] != "-" else []
                c("authenticators.%d" % len(kinds))
                for k in kinds:
                    c("outcome." + k)
                csr = unquote(unquote(f[3])).split("|")
                c("csr.form." + csr[0])
                c("csr.key." + csr[1])
                c("csr.asks." + ("ca" if len(csr) > 5 and csr[5] == "1" else "noca"))
                ttl = int(f[4])
                c("ttl." + ("nonpositive" if ttl <= 0 else "wraps" if abs(ttl) > 9223372036 else "positive"))
                c("impersonation." + ("none" if f[5] == "-" else "non-string" if f[5] == "n" else "string"))
                c("certsigner." + ("none" if f[6] == "-" else "set"))
                c("result." + res)
                if out[0] == "ok":
                    for t in out:
                        if t.startswith("life="):
                            c("life." + ("clamp" if t == "life=clamp" else "chaincap" if t == "life=chaincap" else "requested-or-default"))
            elif f[0] in ("reqa", "reqm"):
                specs = [unquote(f[1])] if f[0] == "reqa" else [unquote(x) for x in f[1].split(",")]
                c(f[0] + ".authenticators." + "+".join(sp.split()[0] for sp in specs))
                c(f[0] + ".impersonation." + ("none" if f[4] == "-" else "set"))
                c(f[0] + ".result." + res)
            elif f[0] in ("rot", "genkeycert"):
                c(f[0] + "." + out[0])
        else:
            if f[0] == "authn":
                c("%s.%s.%s" % (f[1], f[2], res))
                if f[1] in ("oidc", "kube"):
                    c("%s.header-form.%s" % (f[1], f[5] if f[1] == "oidc" else f[8]))
                if f[1] == "oidc":
                    c("oidc.token." + f[6])


def run(ctx):
    ctx.rule = ("issue: cases = one CA configuration (self-signed RSA / plugged ECDSA with 1-2 chain certs / no signer / expired signer / "
                "expired chain; default and max TTL incl. default>max) + one pod world (trusted node accounts, 1-2 clusters, pods on nodes) + "
                "1-4 CreateCertificate requests: scripted authenticator outcomes (ok / nil / error / caller+error / no identities), identities "
                "(SPIFFE, DNS, IPv4/IPv6 and near-IP strings, commas, 64/65-byte), CSR form (10 PEM/DER/signature shapes) x key (RSA, P256, P384, "
                "Ed25519) x requested CN / SAN / CA:TRUE / private extension, TTL (negative, 0, around default/max/signer expiry, int64 wrap), "
                "ImpersonatedIdentity (valid on node / other node / malformed / comma / other trust domain / non-string), CertSigner, clusterid "
                "metadata, unrelated metadata; authn: token / sub / XFCC / client-certificate inputs for the four authenticators. "
                "distinct = hash of (ops, implementation outputs); non-trivial = at least one request")
    ctx.assumptions = [
        "crypto/x509 and ASN.1 are opaque: decode (encode d) = d for the certificate data handed to x509.CreateCertificate (hypothesis hdec of the theorems); "
        "signature validity, serial numbers and token cryptography are not modelled",
        "time: the model runs on a nominal clock (1 s per operation); generated TTLs stay >= 2 min away from the signer-expiry boundary so that the "
        "derived outputs (lifetime in whole seconds, 'clamp', NotAfter <= signer) do not depend on wall-clock jitter",
        "validity window: NotBefore = now - 2 min (clock-skew grace), so NotAfter - NotBefore <= maxTTL + 120 s while NotAfter - now <= maxTTL",
        "Duration.Seconds() float comparisons are modelled as exact integer comparisons (differ only below float resolution)",
        "API-server semantics of the pod informer's field selector status.phase!=Failed are emulated by a list reactor of the fake clientset (the client-go fake ignores field selectors)",
        "errors_not_crashes holds under 'no authenticator that is reached panics'; proved for the four real authenticators except XFCC with a peer address whose host is not an IP literal (not a TCP peer)",
    ]
    ctx.trusted.append("security/pkg/server/ca/zz_verif_c09.go (verif-tagged accessors: node-authorizer configured / synced / pod view) and "
                       "pkg/kube/multicluster/zz_verif_c09.go (cluster update on the fake controller); all other entry points are public API")
    ctx.trusted.append("the harness' raw ASN.1 reader of the leaf certificate (cross-checked against crypto/x509 whenever x509 accepts the certificate)")
    proved = ctx.lean_prove([m for m in THEOREMS if os.path.exists(os.path.join(ROOT, "lean", m.replace(".", "/") + ".lean"))])
    if not ctx.build_drv():
        return
    if not ctx.go_build():
        return
    sizes = {"issue": ctx.n(1200, 30000), "authn": ctx.n(2500, 60000)}
    source_facts(ctx)
    for stream in STREAMS:
        ctx.diff_stream(stream, sizes[stream], oracle=oracle)
        branch_counters(ctx, stream)
    # the oracle also runs on every generated and corpus case (independent of the model)
    for stream in STREAMS:
        g = os.path.join(ctx.work, "%s.gen.ops" % stream)
        if os.path.exists(g):
            oracle_all(ctx, stream, g)
        if os.path.isdir(CORPUS):
            for f in sorted(os.listdir(CORPUS)):
                if f.startswith(stream + ".") and f.endswith(".ops"):
                    oracle_all(ctx, stream, os.path.join(CORPUS, f))
    if not proved and not ctx.violations:
        pass  # lean failure is reported by ctx.finish(); the oracle search above already ran


def replay(ctx, path):
    obj = json.load(open(path))
    rep = obj.get("replay", {})
    ops = rep.get("ops") or (rep.get("extra") or {}).get("ops")
    stream = rep.get("stream") or (rep.get("extra") or {}).get("stream") or "issue"
    if not ops:
        ctx.log("replay file has no ops; re-running the full check")
        return run(ctx)
    if not (ctx.build_drv() and ctx.go_build()):
        return
    p = os.path.join(ctx.work, "replay.ops")
    with open(p, "w") as f:
        f.write("\n".join(ops) + "\n")
    ok, impl, model, log = ctx.run_pair(stream, p, "replay")
    m = ctx.compare(stream, p, impl, model)[2] if ok else None
    found = oracle(ctx, stream, ops, m.to_json() if m else None)
    if found:
        ctx.violation(found[0], found[1], found[2], True)
    elif m is not None:
        ctx.tie_broken("correspondence:%s" % stream, "replayed case still differs", m.to_json())
    if ok:
        ctx.account(stream, p, impl)


MANIFEST = {
    "level_text": ("Lean 4 proof over an exact model of Server.CreateCertificate, the node-authorizer impersonation gate, security.Authenticate, "
                   "IstioCA (NewIstioCA/minTTL/sign) and genCertTemplateFromCSR/BuildSubjectAltNameExtension (incl. netip.ParseAddr), joined with models "
                   "of the four real authenticators (createCertificateFull): no_cert_without_authn, san_exact / san_exact_full and the end-to-end "
                   "san_exact_kube/oidc/xfcc/cert (SAN entries == identities derived from the validated credential, or the one gated impersonated identity, "
                   "for all identity strings), csr_cannot_inject and metadata_cannot_inject (non-interference; subject = CN-only|empty), impersonation_gate "
                   "(conditions exactly as coded, on the informer's non-Failed pods), never_ca, binds_csr_key, ttl_bounds (NotAfter-now <= max, "
                   "NotAfter-NotBefore <= max+120 s, <= signer expiry), crash_iff / errors_not_crashes_real (CreateCertificate panics exactly when a reached "
                   "authenticator panics; none of the real ones does for TCP peers), kube_review_binds_token_and_audience / kube_depends_only_on_submitted_review "
                   "(the API server as a function of the submitted review), impersonation_through_kube (ambient flow end to end), tls_cert_root_scoped "
                   "(client certificates validated against the roots of their own trust domain: crypto/tls + spiffe.PeerCertVerifier), the multicluster "
                   "Component slot machine (pending swap), oidc_sub_total. Tied to /repo on "
                   "every run by a differential over the real CA, server and authenticators on parsed leaf certificates. One recorded unrepaired finding: "
                   "the gate does not constrain the trust domain of an impersonated identity (KNOWN-FINDING issue:impersonation-foreign-trust-domain)."),
    "level_note": ("Trusted: Lean kernel + {propext, Classical.choice, Quot.sound}; the hand-written model (tied by differential testing: 1500 cases / "
                   "~3900 real CreateCertificate calls of which ~800 with one to three real authenticators inside the server, ~100 dynamic pod/cluster worlds + 2500 "
                   "authenticator cases incl. real TLS handshakes quick; 30000 + 60000 "
                   "thorough); crypto/x509 + ASN.1 as an opaque encoding with decode(encode d)=d (the leaf's signature under the CA's signing certificate is "
                   "checked by the harness, not proved); a nominal clock; the verif-tagged accessor files security/pkg/server/ca/zz_verif_c09.go and "
                   "pkg/kube/multicluster/zz_verif_c09.go; the fake API server's emulation of the status.phase field selector; X.509 path building modelled on "
                   "issuer names; istiod's tls.Config for the client-certificate path is a hand copy tied to pilot/pkg/bootstrap/server.go by source facts. Not modelled: serial numbers, token cryptography / TokenReview / JWKS (inputs), "
                   "the third-party XFCC grammar (its parse is an input), OIDC discovery (only jwks_uri), non-UTF-8 identities in CreateCertificate, gRPC "
                   "transport, root-cert rotation, the RA path. errors_not_crashes assumes no reached authenticator panics; XFCC panics for a peer address "
                   "whose host is not an IP literal (not a TCP peer)."),
    "technique": "Lean 4 theorems over an exact model of the issuance data flow + differential correspondence with the real CA/server/authenticators on parsed certificates",
    "design_ref": "DESIGN.md section 5 C09",
}
