"""C17 - Generation is deterministic: same state and proxy give byte-identical xDS.  (PARTIAL)

Proof: lean/IstioModel/C17/Theorems.lean (the only counted module) - sort_canonical (every Go sort routine returns the same
list for every permutation of an input whose distinct members are comparable), cmp_total_<name> for every modelled comparator
(or a witness of a tie), fold_perm_<name> for every modelled fold over a Go map, Deterministic <pipeline> for six small models
of real generation pipelines (Pipeline.lean; corollaries of sort canonicity) and specifications of their folds.
Tie: T-diff stream `cmp` - 21 op kinds running the real comparator / fold / pipeline functions (hooks zz_verif_c17.go, a list
registry, an in-memory store, the memory registry of a FakeDiscoveryServer) vs the Lean models, line by line.
Exploration (not proof): stream `perm` - the permutation harness on REAL generation: every mesh is built K times on a
FakeDiscoveryServer with permuted insertion order, generated R times from rebuilt (also incrementally derived) PushContexts with
rotating proxy order and once from the warm cache, in two separate processes per binary, with two binaries (default tags and
-tags vtprotobuf = the marshaller of the shipped istiod); every resource of CDS/EDS/LDS/RDS/ECDS/NDS, delta CDS, removed names of delta
pushes and route cache keys is hashed, and so is the control plane's own state per build; Go's comparison and the Lean
`allEqualB` judge every observation line (stream `mon`); differences are confirmed across both processes.
"""
import json
import os
import subprocess
import time

import verif

# The obligations are the theorems of Theorems.lean only. Sort.lean / Lemmas.lean hold definitions and helper lemmas,
# Unfixed.lean the pre-repair behaviour (historical record); they are built and grepped but not counted.
THEOREMS = ["IstioModel.C17.Theorems"]

# Types that answer a *requested name set*: the real generators walk that set in Go map order
# (w.ResourceNames.UnsortedList(), `for clusterName := range w.ResourceNames`).  A difference that is only
# the order of the resources in the response of such a type is this one class and nothing else.
KNOWN_ORDER_FP = "perm:response-order:requested-names"  # + ":EDS" / ":RDS" / ":ECDS": one known entry per type


# ---------------------------------------------------------------------------------------------- cmp
def oracle_cmp(ctx, stream, case_lines, rep):
    cands = []
    p = os.path.join(ctx.work, "%s.oracle.ops" % stream)
    with open(p, "w") as f:
        f.write("\n".join(case_lines) + "\n")
    cands.append(p)
    g = os.path.join(ctx.work, "%s.gen.ops" % stream)
    if os.path.exists(g):
        cands.append(g)
    for ops in cands:
        out = ops + ".verdict"
        rc, log = ctx.harness("oracle", stream, ops, out)
        if rc != 0 or not os.path.exists(out):
            continue
        for i, v in enumerate(ctx.read_lines(out)):
            if v.startswith("FAIL"):
                clause = v.split()[1]
                lines = ctx.read_lines(ops)
                starts = [k for k, l in enumerate(lines) if l.startswith("case")]
                s = starts[i]
                e = starts[i + 1] if i + 1 < len(starts) else len(lines)
                return ("cmp:%s" % clause,
                        "the result of an ordering function of the real code depends on the order in which its input "
                        "is presented, or differs between evaluations (%s)" % clause,
                        {"stream": stream, "ops": lines[s:e], "oracle_verdict": v, "correspondence": rep})
    return None


# ---------------------------------------------------------------------------------------------- perm
def start_observers(ctx, ops, tag, env_extra=None, binary=None, procs=(0, 1)):
    """Start `observe` on the same ops in two separate harness processes (in parallel); process i runs with C17_PROC=i,
    which is mixed into the insertion orders of the builds k>0 (build 0 is the reference order in every process)."""
    outs = [os.path.join(ctx.work, "perm.%s.obs%d" % (tag, i)) for i in procs]
    running = []
    for i, o in zip(procs, outs):
        env = verif.go_env()
        env["VERIF_SEED"] = str(ctx.seed)
        env["VERIF_TIER"] = ctx.tier
        env["C17_PROC"] = str(i)
        if env_extra:
            env.update(env_extra)
        if os.path.exists(o):
            os.remove(o)
        running.append(subprocess.Popen([binary or ctx.c17_bins["std"], "observe", ops, o], cwd=ctx.work, env=env,
                                        stdout=subprocess.PIPE, stderr=subprocess.STDOUT))
    return outs, running


def wait_observers(running):
    logs = []
    for p in running:
        try:
            out, _ = p.communicate(timeout=3000)
        except subprocess.TimeoutExpired:
            p.kill()
            out, _ = p.communicate()
        logs.append((p.returncode, (out or b"").decode("utf-8", "replace")[-3000:]))
    return logs


def observe_twice(ctx, ops, tag, env_extra=None, binary=None, procs=(0, 1)):
    outs, running = start_observers(ctx, ops, tag, env_extra, binary, procs)
    return outs, wait_observers(running)


def split_cases(lines):
    cases, cur = [], None
    for l in lines:
        if l.startswith("case"):
            cur = [l]
            cases.append(cur)
        elif cur is not None:
            cur.append(l)
    return cases


def merge_observations(ctx, a_path, b_path, mon_ops):
    """One `mon` ops file: per case the observation lines with the digests of process A followed by those of
    process B (so that the across-process clause is judged by the same monitor)."""
    a = split_cases(ctx.read_lines(a_path))
    b = split_cases(ctx.read_lines(b_path))
    info = []
    out = []
    nonempty = {}
    for i, ca in enumerate(a):
        cb = b[i] if i < len(b) else [ca[0], "skip second-process-produced-no-output"]
        head = ca[0]
        out.append(head)
        feat = [l for l in ca if l.startswith("info feat=")]
        sdiff = [l for l in ca + cb if l.startswith("info statediff=")]
        ka = {l.split()[1]: l.split()[2:] for l in ca if l.startswith("obs")}
        kb = {l.split()[1]: l.split()[2:] for l in cb if l.startswith("obs")}
        skip = [l for l in ca + cb if l.startswith("skip")]
        panic = [l for l in ca + cb if l.startswith("panic")]
        tmo = [l for l in ca + cb if l.startswith("timeout")]
        nobs = 0
        if tmo:
            out.append(tmo[0])
        elif panic:
            # a panic inside the generators or the harness is never a skip: it is judged (and breaks the tie)
            out.append(panic[0])
        elif skip or not ka:
            out.append(skip[0] if skip else "skip no-observation")
        elif sorted(ka) != sorted(kb):
            out.append("obs harness:processes-observed-different-keys A B")
        else:
            for k in ka:
                out.append("obs %s %s" % (k, " ".join(ka[k] + kb[k])))
                if not k.endswith(("order", ".cachehistory")):
                    # content digests are "<number of resources>.<hash>": empty answers are not counted as comparisons
                    ne = sum(1 for d in ka[k] + kb[k] if not d.startswith("0."))
                    nobs += ne
                    if ne:
                        nonempty[k.split(":", 1)[1] if not k.startswith("state:") else "state"] = nonempty.get(k.split(":", 1)[1] if not k.startswith("state:") else "state", 0) + 1
        feats = [l for l in ca + cb if l.startswith("info feat=")]
        info.append({"head": head, "feat": feat[0] if feat else "", "feats": feats, "runs": nobs, "statediff": sdiff[0][15:] if sdiff else ""})
    with open(mon_ops, "w") as f:
        f.write("\n".join(out) + "\n")
    for k, n in nonempty.items():
        ctx.count("perm.nonempty_observations." + k, n)
    return info


def classify(key):
    """observation key -> (fingerprint, human text).
    `state:<section>`            the control plane's own state after a different insertion order
    `<proxy>:<TYPE>`             content (name-sorted) of a response
    `<proxy>:<TYPE>.order`       order of a response whose request order is fixed (or has none)
    `<proxy>:<TYPE>.setorder`    order of a response to a requested name SET (documented: UnsortedList)"""
    if ":" not in key:
        return ("perm:harness:%s" % key, "the permutation harness produced an observation it cannot classify (%s)" % key)
    proxy, typ = key.split(":", 1)
    if proxy == "state":
        return ("perm:state-order:%s" % typ,
                "the control plane comes to rest in a different STATE (%s) when the same objects are created in a different order" % typ)
    if proxy == "harness":
        return ("perm:harness:%s" % typ, "the two harness processes did not observe the same set of keys")
    if typ.endswith(".cachehistory"):
        return ("perm:order:EDS:follows-cache-history",
                "the ORDER of the resources in an EDS response follows the history of the XDS cache (the cluster that is already cached comes "
                "first in 20 of 20 answers, whichever of the two clusters is the cached one) - not the iteration of the requested name set")
    if typ.endswith(".setorder"):
        t = typ[:-9]
        return (KNOWN_ORDER_FP + ":" + t,
                "the order of the resources in a %s response of the xDS generator differs between runs; contents are identical. The generator walks "
                "the requested name SET in Go map order (w.ResourceNames.UnsortedList() / range w.ResourceNames), so two responses cannot be compared "
                "by order; %s" % (t, "for EDS there is no request with a fixed order, so ANY cause of EDS response-order differences is masked by this "
                                     "class except the one probed separately (order following the cache history, key EDS.cachehistory)" if t == "EDS" else
                                  "the order of %s for a FIXED request order is judged separately (key %s.order), only the set-walk is masked" % (t, t)))
    if typ.endswith(".order"):
        t = typ[:-6]
        return ("perm:order:%s" % t, "the ORDER of the %s resources generated for one proxy from one state differs between runs" % t)
    return ("perm:content:%s" % typ, "the CONTENT of the %s resources generated for one proxy from one state differs between runs" % typ)


def judge_perm(ctx, tag, ops_path, source, vt_ops=None):
    """observe -> merge -> both monitors -> classify, once per binary: two processes of the harness built with the
    default tags on `ops_path` and (at the same time) two processes of the harness built with the production
    marshaller (-tags vtprotobuf) on `vt_ops`. Digests are compared within one binary only. Returns number of cases."""
    t0 = time.time()
    outs, running = start_observers(ctx, ops_path, tag)
    vt_outs, vt_running = (None, [])
    if vt_ops and ctx.c17_bins.get("vt"):
        vt_outs, vt_running = start_observers(ctx, vt_ops, tag + "-vt", binary=ctx.c17_bins["vt"], procs=(2, 3))
    logs = wait_observers(running)
    vt_logs = wait_observers(vt_running)
    nc = judge_pair(ctx, tag, outs, logs, source, "std", t0)
    if vt_outs:
        nc += judge_pair(ctx, tag + "-vt", vt_outs, vt_logs, source + " (binary built with -tags vtprotobuf)", "vt", t0)
    return nc


def judge_pair(ctx, tag, outs, logs, source, which, t0):
    binary = ctx.c17_bins[which]
    for rc, log in logs:
        if rc != 0:
            ctx.tie_broken("perm-observe", "the permutation harness (%s binary) stopped (rc=%s):\n%s" % (which, rc, log))
            return 0
    mon_ops = os.path.join(ctx.work, "mon.%s.ops" % tag)
    info = merge_observations(ctx, outs[0], outs[1], mon_ops)
    ok, impl, model, log = ctx.run_pair("mon", mon_ops, tag)
    if not ok:
        ctx.tie_broken("stream-run:mon", log)
        return 0
    nc, nops, mism = ctx.compare("mon", mon_ops, impl, model)
    st = ctx.streams.setdefault("perm", {"cases": 0, "ops": 0, "agree": True})
    st["cases"] += nc
    st["ops"] += nops
    if mism is not None:
        st["agree"] = False
        ctx.tie_broken("correspondence:mon", "Go's comparison and the Lean monitor disagree on an observation line", mism.to_json())
        return nc
    ctx.account("mon", mon_ops, impl, nontrivial=lambda cur, curo: any(l.startswith("obs") for l in cur))
    lines = ctx.read_lines(mon_ops)
    verdicts = ctx.read_lines(model)
    skipped = 0
    cur_case = None
    bad = {}  # case line -> [keys]
    panics = []
    timeouts = []
    for l, v in zip(lines, verdicts):
        if l.startswith("case"):
            cur_case = l
        elif v == "panic":
            ctx.count("perm.panics")
            panics.append((cur_case, l))
        elif v == "timeout":
            ctx.count("perm.watchdog_timeouts")
            timeouts.append((cur_case, l))
        elif v == "skip":
            skipped += 1
            ctx.count("perm.unsettled")
        elif v.startswith("bad"):
            bad.setdefault(cur_case, []).append(v.split()[1] if len(v.split()) > 1 else "?")
    if panics:
        case_line, l = panics[0]
        case_ops = " ".join(t for t in case_line.split() if not t.startswith(("objs=", "res=")))
        ctx.tie_broken("perm-panic", "%d mesh(es) ended in a panic inside the generators or the harness (%s binary); nothing can be concluded "
                       "for them and a crash that depends on the run is itself a difference. First: `%s`: %s"
                       % (len(panics), which, case_ops, verif_dec(l)), {"stream": "perm", "ops": [case_ops], "binary": which})
    for case_line, l in timeouts:
        ctx.log("perm WATCHDOG (%s binary): `%s` abandoned: %s" % (which, " ".join(case_line.split()[:7]), verif_dec(l)[:600]))
    if len(timeouts) > max(2, nc // 50):
        ctx.tie_broken("perm-watchdog", "%d of %d meshes did not finish within the per-mesh time limit and were abandoned (%s binary); first: `%s`: %s"
                       % (len(timeouts), nc, which, " ".join(timeouts[0][0].split()[:7]), verif_dec(timeouts[0][1])))
    slow = []
    for i in info:
        for fl in i["feats"]:
            for tok in fl.split():
                if tok.startswith("incr=") and which == "std":
                    for kv in tok[5:].split(","):
                        if ":" in kv:
                            k, n = kv.rsplit(":", 1)
                            ctx.count("perm.incremental_rebuild_kind." + k, int(n))
                if tok.startswith("ms="):
                    ms = int(tok[3:])
                    st = [t for t in fl.split() if t.startswith("settlems=")]
                    slow.append((ms, int(st[0][9:]) if st else 0, " ".join(i["head"].split()[:5])))
    slow.sort(reverse=True)
    for ms, sms, head in slow[:3]:
        if ms > 20000:
            ctx.count("perm.slow_meshes")
            ctx.log("perm: slow mesh (%s binary) `%s`: %.0f s, of which %.0f s waiting for the control plane to settle" % (which, head, ms / 1000.0, sms / 1000.0))
    for i in info:
        ctx.count("perm.meshes" if which == "std" else "perm.vt.meshes")
        ctx.count("perm.runs_compared" if which == "std" else "perm.vt.runs_compared", i["runs"])
        if which != "std":
            continue
        for tok in i["head"].split():
            if tok.startswith("res="):
                ctx.count("perm.resources_per_generation", int(tok[4:]))
            if tok.startswith("objs="):
                ctx.count("perm.objects", int(tok[5:]))
        for tok in i["feat"].split():
            if tok.startswith("feat="):
                for kv in tok[5:].split(","):
                    if ":" in kv:
                        k, n = kv.rsplit(":", 1)
                        ctx.count("perm.feat." + k, int(n))
            elif tok.startswith("svcs="):
                ctx.count("perm.hyp.services_listed", int(tok[5:]))
            elif tok.startswith("dupkeys="):
                ctx.count("perm.hyp.services_sharing_a_key", int(tok[8:]))
                if int(tok[8:]) > 0:
                    # the hypothesis KeysDistinct of sortServices_canonical does not hold on a real listing
                    ctx.tie_broken("hypothesis:services-keys-distinct",
                                   "two services listed by the registries share (time, name, namespace, object name, hostname, address): %s" % i["head"])
    if nc and skipped * 5 > nc:
        ctx.tie_broken("perm-unsettled", "%d of %d meshes did not reach the same control-plane state in all builds; nothing was compared for them" % (skipped, nc))
    reported = set()
    # explain + minimise are limited to the first two classes of a whole RUN: a tree that fails everywhere must still finish
    unconfirmed = {}  # fingerprint -> number of cases that did not reproduce
    sdiff = {i["head"]: i["statediff"] for i in info}
    for case_line, keys in bad.items():
        classes = {}
        if any(k.startswith("state:") for k in keys):
            # the state itself differs: differences of what is generated from it follow and are not reported separately
            keys = [k for k in keys if k.startswith("state:")]
        # an order difference is reported only where the content is identical (else it is the same cause twice)
        keys = [k for k in keys if not (k.endswith(".order") and k[:-6] in keys)]
        for k in keys:
            fp, what = classify(k)
            classes.setdefault(fp, (what, []))[1].append(k)
        for fp, (what, ks) in classes.items():
            ctx.count("perm.bad." + fp)
            if fp in reported or any(v["fingerprint"] == fp for v in ctx.violations):
                continue  # one report (with confirmation) per class and run
            reported.add(fp)
            case_ops = " ".join(t for t in case_line.split() if not t.startswith(("objs=", "res=")))
            rep = {"stream": "perm", "ops": [case_ops], "differing_observations": ks, "source": source, "binary": which}
            if sdiff.get(case_line):
                rep["state_difference"] = sdiff[case_line]
            if not fp.startswith(KNOWN_ORDER_FP):
                if not confirm(ctx, case_ops, ks, binary):
                    # Did not reproduce in 2 re-runs (two processes each, compared across both) that let the control plane
                    # rest before generating. It was observed, so it is never dropped: it breaks the tie.
                    unconfirmed[fp] = unconfirmed.get(fp, 0) + 1
                    ctx.count("perm.unconfirmed." + fp)
                    ctx.log("perm: %s on `%s` did not reproduce under a quiet-period re-run" % (fp, case_ops))
                    if unconfirmed[fp] < 2:
                        reported.discard(fp)  # try once more on the next case that shows it
                        continue
                    ctx.tie_broken("perm-unconfirmed:" + fp,
                                   "a difference (%s) was observed on %d meshes but did not reproduce when each mesh was re-run with a quiet "
                                   "period; either a rare non-determinism or a state the harness compared while it was still moving" % (fp, unconfirmed[fp]), rep)
                    continue
                if getattr(ctx, "c17_detailed", 0) < 2:
                    ctx.c17_detailed = getattr(ctx, "c17_detailed", 0) + 1
                    rep["explain"] = explain(ctx, case_ops, binary)
                    # a witness mesh is minimal by construction
                    rep["minimised"] = case_ops if " mesh=" in case_ops else minimise(ctx, case_ops, ks, binary)
                else:
                    rep["explain"] = "not computed (explain + minimise are limited to the first two classes of a run): ./replay this file"
            ctx.violation(fp, what, rep, True)
    for fp, n in unconfirmed.items():
        if fp not in reported or n < 2:
            ctx.tie_broken("perm-unconfirmed:" + fp,
                           "a difference (%s) was observed on %d mesh(es) but did not reproduce when re-run with a quiet period" % (fp, n))
    ctx.log("perm (%s): %d meshes, %d unsettled, %d panics, %d with differing observations (%.0fs)" % (source, nc, skipped, len(panics), len(bad), time.time() - t0))
    return nc


def verif_dec(line):
    """`panic <encoded site>` -> readable text (the wire encoding is %XX)."""
    from urllib.parse import unquote
    return unquote(" ".join(line.split()[1:]))[:1500]


def confirm(ctx, case_ops, keys, binary=None):
    """Re-run one case (2 attempts, TWO processes each) with a quiet period after the state fingerprints agree;
    the difference is confirmed if any of `keys` differs again within or ACROSS the two processes."""
    p = os.path.join(ctx.work, "perm.confirm.ops")
    with open(p, "w") as f:
        f.write(case_ops + "\n")
    for attempt in range(2):
        outs, logs = observe_twice(ctx, p, "confirm", env_extra={"C17_QUIET_MS": "400"}, binary=binary)
        if any(rc != 0 for rc, _ in logs) or not all(os.path.exists(o) for o in outs):
            return True  # cannot judge: report
        digests = {}
        for o in outs:
            for l in ctx.read_lines(o):
                t = l.split()
                if t and t[0] in ("panic", "timeout"):
                    return True
                if t and t[0] == "skip":
                    digests.setdefault("skip", set()).add(l)
                if t and t[0] == "obs":
                    digests.setdefault(t[1], set()).update(t[2:])
        if any(len(digests.get(k, ())) > 1 for k in keys):
            return True
    return False


def harness_with(ctx, binary, *args, timeout):
    saved = ctx.bin_path
    ctx.bin_path = binary or saved
    try:
        return ctx.harness(*args, timeout=timeout)
    finally:
        ctx.bin_path = saved


def explain(ctx, case_ops, binary=None):
    p = os.path.join(ctx.work, "perm.explain.ops")
    with open(p, "w") as f:
        f.write(case_ops + "\n")
    rc, out = harness_with(ctx, binary, "explain", p, timeout=300)
    return out[-6000:]


def minimise(ctx, case_ops, keys, binary=None):
    p = os.path.join(ctx.work, "perm.min.ops")
    with open(p, "w") as f:
        f.write(case_ops + "\n")
    rc, out = harness_with(ctx, binary, "minimise", p, ",".join(keys), "2", timeout=180)
    last = [l for l in out.split("\n") if l.startswith("case")]
    return last[-1] if last else None


def build_binaries(ctx):
    """The harness is built twice: with the default tags, and with `vtprotobuf` - the tag istiod is shipped with
    (Makefile.core.mk STANDARD_TAGS=vtprotobuf,disable_pgv) that switches protoconv.marshal to the generated
    MarshalVTStrict methods. `disable_pgv` only removes the generated Validate methods; the harness cannot be built with
    it because pilot/test/xdstest/validate.go (imported by the FakeDiscoveryServer) calls them."""
    if not ctx.go_build():
        return False
    std = ctx.bin_path
    ctx.c17_bins = {"std": std}
    ok = ctx.go_build(out_name="c17vt", tags="verif vtprotobuf")
    vt = ctx.bin_path
    ctx.bin_path = std
    ctx.bins[ctx.lc] = std
    if not ok:
        return False
    marsh = {}
    for which, b in (("std", std), ("vt", vt)):
        rc, out = harness_with(ctx, b, "vtcheck", timeout=60)
        line = out.strip().split("\n")[-1] if rc == 0 else ""
        marsh[which] = dict(t.split("=", 1) for t in line.split()[1:] if "=" in t) if line.startswith("vt ") else {"error": out[-300:]}
    ctx.extra["marshaller"] = {
        "default_tags_binary": marsh["std"], "vtprotobuf_binary": marsh["vt"],
        "note": "implemented=true: the go-control-plane messages have MarshalVTStrict in this binary (build tag vtprotobuf, as in the shipped "
                "istiod); strict_encodings_of_one_message: distinct byte strings MarshalVTStrict gave for ONE message with map fields in 64 calls "
                "(it is not deterministic); messagetoany_encodings_of_one_message: the same for protoconv.MessageToAny - must be 1"}
    if marsh["vt"].get("implemented") != "true" or marsh["std"].get("implemented") != "false" or marsh["vt"].get("enabled") != "true":
        ctx.tie_broken("vtprotobuf-binary", "the two harness binaries are not on the build-tag sets they are meant to exercise: %s" % marsh)
        return False
    for which in ("std", "vt"):
        if marsh[which].get("messagetoany_encodings_of_one_message") != "1":
            ctx.violation("marshal:messagetoany-not-deterministic",
                          "protoconv.MessageToAny serializes ONE message (a core.Metadata with map fields of four entries) to different bytes "
                          "from one call to the next in the binary built with %s (vtprotobuf's MarshalVTStrict writes map fields in Go map "
                          "iteration order)" % ("-tags vtprotobuf, the tag set of the shipped istiod" if which == "vt" else "the default tags"),
                          {"stream": "vtcheck", "ops": ["vtcheck"], "binary": which, "vtcheck": marsh[which]}, True)
    ctx.c17_bins["vt"] = vt
    return True


# The one known class was renamed per xDS type (review round 3, H2). The renamed entries are sent to the coordinator for
# known-findings.json (merged there; LOCAL_KNOWN is empty and only kept as the mechanism for a future class).
def _known(t, scope):
    return {"property_id": "C17", "status": "known", "fingerprint": KNOWN_ORDER_FP + ":" + t,
            "what": "known: property=C17 the order of the resources inside a%s %s response of the xDS generator follows Go map iteration over the requested name "
                    "set (w.ResourceNames.UnsortedList() / range w.ResourceNames): the same state and proxy give the same resources in a different order from "
                    "one generation to the next; the content of each resource is byte-identical and IS judged. Scope of the mask: %s"
                    % ("n" if t[0] in "E" else "", t, scope)}


LOCAL_KNOWN = []  # the three typed entries are in /verif/known-findings.json


def run(ctx):
    for k in LOCAL_KNOWN:
        if not any(x.get("fingerprint") == k["fingerprint"] for x in ctx.known):
            ctx.known.append(k)
    ctx.rule = ("cmp: 21 op kinds - random lists of services / configs / DestinationRules / workloads (few distinct timestamps, names, namespaces; runs "
                "of objects sharing a prefix of the key), shard keys, string sets, endpoint shards with localities, watched type sets, HTTPMatchRequest "
                "maps, byNamespace maps, endpoint-slice sets, service listings for the service index (several claimants per key, some Kubernetes), "
                "alias sets, services sharing addresses on a sidecar route, EnvoyFilter (also more than 12 at once) and TrafficExtension listings (equal priorities / ages, time "
                "representations), DestinationRule listings for the merge (equal ages, overlapping subsets, missing policies), target-port lists, TCP services with VIPs; "
                "perm: seeded meshes of 20-150 objects (Kubernetes services/pods/endpoint slices, Service-attached HTTPRoutes, multi-host and "
                "multi-address ServiceEntries with shared hosts, WorkloadEntries, ExternalName and overlapping-selector services, VirtualServices incl. "
                "gateway-bound, wildcard, root+delegate, DestinationRules, Sidecars (wildcard, exact-host-only and HTTP_PROXY egress listeners), Gateways, PeerAuthentication with port-level maps, "
                "AuthorizationPolicy, RequestAuthentication, EnvoyFilter, Telemetry, WasmPlugin, ProxyConfig, TrafficExtension; random MeshConfig "
                "variants incl. ProxyHttpPort; one mesh in six on two networks with gateways; 1-2 distinct creation timestamps in 3 of 4 meshes; every sixth mesh "
                "in ambient mode with a waypoint, every twelfth with PILOT_SIDECAR_PICK_BEST_SERVICE_NAMESPACE=false, every twelfth with "
                "PILOT_CONVERT_SIDECAR_SCOPE_CONCURRENCY=4) + 20 hand-written witness meshes; the first third of the meshes and the witnesses also with the "
                "binary built with -tags vtprotobuf; distinct = hash of (ops, outputs); "
                "non-trivial = at least one op / observation")
    ctx.assumptions = [
        "a Go sort routine called with a strict weak order returns an ordered permutation of its input (IsSort); nothing else about it is assumed",
        "creation timestamps have second resolution and are modelled as natural numbers; Go's `!=` on time.Time also sees the representation (modelled as `zone` in P4 only)",
        "proto.MarshalOptions{Deterministic:true} is deterministic for equal messages within one binary (checked on one message per run by `c17 vtcheck`, in both binaries; not proved)",
        "strings.Compare (UTF-8 bytes) and Lean's String order (code points) agree",
        "harness restrictions (scope of the exploration): Kubernetes Nodes are created before Pods; up to 20 % of the meshes may fail to settle (counted, "
        "perm.unsettled) before the tie counts as broken; the proxies are fixed (two sidecars, a router, in ambient meshes a waypoint; IPv4; version 1.23.0); "
        "every generation is a forced full push (the partial-push EDS path is not run); a single istiod with one Kubernetes registry - a second cluster "
        "only as extra endpoint shards; objects are only created, never updated or deleted",
        "the known classes perm:response-order:requested-names:{EDS,RDS,ECDS} mask differences of response ORDER through the xDS generators, which walk the "
        "requested name set in map order; for RDS and ECDS the order for a fixed request order is judged, for EDS there is no such request: every cause of EDS "
        "response-order differences is masked except order following the cache history (probed by EDS.cachehistory); contents are always judged",
        "nothing is proved about separate processes or instances: the across-process clause is explored by running the harness in two processes",
        "byte-level determinism of the generators at large is EXPLORED by the permutation harness, not proved: the theorems cover the comparators, the modelled folds and six pipeline models",
    ]
    ctx.trusted.append("verif-tagged accessors zz_verif_c17.go in pilot/pkg/model, pilot/pkg/xds, pilot/pkg/serviceregistry/kube/controller, pilot/pkg/config/kube/gateway")
    ctx.trusted.append("sha256 digests, name sorting and the state fingerprint of the permutation harness are unverified Go; the Lean monitor only compares the digests")
    ctx.trusted.append("the permutation harness observes pilot/test/xds.FakeDiscoveryServer (real stores, registries, PushContext, generators; fake Kubernetes client); "
                       "two builds are compared only after their order-insensitive state fingerprints agree")
    ctx.lean_prove(THEOREMS)
    rc, out = ctx.lake_build(["IstioModel.C17.Unfixed"])
    if rc != 0:
        ctx.tie_broken("lean-unfixed-record", out)
    if not ctx.build_drv():
        return
    if not build_binaries(ctx):
        return
    # ---- T-diff on the comparators and folds
    ctx.diff_stream("cmp", ctx.n(3000, 60000), oracle=oracle_cmp)
    g = os.path.join(ctx.work, "cmp.gen.ops")
    if os.path.exists(g):
        out = g + ".verdict"
        rc, log = ctx.harness("oracle", "cmp", g, out)
        if rc == 0 and os.path.exists(out):
            vs = ctx.read_lines(out)
            ctx.count("oracle.cmp.cases", len(vs))
            if any(v.startswith("FAIL") for v in vs):
                found = oracle_cmp(ctx, "cmp", ["case 0 cmp"], None)
                if found:
                    ctx.violation(found[0], found[1], found[2], True)
    # ---- permutation harness: witness corpus first, then generated meshes
    cdir = os.path.join(verif.HARNESS, "corpus", ctx.pid)
    for f in sorted(os.listdir(cdir)) if os.path.isdir(cdir) else []:
        if f.startswith("perm.") and f.endswith(".ops"):
            judge_perm(ctx, "corpus-" + f[5:-4], os.path.join(cdir, f), "corpus:" + f, vt_ops=os.path.join(cdir, f))
    n = ctx.n(120, 1500)
    ops = os.path.join(ctx.work, "perm.gen.ops")
    if os.path.exists(ops):
        os.remove(ops)
    rc, out = ctx.harness("gen", "perm", ctx.seed, n, ops)
    if rc != 0 or not os.path.exists(ops):
        ctx.tie_broken("harness-gen:perm", out)
        return
    # the production-marshaller binary runs on the first third of the generated meshes (at the same time)
    vt_ops = os.path.join(ctx.work, "perm.vt.ops")
    with open(vt_ops, "w") as f:
        f.write("\n".join(ctx.read_lines(ops)[:max(40, n // 3)]) + "\n")
    judge_perm(ctx, "gen", ops, "generated", vt_ops=vt_ops)
    ctx.extra["level_scope"] = "partial"
    ctx.extra["level_qualification"] = (
        "PARTIAL. The field `level` of this file is the framework's name for the technique (machine-checked Lean theorems); it does "
        "NOT say that the property as worded is proved. Proved: the obligations listed under coverage (comparators, map folds, six "
        "pipeline models with determinism and fold specifications). Tied by differential testing: stream cmp. EXPLORED ONLY: "
        "byte-identical generation by the real generators (stream perm / counters perm.*), see proved_vs_explored and the MANIFEST.")
    ctx.extra["proved_vs_explored"] = {
        "proved": "coverage.obligations / coverage.theorems: canonical ordering for every sort routine, totality (or tie witness) of each comparator, "
                  "order-independence of each modelled map fold, soundness+completeness of the monitor",
        "tied_by_differential": "stream cmp (coverage.streams.cmp): the real comparator / fold functions vs the Lean models",
        "explored": "stream perm (coverage.streams.perm, counters perm.*): real generation on permuted builds; a green run means no difference was "
                    "OBSERVED on these meshes, it is not a proof of byte-level determinism",
    }


def replay(ctx, path):
    obj = json.load(open(path))
    rep = obj.get("replay", {})
    ops = rep.get("ops") or (rep.get("extra") or {}).get("ops")
    stream = rep.get("stream") or (rep.get("extra") or {}).get("stream") or "cmp"
    if not ops:
        ctx.log("replay file has no ops; re-running the full check")
        return run(ctx)
    for k in LOCAL_KNOWN:
        if not any(x.get("fingerprint") == k["fingerprint"] for x in ctx.known):
            ctx.known.append(k)
    if not (ctx.build_drv() and build_binaries(ctx)):
        return
    if stream == "vtcheck":
        return  # build_binaries has re-run it (and recorded the violation again if it still holds)
    if stream in ("perm", "mon"):
        p = os.path.join(ctx.work, "replay.perm.ops")
        with open(p, "w") as f:
            f.write("\n".join(ops) + "\n")
        judge_perm(ctx, "replay", p, "replay", vt_ops=p)
        return
    p = os.path.join(ctx.work, "replay.ops")
    with open(p, "w") as f:
        f.write("\n".join(ops) + "\n")
    ok, impl, model, log = ctx.run_pair(stream, p, "replay")
    _, _, m = ctx.compare(stream, p, impl, model)
    found = oracle_cmp(ctx, stream, ops, m.to_json() if m else None)
    if found:
        ctx.violation(found[0], found[1], found[2], True)
    elif m is not None:
        ctx.tie_broken("correspondence:%s" % stream, "replayed case still differs", m.to_json())
    ctx.account(stream, p, impl)


MANIFEST = {
    "level_text": ("PARTIAL: lemma/pipeline proofs + exploration. PROVED (Lean 4, Theorems.lean): clause 'ties between objects of equal age are broken "
                   "by a total, stable rule' - every modelled comparator (services as repaired, configs by creation time / by selector, Gateway API "
                   "conversion, workloads, shard keys, strings, aliases, sortEnvoyFilters, betterVisibleService, ...) is a strict total order on a "
                   "stated key (cmp_total_*), or a tie witness is given (header names, configs across kinds, EnvoyFilters()' `!=` on time.Time, "
                   "sortByPriority, `<=` used as less, watched types outside PushOrder), and sort_canonical: EVERY function returning an ordered "
                   "permutation (any Go sort routine) gives the same list for every permutation of an input with pairwise distinct keys; clause "
                   "'regardless of the order in which objects were created or listed, of map iteration order' - for the modelled map folds "
                   "(fold_perm_*) and for six small models of real generation pipelines (service index incl. the winner rule, shared-address "
                   "virtual hosts, Shards -> ClusterLoadAssignment, EnvoyFilter order, TrafficExtension order, DestinationRule merge): Deterministic <pipeline> over every "
                   "permutation of the inputs; each model is tied to the real functions by an op of the differential stream `cmp` on every run. "
                   "Each Deterministic <pipeline> theorem is a corollary of sort canonicity (it never looks at the fold after the sort); what the folds "
                   "compute is stated separately: serviceIndex_winner (P1), vipOwners_spec / vipOwners_owner_least (P2: the least hostname keeps a shared "
                   "address), mergedFor_src / _policy / _subset_owner (P6: DestinationRule merge order, first traffic policy and first subset definition win). "
                   "EXPLORED, NOT PROVED: byte-identical generation by the real generators, and 'which control-plane instance or process performs "
                   "it' - a permutation harness builds each mesh K times with permuted insertion order (partly before, partly after start), "
                   "regenerates R times from rebuilt (also incrementally derived) PushContexts with rotating proxy order plus once per build from the "
                   "warm XDS cache, in TWO processes per binary and with TWO binaries (default tags; -tags vtprotobuf, the marshalling path of the shipped "
                   "istiod - digests are compared within one binary only), hashes "
                   "every CDS/EDS/LDS/RDS/ECDS/NDS resource, delta CDS, removed names of delta pushes and route cache keys for sidecars, a router "
                   "and a waypoint, and also judges the control plane's own state per build (state-order). The monitor is an equality check over "
                   "digests computed by unverified Go."),
    "level_note": ("PARTIAL (evidence: coverage.level_scope / level_qualification; the evidence field `level` names the technique, not the reach). Proved = "
                   "comparator/fold/pipeline-model logic (coverage.obligations, counted module Theorems.lean only); tied = stream cmp (21 op "
                   "kinds on the real functions); explored = real generation on ~140 (quick) / ~1500 (thorough) meshes, a third of them also with the "
                   "vtprotobuf binary (coverage.streams.perm, counters perm.*) - no difference observed is not a proof. Seventeen genuine defects were found "
                   "by the harness and repaired in /repo (fix: commits, notes/C17.md; each has a witness mesh in harness/corpus/C17 or a direct self-test), "
                   "among them one of STATE (ambient service selection depended on creation order), one of HISTORY (a gateway's scope depended on which "
                   "proxies were served before) and one of the MARSHALLER (vtprotobuf's MarshalVTStrict writes map fields in map iteration order: in the "
                   "shipped build every resource with a map changed its bytes from push to push). The harness is built with -tags 'verif vtprotobuf'; "
                   "the full production set 'vtprotobuf disable_pgv' does not build (pilot/test/xdstest/validate.go, imported by the FakeDiscoveryServer, "
                   "calls the Validate methods disable_pgv removes) - disable_pgv removes validation code only. Known deviation, deliberate in "
                   "the code: the order of resources in a response of the EDS/RDS/ECDS xDS generators follows Go map iteration over the requested name "
                   "set (fingerprints perm:response-order:requested-names:{EDS,RDS,ECDS}, only `.setorder` observations). What they mask: for RDS/ECDS only the "
                   "set walk - the order for a fixed request order IS judged; for EDS, which has no request with an order, EVERY cause of a different response "
                   "order except order following the XDS cache history (probed: EDS.cachehistory -> perm:order:EDS:follows-cache-history). Contents are always judged. Not covered: ztunnel (WDS/WAUTH), SDS, proxyless, multi-cluster, dual stack, Gateway API Gateways, the gRPC envelope (DiscoveryResponse) bytes; "
                   "mesh networks only as one two-network shape; Kubernetes "
                   "Nodes are created before Pods (Node-after-Pod is C15's known finding order:locality-built-before-node-change). Trusted: Lean kernel + "
                   "{propext, Classical.choice, Quot.sound}; hand-written models tied by differential testing; hooks zz_verif_c17.go (model, xds, kube "
                   "controller, kube gateway); deterministic protobuf marshalling and sha256 digests in Go assumed."),
    "technique": "Lean 4 theorems (sort canonicity, comparator totality, fold and pipeline-model determinism over all permutations) + differential correspondence of the models with the real functions + two-process permutation harness on real generation incl. state, delta and history observations",
    "design_ref": "DESIGN.md section 5 C17",
}
