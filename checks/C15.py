"""C15 - the Kubernetes registry converges regardless of event arrival order.

Proof: lean/IstioModel/C15/{Theorems,PodCache,Derive,ColdStart}.lean over lean/IstioModel/C15/Model.lean
(exact model of the controller's caches, of the informer stores and of the event queue).  The theorems cover
(a) every history handled write by write to quiescence, in any interleaving, whose steps satisfy GoodStep, and
(b) the cold start (all stores filled before the first handler runs) in any event order with Services before
EndpointSlices.  Other stores-ahead windows (hold/release) are executed against the model and the real
controller, not proved.
Tie: T-diff, stream `order` - a REAL controller on kube.NewFakeClient is fed an object history in
one interleaving (queue blocked / event awaited / queue drained through verif hooks, no sleeps) and
prints its caches and its EndpointIndex shard after every step; the Lean model runs on the same
lines.  The last line of a case compares the ordered run with a cold start on the final objects.
Oracle: the property itself on the real code - ordered run vs cold starts in four kind orders and a
literal cold start (controller created on a pre-populated client).
"""
import os

# obligations = the property theorems and the kernel-evaluated examples/witnesses; the handler lemmas they rest on
# (Inv.lean, Sync.lean, PodEvents.lean, Lemmas.lean) are checked with them (axiom audit is transitive)
THEOREMS = ["IstioModel.C15.Theorems", "IstioModel.C15.PodCache", "IstioModel.C15.Waiting", "IstioModel.C15.Derive", "IstioModel.C15.ColdStart",
            "IstioModel.C15.Examples"]

# Genuine order dependences of the pinned controller that are reproduced exactly by the model and are
# not repaired (see notes/C15.md, "Findings").  The coordinator lists them in known-findings.json; until
# then this local copy is used (an entry already present in the file wins).
WHAT = {
    "order:health-built-before-service-known":
        "an EndpointSlice handled before its Service is in servicesMap (or before the Service gains/loses the "
        "persistent-session label) keeps HealthStatus UnHealthy for a not-ready endpoint that a cold start with the "
        "Service known reports as Terminating/Draining; the Service event re-reads the cache, it does not rebuild it "
        "(endpointslice.go endpointHealthStatus(svc=nil), controller.go addOrUpdateService updateEDSCache=false)",
    "order:labels-built-before-pod-label-change":
        "a pod label edit does not refresh the cached endpoints of that pod unless the pod is ready and in the pod cache "
        "and a Service selects its new labels (pod.go onEvent/addPod labelUpdated, controller.go recomputeServiceForPod): "
        "the endpoint keeps the old labels/tlsMode until the next event of its slice, a cold start has the new ones",
    "order:locality-built-before-node-change":
        "Node add/update/delete does not refresh endpoints: locality and topology labels are those of the node store at "
        "the time the slice was handled (endpoint_builder.go getPodLocality), a cold start has the current ones",
    "order:endpoint-of-deleted-pod-kept":
        "deleting a Pod does not refresh the slices that reference it: the cached endpoint (with the deleted pod's identity) "
        "stays until the slice changes, a cold start drops it (getPod: expected pod missing)",
    "order:identity-of-replaced-pod":
        "a Pod deleted and re-created under the same name while a slice references it: the cached endpoint keeps the old "
        "pod's service account/node/labels, a cold start has the new pod's",
    "order:waiting-address-differs-from-pod-ip":
        "an endpoint whose targetRef pod was unknown is parked in needResync under the endpoint ADDRESS and is replayed only "
        "by a pod event carrying that IP; if the referenced pod arrives with another IP the endpoint is never built, while a "
        "cold start (lookup by pod name) builds it",
    "order:accounts-kept-after-endpoints-removed":
        "EndpointIndex.UpdateServiceEndpoints with an empty list deletes the shard but keeps EndpointShards.ServiceAccounts: "
        "after the last endpoint of a service is removed the service keeps the removed workloads' identities, a cold start "
        "has none (pilot/pkg/model/endpointshards.go, DeleteServiceShard preserveKeys)",
    "order:untargeted-endpoint-pod-lookup-stale":
        "an endpoint without targetRef at a pod's address gets that pod's identity, labels and locality from the pod cache at "
        "the time its slice is handled (Controller.getPod -> getPodsByIP) and is never refreshed: neither when the pod becomes "
        "ready later (nothing is parked in needResync for it) nor when the pod changes or goes away; a cold start whose slice "
        "events run before the pod events differs from one with the opposite order",
}
LOCAL_KNOWN = [{"property_id": "C15", "status": "known", "fingerprint": k, "what": v} for k, v in WHAT.items()]


def split_cases(lines):
    cases = []
    for l in lines:
        if l.startswith("case") or not cases:
            cases.append([])
        cases[-1].append(l)
    return cases


def classify(ctx, cases, orders):
    """Ask the Lean model why ordered run and cold start (in the given kind order) differ."""
    p = os.path.join(ctx.work, "classify.ops")
    with open(p, "w") as f:
        for c, o in zip(cases, orders):
            body = [l for l in c if not l.startswith("cold")]
            f.write("\n".join(body + ["cold " + o]) + "\n")
    out = p + ".out"
    rc, err = ctx.drv("classify", p, out)
    if rc != 0:
        return None
    res = [l for l in ctx.read_lines(out) if l != "-"]
    return res if len(res) == len(cases) else None


def property_oracle(ctx, ops_path, tag):
    """The property on the real code for every case of an ops file; violations are keyed by the model's explanation."""
    out = os.path.join(ctx.work, "%s.verdict" % tag)
    if os.path.exists(out):
        os.remove(out)
    rc, log = ctx.harness("oracle", "order", ops_path, out)
    if rc != 0 or not os.path.exists(out):
        ctx.tie_broken("oracle-run", "harness oracle failed on %s: %s" % (tag, log[-2000:]))
        return
    cases = split_cases(ctx.read_lines(ops_path))
    verdicts = ctx.read_lines(out)
    if len(verdicts) != len(cases):
        ctx.tie_broken("oracle-run", "oracle printed %d verdicts for %d cases" % (len(verdicts), len(cases)))
        return
    ctx.count("oracle.cases", len(verdicts))
    failing = [(c, v) for c, v in zip(cases, verdicts) if v.startswith("FAIL")]
    ctx.count("oracle.converged", len(verdicts) - len(failing))
    todo, orders = [], []
    for c, v in failing:
        clause = v.split()[1]
        if clause != "order-vs-cold":
            ctx.violation("order:" + clause, "the real controller fails clause '%s' of the convergence oracle" % clause,
                          {"stream": "order", "ops": c, "oracle_verdict": v[:4000]}, True)
            continue
        order = [t for t in v.split() if t.startswith("cold-order=")][0][len("cold-order="):]
        todo.append((c, v))
        orders.append(order)
    if not todo:
        return
    cls = classify(ctx, [c for c, _ in todo], orders)
    if cls is None:
        ctx.tie_broken("classify", "the Lean driver could not classify the diverging cases")
        return
    for (c, v), line in zip(todo, cls):
        k = line.split()[0]
        rep = {"stream": "order", "ops": c, "oracle_verdict": v[:4000], "model_explanation": k}
        # the model must show the SAME two views as the real controller (ordered run and cold start in that order), not just
        # some divergence
        mt = dict(t.split("=", 1) for t in line.split()[1:] if "=" in t)
        ot = dict(t.split("=", 1) for t in v.split()[2:] if "=" in t)
        if mt.get("ordered") != ot.get("ordered") or mt.get("cold") != ot.get("cold"):
            rep["model_views"] = {"ordered": mt.get("ordered", "")[:2000], "cold": mt.get("cold", "")[:2000]}
            ctx.violation("order:divergence-not-reproduced-by-model",
                          "ordered run and cold start differ on the real controller, and the model's views of the same two runs "
                          "are not the real controller's", rep, True)
            continue
        if not k.startswith("cls="):
            ctx.violation("order:divergence-not-reproduced-by-model",
                          "ordered run and cold start differ on the real controller but not in the model", rep, True)
            continue
        for name in k[4:].split(","):
            fp = "order:" + name
            ctx.count("oracle.diverged." + name)
            ctx.violation(fp, WHAT.get(fp, "ordered run and cold start differ on the real controller: " + name), rep, True)


def theorem_coverage(ctx, ops_path):
    """Evaluate the hypotheses (AllGood, side conditions) and the conclusion (view = derive) of the convergence theorems on
    every generated case with the compiled Lean definitions: how many cases lie in the proved class, and that none of them
    contradicts the theorem (the ordered run of the real controller equals the model's by the differential)."""
    out = os.path.join(ctx.work, "coverage.out")
    rc, err = ctx.drv("classify", ops_path, out)
    if rc != 0:
        ctx.tie_broken("classify", "the Lean driver failed on the coverage pass: " + err[-1000:])
        return
    ops = ctx.read_lines(ops_path)
    res = ctx.read_lines(out)
    cases = split_cases(ops)
    verdicts = [l for l in res if l != "-"]
    if len(verdicts) != len(cases):
        ctx.tie_broken("classify", "coverage pass printed %d verdicts for %d cases" % (len(verdicts), len(cases)))
        return
    for c, v in zip(cases, verdicts):
        f = dict(t.split("=", 1) for t in v.split()[1:] if "=" in t)
        good, side, der = f.get("good"), f.get("side"), f.get("derive")
        cold, coldder, nodes = f.get("cold"), f.get("coldderive"), f.get("nodes")
        ctx.count("theorem.cases")
        sim = len(c) > 0 and "sim" in c[0].split()[3:4]
        if sim:
            ctx.count("theorem.sim.cases(simulated well-behaved cluster histories)")
            if good in ("1", "s"):
                ctx.count("theorem.sim.all-steps-good")
            elif good == "-":
                ctx.count("theorem.sim.stores-ahead")
        if good == "1":
            ctx.count("theorem.in-class(all steps good, nothing stale or waiting at the end)")
        elif good == "s":
            ctx.count("theorem.in-class(all steps good, a slice still stale or waiting at the end)")
        elif good == "-":
            ctx.count("theorem.outside-class(stores ahead: hold/release window)")
        else:
            ctx.count("theorem.outside-class(some step not good)")
        bad = None
        if good == "1" and side == "1":
            ctx.count("theorem.in-class-with-side-conditions")
            if der != "1":
                bad = "convergence_to_derive"
        if cold == "1":
            ctx.count("theorem.cold-start-in-class")
            if coldder != "1":
                bad = "cold_start_eq_derive"
        # the needResync clause: the real controller's needResync equals the model's line by line (differential); on a good
        # history it holds only endpoints that still wait for a pod (needResync_no_leak)
        if f.get("leak") == "1":
            ctx.count("oracle.needresync.registration-for-a-pod-that-has-arrived(outside the class)" if good not in ("1", "s")
                      else "oracle.needresync.leak-in-class")
            if good in ("1", "s"):
                bad = "needResync_no_leak"
        else:
            ctx.count("oracle.needresync.sound")
        # the podsByIP / ipByPods clause: the real pod cache equals the model's line by line (differential); after EVERY history
        # - proved class or not, stores ahead or not - it must be the function of the Pod store (PodCacheOK, evaluated)
        if f.get("pc") == "1":
            ctx.count("oracle.podcache.function-of-the-pods")
        else:
            ctx.violation("order:pod-cache-not-function-of-pods",
                          "after the history podsByIP / ipByPods are not the running ready pods of the store by IP (the real "
                          "controller's pod cache equals the model's: differential)", {"stream": "order", "ops": c, "classify": v}, True)
        if good == "1" and side == "1" and cold == "1" and nodes == "1":
            ctx.count("theorem.any_order_eq_cold_start-applies")
            if f.get("coldagree") != "1":
                bad = "any_order_eq_cold_start"
        if bad:
            ctx.violation("order:theorem-instance-contradicted",
                          "a generated history satisfies every hypothesis of %s but its conclusion, evaluated with the compiled "
                          "definitions, is false (the Lean theorem and its compiled evaluation disagree)" % bad,
                          {"stream": "order", "ops": c, "classify": v}, True)
        if der == "1":
            ctx.count("theorem.view-equals-derive")


def feature_counters(ctx, ops_path):
    """Branch counters: how many generated cases contain each of the combinations the anchored code distinguishes
    (counted once per case; evidence counters gen.*)."""
    from urllib.parse import unquote
    for c in split_cases(ctx.read_lines(ops_path)):
        pods, svcs, nss, slices = {}, {}, {}, {}
        seen = set()
        held, updated, pod_in_window, used_ips = False, set(), False, {}
        for l in c[1:]:
            f = [unquote(t) for t in l.split()]
            op = f[0]
            if op in ("hold", "release"):
                held, updated, pod_in_window = (op == "hold"), set(), False
            if op == "cold" and "rev" in l:
                seen.add("cold-start-within-kind-order-reversed")
            if held and op.startswith("del") and tuple(f[1:]) in updated:
                seen.add("update-then-delete-of-one-object-inside-a-window(" + op[3:] + ")")
            if held and op in ("pod", "svc", "slice", "ns"):
                key = tuple(f[1:3]) if op != "ns" else (f[1],)
                known = {"pod": pods, "svc": svcs, "slice": slices}.get(op)
                if (op == "ns" and f[1] in nss) or (known is not None and tuple(f[1:3]) in known):
                    updated.add(key)
            if held and op == "pod":
                pod_in_window = True
            if held and op == "svc" and pod_in_window:
                seen.add("service-write-after-pod-write-inside-a-window")
            if op == "hold":
                seen.add("hold-window(stores ahead)")
            elif op == "pod" and len(f) == 10:
                k = (f[1], f[2])
                ip, phase, ready, labels = ("" if f[3] == "~" else f[3]), f[4], f[5], f[7]
                o = pods.get(k)
                if o:
                    if o["ip"] and ip and o["ip"] != ip:
                        seen.add("pod-ip-change")
                        if o["ready"] == "1" and ready == "0":
                            seen.add("pod-ip-change-and-unready-in-one-write")
                    if o["phase"] == "F" and phase == "R":
                        seen.add("pod-failed-to-running")
                    if ("@amb" in o["labels"]) != ("@amb" in labels):
                        seen.add("pod-ambient-annotation-changed(labelFilter annotation arm)")
                    if o["node"] != f[9]:
                        seen.add("pod-node-changed-in-place")
                        if o["node"] not in ("", "~") and f[9] not in ("", "~"):
                            seen.add("pod-node-changed-in-place(k1 <-> k2)")
                    if o["sa"] != f[8]:
                        seen.add("pod-service-account-changed-in-place")
                    if ("@owner" in o["labels"]) != ("@owner" in labels) or \
                            [x for x in o["labels"].split(",") if x.startswith("@owner")] != [x for x in labels.split(",") if x.startswith("@owner")]:
                        seen.add("pod-owner-reference-changed-in-place")
                elif not ip:
                    seen.add("pod-first-event-without-ip")
                if phase == "F":
                    seen.add("pod-failed(field selector)")
                for key, name in (("istio-locality", "pod-istio-locality-label"), ("@sub", "pod-hostname-subdomain"),
                                  ("topology.istio.io/network", "pod-network-label")):
                    if key in labels:
                        seen.add(name)
                if ip:
                    if ip in used_ips and used_ips[ip] != k:
                        seen.add("ip-reuse(another pod gets the address)")
                    used_ips[ip] = k
                pods[k] = {"ip": ip, "phase": phase, "ready": ready, "labels": labels, "node": f[9], "sa": f[8]}
            elif op == "delpod" and len(f) == 3:
                pods.pop((f[1], f[2]), None)
            elif op == "svc" and len(f) == 7:
                fl = [] if f[6] in ("-", "~") else f[6].split(",")
                for key, name in (("x", "svc-exported-to-nobody"), ("std", "svc-spec-trafficDistribution"),
                                  ("csa", "svc-canonical-serviceaccounts"), ("sa", "svc-kubernetes-serviceaccounts"),
                                  ("eip", "svc-externalIPs"), ("nl", "svc-internalTrafficPolicy-Local"), ("drain", "svc-persistent-session"),
                                  ("td", "svc-traffic-distribution-annotation")):
                    if key in fl:
                        seen.add(name)
                if f[3] == "lb":
                    seen.add("svc-LoadBalancer-with-ingress")
                if f[3] == "hl":
                    seen.add("svc-headless")
                if f[3] == "ext":
                    seen.add("svc-ExternalName")
                svcs[(f[1], f[2])] = fl
            elif op == "delsvc" and len(f) == 3:
                svcs.pop((f[1], f[2]), None)
            elif op == "ns" and len(f) == 3:
                if f[2] == "close" and any(k[0] == f[1] for k in svcs):
                    seen.add("ns-annotated-while-holding-services")
                nss[f[1]] = f[2]
            elif op == "delns" and len(f) == 2:
                if nss.get(f[1]) == "close" and any(k[0] == f[1] for k in svcs):
                    seen.add("delns-of-annotated-namespace-holding-services")
                nss.pop(f[1], None)
            elif op == "slice" and len(f) == 7:
                k = (f[1], f[2])
                svc = "" if f[3] == "~" else f[3]
                if svc.startswith("M:"):
                    seen.add("slice-with-mcs-label")
                    continue
                o = slices.get(k)
                if o and o["svc"] != svc:
                    seen.add("slice-relabel")
                    if held:
                        seen.add("slice-relabel-inside-a-window")
                for e in f[6].split(","):
                    p = e.split("/")
                    if len(p) == 5 and ":" in p[4] and not p[4].startswith("!") and p[4].split(":")[0] != f[1]:
                        seen.add("endpoint-targetref-into-another-namespace")
                # the same address in two live slices of one service: a duplicate (conflicting when the endpoints differ),
                # also the middle step of the address-move macro
                mine = {e.split("/")[0].split("+")[0]: e for e in f[6].split(",") if "/" in e}
                for kk, v in slices.items():
                    if kk != k and kk[0] == f[1] and v["svc"] == svc and svc:
                        for a, e in v.get("eps", {}).items():
                            if a in mine:
                                seen.add("duplicate-address-across-slices" + ("(conflicting)" if mine[a] != e else ""))
                                if o and a not in o.get("eps", {}):
                                    seen.add("address-added-to-a-second-slice(move macro / duplicate)")
                if "nil:" in f[5] or f[5].endswith(":0") or ":0," in f[5]:
                    seen.add("slice-nil-port-name-or-number")
                if f[5] in ("-", "~"):
                    seen.add("slice-without-ports")
                if "/!" in f[6]:
                    seen.add("endpoint-nonpod-targetref")
                if "+" in f[6]:
                    seen.add("endpoint-several-addresses")
                if any(e.startswith("10.0.0.") and e.endswith("/-") for e in f[6].split(",")):
                    seen.add("endpoint-without-targetref-at-pod-address")
                slices[k] = {"svc": svc, "ports": f[5], "eps": mine}
                sib = [v for kk, v in slices.items() if kk[0] == f[1] and v["svc"] == svc and svc]
                if len(sib) >= 3:
                    seen.add("three-slices-of-one-service")
                if len({v["ports"] for v in sib}) >= 2:
                    seen.add("sibling-slices-with-different-port-lists")
            elif op == "delslice" and len(f) == 3:
                slices.pop((f[1], f[2]), None)
            elif op == "node" and len(f) == 4:
                if "L:" in f[2] or "L:" in f[3]:
                    seen.add("node-legacy-failure-domain-labels")
                if "/" in f[3]:
                    seen.add("node-subzone")
        for x in seen:
            ctx.count("gen." + x)


def barrier_probe(ctx):
    """The cold-start barrier of the real controller (Controller.Run / informersSynced): with the pod LIST refused, every
    other informer synced and a task parked on the controller's queue, nothing may run until the pod informer has synced;
    afterwards the view is the ordinary cold start's (harness/c15/barrier.go)."""
    p = os.path.join(ctx.work, "barrier.in")
    open(p, "w").write("barrier\n")
    out = os.path.join(ctx.work, "barrier.out")
    if os.path.exists(out):
        os.remove(out)
    rc, log = ctx.harness("barrier", "order", p, out)
    lines = ctx.read_lines(out) if os.path.exists(out) else []
    if rc != 0 or not lines:
        ctx.tie_broken("barrier-probe", "the cold-start barrier probe did not run: " + log[-1500:])
        return
    for l in lines:
        ctx.count("oracle.cold-start-barrier.probes")
        if l.startswith("FAIL"):
            clause = l.split()[1]
            ctx.violation("order:" + clause,
                          "the real controller's event queue ran before every informer had synced (or ended differently from an "
                          "ordinary cold start): theorem class (2) assumes the stores are full before the first handler runs",
                          {"stream": "barrier", "probe": "harness/c15/barrier.go barrierObjects: the LIST of one kind refused until "
                           "the queue has been observed idle", "verdict": l[:3000]}, True)


def _oracle_fails(ctx, stream, lines, tag):
    p = os.path.join(ctx.work, "%s.%s.ops" % (stream, tag))
    with open(p, "w") as f:
        f.write("\n".join(lines) + "\n")
    out = p + ".verdict"
    if os.path.exists(out):
        os.remove(out)
    rc, log = ctx.harness("oracle", stream, p, out)
    if rc != 0 or not os.path.exists(out):
        return None
    for v in ctx.read_lines(out):
        if v.startswith("FAIL"):
            return v
    return None


def _full_case(ctx, header, rep):
    """The unshrunk case a shrunk one came from (the shrinker keeps the `case ...` header line)."""
    src = (rep or {}).get("source", "")
    files = []
    if src.startswith("corpus:"):
        files.append(os.path.join(os.path.dirname(os.path.dirname(os.path.abspath(__file__))), "harness", "corpus", "C15", src[7:]))
    files.append(os.path.join(ctx.work, "order.gen.ops"))
    for fn in files:
        if os.path.exists(fn):
            for c in split_cases(ctx.read_lines(fn)):
                if c and c[0] == header:
                    return c
    return None


def oracle(ctx, stream, case_lines, rep):
    """Called on a model/implementation mismatch with the shrunk case: is the property itself violated there - or, since
    shrinking keeps only what is needed for the first difference, on the case it was shrunk from?"""
    cands = [("oracle", case_lines)]
    full = _full_case(ctx, case_lines[0], rep)
    if full and full != case_lines:
        cands.append(("oracle-full", full))
    for tag, lines in cands:
        v = _oracle_fails(ctx, stream, lines, tag)
        if v:
            clause = v.split()[1]
            # never a known finding: known findings are reproduced by the model, this input is not
            return ("order:%s:behaviour-outside-the-model" % clause,
                    "the real controller's final state depends on the event order (clause %s) on an input where it also "
                    "departs from the Lean model" % clause,
                    {"stream": stream, "ops": lines, "oracle_verdict": v[:4000], "correspondence": rep})
    return None


def run(ctx):
    have = {k.get("fingerprint") for k in ctx.known}
    # the committed known-findings.json is the only list of known findings (never extended at run time)
    # shrinking a failing case runs the harness once per round (seconds under load): cap it, the unshrunk case is replayable too
    _shrink = ctx.shrink
    ctx.shrink = lambda stream, case_lines, max_rounds=40: _shrink(stream, case_lines, max_rounds=min(max_rounds, 40))
    ctx.rule = ("cases = random histories (2-30 writes) of Services (ClusterIP/headless/ExternalName/LoadBalancer), EndpointSlices (1-3 per "
                "service, sibling port lists may differ: address moves, several addresses per endpoint, empty port lists, endpoints without targetRef at a pod's "
                "address or elsewhere, conflicting duplicates across slices, service-label edits), Pods (Pending then bound to a "
                "node, phases incl. Failed = eviction through the informer's field selector, readiness, IP assignment/reuse, label "
                "edits, in-place changes of node / service account / owner reference, deletion before or after the slice drops the "
                "endpoint), Nodes and Namespaces (traffic-distribution annotation) over a small universe, in one interleaving, with "
                "hold/release windows in which the informer stores run ahead of the handlers (incl. update-then-delete of one object, "
                "relabels and Service-after-Pod writes inside a window), cold starts in random kind order and within-kind order; distinct = hash of (ops, implementation outputs); non-trivial = at least one write")
    ctx.assumptions = [
        "client-go informers deliver the events of one kind in order and the handler sees the latest object of the store",
        "one registry (one cluster); workload entries, MCS and multi-network gateways are not in the universe",
        "the generator stays inside inputs on which the real result does not depend on Go map iteration order: no two cached "
        "pods share an IP used by an endpoint without targetRef (getPodsByIP ranges over a set); endpoints without targetRef at a "
        "pod's address exist only at 10.0.0.3, which only pod p3 holds; an EndpointSlice's address type never changes (immutable "
        "in the Kubernetes API); a targetRef into another namespace is generated rarely (in-place changes of such a pod are the "
        "known class pod-of-another-namespace-updated-after-slice-built: only the pod's own namespace is searched for slices)",
        "quick tier: the property oracle (five controllers per case) runs on the corpus and the first 400 of 650 generated cases; "
        "the differential, the evaluated theorem instances, the needResync and pod-cache clauses cover all of them",
        "the cold-start barrier probe waits 1.5 s for a NEGATIVE (no task ran while one informer's list was refused): it cannot "
        "raise a false alarm, and misses a broken barrier only if the controller's goroutine is stalled for the whole period; the "
        "namespace conjunct of informersSynced cannot be isolated (the discovery-namespace filter blocks on the shared informer)",
        "theorems: write-by-write histories (each event handled before the next write) in any interleaving, and the cold start "
        "in any order with Services before EndpointSlices; other stores-ahead windows are executed, not proved",
    ]
    ctx.trusted.append("pilot/pkg/serviceregistry/kube/controller/zz_verif_c15.go and pkg/queue/zz_verif_c15.go "
                       "(verif-tagged: queue push / pending count, read-only cache snapshot, VerifC15InformerSync = the conjuncts "
                       "of informersSynced)")
    ctx.trusted.append("model.NewEndpointIndexUpdater (the EndpointIndex updater the harness hands to the controller instead of the "
                       "DiscoveryServer: same SvcUpdate / EDSCacheUpdate / EDSUpdate code on the index, no push, no proxy)")
    ctx.trusted.append("kube.NewFakeClient and client-go's fake tracker stand in for the API server; the pod informer's field selector "
                       "status.phase!=Failed is emulated by list/watch reactors in the harness (a pod turning Failed is delivered as "
                       "a DELETE carrying the new object, as the API server's watch cache does)")
    ctx.lean_prove(THEOREMS)
    if not ctx.build_drv():
        return
    if not ctx.go_build():
        return
    barrier_probe(ctx)
    n = ctx.n(650, 40000)
    ctx.diff_stream("order", n, oracle=oracle)
    # the property itself on the real code, for the corpus and for every generated case
    cdir = os.path.join(os.path.dirname(os.path.dirname(os.path.abspath(__file__))), "harness", "corpus", "C15")
    if os.path.isdir(cdir):
        for f in sorted(os.listdir(cdir)):
            if f.startswith("order.") and f.endswith(".ops"):
                property_oracle(ctx, os.path.join(cdir, f), "corpus." + f[:-4])
    g = os.path.join(ctx.work, "order.gen.ops")
    if os.path.exists(g):
        # the property oracle runs five controllers per case: in the quick tier on the first 400 generated cases (the
        # differential, the evaluated theorem instances and the counters cover all of them)
        keep = ctx.n(400, 40000)
        cs = split_cases(ctx.read_lines(g))
        go = g
        if len(cs) > keep:
            go = os.path.join(ctx.work, "order.gen.oracle.ops")
            with open(go, "w") as f:
                for c in cs[:keep]:
                    f.write("\n".join(c) + "\n")
        property_oracle(ctx, go, "order.gen")
        theorem_coverage(ctx, g)
        feature_counters(ctx, g)


def replay(ctx, path):
    import json
    have = {k.get("fingerprint") for k in ctx.known}
    # the committed known-findings.json is the only list of known findings (never extended at run time)
    obj = json.load(open(path))
    rep = obj.get("replay", {})
    ops = rep.get("ops") or (rep.get("extra") or {}).get("ops")
    if not ops:
        ctx.log("replay file has no ops; re-running the full check")
        return run(ctx)
    if not (ctx.build_drv() and ctx.go_build()):
        return
    p = os.path.join(ctx.work, "replay.ops")
    with open(p, "w") as f:
        f.write("\n".join(ops) + "\n")
    ok, impl, model, log = ctx.run_pair("order", p, "replay")
    m = ctx.compare("order", p, impl, model)[2] if ok else None
    if m is not None:
        found = oracle(ctx, "order", ops, m.to_json())
        if found:
            ctx.violation(found[0], found[1], found[2], True)
        else:
            ctx.tie_broken("correspondence:order", "replayed case still differs between model and implementation", m.to_json())
    property_oracle(ctx, p, "replay")
    if ok:
        ctx.account("order", p, impl)


MANIFEST = {
    "level_text": ("Lean 4 proof over an exact executable model of the kube registry controller's caches (PodCache podsByIP/ipByPods/"
                   "needResync, endpointSliceCache incl. its name-ordered get, servicesMap, the EndpointIndex shard), of the informer "
                   "stores (handlers read the latest object) and of the event queue. Proved for two classes of schedules: (1) every "
                   "history handled write by write (each event and the replays it queues run before the next write), in ANY "
                   "interleaving of the per-kind streams, whose steps satisfy the explicit decidable conditions GoodStep - "
                   "handlers_preserve_inv, convergence_any_order (caches = handler-function of the current objects; podsByIP/ipByPods "
                   "= the running ready pods of the store, pod IP changes of a ready pod included; a slice seen BEFORE its pod waits "
                   "through the pod's Pending events without IP and is repaired by the event that carries the address; a pod bound "
                   "to its node after the slice was handled replays the slice; a pod deleted before the slice controller drops its "
                   "endpoint leaves that slice exempt until its next write), needResync_no_leak, convergence_to_derive (= the spec "
                   "derive, exact endpoint list incl. conflicting duplicates), order_independent; (2) the cold start - all stores "
                   "filled before the first handler runs, Add events in ANY order with Services before EndpointSlices - "
                   "cold_start_inv, cold_start_eq_derive (derive is the model's own cold start), any_order_eq_cold_start (a good "
                   "history shows what the cold start on its final objects shows). CAVEAT on the conclusion: 'shows the same' is "
                   "ViewAgree = same Service, same endpoint list, and the same service accounts ONLY for a hostname that has "
                   "endpoints; for a hostname whose endpoint list is empty the service accounts are outside the conclusion - after "
                   "the last endpoint goes the index keeps the old accounts, a cold start has none: that is the known finding "
                   "accounts-kept-after-endpoints-removed (a history of the proved class, kernel-evaluated in Examples.lean), not "
                   "something the theorems exclude; derive returns the Service of the store, which is what servicesMap holds only "
                   "without a namespace-wide traffic-distribution annotation (hypothesis of every theorem that mentions derive). "
                   "NOT covered by a theorem, only generated, run on model and real controller and compared with the cold start by "
                   "the oracle: windows in which the stores run ahead of the handlers in the middle of a history (hold/release); "
                   "Namespace writes that change the traffic-distribution annotation of a namespace holding Services "
                   "(reprocessServicesInNamespace, fix 70cda90) and any namespace-wide annotation in the cold start; EndpointSlice "
                   "writes that change the service-name label (fix 1e33f42); a pod whose IP changes in the same update in which it "
                   "stops being ready; steps of the finding classes (label edit on a pod that is not ready, Node or Service learnt "
                   "after the slice, ...). Never generated: a change of an EndpointSlice's address type (immutable in the Kubernetes "
                   "API; the real controller keeps the old entry). That the REAL controller does not start its queue before every "
                   "informer has synced (Controller.Run / informersSynced - the premise of class (2)) has no model: it is probed on "
                   "every run with a gated pod list (harness/c15/barrier.go). One witness theorem per order dependence the "
                   "conditions exclude. The model is tied to /repo on every run by a line-by-line differential (exact endpoint "
                   "lists) against a REAL controller on kube.NewFakeClient fed the same object history in the same interleaving, and "
                   "the property itself (ordered run = cold start on the final objects, endpoint and account SETS) is evaluated on "
                   "the real code. Observed at the controller's Services() and at the EndpointIndex shard of this registry (what "
                   "EDS generation reads), not at the EDS response for a proxy; pilot/pkg/serviceregistry/aggregate, NodePort "
                   "gateway Services (onNodeEvent with node addresses) and network gateways are not covered."),
    "level_note": ("Trusted: Lean kernel + {propext, Classical.choice, Quot.sound}; the hand-written model (tied by differential testing); "
                   "two verif-tagged accessor files; the fake Kubernetes client with an emulated pod field selector. One registry only; "
                   "workload entries, MCS, multi-network not modelled; pilot/pkg/serviceregistry/aggregate (merging several registries) is not covered. The real controller is NOT confluent on all histories: the "
                   "order dependences found are listed as findings (five repaired by fix: commits, the others known) and the "
                   "convergence theorems carry explicit decidable hypotheses that exclude exactly those classes; a divergence of the "
                   "real controller is accepted as known only when the Lean model reproduces it AND names, as its cause, a step of "
                   "the history that violates the GoodStep clause of that class."),
    "technique": "Lean 4 theorems over an exact model of the controller caches + differential correspondence with the real controller + property oracle (ordered run vs cold start)",
    "design_ref": "DESIGN.md section 5 C15",
}
