"""C20 - Traffic-capture rules redirect exactly the intended packets and never loop.

Proof: lean/IstioModel/C20/Theorems.lean - compiler correctness of the istio-iptables rule
compiler (Model.lean `compile`, a branch-for-branch model of IptablesConfigurator.Run) against a
netfilter semantics written from the iptables documentation (Netfilter.lean), for every
configuration and every packet.
Tie: T-diff, three streams on every run
  rules   : the REAL IptablesConfigurator.Run() (repo's DependenciesStub) -> iptables-restore text,
            must equal the Lean compiler's output line for line (v4 and v6), plus the log of external
            commands with their arguments (iptables-save / iptables-restore --noflush ...);
  env     : same, but the configuration is built the way the binary builds it: config.DefaultConfig(),
            the real flag set (bindCmdlineFlags through the verif hook) parsing real arguments, then
            Config.FillConfigFromEnvironment() (env variables, pod address family, /etc/resolv.conf);
  sem     : a Go reference netfilter interpreter over that REAL text vs the Lean semantics over the
            Lean-compiled rules, on boundary packets (validates Netfilter.lean by N-version);
  packets : the same interpreter over the REAL text vs the Lean *spec* (`specFate`: the capture
            policy stated on configuration and packet, no rules involved);
  cleanup : the REAL Run with CleanupOnly against an in-memory iptables holding the configuration's own rules
            vs the Lean cleanup model (Cleanup.lean): rules and chains left per family.
On break: harness `oracle` states the property's clauses in Go directly on the real rule text.
"""
import os

THEOREMS = ["IstioModel.C20.Theorems", "IstioModel.C20.CleanupTheorems"]
STREAMS = ("rules", "env", "cmd", "sem", "packets")


def _case_at(ctx, ops, i):
    lines = ctx.read_lines(ops)
    starts = [k for k, l in enumerate(lines) if l.startswith("case")]
    s = starts[i]
    e = starts[i + 1] if i + 1 < len(starts) else len(lines)
    return lines[s:e]


def _clause_class(cfg_line, verdict):
    """Stable fingerprint: the violated clause, the coarse configuration class and the packet class
    (hook, protocol, family, lo or not, connection state)."""
    t = verdict.split()
    clause = t[1].split(":")[0] if len(t) > 1 else "unknown"
    if len(t) > 1 and t[1].startswith("config_contract:"):
        clause = ":".join(t[1].split(":")[:2])      # config_contract:<field>
    f = cfg_line.split()
    cls = []
    if len(f) >= 25:
        cls.append("tproxy" if f[6] == "TPROXY" else "redirect")
        if f[18] == "1":
            cls.append("dns")
        if f[0] == "cfg" and f[21] == "1":
            cls.append("v6")
        if f[0] == "envcfg":
            cls.append("env")
        if f[0] == "cmdcfg":
            cls.append("cmd")
    pk = ""
    for x in t[2:]:
        if x.startswith("packet=p_"):
            q = x[len("packet="):].split("_")
            if len(q) >= 13:
                lo = "lo" if "lo" in (q[8], q[9]) else "nolo"
                pk = ":" + "-".join([q[1], q[3], "v" + q[2], lo, q[12].lower()])
    return clause + ":" + "+".join(cls) + pk


def oracle(ctx, stream, case_lines, rep):
    """Property-level search on the implementation: first the shrunk case, then everything generated."""
    cands = []
    p = os.path.join(ctx.work, "%s.oracle.ops" % stream)
    with open(p, "w") as f:
        f.write("\n".join(case_lines) + "\n")
    cands.append(p)
    if not getattr(ctx, "replay_only", False):   # a replay judges the replayed case alone, never leftover generated files
        for st in STREAMS:
            g = os.path.join(ctx.work, "%s.gen.ops" % st)
            if os.path.exists(g):
                cands.append(g)
    for ops in cands:
        st = "rules" if os.path.basename(ops).split(".")[0] in ("rules", "env", "cmd") else "packets"
        out = ops + ".verdict"
        rc, log = ctx.harness("oracle", st, ops, out)
        if rc != 0 or not os.path.exists(out):
            continue
        for i, v in enumerate(ctx.read_lines(out)):
            if v.startswith("FAIL"):
                case = _case_at(ctx, ops, i)
                cfg = next((l for l in case if l.split(" ", 1)[0] in ("cfg", "envcfg", "cmdcfg")), "")
                return ("c20:" + _clause_class(cfg, v),
                        "the real istio-iptables code violates clause '%s' (oracle on the real output)" % v.split()[1],
                        {"stream": st, "ops": case, "oracle_verdict": v, "correspondence": rep})
    return None


def oracle_cleanup(ctx, stream, case_lines, rep):
    """Stream cleanup disagrees with the Lean cleanup model: judge the case with the apply stream's clauses
    (CleanupOnly over the configuration's own rules: nothing may be left but the registered jump-target-only class)."""
    cfg = next((l for l in case_lines if l.startswith("cfg ")), None)
    if not cfg:
        return None
    p = os.path.join(ctx.work, "cleanup.oracle.ops")
    with open(p, "w") as f:
        f.write("\n".join(["case 0 apply", cfg, cfg, "apply same 0 0 1 0 ok"]) + "\n")
    out = p + ".verdict"
    rc, log = ctx.harness("oracle", "apply", p, out)
    for v in (ctx.read_lines(out) if rc == 0 and os.path.exists(out) else []):
        if v.startswith("FAIL"):
            clause = v.split()[1]
            return ("c20:%s:prior=same+cleanup=true" % clause,
                    "CleanupOnly over the configuration's own rules violates clause '%s' on the real code" % clause,
                    {"stream": "cleanup", "ops": case_lines, "oracle_verdict": v, "correspondence": rep})
    return None


def _oracle_all(ctx):
    """Second line, independent of the model: the Go statement of the property over every generated case."""
    for st in STREAMS:
        files = [os.path.join(ctx.work, "%s.gen.ops" % st)]
        cdir = os.path.join(os.path.dirname(ctx.work), "..", "harness", "corpus", ctx.pid)
        files += [os.path.join(cdir, f) for f in sorted(os.listdir(cdir)) if f.startswith(st + ".")] if os.path.isdir(cdir) else []
        for g in files:
            if not os.path.exists(g):
                continue
            out = os.path.join(ctx.work, os.path.basename(g) + ".verdict")
            rc, log = ctx.harness("oracle", "rules" if st in ("rules", "env", "cmd") else "packets", g, out)
            if rc != 0 or not os.path.exists(out):
                ctx.tie_broken("oracle-run:" + st, log)
                continue
            verdicts = ctx.read_lines(out)
            ctx.count("oracle.%s.cases" % st, len(verdicts))
            if os.path.exists(out + ".stats"):   # how often each clause's antecedent held
                for l in ctx.read_lines(out + ".stats"):
                    k, n = l.split()
                    ctx.count("oracle.clause." + k, int(n))
            harness_errors = [v for v in verdicts if v.startswith("HARNESS")]
            if harness_errors:   # the machine, not the code: e.g. the cmd stream's child process could not be started
                ctx.count("oracle.%s.harness-errors" % st, len(harness_errors))
                ctx.tie_broken("harness-error:" + st, "%d case(s) could not be run: %s" % (len(harness_errors), harness_errors[0]))
            seen_known = set()
            for i, v in enumerate(verdicts):
                if v.startswith("KNOWN"):   # a registered class, recognised by its cause: KNOWN-FINDING, counted
                    fp = v.split()[1]
                    ctx.count("oracle.known." + fp.split(":", 1)[1])
                    if fp not in seen_known:
                        seen_known.add(fp)
                        ctx.violation(fp, OBSERVATIONS.get(fp, v), {"stream": st, "ops": _case_at(ctx, g, i), "oracle_verdict": v}, True)
            for i, v in enumerate(verdicts):
                if v.startswith("FAIL"):
                    case = _case_at(ctx, g, i)
                    cfg = next((l for l in case if l.split(" ", 1)[0] in ("cfg", "envcfg", "cmdcfg")), "")
                    ctx.violation("c20:" + _clause_class(cfg, v),
                                  "the real istio-iptables code violates clause '%s' (oracle on the real output)" % v.split()[1],
                                  {"stream": st, "ops": case, "oracle_verdict": v}, True)
                    break


LIVE_BUDGET_S = 30.0


def _live(ctx):
    """Optional grounding on the real tools: a live probe of the kernel facts Netfilter.lean assumes, and
    acceptance of a deterministic sample of the REAL restore texts by the installed iptables-restore /
    ip6tables-restore --noflush, both inside `unshare -n`. Skipped silently when unshare / iptables-restore /
    a usable namespace is not available or too slow; the whole step is capped at LIVE_BUDGET_S seconds of wall
    time. Evidence only, with one exception: when the probe RAN (its baseline fact is OK) and reports that
    nat/PREROUTING IS consulted for a local connection re-entering on lo, the kernel fact the cross-hook
    theorems rest on (natConsulted) does not hold on this kernel: that breaks the tie."""
    import re
    import shutil
    import subprocess
    import time
    t_end = time.time() + LIVE_BUDGET_S
    left = lambda: max(0.0, t_end - time.time())
    live = {"available": False, "budget_s": LIVE_BUDGET_S}
    ctx.extra["live"] = live
    if not (shutil.which("unshare") and shutil.which("iptables-restore") and shutil.which("ip6tables-restore")):
        return
    try:
        ok = subprocess.run(["unshare", "-n", "iptables-restore", "--noflush"], input=b"*nat\nCOMMIT\n",
                            capture_output=True, timeout=min(10, left())).returncode == 0
    except Exception:
        ok = False
    if not ok:
        return
    live["available"] = True
    probe = os.path.join(os.path.dirname(os.path.dirname(os.path.abspath(__file__))), "harness", "c20", "probe.py")
    try:
        r = subprocess.run(["unshare", "-n", "python3", probe], capture_output=True, timeout=max(1, min(15, left())), text=True)
        facts = [l.split()[1:3] for l in r.stdout.split("\n") if l.startswith("FACT ") and len(l.split()) >= 3]
        live["kernel_facts"] = {k: v for k, v in facts}
        ctx.count("live.kernel_facts.ok", sum(1 for _, v in facts if v == "OK"))
        ctx.count("live.kernel_facts.different", sum(1 for _, v in facts if v != "OK"))
        fd = dict(facts)
        ran = fd.get("baseline-refused") == "OK" and fd.get("nat-OUTPUT-REDIRECT-captures-local-connection") == "OK"
        for k, v in facts:
            if v != "OK":
                ctx.log("live probe: kernel fact '%s' differs from Netfilter.lean's assumption" % k)
                if ran and k.startswith("nat-PREROUTING-not-consulted-"):
                    ctx.tie_broken("kernel-fact:" + k,
                                   "the live probe ran on this kernel and found nat/PREROUTING consulted for a locally generated "
                                   "connection re-entering on lo; natConsulted (Netfilter.lean) and every cross-hook theorem assume the "
                                   "opposite:\n" + r.stdout[-2000:])
    except Exception:
        pass
    # acceptance of real restore texts
    ops = os.path.join(ctx.work, "rules.gen.ops")
    impl = os.path.join(ctx.work, "rules.run.impl")
    if not (os.path.exists(ops) and os.path.exists(impl)):
        return
    o, m = ctx.read_lines(ops), ctx.read_lines(impl)
    cases, cur = [], None
    for i, l in enumerate(o):
        if l.startswith("case"):
            if len(cases) > 2000:
                break
            cur = {"v4": [], "v6": []}
            cases.append(cur)
        elif l.startswith("r ") and cur is not None and i < len(m) and m[i] != "none":
            cur["v4" if l.split()[1] == "4" else "v6"].append(m[i])
    named = re.compile(r"--(?:uid|gid)-owner (?![0-9]+( |$))")
    tried = accepted = known_argc = 0
    rejected = []
    for c in cases:
        if tried >= ctx.n(40, 400) or left() < 1.0:
            break
        text4, text6 = "\n".join(c["v4"]) + "\n", "\n".join(c["v6"]) + "\n"
        if not c["v4"] or named.search(text4) or named.search(text6):
            continue  # group / user names the sandbox cannot resolve
        try:
            script = "iptables-restore --noflush < %s" % os.path.join(ctx.work, "live.v4")
            open(os.path.join(ctx.work, "live.v4"), "w").write(text4)
            if c["v6"]:
                open(os.path.join(ctx.work, "live.v6"), "w").write(text6)
                script += " && ip6tables-restore --noflush < %s" % os.path.join(ctx.work, "live.v6")
            r = subprocess.run(["unshare", "-n", "sh", "-c", script], capture_output=True, timeout=max(1, min(5, left())), text=True)
            tried += 1
            if r.returncode == 0:
                accepted += 1
            elif "cannot handle more arguments" in (r.stderr or r.stdout) and max(l.count("--gid-owner") for l in c["v4"]) >= 50:
                known_argc += 1   # recorded class c20:owner-groups-over-argc-limit, confirmed by the real tool
            else:
                rejected.append((r.stderr or r.stdout).strip()[:200])
        except Exception:
            break  # too slow here: stop sampling, keep what we have
    live["restore_texts_tried"], live["restore_texts_accepted"] = tried, accepted
    live["restore_rejections"] = rejected[:5]
    ctx.count("live.restore.accepted", accepted)
    ctx.count("live.restore.rejected", tried - accepted - known_argc)
    ctx.count("live.restore.rejected-known-owner-groups-argc", known_argc)
    for msg in rejected[:3]:
        ctx.log("live acceptance: the installed iptables-restore refused a generated text (evidence only): " + msg)


# Observations that touch a clause of the property on configurations a user can set, reproduced on the
# real code on every run (harness `finding`). They become KNOWN-FINDING lines once the coordinator
# registers the fingerprint in known-findings.json; until then they are counted in the evidence only.
OBSERVATIONS = {
    "c20:gid-dns53-delivery-loop":
        "GENUINE LOOP: TPROXY mode + DNS capture: the proxy's own delivery (uid 0 / gid = proxy GID, mark = TPROXY mark, on lo) to "
        "podIP:53/tcp is redirected back to the proxy's inbound port by the GID block's call-to-self rule, which lacks the port-53 "
        "exemption of the UID block",
    "c20:loopback-included-delivery-loop":
        "GENUINE LOOP: TPROXY mode + a loopback range in OUTBOUND_IP_RANGES_INCLUDE: the bypass rules are not emitted and every "
        "delivery of the uid-0 / gid-proxy proxy on lo is redirected back to its inbound port",
    "c20:owner-groups-over-argc-limit":
        "Config.Validate admits up to 64 owner groups to include, the single rule listing them has 5 words per group, and from 50 "
        "groups on iptables-restore refuses the input (\"Parser cannot handle more arguments\", 254 per line): nothing is installed",
    "c20:cleanup-leaves-jump-target-only-chain":
        "CleanupOnly leaves an empty ISTIO chain behind when the configuration declares a chain it never puts a rule into "
        "(buildCleanupRules only flushes / deletes chains that own a rule): no proxy identity (--proxy-uid=, --proxy-gid=,), DNS "
        "capture with servers of one family only, IPv6 on -> raw/ISTIO_OUTPUT_DNS survives in the other family",
    "c20:kubevirt-ignores-outbound-exclusions":
        "traffic entering on a KUBE_VIRT_INTERFACES interface is redirected to the outbound port by the included ranges only: "
        "excluded destination ranges, excluded ports and loopback destinations are not honoured",
    "c20:kubevirt-tproxy-double-capture":
        "with KUBE_VIRT_INTERFACES in TPROXY mode one packet is handed to TPROXY (inbound port) in mangle and redirected "
        "(outbound port) in nat",
}


def _observations(ctx):
    out = os.path.join(ctx.work, "findings.out")
    rc, log = ctx.harness("finding", out)
    if rc != 0 or not os.path.exists(out):
        ctx.tie_broken("finding-run", log)
        return
    registered = {k.get("fingerprint") for k in ctx.known if k.get("status") == "known"}
    for l in ctx.read_lines(out):
        f = l.split()
        if len(f) < 2 or f[0] not in OBSERVATIONS:
            continue
        name = f[0].split(":", 1)[1]
        if f[1] == "REPRODUCED":
            ctx.count("observation.%s.reproduced" % name)
            if f[0] in registered:
                ctx.violation(f[0], OBSERVATIONS[f[0]], {"observation": l}, True)
            else:
                ctx.log("observation reproduced on the real code (not registered as known finding): " + f[0])
        else:
            ctx.count("observation.%s.gone" % name)
            ctx.log("observation no longer reproduces: " + f[0])


def _go_build(ctx):
    """Harness build with a private build cache (work/C20/gocache: a trimmed or concurrently rewritten shared
    cache must not read as "the harness no longer builds") and up to three attempts when the failure is an
    environmental one (missing cache entries / files vanishing mid-build), never when it is a compile error in
    the hook or the harness."""
    import time
    os.environ["GOCACHE"] = os.path.join(ctx.work, "gocache")
    for attempt in range(3):
        n = len(ctx.violations)
        if ctx.go_build():
            return True
        detail = json_detail(ctx.violations[n:]) if len(ctx.violations) > n else ""
        environmental = any(k in detail for k in ("could not import", "no such file or directory", "go-build", "cache", "signal: killed",
                                                  "resource temporarily unavailable", "cannot allocate memory"))
        compile_error = any(k in detail for k in ("undefined:", "cannot use", "syntax error", "declared and not used", "not enough arguments",
                                                  "too many arguments", "has no field or method"))
        if attempt == 2 or compile_error or not environmental:
            return False
        ctx.log("harness build failed for an environmental reason (attempt %d), retrying" % (attempt + 1))
        for v in ctx.violations[n:]:
            try:
                os.remove(v["path"])
            except OSError:
                pass
        del ctx.violations[n:]
        time.sleep(5 * (attempt + 1))
    return False


def json_detail(vs):
    import json
    out = ""
    for v in vs:
        try:
            out += json.dumps(json.load(open(v["path"])).get("replay", {}))
        except Exception:
            pass
    return out


def _apply_stream(ctx):
    """Oracle-only stream `apply`: the REAL Run (VerifyIptablesState, GetStateFromSave, -C check rules, guardrails,
    buildCleanupRules/UndoRules, the CleanupOnly / Reconcile / ForceApply guards, the ip6tables-detection failure
    branch) against a stateful in-memory iptables (harness/c20/sim.go) holding a clean / identical / other
    configuration's rules plus foreign rules; clauses on the final table content. No Lean model behind it."""
    ops = os.path.join(ctx.work, "apply.gen.ops")
    out = ops + ".verdict"
    rc, log = ctx.harness("gen", "apply", ctx.seed, ctx.n(1200, 15000), ops)
    if rc != 0 or not os.path.exists(ops):
        ctx.tie_broken("harness-gen:apply", log)
        return
    rc, log = ctx.harness("oracle", "apply", ops, out)
    if rc != 0 or not os.path.exists(out):
        ctx.tie_broken("oracle-run:apply", log)
        return
    verdicts = ctx.read_lines(out)
    lines = ctx.read_lines(ops)
    starts = [k for k, l in enumerate(lines) if l.startswith("case")] + [len(lines)]
    ctx.count("oracle.apply.cases", len(verdicts))
    if os.path.exists(out + ".stats"):
        for l in ctx.read_lines(out + ".stats"):
            k, n = l.split()
            ctx.count("oracle.clause." + k, int(n))
    ctx.streams["apply"] = {"cases": len(verdicts), "ops": len(lines), "agree": True, "oracle_only": True}
    for i, v in enumerate(verdicts):
        if i + 1 < len(starts):
            ctx.note_case("apply\n" + "\n".join(lines[starts[i] + 1:starts[i + 1]]), True, None)
        if v.startswith("OBS"):
            ctx.count("oracle.apply.observed." + v.split()[1].split(":", 1)[1])
        elif v.startswith("KNOWN"):   # registered class, recognised by its cause (any other leftover stays a VIOLATION)
            fp = v.split()[1]
            ctx.count("oracle.known." + fp.split(":", 1)[1])
            ctx.violation(fp, OBSERVATIONS.get(fp, v), {"stream": "apply", "ops": _case_at(ctx, ops, i), "oracle_verdict": v}, True)
        elif v.startswith("FAIL"):
            ctx.streams["apply"]["agree"] = False
            case = _case_at(ctx, ops, i)
            clause = v.split()[1]
            cls = "+".join(x for x in v.split()[2:6] if "=" in x and not x.endswith("=false"))
            ctx.violation("c20:%s:%s" % (clause, cls),
                          "applying the rules over existing table content violates clause '%s' on the real code" % clause,
                          {"stream": "apply", "ops": case, "oracle_verdict": v}, True)
            break


def _nontrivial(case_ops, case_out):
    return len(case_out) > 1 and case_out[1].startswith("ok")


def run(ctx):
    ctx.rule = ("cases = random capture configurations over the property's grammar (include/exclude CIDRs incl. '*', empty and "
                "malformed, inbound/outbound port lists, excluded and kube-virt interfaces, 0-3 proxy UIDs/GIDs, REDIRECT/TPROXY, "
                "DNS capture, IPv6 on/off, owner-group filters, loopback CIDR), accepted or refused exactly as Config.Validate and "
                "Run do; rules stream: every line of the v4 and v6 iptables-restore input; sem/packets streams: 40 boundary packets "
                "per configuration (edges of every CIDR +-1, every port +-1, every UID/GID and strangers, lo/eth0/excluded "
                "interfaces, tcp/udp/other, conntrack states, marks); distinct = hash of (ops, implementation outputs); "
                "non-trivial = configuration accepted by the real code")
    ctx.assumptions = [
        "kernel netfilter behaves as lean/IstioModel/C20/Netfilter.lean says (written from the iptables manual pages; cross-checked on "
        "every run against a second, independently written interpreter, and - where unshare -n and iptables-restore exist - against "
        "live kernel probes; in particular nat/PREROUTING is not consulted for a locally generated connection re-entering on lo)",
        "the raw table (CT --zone rules of DNS capture) has no semantics in the model: it is proved never to decide or change a packet, "
        "conntrack zones themselves are only compared as rule text",
        "rules are restored into empty tables (pod network namespace); pre-existing rules are outside the model",
        "packets at OUTPUT carry a socket owner; UID/GID/group/interface names are canonical tokens compared by equality "
        "(no 'eth+' wildcards, no numeric aliases of names); ports and marks are canonical decimal numerals",
        "CONNMARK state across packets of a connection, the TPROXY policy routing (ip rule / ip route) and the nftables backend are not modelled",
    ]
    ctx.assumptions += [
        "host inputs of FillConfigFromEnvironment (/etc/resolv.conf, /etc/passwd, interface addresses) are synthetic per case in a private "
        "mount namespace when the harness may unshare one, otherwise observed on the machine - 'cannot be read' included - and recorded in the case",
        "the oracle's delivery_loop clause excludes the two registered known-finding classes (c20:gid-dns53-delivery-loop, "
        "c20:loopback-included-delivery-loop); they are reproduced separately on every run",
        "in TPROXY mode the proxy does not run under the FIRST configured proxy identity (injection template: uid 0 / gid 1337): nat cannot "
        "see marks, so a first-identity packet carrying the TPROXY mark is indistinguishable from the legitimate call-to-self",
    ]
    ctx.assumptions += [
        "conntrack: the nat table is walked for the packet that creates a conntrack entry - state NEW, or RELATED standing for the first "
        "packet of an expected connection (nf_nat_inet_fn); ESTABLISHED / INVALID packets never reach it. Not probed live.",
        "argument limits of the restore tools: at most 251 words per rule line (iptables 1.8.x MAX_ARGC 255); `rulesOf_wellFormed` holds "
        "for at most 49 included owner groups, the 50..64 range Validate admits is the recorded class c20:owner-groups-over-argc-limit",
        "generated values are canonical: no blanks inside lists ('80, 443'), no '*' as a list ELEMENT, no hexadecimal marks (the real code "
        "passes such tokens through to iptables unvalidated; the model answers `unmodelled`)",
        "stream cmd runs the real command always with --dry-run (nothing may touch the machine's tables); the real-dependencies branch of "
        "ProgramIptables and Run's deferred iptables-save are not exercised",
        "stream apply has no Lean model except for the cleanup step (Cleanup.lean: buildCleanupRules / UndoRules over tables holding the "
        "configuration's own rules, tied by stream cleanup): VerifyIptablesState, the guardrail / check builders, GetStateFromSave and "
        "HasIstioLeftovers run under Go oracle clauses only, against the in-memory iptables of sim.go; configurations without any proxy "
        "identity are generated there too (reachable with --proxy-uid=, --proxy-gid=,) and their CleanupOnly leftover is the recorded, "
        "cause-keyed class c20:cleanup-leaves-jump-target-only-chain",
    ]
    ctx.trusted.append("harness/c20/interp.go: Go reference netfilter interpreter and the Go statement of the property (oracle)")
    ctx.trusted.append("tools/istio-iptables/pkg/cmd/zz_verif_c20.go (verif-tagged accessor for bindCmdlineFlags)")
    ctx.trusted.append("harness/c20/sim.go: the stateful in-memory iptables / iptables-save / iptables-restore of the apply stream")
    ctx.trusted.append("harness/c20/real.go `contract` (literal flag / shorthand / environment-variable names) and packets.go `intended()` / "
                       "`mustRefuse()` (the documented meaning of an invocation, written independently of tools/common/config)")
    ctx.trusted.append("harness/c20/probe.py (live kernel probe, optional) and harness/c20/host.go (private mount namespace for /etc)")
    # nothing generated by an earlier run may take part in this one (the oracle scans *.gen.ops)
    for f in os.listdir(ctx.work):
        if f.endswith((".gen.ops", ".verdict", ".stats", ".oracle.ops", ".run.impl", ".run.model")) or f == "findings.out":
            try:
                os.remove(os.path.join(ctx.work, f))
            except OSError:
                pass
    proved = ctx.lean_prove(THEOREMS)
    if not ctx.build_drv():
        return
    if not _go_build(ctx):
        return
    ctx.diff_stream("rules", ctx.n(3000, 40000), oracle=oracle, nontrivial=_nontrivial)
    ctx.diff_stream("env", ctx.n(1500, 20000), oracle=oracle, nontrivial=_nontrivial)
    ctx.diff_stream("cmd", ctx.n(400, 4000), oracle=oracle, nontrivial=lambda o, r: len(r) > 1 and (r[1].startswith("ok") or r[1] == "refused"))
    ctx.diff_stream("sem", ctx.n(2000, 25000), oracle=oracle, nontrivial=_nontrivial)
    ctx.diff_stream("packets", ctx.n(4000, 60000), oracle=oracle, nontrivial=_nontrivial)
    # CleanupOnly over the configuration's own rules: the real Run against the in-memory iptables vs the Lean cleanup
    # model (Cleanup.lean; `cleanup_residue_exact`: what is left is exactly the jump-target-only chains)
    ctx.diff_stream("cleanup", ctx.n(1500, 15000), oracle=oracle_cleanup, nontrivial=_nontrivial)
    _oracle_all(ctx)
    _apply_stream(ctx)
    _observations(ctx)
    _live(ctx)
    # distribution of what the real rules did with the generated packets, and of the configuration classes
    for st in ("sem", "packets"):
        impl = os.path.join(ctx.work, "%s.run.impl" % st)
        if os.path.exists(impl):
            for l in ctx.read_lines(impl):
                if l.startswith("pass"):
                    f = l.split()
                    kind = "tproxy" if f[1] != "tproxy=-" else ("redirect" if f[2] != "redirect=-" else "untouched")
                    ctx.count("%s.fate.%s" % (st, kind))
                elif l in ("drop", "loop"):
                    ctx.count("%s.fate.%s" % (st, l))
    for st in ("rules", "env", "cmd"):
        impl = os.path.join(ctx.work, "%s.run.impl" % st)
        ops_ = os.path.join(ctx.work, "%s.gen.ops" % st)
        if os.path.exists(impl) and os.path.exists(ops_):
            o_, m_ = ctx.read_lines(ops_), ctx.read_lines(impl)
            for i, l in enumerate(o_):
                w = l.split(" ", 1)[0]
                if w in ("cfg", "envcfg", "cmdcfg") and i < len(m_):
                    ctx.count("%s.status.%s" % (st, m_[i].split()[0].split("%")[0]))
                if w in ("envcfg", "cmdcfg"):
                    f = l.split()
                    via = f[-1]
                    ctx.count("%s.host.%s" % (st, "synthetic-namespace" if "ns=1" in via else "observed"))
                    ctx.count("%s.resolvconf.%s" % (st, "unreadable" if f[26] == "!" else ("empty" if f[26] == "-" else "servers")))
                    ctx.count("%s.dualstack.%s" % (st, f[27]))
                    for part in via.split(","):
                        part = part.replace("%3D", "=").replace("%3A", ":")
                        if "=" in part and not part.startswith(("raw:", "pw:", "decoy:", "user=", "binary=")):
                            ctx.count("%s.source.%s" % (st, part.split("=", 1)[1] if part.split("=", 1)[0] not in ("ns", "skip", "addrerr", "dryrun") else part.split("=", 1)[0]))
                        elif part.startswith(("raw:", "decoy:", "empty:", "binary=")):
                            ctx.count("%s.source.%s" % (st, part.split(":", 1)[0].split("=", 1)[0]))
    aops = os.path.join(ctx.work, "apply.gen.ops")
    if os.path.exists(aops):
        for l in ctx.read_lines(aops):
            if l.startswith("apply "):
                f = l.split()
                ctx.count("apply.prior." + f[1])
                ctx.count("apply.flags.reconcile%s-cleanup%s-force%s" % (f[3], f[4], f[5]))
                ctx.count("apply.detection." + f[6])
    ops = os.path.join(ctx.work, "rules.gen.ops")
    if os.path.exists(ops):
        for l in ctx.read_lines(ops):
            if l.startswith("cfg "):
                f = l.split()
                ctx.count("rules.cfg.mode." + ("tproxy" if f[6] == "TPROXY" else "redirect"))
                ctx.count("rules.cfg.ipv6." + f[21])
                ctx.count("rules.cfg.redirect-dns-flag." + f[18])
                ctx.count("rules.cfg.dns-capture-effective." + ("1" if f[18] == "1" and (f[20] == "1" or f[22] != "-" or f[23] != "-") else "0"))
                ctx.count("rules.cfg.include." + ("wildcard" if f[14] == "*" else ("none" if f[14] == "~" else "cidrs")))
                ctx.count("rules.cfg.inbound." + ("wildcard" if f[8] == "*" else ("none" if f[8] == "~" else "ports")))
                ctx.count("rules.cfg.kubevirt." + ("0" if f[16] == "~" else "1"))
                ctx.count("rules.cfg.ownergroups." + ("default" if (f[10] == "*" and f[11] == "~") else "filtered"))
                # cross-dimension: mode x effective DNS capture x IPv6 x inbound selection x identities
                ids = ("uid" if f[4] not in ("~", "%2C") else "") + ("gid" if f[5] not in ("~", "%2C") else "") or "none"
                ctx.count("rules.cfg.cross.%s+dns%s+v6%s+in-%s+%s" % (
                    "tproxy" if f[6] == "TPROXY" else "redirect",
                    "1" if f[18] == "1" and (f[20] == "1" or f[22] != "-" or f[23] != "-") else "0", f[21],
                    "wildcard" if f[8] == "*" else ("none" if f[8] == "~" else "ports"), ids))
                n_groups = 0 if f[10] in ("*", "~") else f[10].count("%2C") + 1
                if n_groups >= 49:
                    ctx.count("rules.cfg.ownergroups.count-%s" % ("49" if n_groups == 49 else ("50..64" if n_groups <= 64 else "65+")))


def replay(ctx, path):
    import json
    ctx.replay_only = True
    obj = json.load(open(path))
    rep = obj.get("replay", {})
    ops = rep.get("ops") or (rep.get("extra") or {}).get("ops")
    stream = rep.get("stream") or (rep.get("extra") or {}).get("stream") or "packets"
    if not ops:
        ctx.log("replay file has no ops; re-running the full check")
        return run(ctx)
    if not (ctx.build_drv() and _go_build(ctx)):
        return
    p = os.path.join(ctx.work, "replay.ops")
    with open(p, "w") as f:
        f.write("\n".join(ops) + "\n")
    if stream == "apply":   # oracle-only stream
        out = p + ".verdict"
        rc, log = ctx.harness("oracle", "apply", p, out)
        for v in (ctx.read_lines(out) if rc == 0 and os.path.exists(out) else []):
            if v.startswith("FAIL"):
                ctx.violation(obj.get("fingerprint", "c20:" + v.split()[1]), obj.get("what", v), {"stream": "apply", "ops": ops, "oracle_verdict": v}, True)
        ctx.note_case("apply-replay", True, None)
        return
    ok, impl, model, log = ctx.run_pair(stream, p, "replay")
    m = ctx.compare(stream, p, impl, model)[2] if ok else None
    found = oracle(ctx, stream, ops, m.to_json() if m else None)
    if found:
        ctx.violation(found[0], found[1], found[2], True)
    elif m is not None:
        ctx.tie_broken("correspondence:%s" % stream, "replayed case still differs", m.to_json())
    ctx.account(stream, p, impl)


MANIFEST = {
    "level_text": ("Lean 4 proof of compiler correctness for the istio-iptables rule compiler: `compile` (a branch-for-branch model of "
                   "IptablesConfigurator.Run + the rule builder, REDIRECT and TPROXY, IPv4 and IPv6, DNS capture, kube-virt interfaces, "
                   "owner-group filters, drop-invalid) evaluated under a netfilter semantics written from the iptables manual gives, for "
                   "EVERY configuration and EVERY packet, exactly the fate the policy prescribes (`fate_correct`); from it: no_loop, "
                   "outbound_exact (IFF), inbound_exact (IFF, REDIRECT and TPROXY), loopback_alone, never_chain_loop, no_loop_narrow / "
                   "delivery_not_looped (two genuine delivery loops through the call-to-self redirect are proved as witnesses and "
                   "reproduced on the real rule text), lo_journey_never_loops "
                   "(never loop across the OUTPUT and PREROUTING hooks), rulesOf_wellFormed, v4_v6_same_policy, "
                   "proxy DNS not re-captured; cleanup_residue_exact (CleanupOnly over the configuration's own rules leaves exactly the "
                   "declared chains that own no rule - the registered class, nothing else). The model is tied to /repo on every run: the real Run() output must equal the Lean "
                   "compiler's output line for line, and a Go reference interpreter over the real rule text must agree with both the "
                   "Lean semantics and the Lean policy on boundary packets; a Go oracle states the clauses directly on the real rules."),
    "level_note": ("Trusted: Lean kernel + {propext, Classical.choice, Quot.sound}; the hand-written compiler model (tied by line-equality "
                   "differential testing on ~3000 random configurations quick / 40000 thorough) and the netfilter semantics "
                   "(Netfilter.lean, from the iptables manual pages; cross-checked on every run against a second, independently "
                   "written interpreter and, where unshare -n and iptables-restore exist, against live kernel probes and the real "
                   "tool's acceptance of sampled texts - evidence only); harness, generators, oracle. Assumed: rules restored into empty "
                   "tables; sockets have owners; identities/interfaces are canonical tokens; CONNMARK state across packets, policy "
                   "routing, nftables backend not modelled; FillConfigFromEnvironment is modelled (RawConfig.fill, getLocalIsV6) with the host's "
                   "passwd / resolv.conf content as observed inputs. Recorded corners (kube-virt traffic ignores outbound exclusions / is captured twice in TPROXY mode, DNS port 53 on lo, "
                   "inbound excludes ignored with an explicit list, 2nd proxy UID shadowed, GID block lacks the DNS variant, TPROXY "
                   "mode does not exempt the tunnel port) are proved as witnesses and replayed on the real rule text. Two GENUINE delivery loops "
                   "(c20:gid-dns53-delivery-loop, c20:loopback-included-delivery-loop; not fixable without editing golden files) are "
                   "registered as known findings and reproduced on every run; so are c20:cleanup-leaves-jump-target-only-chain (proved to be the "
                   "exact residue of CleanupOnly in the Lean cleanup model, tied by stream cleanup) and c20:owner-groups-over-argc-limit "
                   "(50..64 owner groups pass Validate, iptables-restore refuses the line; rulesOf_wellFormed needs <= 49), both recognised "
                   "by their cause only. VerifyIptablesState / guardrails / Reconcile guards: Go oracle clauses on an in-memory iptables, no Lean model."),
    "technique": "Lean 4 compiler-correctness theorems (capture configuration -> iptables rules -> netfilter semantics) + differential correspondence with the real Go compiler",
    "design_ref": "DESIGN.md section 5 C20",
}
