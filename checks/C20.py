"""C20 - Traffic-capture rules redirect exactly the intended packets and never loop.

Proof: lean/IstioModel/C20/Theorems.lean - compiler correctness of the istio-iptables rule
compiler (Model.lean `compile`, a branch-for-branch model of IptablesConfigurator.Run) against a
netfilter semantics written from the iptables documentation (Netfilter.lean), for every
configuration and every packet.
Tie: T-diff, three streams on every run
  rules   : the REAL IptablesConfigurator.Run() (repo's DependenciesStub) -> iptables-restore text,
            must equal the Lean compiler's output line for line (v4 and v6);
  sem     : a Go reference netfilter interpreter over that REAL text vs the Lean semantics over the
            Lean-compiled rules, on boundary packets (validates Netfilter.lean by N-version);
  packets : the same interpreter over the REAL text vs the Lean *spec* (`specFate`: the capture
            policy stated on configuration and packet, no rules involved).
On break: harness `oracle` states the property's clauses in Go directly on the real rule text.
"""
import os

THEOREMS = ["IstioModel.C20.Theorems"]
STREAMS = ("rules", "sem", "packets")


def _case_at(ctx, ops, i):
    lines = ctx.read_lines(ops)
    starts = [k for k, l in enumerate(lines) if l.startswith("case")]
    s = starts[i]
    e = starts[i + 1] if i + 1 < len(starts) else len(lines)
    return lines[s:e]


def _clause_class(cfg_line, verdict):
    """Stable fingerprint: the violated clause plus the coarse configuration class."""
    t = verdict.split()
    clause = t[1] if len(t) > 1 else "unknown"
    f = cfg_line.split()
    cls = []
    if len(f) >= 25:
        cls.append("tproxy" if f[6] == "TPROXY" else "redirect")
        if f[18] == "1":
            cls.append("dns")
        if f[21] == "1":
            cls.append("v6")
    return clause + ":" + "+".join(cls)


def oracle(ctx, stream, case_lines, rep):
    """Property-level search on the implementation: first the shrunk case, then everything generated."""
    cands = []
    p = os.path.join(ctx.work, "%s.oracle.ops" % stream)
    with open(p, "w") as f:
        f.write("\n".join(case_lines) + "\n")
    cands.append(p)
    for st in STREAMS:
        g = os.path.join(ctx.work, "%s.gen.ops" % st)
        if os.path.exists(g):
            cands.append(g)
    for ops in cands:
        st = "rules" if os.path.basename(ops).startswith("rules") else "packets"
        out = ops + ".verdict"
        rc, log = ctx.harness("oracle", st, ops, out)
        if rc != 0 or not os.path.exists(out):
            continue
        for i, v in enumerate(ctx.read_lines(out)):
            if v.startswith("FAIL"):
                case = _case_at(ctx, ops, i)
                cfg = next((l for l in case if l.startswith("cfg")), "")
                return ("c20:" + _clause_class(cfg, v),
                        "the rules the real compiler emits violate clause '%s' for a packet" % v.split()[1],
                        {"stream": st, "ops": case, "oracle_verdict": v, "correspondence": rep})
    return None


def _oracle_all(ctx):
    """Second line, independent of the model: the Go statement of the property over every generated case."""
    for st in STREAMS:
        files = [os.path.join(ctx.work, "%s.gen.ops" % st)]
        cdir = os.path.join(os.path.dirname(ctx.work), "..", "harness", "corpus", ctx.pid)
        files += [os.path.join(cdir, f) for f in sorted(os.listdir(cdir)) if f.startswith(st + ".")] if os.path.isdir(cdir) else []
        for g in files:
            if not os.path.exists(g):
                continue
            out = os.path.join(ctx.work, os.path.basename(g) + ".verdict")
            rc, log = ctx.harness("oracle", "rules" if st == "rules" else "packets", g, out)
            if rc != 0 or not os.path.exists(out):
                ctx.tie_broken("oracle-run:" + st, log)
                continue
            verdicts = ctx.read_lines(out)
            ctx.count("oracle.%s.cases" % st, len(verdicts))
            for i, v in enumerate(verdicts):
                if v.startswith("FAIL"):
                    case = _case_at(ctx, g, i)
                    cfg = next((l for l in case if l.startswith("cfg")), "")
                    ctx.violation("c20:" + _clause_class(cfg, v),
                                  "the rules the real compiler emits violate clause '%s' for a packet" % v.split()[1],
                                  {"stream": st, "ops": case, "oracle_verdict": v}, True)
                    break


def _nontrivial(case_ops, case_out):
    return len(case_out) > 1 and case_out[1].startswith("ok")


def run(ctx):
    ctx.rule = ("cases = random capture configurations over the property's grammar (include/exclude CIDRs incl. '*', empty and "
                "malformed, inbound/outbound port lists, excluded and kube-virt interfaces, 0-3 proxy UIDs/GIDs, REDIRECT/TPROXY, "
                "DNS capture, IPv6 on/off, owner-group filters, loopback CIDR), accepted or refused exactly as Config.Validate and "
                "Run do; rules stream: every line of the v4 and v6 iptables-restore input; sem/packets streams: 40 boundary packets "
                "per configuration (edges of every CIDR +-1, every port +-1, every UID/GID and strangers, lo/eth0/excluded "
                "interfaces, tcp/udp/other, conntrack states, marks); distinct = hash of (ops, implementation outputs); "
                "non-trivial = configuration accepted by the real code")
    ctx.assumptions = [
        "kernel netfilter behaves as lean/IstioModel/C20/Netfilter.lean says (written from the iptables manual pages; cross-checked "
        "only against a second, independently written interpreter in the harness)",
        "rules are restored into empty tables (pod network namespace); pre-existing rules are outside the model",
        "packets at OUTPUT carry a socket owner; UID/GID/group/interface names are canonical tokens compared by equality "
        "(no 'eth+' wildcards, no numeric aliases of names); ports and marks are canonical decimal numerals",
        "CONNMARK state across packets of a connection, the TPROXY policy routing (ip rule / ip route) and the nftables backend are not modelled",
    ]
    ctx.trusted.append("harness/c20/interp.go: Go reference netfilter interpreter and the Go statement of the property (oracle)")
    proved = ctx.lean_prove(THEOREMS)
    if not ctx.build_drv():
        return
    if not ctx.go_build():
        return
    ctx.diff_stream("rules", ctx.n(3000, 40000), oracle=oracle, nontrivial=_nontrivial)
    ctx.diff_stream("sem", ctx.n(2000, 25000), oracle=oracle, nontrivial=_nontrivial)
    ctx.diff_stream("packets", ctx.n(4000, 60000), oracle=oracle, nontrivial=_nontrivial)
    _oracle_all(ctx)
    # distribution of what the real rules did with the generated packets, and of the configuration classes
    for st in ("sem", "packets"):
        impl = os.path.join(ctx.work, "%s.run.impl" % st)
        if os.path.exists(impl):
            for l in ctx.read_lines(impl):
                if l.startswith("pass"):
                    f = l.split()
                    kind = "tproxy" if f[1] != "tproxy=-" else ("redirect" if f[2] != "redirect=-" else "untouched")
                    ctx.count("%s.fate.%s" % (st, kind))
                elif l in ("drop", "loop"):
                    ctx.count("%s.fate.%s" % (st, l))
    ops = os.path.join(ctx.work, "rules.gen.ops")
    if os.path.exists(ops):
        for l in ctx.read_lines(ops):
            if l.startswith("cfg "):
                f = l.split()
                ctx.count("rules.cfg.mode." + ("tproxy" if f[6] == "TPROXY" else "redirect"))
                ctx.count("rules.cfg.ipv6." + f[21])
                ctx.count("rules.cfg.dns." + f[18])
                ctx.count("rules.cfg.include." + ("wildcard" if f[14] == "*" else ("none" if f[14] == "~" else "cidrs")))
                ctx.count("rules.cfg.inbound." + ("wildcard" if f[8] == "*" else ("none" if f[8] == "~" else "ports")))
                ctx.count("rules.cfg.kubevirt." + ("0" if f[16] == "~" else "1"))
                ctx.count("rules.cfg.ownergroups." + ("default" if (f[10] == "*" and f[11] == "~") else "filtered"))


def replay(ctx, path):
    import json
    obj = json.load(open(path))
    rep = obj.get("replay", {})
    ops = rep.get("ops") or (rep.get("extra") or {}).get("ops")
    stream = rep.get("stream") or (rep.get("extra") or {}).get("stream") or "packets"
    if not ops:
        ctx.log("replay file has no ops; re-running the full check")
        return run(ctx)
    if not (ctx.build_drv() and ctx.go_build()):
        return
    p = os.path.join(ctx.work, "replay.ops")
    with open(p, "w") as f:
        f.write("\n".join(ops) + "\n")
    ok, impl, model, log = ctx.run_pair(stream, p, "replay")
    m = ctx.compare(stream, p, impl, model)[2] if ok else None
    found = oracle(ctx, stream, ops, m.to_json() if m else None)
    if found:
        ctx.violation(found[0], found[1], found[2], True)
    elif m is not None:
        ctx.tie_broken("correspondence:%s" % stream, "replayed case still differs", m.to_json())
    ctx.account(stream, p, impl)


MANIFEST = {
    "level_text": ("Lean 4 proof of compiler correctness for the istio-iptables rule compiler: `compile` (a branch-for-branch model of "
                   "IptablesConfigurator.Run + the rule builder, REDIRECT and TPROXY, IPv4 and IPv6, DNS capture, kube-virt interfaces, "
                   "owner-group filters, drop-invalid) evaluated under a netfilter semantics written from the iptables manual gives, for "
                   "EVERY configuration and EVERY packet, exactly the fate the policy prescribes (`fate_correct`); from it: no_loop, "
                   "outbound_exact (IFF), inbound_exact (IFF, REDIRECT and TPROXY), loopback_alone, never_chain_loop, v4_v6_same_policy, "
                   "proxy DNS not re-captured. The model is tied to /repo on every run: the real Run() output must equal the Lean "
                   "compiler's output line for line, and a Go reference interpreter over the real rule text must agree with both the "
                   "Lean semantics and the Lean policy on boundary packets; a Go oracle states the clauses directly on the real rules."),
    "level_note": ("Trusted: Lean kernel + {propext, Classical.choice, Quot.sound}; the hand-written compiler model (tied by line-equality "
                   "differential testing on ~3000 random configurations quick / 40000 thorough) and the netfilter semantics "
                   "(Netfilter.lean, from the iptables manual pages; no kernel in the sandbox - cross-checked only against a second, "
                   "independently written interpreter in the harness); harness, generators, oracle. Assumed: rules restored into empty "
                   "tables; sockets have owners; identities/interfaces are canonical tokens; CONNMARK state across packets, policy "
                   "routing, nftables backend, FillConfigFromEnvironment not modelled. Five recorded corners (DNS port 53 on lo, "
                   "inbound excludes ignored with an explicit list, 2nd proxy UID shadowed, GID block lacks the DNS variant, TPROXY "
                   "mode does not exempt the tunnel port) are proved as witnesses and replayed on the real rule text; none is a defect "
                   "fixed or listed."),
    "technique": "Lean 4 compiler-correctness theorems (capture configuration -> iptables rules -> netfilter semantics) + differential correspondence with the real Go compiler",
    "design_ref": "DESIGN.md section 5 C20",
}
