"""C13 - Endpoints served equal the registries' latest healthy members of the subset.

Proof (lean/IstioModel/C13):
  Theorems.lean      the endpoint index as a sequential object: refinement of the abstract map
                     (service, namespace, registry) -> endpoints, latest report kept, no residue,
                     push-type soundness, service-account change => FullPush, cache invalidation;
  ConcTheorems.lean  the index at lock-region granularity: index_linearizable for the repaired code
                     (all operations, goroutines, schedules), lost_update_witness_unfixed (F4) and
                     the partial theorem for the pinned code;
  ClaTheorems.lean   membership_exact, grouping by locality, weights_consistent for
                     BuildClusterLoadAssignment; NetTheorems.lean the network filter (routeSpec, gateway
                     weights); LbTheorems.lean locality-weighted distribution (localityLbSetting.distribute);
                     EndToEnd.lean composes them.
Tie (T-diff, every run): stream `index` - random sequential op sequences on the REAL
  model.EndpointIndex; stream `sched` - real goroutines parked/released at the verif gate points in
  scripted orders; stream `cla` - index operations + membership queries served by the REAL
  xds.EdsGenerator (real XdsCache in front of BuildClusterLoadAssignment) of a FakeDiscoveryServer.
On break: harness `oracle` states the property's clauses directly on the real index / CLA.
"""
import os
import re
import subprocess
import time

import verif

LOCKTIE = "IstioModel.C13.LockTie"
LOCKGEN = "IstioModel/Generated/C13LockFacts.lean"

THEOREMS = ["IstioModel.C13.Theorems", "IstioModel.C13.ConcTheorems", "IstioModel.C13.ClaTheorems", "IstioModel.C13.NetTheorems",
            "IstioModel.C13.LbTheorems", "IstioModel.C13.EndToEnd"]
STREAMS = ("index", "sched", "cla")


def case_of(ctx, ops, i):
    lines = ctx.read_lines(ops)
    starts = [k for k, l in enumerate(lines) if l.startswith("case")]
    s = starts[i]
    e = starts[i + 1] if i + 1 < len(starts) else len(lines)
    return lines[s:e]


def fingerprint(stream, clause):
    # stream:clause (the nopush clause carries the class of the missed change, e.g. index:nopush-sound:addresses);
    # only F4's class keeps its stable, recorded name
    if clause == "lost-update:unlink-inside-update-window":
        return "index:" + clause
    return "%s:%s" % (stream, clause)


WHAT = {
    "lost-update:unlink-inside-update-window":
        "UpdateServiceEndpoints writes to an EndpointShards that a concurrent DeleteServiceShard/DeleteShard/PruneShard "
        "unlinked between the update's lookup and its ep.Lock(): the registry's report is lost although every sequential "
        "order keeps it (F4)",
}


def oracle(ctx, stream, case_lines, rep):
    """Property-level search on the implementation: the shrunk case first; then the generated case in which the
    correspondence broke; only then every other generated case (marked as found elsewhere)."""
    def verdicts_of(ops):
        out = os.path.join(ctx.work, os.path.basename(ops) + ".verdict")
        rc, log = ctx.harness("oracle", stream, ops, out)
        if rc != 0 or not os.path.exists(out):
            return []
        return ctx.read_lines(out)

    def found(ops, i, v, where):
        clause = v.split()[1]
        return (fingerprint(stream, clause),
                WHAT.get(clause, "endpoint index (%s) violates clause '%s' on the real code" % (stream, clause)),
                {"stream": stream, "ops": case_of(ctx, ops, i), "oracle_verdict": v, "failing_input_from": where,
                 "correspondence": rep})

    def failing(v):
        return v.startswith("FAIL") and v.split()[1] != "delete-atomic"

    p = os.path.join(ctx.work, "%s.oracle.ops" % stream)
    with open(p, "w") as f:
        f.write("\n".join(case_lines) + "\n")
    for i, v in enumerate(verdicts_of(p)):
        if failing(v):
            return found(p, i, v, "the shrunk mismatching case")
    g = os.path.join(ctx.work, "%s.gen.ops" % stream)
    if os.path.exists(g):
        vs = verdicts_of(g)
        own = (rep or {}).get("case_no", 0) - 1 if (rep or {}).get("source") == "generated" else -1
        if 0 <= own < len(vs) and failing(vs[own]):
            return found(g, own, vs[own], "the generated case of the mismatch (unshrunk)")
        for i, v in enumerate(vs):
            if failing(v):
                return found(g, i, v, "another generated case (case %d), not the one where the correspondence broke" % i)
    return None


def start_race_build(ctx):
    """go build -race of the same harness package, started in the background (it overlaps with the Lean build and the
    streams); against a scratch worktree through the alternate go.mod that ctx.go_build() wrote."""
    name = "c13.race"
    extra = []
    if os.path.realpath(verif.REPO) != "/repo":
        name += ".alt-" + os.path.basename(ctx.work).split(".alt-")[-1]
        extra = ["-modfile=" + os.path.join(ctx.work, "alt.go.mod")]
    out = os.path.join(verif.BIN, name)
    if os.path.exists(out):
        os.remove(out)  # never run a stale binary
    cmd = ["go", "build", "-race", "-tags", "verif"] + extra + ["-o", out, "./c13"]
    log = open(os.path.join(ctx.work, "race-build.log"), "w")
    p = subprocess.Popen(cmd, cwd=verif.HARNESS, env=verif.go_env(), stdout=log, stderr=subprocess.STDOUT)
    return {"proc": p, "cmd": cmd, "out": out, "log": log, "t0": time.time()}


def finish_race_build(ctx, rb):
    for attempt in range(4):
        try:
            rc = rb["proc"].wait(timeout=2400)
        except subprocess.TimeoutExpired:
            rb["proc"].kill()
            rc = 124
        rb["log"].close()
        txt = open(rb["log"].name).read()
        trimmed = rc != 0 and "go-build" in txt and ("no such file or directory" in txt or "no space left on device" in txt)
        if rc == 0 or not trimmed or attempt == 3:
            ctx.log("go build -race ./c13 rc=%d (%.1fs, in the background)" % (rc, time.time() - rb["t0"]))
            return rc, txt
        # an entry of the shared Go build cache vanished while the build ran (a fact about the machine): build again
        time.sleep((10, 20, 40)[attempt])
        rb["log"] = open(rb["log"].name, "w")
        rb["proc"] = subprocess.Popen(rb["cmd"], cwd=verif.HARNESS, env=verif.go_env(), stdout=rb["log"], stderr=subprocess.STDOUT)
    return 1, ""


def tails(ctx, prefix, n=40):
    d, base = os.path.dirname(prefix), os.path.basename(prefix)
    out = {}
    for f in sorted(os.listdir(d)):
        if f.startswith(base + ".") and f.endswith(".ops"):
            lines = ctx.read_lines(os.path.join(d, f))
            out[f[len(base) + 1:-4]] = [l[:400] for l in lines[-n:]]
    return out


def race_stress(ctx, rb):
    """The search that goes with the lock-discipline tie: an ungated stress of the real index (updaters, deleters,
    BuildClusterLoadAssignment / CopyEndpoints / Shardz readers) under the race detector.  Only a report of the race
    detector, a fatal runtime error, a panic or the final sequential clause count - nothing depends on timing."""
    rc, txt = finish_race_build(ctx, rb)
    if rc != 0:
        ctx.tie_broken("harness-build:c13-race", "go build -race -tags verif ./c13 failed:\n" + txt)
        return
    ctx.bins["c13race"] = rb["out"]
    secs = ctx.n(6, 30)
    out = os.path.join(ctx.work, "stress.out")
    for f in os.listdir(ctx.work):
        if f.startswith("stress.out"):
            os.remove(os.path.join(ctx.work, f))
    rc, log = ctx.harness("stress", secs, ctx.seed, out, pkg="c13race", timeout=secs + 600,
                          env_extra={"GORACE": "halt_on_error=1 history_size=3"})
    script = {"stream": "stress", "seconds": secs, "seed": ctx.seed,
              "command": "GORACE=halt_on_error=1 %s stress %d %s <out>" % (os.path.relpath(rb["out"], verif.ROOT), secs, ctx.seed),
              "op_script_tails": tails(ctx, out)}
    if "WARNING: DATA RACE" in log:
        frames = re.findall(r"istio\.io/istio/pilot/pkg/((?:model|xds/endpoints)\.[^\s]+?)\(\)", log)
        first = frames[0] if frames else "?"
        prev = "?"
        m = re.search(r"Previous (?:read|write) at .*?\n((?:  .*\n)+)", log)
        if m:
            pf = re.findall(r"istio\.io/istio/pilot/pkg/((?:model|xds/endpoints)\.[^\s]+?)\(\)", m.group(1))
            prev = pf[0] if pf else "?"
        fp = "stress:data-race:" + "~".join(sorted([first, prev]))
        script["race_report"] = log[:8000]
        ctx.violation(fp, "the race detector reports unsynchronised accesses in the endpoint index / endpoint builder under "
                          "concurrent updates, deletes and reads: the code does not take the locks the lock-region model assumes",
                      script, True)
        return
    if "fatal error:" in log:
        msg = re.search(r"fatal error: ([^\n]*)", log).group(1).strip()
        script["runtime_output"] = log[:8000]
        ctx.violation("stress:fatal:" + msg.replace(" ", "-"), "the Go runtime aborts under concurrent updates, deletes and reads "
                      "of the endpoint index: " + msg, script, True)
        return
    lines = ctx.read_lines(out) if os.path.exists(out) else []
    if rc != 0 or not lines:
        ctx.tie_broken("stress-run", "rc=%s\n%s" % (rc, log[-4000:]))
        return
    for l in lines:
        if l.startswith("ops "):
            ctx.count("cov.stress.ops", int(l.split()[1]))
    ctx.count("cov.stress.seconds", secs)
    if lines[0].startswith("FAIL"):
        clause = lines[0].split()[1]
        script["verdict"] = lines[0][:6000]
        ctx.violation("stress:" + clause, "endpoint index violates clause '%s' under an ungated concurrent stress" % clause, script, True)


def lock_tie(ctx):
    """T-gen: the lock facts of the checked tree (go/ast, harness/c13/facts.go), regenerated on every run; LockTie.lean
    proves from them that writers hold the write lock and readers at least the read lock.  Returns the theorem modules."""
    gen = os.path.join(verif.LEAN, LOCKGEN)
    os.makedirs(os.path.dirname(gen), exist_ok=True)
    if os.path.exists(gen):
        os.remove(gen)
    rc, log = ctx.harness("table", "lockfacts", gen)
    if rc != 0 or not os.path.exists(gen):
        ctx.tie_broken("harness-table:lockfacts", "the fact extractor did not produce %s: rc=%s %s" % (LOCKGEN, rc, log[-2000:]))
        with open(gen, "w") as f:
            f.write("namespace IstioModel.Generated.C13\ndef lockFacts : List (String × String × String × String × String × String × String) := []\n"
                    "end IstioModel.Generated.C13\n")
    ctx.checker_cmds.append("harness/bin/c13 table lockfacts lean/%s  (go/ast over the checked tree)" % LOCKGEN)
    rc, out = ctx.lake_build([LOCKTIE])
    if rc != 0:
        errs = [l for l in out.split("\n") if "error" in l][:12]
        ctx.tie_broken("lock-discipline",
                       "the lock facts read off the checked tree no longer satisfy LockTie.lean (a write to shardsBySvc / Shards / "
                       "ServiceAccounts / unlinked without the write lock, a read without any lock, or a moved site):\n"
                       + "\n".join(errs) + "\n\n" + open(gen).read()[-5000:])
        return THEOREMS
    return THEOREMS + [LOCKTIE]


def run(ctx):
    ctx.rule = ("index: random sequential histories (1-30 ops) of UpdateServiceEndpoints / DeleteServiceShard / DeleteShard / "
                "PruneShard over 2-3 services x 2-3 registries; reports are fresh lists or small mutations of the registry's "
                "previous report (identical, health flip, unhealthy addition, removal, service-account change, reorder, duplicate key - "
                "with a changed attribute or as an exact copy -, change of any one of the 15 non-key attributes Equals compares); one "
                "update in five goes through the cache-only variant (logPushType = false, what EDSCacheUpdate calls). "
                "sched: 0-2 sequential ops, then 1-3 real goroutines running UpdateServiceEndpoints, parked at the gates "
                "lookup:after-miss / update:after-lookup and released in a scripted order, interleaved with deletes / prunes / "
                "updates executed by the scheduler and with DeleteShard / PruneShard goroutines parked at every unlink while "
                "further updates are begun (they must block); every case ends with the linearizability verdict over all "
                "interval-respecting orders. cla: two worlds (single-network; multi-network with 7 gateways incl. two clusters of one "
                "network, an ambient-only, an IPv6 and an IPv4-mapped one), 8 services (plain, persistent-session, cluster-local, "
                "node-local, DestinationRule minHealthPercent, DestinationRule localityLbSetting.distribute with two rule sets, "
                "DNS resolution, not in the registry), 2-3 per case; unhealthy endpoints not sent / sent by default / forced "
                "process-wide; 2-7 steps: index ops through DiscoveryServer.EDSUpdate or - one update in four - EDSCacheUpdate "
                "(alone, or with SvcUpdate(update)) followed by the push its caller issues, SvcUpdate(delete) / RemoveShard / "
                "PruneShard (keep set empty or not), DestinationRule updates (subsets re-labelled and distribute rules changed, rule "
                "deleted, rule created), a PeerAuthentication DISABLE namespace-wide or in the root namespace created / deleted, a "
                "VirtualService-only push (a kind EDS skips), CDS-time service-endpoint queries; every resulting PushRequest goes "
                "through DiscoveryServer.Push (cache drop, new PushContext) and is merged per connection; pushes through the real "
                "pushConnection / pushConnectionDelta (sotw or delta) over 4-6 watched clusters for p1 plus one of eight proxies that "
                "differ from it in exactly one cache-key component (cluster, node, network view, IPv6-only, dual stack, locality - two "
                "of them -, node type router) - always back to back - or for one or two of thirteen proxies, three of them with a "
                "locality. Endpoints include unix domain sockets, empty and non-IP addresses, weights near and above the uint32 limit. "
                "distinct = hash of (ops, implementation outputs); non-trivial = at least one op")
    ctx.assumptions = [
        "sync.Mutex / RWMutex give atomic critical sections (lock-region granularity of the concurrent model)",
        "DeleteShard / PruneShard are one lock region in the concurrent model. Checked on the real code: they hold the index lock "
        "from start to end (an update begun while one is parked inside its loop stays blocked; oracle clause delete-atomic). Not "
        "covered by the theorem: write regions of updates that looked the entry up BEFORE the DeleteShard started and run inside "
        "its loop (they take effect before or after the delete per entry; argued linearizable in notes, not proved)",
        "IstioEndpoint.Equals is modelled on the 19 fields it reads; labels are compared as key-sorted lists",
        "an endpoint's SendUnhealthyEndpoints flag agrees with the builder's supportsUnhealthyEndpoints whenever the latter is true "
        "(hypothesis hc of member_pushable). Only the kube registry sets the flag at all (pod.go: GlobalSendUnhealthyEndpoints || "
        "DefaultSendUnhealthyEndpoints, i.e. from the same process-wide settings the builder's Service.SupportsUnhealthyEndpoints reads; "
        "the builder additionally looks at the DestinationRule's minHealthPercent); ServiceEntry / WorkloadEntry endpoints never carry it, "
        "so for them a new unhealthy endpoint is NoPush even where unhealthy endpoints are served. The cla generator sets the flag "
        "from the process settings, like the kube registry",
        "membership model: sidecar proxy (a router only in the single-network world, where it is served like a sidecar), ambient "
        "multi-network off, no waypoint / self-discovery / inference-pool cluster, no HBONE tunnel labels, no locality-LB failover / "
        "failoverPriority / zone-aware / TrafficDistribution (priorities stay 0), no DestinationRule TLS settings; a PeerAuthentication is "
        "absent or disables mTLS namespace- or mesh-wide (mTLS enabled iff TLSMode = istio and not disabled); gateway addresses are IPs; "
        "netutil.IsValidIPAddress abstracted to a character-class test that agrees on the generated addresses",
        "distribute: the `to` patterns of one rule do not overlap (Go visits that map in random order; applyDistribute_order_independent "
        "proves the order irrelevant exactly then); in a multi-network mesh a locality whose members the network filter all left out "
        "still counts with weight 1 in its target's total (modelled as the code does it, not judged by the oracle: observation O7)",
        "the PushRequests that follow SvcUpdate(EventDelete) / RemoveShard / PruneShard are fabricated by the harness in the shape their "
        "callers use (bootstrap serviceHandler: ConfigsUpdated {ServiceEntry host/ns}; multicluster cluster removal: Forced); the ones "
        "for endpoint updates and for DestinationRule / PeerAuthentication changes are real (EDSUpdate) resp. of the shape of the "
        "config handler (ConfigsUpdated {kind name/ns})",
        "every IstioEndpoint on the cluster's port has at least one address (possibly empty string): all registries guarantee it; "
        "BuildClusterLoadAssignment indexes Addresses[0] before filterIstioEndpoint's len(Addresses)==0 guard (corpus cla.nil-address)",
        "distinct-keys-per-report: a registry's report carries no two endpoints with the same key (namespace, workload, first address, "
        "port name) - the kube registry drops them (endpointSliceCache.get), ServiceEntry workloads are named by their index. "
        "pushType_sound's last clause, noPush_served_unchanged and noPush_served_exact assume it for the stored shard, the latter also "
        "for the incoming report; noPush_dupkey_witness and noPush_dup_report_witness show both corners; the index stream generates "
        "them, the nopush clauses of the oracle are judged only on reports and shards with distinct keys (counted: cov.index.nopush-*)",
        "the pushes that follow EDSCacheUpdate are fabricated in the shape of its callers (kube controller: ConfigsUpdated {Endpoints "
        "host/ns}; service event: SvcUpdate + {ServiceEntry host/ns})",
        "lock discipline: the concurrent model runs lock regions atomically; that the code takes those locks (index write lock around "
        "every write to shardsBySvc, the shard set's own write lock around every write to Shards / ServiceAccounts / unlinked, at least the "
        "read lock around every read, in endpointshards.go, push_context.go, endpoint_builder.go) is read off the checked tree on every "
        "run (go/ast extractor harness/c13/facts.go, syntactic: no type information, aliases and helpers by the rules stated there) and "
        "proved from the generated table in LockTie.lean; the -race stress searches for the interleaving when a fact changes",
        "concurrent model: every goroutine runs ONE operation; any number of goroutines (a registry's event queue calls the index "
        "sequentially, so one goroutine with several operations is a sequence of goroutines that do not overlap)",
        "progress of the retry loop of the repaired UpdateServiceEndpoints is a hypothesis of index_linearizable (allDone: the schedule "
        "runs every goroutine to completion), not a theorem: an update can in principle be unlinked again on every retry",
        "linearizability is stated for the index state only; what a proxy is SERVED is tied sequentially (cla stream): no assignment is "
        "built in the middle of a scripted interleaving, and the coherence of the XdsCache with the index under concurrency "
        "(clearCacheForService inside the write region vs a concurrent generator Add) is not modelled - the race stress runs "
        "BuildClusterLoadAssignment readers next to writers, but judges only data races, crashes and the final sequential clause",
        "cla world: one namespace for services, endpoints and proxies; one DestinationRule per host, exported everywhere; subset-level "
        "policies without port-level settings of their own (rule-level portLevelSettings and subset-level trafficPolicy are generated)",
    ]
    ctx.trusted.append("pilot/pkg/model/zz_verif_c13.go + zz_verif_c13_noop.go and the three verifGate(...) lines in endpointshards.go "
                       "(gate points; empty inlinable function without the build tag)")
    ctx.trusted.append("pilot/test/xds FakeDiscoveryServer and the world description in harness/c13/cla.go (services, DestinationRules, "
                       "gateways, proxies) whose derived builder parameters the generator writes into the push lines; the second, "
                       "never started DiscoveryServer whose unexported push channel the harness reads through reflect/unsafe to record "
                       "what EDSUpdate hands to ConfigUpdate; goroutine identification by runtime.Stack in the gate callback; "
                       "pilot/pkg/xds/zz_verif_c03.go (VerifC03PushConnection / VerifC03PushConnectionDelta) and zz_verif_c04.go "
                       "(VerifNewConnection / VerifNewDeltaConnection): accessors of the unexported per-connection push path; the "
                       "recording gRPC stream the responses are read from; proxy localities are set on model.Proxy directly")
    if not ctx.go_build():
        return
    rb = start_race_build(ctx)
    ctx.c13_rb = rb
    try:
        run_rest(ctx)
    finally:
        if rb["proc"].poll() is None:
            rb["proc"].kill()  # the run ended early


def run_rest(ctx):
    rb = ctx.c13_rb
    proved = ctx.lean_prove(lock_tie(ctx))
    if not ctx.build_drv():
        return
    ctx.diff_stream("index", ctx.n(1200, 30000), oracle=oracle)
    # real goroutines parked / released at the verif gates in scripted orders vs the lock-region model
    ctx.diff_stream("sched", ctx.n(900, 30000), oracle=oracle)
    # index operations + membership queries served by the real EdsGenerator (cache + endpoint builder)
    ctx.diff_stream("cla", ctx.n(1200, 30000), oracle=oracle)
    # the oracle also runs on the corpus of every stream (the F4 witnesses live there)
    cdir = os.path.join(os.path.dirname(os.path.dirname(os.path.abspath(__file__))), "harness", "corpus", ctx.pid)
    extra = []
    if os.path.isdir(cdir):
        for f in sorted(os.listdir(cdir)):
            if f.endswith(".ops"):
                extra.append((f.split(".")[0], os.path.join(cdir, f)))
    # the oracle also runs on every generated case (second line, independent of the model)
    for stream, g in extra + [(st, os.path.join(ctx.work, "%s.gen.ops" % st)) for st in STREAMS]:
        if not os.path.exists(g):
            continue
        out = os.path.join(ctx.work, os.path.basename(g) + ".verdict")
        rc, log = ctx.harness("oracle", stream, g, out)
        if rc != 0 or not os.path.exists(out):
            ctx.tie_broken("oracle-run:%s" % stream, log)
            continue
        verdicts = ctx.read_lines(out)
        ctx.count("oracle.%s.cases" % stream, len(verdicts))
        # coverage counters of the oracle run (what the generated cases reached on the real code): a decaying
        # generator shows in the evidence
        if os.path.exists(out + ".stats"):
            for l in ctx.read_lines(out + ".stats"):
                kv = l.split()
                if len(kv) == 2 and kv[1].isdigit():
                    ctx.count("cov.%s.%s" % (stream, kv[0]), int(kv[1]))
        for i, v in enumerate(verdicts):
            if v.startswith("FAIL"):
                clause = v.split()[1]
                if clause == "delete-atomic":
                    # an assumption of the concurrent model (DeleteShard / PruneShard = one lock region), checked on
                    # the real code; its failure is a broken tie, not (by itself) an input that violates the property
                    ctx.tie_broken("assumption:delete-atomic",
                                   "DeleteShard / PruneShard no longer hold the index lock from start to end: an update begun "
                                   "while one was parked inside its loop got past its lookup",
                                   {"stream": stream, "ops": case_of(ctx, g, i), "oracle_verdict": v})
                    continue
                ctx.violation(fingerprint(stream, clause),
                              WHAT.get(clause, "endpoint index (%s) violates clause '%s' on the real code" % (stream, clause)),
                              {"stream": stream, "ops": case_of(ctx, g, i), "oracle_verdict": v}, True)
    # last: the search that belongs to the lock-discipline tie
    race_stress(ctx, rb)


def replay(ctx, path):
    import json
    obj = json.load(open(path))
    rep = obj.get("replay", {})
    ops = rep.get("ops") or (rep.get("extra") or {}).get("ops")
    stream = rep.get("stream") or (rep.get("extra") or {}).get("stream") or "index"
    if stream == "stress":
        # a concurrent run is not replayed step by step: the same stress (same seed, same goroutines) runs again
        if not ctx.go_build():
            return
        ctx.seed = rep.get("seed", ctx.seed)
        race_stress(ctx, start_race_build(ctx))
        return
    if obj.get("fingerprint", "").startswith("tie-broken:lock-discipline"):
        if ctx.go_build():
            lock_tie(ctx)
        return
    if not ops:
        ctx.log("replay file has no ops; re-running the full check")
        return run(ctx)
    if not (ctx.build_drv() and ctx.go_build()):
        return
    p = os.path.join(ctx.work, "replay.ops")
    with open(p, "w") as f:
        f.write("\n".join(ops) + "\n")
    ok, impl, model, log = ctx.run_pair(stream, p, "replay")
    _, _, m = ctx.compare(stream, p, impl, model)
    found = oracle(ctx, stream, ops, m.to_json() if m else None)
    if found:
        ctx.violation(found[0], found[1], found[2], True)
    elif m is not None:
        ctx.tie_broken("correspondence:%s" % stream, "replayed case still differs", m.to_json())
    ctx.account(stream, p, impl)


MANIFEST = {
    "level_text": ("Lean 4 proof over exact models of pilot/pkg/model/endpointshards.go and of the membership part of "
                   "pilot/pkg/xds/endpoints/endpoint_builder.go + ep_filters.go. Sequential: every index operation refines the abstract map "
                   "(service, namespace, registry) -> endpoints (index_sequential_spec), so after any history a cell holds the "
                   "registry's latest report and nothing of a deleted service / removed or pruned registry remains "
                   "(latest_report_kept, removed_stays_removed, no_residue_*); provided the stored shard and the report carry distinct "
                   "endpoint keys (what registries produce; both corners are witness theorems), NoPush only if the endpoints that may be "
                   "served are the same multiset up to Equals, service-account change or new service => FullPush (pushType_sound, "
                   "noPush_served_unchanged, noPush_served_exact, sa_change_forces_full). Concurrent: for the repaired code (fix 16f5918) after every interleaving of the lock regions of "
                   "any number of operations the index is their sequential execution in commit order, a permutation that respects real "
                   "time (index_linearizable, commit_order_respects_real_time, reads_linearizable); for the pinned code the statement is "
                   "refuted by a 2-operation 4-region schedule (lost_update_witness_unfixed, lost_update_no_sequential_order, F4) and "
                   "proved on orphan-free schedules. Membership: the ClusterLoadAssignment is a permutation of the read shards' endpoints "
                   "that satisfy memberSpec - the clause written from the property text (member_eq_spec, membership_exact_spec) - one "
                   "non-empty group per locality, weights = saturating sums (grouped_by_locality, weights_consistent); in multi-network "
                   "meshes routeSpec - written from the text: same / unknown network or no gateway => own address (a unix domain socket "
                   "included; only an endpoint reported without any address is left out), remote => never own address, with "
                   "mTLS and a reachable gateway split among the gateways, else not served - equals the filter's decision (route_satisfies_spec, "
                   "routeSpec_unique, selectGws_spec, reachableGws_spec), the gateway endpoints of a locality carry exactly the saturating sum "
                   "of the shares of that locality's remote members (gateway_weight_per_locality, no_phantom_gateway, served_group_exact_net), and "
                   "served_endpoints_exact_net relates what is served there to the latest reports; under a DestinationRule "
                   "localityLbSetting.distribute the first rule naming the proxy's locality keeps exactly the endpoints of the localities its "
                   "targets name, empties the others, and gives a named locality ceil(weight x percentage / total of its target) "
                   "(distribute_endpoints, distribute_weight, ceilDiv_spec, applyDistribute_order_independent, served_endpoints_exact_lb); "
                   "service_endpoints_exact covers the CDS-time snapshot (CopyEndpoints / ServiceEndpointsByPort); "
                   "served_endpoints_exact(_concurrent) composes the parts. The models are tied to /repo on every run by three line-by-line "
                   "differentials against the real code, the third one through DiscoveryServer.EDSUpdate / EDSCacheUpdate, the recorded "
                   "non-forced PushRequest, the real pushConnection / pushConnectionDelta and the real EdsGenerator (partial pushes, XdsCache)."),
    "level_note": ("Trusted: Lean kernel + {propext, Classical.choice, Quot.sound}; the hand-written models, tied by differential testing "
                   "(quick ~3300 cases / thorough ~90000: sequential op sequences on the real EndpointIndex; real goroutines parked and "
                   "released at three verif gate points in scripted orders, incl. DeleteShard / PruneShard goroutines parked at every "
                   "unlink, with a linearizability verdict computed on the real code; what a proxy holds after partial sotw/delta pushes "
                   "produced by the real EdsGenerator from the PushRequests EDSUpdate really issued, in a single-network and a "
                   "multi-network FakeDiscoveryServer world, with an independent membership / gateway-weight oracle and a "
                   "served-equals-current check); the gate hook pilot/pkg/model/zz_verif_c13*.go and the push-path accessors "
                   "pilot/pkg/xds/zz_verif_c03.go / zz_verif_c04.go; mutex atomicity; that the code takes the locks the regions stand for is a "
                   "regenerated source fact (go/ast extractor harness/c13/facts.go -> LockTie.lean, 8 theorems by decide) searched by an "
                   "ungated race-detector stress of the real index (4 updaters, 2 deleters, 3 BuildClusterLoadAssignment / CopyEndpoints / "
                   "Shardz readers, 6 s quick / 30 s thorough; only race reports, runtime fatals, panics and a final sequential clause count). "
                   "Anchors with no model, theorem, stream or oracle (not reachable in the world built here): findServiceWaypoint / "
                   "weightedWaypointEndpoints and waypoint edsNeedsPush, tunnel / HBONE addresses and AdditionalAddresses in the built "
                   "LbEndpoint, the serviceInfo scope, populateFailoverPriorityLabels and all of loadbalancer.go except distribute "
                   "(failover, failoverPriority, zone-aware), EndpointsWithMTLSFilter and the ambient branches of ep_filters.go, self-discovery "
                   "(affectedService / parseClusterName), WithSubset / FromServiceEndpoints, the InferencePool branch of "
                   "ServiceEndpointsByPort, the ServiceIndex-reuse path of push_context. The partial-push selection of eds.go has a real "
                   "stream and the served-is-current clause but no model of its own. Not modelled: "
                   "locality-LB priorities / failover / failoverPriority / zone-aware / TrafficDistribution (of "
                   "loadbalancer.ApplyToLoadAssignment only distribute is), ambient multi-network, waypoint, self-discovery, inference-pool "
                   "and HBONE-tunnel endpoints, AdditionalAddresses beyond Equals, DestinationRule TLS / PeerAuthentication modes other than "
                   "DISABLE in the mTLS decision, CDS-time FromServiceEndpoints, a PushContext that re-uses the previous ServiceIndex, "
                   "services / proxies in more than one namespace, non-sidecar proxies in multi-network meshes; DeleteShard / PruneShard are "
                   "single regions in the concurrent model (lock discipline checked on the real code; write regions of earlier-looked-up "
                   "updates inside their loop are outside the theorem and outside the sched stream); linearizability is about index state "
                   "(every sched line reads the whole real index mid-interleaving; no assignment is built there). Of loadbalancer.go "
                   "('consistent weights under DestinationRule LB settings') this is covered: endpoint weight >= 1, locality weight = saturating "
                   "sum, even split among gateways, distribute (membership and weights), priorities observed to stay 0 in the tested "
                   "configurations. Under distribute the unqualified sentence 'the assignment is a permutation of the members' is false on "
                   "purpose: members in localities the rule does not name are left out (served_endpoints_exact_lb says which). Defects found "
                   "and fixed in /repo: F4 lost update when a delete unlinks the shard set inside an update's lookup->lock window (16f5918); "
                   "slices.EqualUnordered compared by containment, so IstioEndpoint.Equals / NoPush missed an address list whose "
                   "multiplicities changed (8c9910a); locality and gateway weights wrapped around uint32 after the network filter (ace8a3e); "
                   "unix-domain-socket endpoints dropped from every assignment once the mesh had a network gateway (d58e8bb); distribute "
                   "weights wrapped around uint32 (09a3da5)."),
    "technique": ("Lean 4 theorems over exact models of the endpoint index (sequential and lock-region concurrent) and of EDS membership "
                  "+ differential correspondence with the real Go code, including scripted goroutine interleavings through gate hooks"),
    "design_ref": "DESIGN.md section 5 C13",
}
