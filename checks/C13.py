"""C13 - Endpoints served equal the registries' latest healthy members of the subset.

Proof: lean/IstioModel/C13/Theorems.lean (sequential refinement of the abstract map
(service, namespace, registry) -> endpoints, no residue, push-type soundness).
Tie: T-diff - random sequential op sequences on the REAL model.EndpointIndex vs the Lean model,
line by line (stream index).
On break: harness `oracle` evaluates the property's clauses directly on the real index.
"""
import os

THEOREMS = ["IstioModel.C13.Theorems", "IstioModel.C13.ConcTheorems", "IstioModel.C13.ClaTheorems"]
STREAMS = ("index", "sched", "cla")


def case_of(ctx, ops, i):
    lines = ctx.read_lines(ops)
    starts = [k for k, l in enumerate(lines) if l.startswith("case")]
    s = starts[i]
    e = starts[i + 1] if i + 1 < len(starts) else len(lines)
    return lines[s:e]


def fingerprint(stream, clause):
    # the concurrent clauses are about the index as well; F4's class has a stable name
    return "index:%s" % clause if stream == "sched" else "%s:%s" % (stream, clause)


WHAT = {
    "lost-update:unlink-inside-update-window":
        "UpdateServiceEndpoints writes to an EndpointShards that a concurrent DeleteServiceShard/DeleteShard/PruneShard "
        "unlinked between the update's lookup and its ep.Lock(): the registry's report is lost although every sequential "
        "order keeps it (F4)",
}


def oracle(ctx, stream, case_lines, rep):
    """Property-level search on the implementation: first the shrunk case, then everything generated."""
    cands = []
    p = os.path.join(ctx.work, "%s.oracle.ops" % stream)
    with open(p, "w") as f:
        f.write("\n".join(case_lines) + "\n")
    cands.append(p)
    g = os.path.join(ctx.work, "%s.gen.ops" % stream)
    if os.path.exists(g):
        cands.append(g)
    for ops in cands:
        out = ops + ".verdict"
        rc, log = ctx.harness("oracle", stream, ops, out)
        if rc != 0 or not os.path.exists(out):
            continue
        for i, v in enumerate(ctx.read_lines(out)):
            if v.startswith("FAIL"):
                clause = v.split()[1]
                return (fingerprint(stream, clause),
                        WHAT.get(clause, "endpoint index (%s) violates clause '%s' on the real code" % (stream, clause)),
                        {"stream": stream, "ops": case_of(ctx, ops, i), "oracle_verdict": v, "correspondence": rep})
    return None


def run(ctx):
    ctx.rule = ("cases = random sequential histories (1-30 ops) of UpdateServiceEndpoints / DeleteServiceShard / DeleteShard / "
                "PruneShard over 2-3 services x 2-3 registries; reports are fresh lists or small mutations of the registry's "
                "previous report (identical, health flip, unhealthy addition, removal, service-account change, reorder, "
                "duplicate key); distinct = hash of (ops, implementation outputs); non-trivial = at least one op")
    ctx.assumptions = [
        "sync.Mutex / RWMutex give atomic critical sections (lock-region granularity of the concurrent model)",
        "IstioEndpoint.Equals is modelled on the 19 fields it reads; labels are compared as key-sorted lists",
    ]
    proved = ctx.lean_prove(THEOREMS)
    if not ctx.build_drv():
        return
    if not ctx.go_build():
        return
    ctx.diff_stream("index", ctx.n(1500, 30000), oracle=oracle)
    # real goroutines parked / released at the verif gates in scripted orders vs the lock-region model
    ctx.diff_stream("sched", ctx.n(1500, 30000), oracle=oracle)
    # index operations + membership queries through the real endpoint builder of a FakeDiscoveryServer
    ctx.diff_stream("cla", ctx.n(1500, 30000), oracle=oracle)
    # the oracle also runs on the corpus of every stream (the F4 witnesses live there)
    cdir = os.path.join(os.path.dirname(os.path.dirname(os.path.abspath(__file__))), "harness", "corpus", ctx.pid)
    extra = []
    if os.path.isdir(cdir):
        for f in sorted(os.listdir(cdir)):
            if f.endswith(".ops"):
                extra.append((f.split(".")[0], os.path.join(cdir, f)))
    # the oracle also runs on every generated case (second line, independent of the model)
    for stream, g in extra + [(st, os.path.join(ctx.work, "%s.gen.ops" % st)) for st in STREAMS]:
        if not os.path.exists(g):
            continue
        out = os.path.join(ctx.work, os.path.basename(g) + ".verdict")
        rc, log = ctx.harness("oracle", stream, g, out)
        if rc != 0 or not os.path.exists(out):
            ctx.tie_broken("oracle-run:%s" % stream, log)
            continue
        verdicts = ctx.read_lines(out)
        ctx.count("oracle.%s.cases" % stream, len(verdicts))
        for i, v in enumerate(verdicts):
            if v.startswith("FAIL"):
                clause = v.split()[1]
                ctx.violation(fingerprint(stream, clause),
                              WHAT.get(clause, "endpoint index (%s) violates clause '%s' on the real code" % (stream, clause)),
                              {"stream": stream, "ops": case_of(ctx, g, i), "oracle_verdict": v}, True)


def replay(ctx, path):
    import json
    obj = json.load(open(path))
    rep = obj.get("replay", {})
    ops = rep.get("ops") or (rep.get("extra") or {}).get("ops")
    stream = rep.get("stream") or (rep.get("extra") or {}).get("stream") or "index"
    if not ops:
        ctx.log("replay file has no ops; re-running the full check")
        return run(ctx)
    if not (ctx.build_drv() and ctx.go_build()):
        return
    p = os.path.join(ctx.work, "replay.ops")
    with open(p, "w") as f:
        f.write("\n".join(ops) + "\n")
    ok, impl, model, log = ctx.run_pair(stream, p, "replay")
    _, _, m = ctx.compare(stream, p, impl, model)
    found = oracle(ctx, stream, ops, m.to_json() if m else None)
    if found:
        ctx.violation(found[0], found[1], found[2], True)
    elif m is not None:
        ctx.tie_broken("correspondence:%s" % stream, "replayed case still differs", m.to_json())
    ctx.account(stream, p, impl)


MANIFEST = {
    "level_text": "TBD",
    "level_note": "TBD",
    "technique": "Lean 4 theorems over an exact model of the endpoint index + differential correspondence with the real Go functions",
    "design_ref": "DESIGN.md section 5 C13",
}
