"""C05 - A reconnecting proxy is fully resynchronised, whatever it retained.

Proof: lean/IstioModel/C05/Theorems.lean (every re-sent subscription answered, SotW and delta, any retained
nonce; EDS-after-CDS warming answer; delta wildcard resync from any retained state incl. explicit removal of
what was deleted while away; WDS version-skip soundness), ReconnectTheorems.lean (the whole request handler on a
fresh stream: CDS with the forced EDS push, delta named types, on-demand WDS with retained versions), WauthTheorems.lean
(ztunnel Authorization type over the C03 model of WorkloadRBACGenerator),
RegTheorems.lean (registration vs. the two halves of Push: witnesses of the missed-snapshot window for the
unrepaired initConnection and for the reverse order inside Push, registration_no_miss for every interleaving
of the code as it is; start-up: never_served_cold over loads / push start / push completion / readiness mark /
connects, with witnesses for a missing readiness gate, a missing InitContext and a committed counter that moves
before the push returned; ProxyUpdate over two connections of one proxy, witness for the first-match code)
+ the C03/C04 theorems it builds on.
Tie: T-diff streams `reconn` (histories with stream cuts and reconnects through the real processDeltaRequest /
pushConnectionDelta / processRequest / pushConnection; the first delta request of a stream presents the
retained nonce / uses the legacy empty wildcard in a part of the cases), `wds` (real WorkloadGenerator; first
requests with "*" or the legacy empty subscription, retained or wrong versions, retained nonce), `warm`
(harness/c04). The Reg / Boot models are tied by observation only: e2e stream `initrace` parks initConnection
or Push at verif gate points of the real server and puts a fake server back into the start-up state; e2e
stream `c05` is the statement itself on the real generators (incl. reconnects that overlap the old stream).
"""
import json
import os

from checks import e2e_common

import importlib
c03check = importlib.import_module("checks.C03")  # shares the harness, the system model and the oracle plumbing

THEOREMS = ["IstioModel.C05.Theorems", "IstioModel.C05.ReconnectTheorems", "IstioModel.C05.WauthTheorems", "IstioModel.C05.RegTheorems"]


def c04_streams(ctx, streams):
    """Streams of the C04 harness / driver that tie anchors of C05 as well: `warm` (EDS-before-CDS reconnect order) and
    `recv` (the receive side: the first request of a stream - also after a health probe that arrives before it - must
    initialise the connection)."""
    import checks.C04 as c04check
    rc, out = ctx.lake_build(["drv_c04"])
    drv = os.path.join(os.path.dirname(ctx.drv_path), "drv_c04")
    if rc != 0 or not os.path.exists(drv):
        ctx.tie_broken("lean-driver-build", out)
        return
    keep = (ctx.drv_path, ctx.bin_path)
    try:
        if not ctx.go_build(pkg="c04", out_name="c05w"):
            return
        ctx.drv_path = drv
        for stream, nq, nt in streams:
            ctx.diff_stream(stream, ctx.n(nq, nt), oracle=c04check.oracle)
            g = os.path.join(ctx.work, "%s.gen.ops" % stream)
            if os.path.exists(g):
                outp = g + ".verdict"
                rc, log = ctx.harness("oracle", stream, g, outp)
                if rc == 0 and os.path.exists(outp):
                    vs = ctx.read_lines(outp)
                    ctx.count("oracle.%s.cases" % stream, len(vs))
                    if any(v.startswith("FAIL") for v in vs):
                        found = c04check.oracle(ctx, stream, ["case 0 %s" % stream], None)
                        if found:
                            ctx.violation(found[0], found[1], found[2], True)
    finally:
        ctx.drv_path, ctx.bin_path = keep


def tdiff_counters(ctx):
    """What the generated T-diff inputs of this run contained (evidence counters): flags of the re-sent subscriptions,
    first vs later requests, types, case flags, cuts; wds first requests by shape."""
    g = os.path.join(ctx.work, "reconn.gen.ops")
    if os.path.exists(g):
        fresh = {}
        for l in ctx.read_lines(g):
            f = l.split()
            if not f:
                continue
            if f[0] == "case":
                fresh = {}
                for fl in (f[3] if len(f) > 3 else ""):
                    ctx.count("reconn.case-flag.%s" % {"d": "delta-aware-cds", "z": "nil-when-nothing-found"}.get(fl, fl))
            elif f[0] in ("reconnect", "pushcut"):
                fresh = {}
                ctx.count("reconn.%s" % f[0])
            elif f[0] == "sub":
                first = not fresh.get(f[1])
                fresh[f[1]] = True
                ctx.count("reconn.sub.%s.%s" % ("first-on-stream" if first else "later", f[1]))
                for fl in (f[3] if len(f) > 3 else ""):
                    ctx.count("reconn.sub.flag.%s" % {"n": "retained-nonce", "e": "legacy-empty-wildcard", "x": "queued-nack"}.get(fl, fl))
    g = os.path.join(ctx.work, "wds.gen.ops")
    if os.path.exists(g):
        fresh = True
        for l in ctx.read_lines(g):
            f = l.split()
            if not f:
                continue
            if f[0] in ("case", "wreconnect"):
                fresh = True
                if f[0] == "wreconnect":
                    ctx.count("wds.reconnect")
            elif f[0] in ("wreq", "wlreq", "wareq") and len(f) >= 5:
                if fresh:
                    shape = "legacy-empty" if f[1] == "-" else ("ondemand" if f[2] != "-" else "star")
                    ctx.count("wds.first.%s.%s" % (f[0], shape))
                    ctx.count("wds.first.versions.%s" % {"held": "retained", "heldx": "wrong", "-": "none"}.get(f[3], f[3]))
                    ctx.count("wds.first.nonce.%s" % f[4])
                fresh = False


def run(ctx):
    ctx.rule = ("reconn: random histories of world changes, (re)subscriptions, pushes and stream cuts with reconnects (retained resources, nonces and "
                "subscriptions kept by the clients; fresh watch tables on the server) for 7 types; e2e: histories on a real FakeDiscoveryServer; "
                "distinct = hash of (ops, implementation outputs); non-trivial = at least one op")
    ctx.assumptions = [
        "generators are abstract in the theorems (full-set / always-answer classes); the real ones are observed by the e2e streams",
        "a conformant client reports everything it retained in initial_resource_versions and re-sends its subscriptions",
        "WDS versions are content hashes (equal version = equal content)",
        "Reg model of initConnection vs Push: atomic steps read-snapshot / addCon+re-read / initialize / handle-push on the connection side, "
        "SetPushContext / StartPush(AllClients) as two steps on the Push side, one Push at a time (debouncer); the push queue is one parked slot "
        "per connection (newest request wins); tied by the initrace gates only (observation, not differential)",
        "Boot model (start-up): static cluster state, readiness is marked only when caches are complete and every update received so far is "
        "committed (bootstrap waitForCacheSync, read not executed); e2e emulates a starting instance by clearing the readiness flag and "
        "swapping in a never-initialised push context on a fake server whose registries are synced; the committed-updates accounting of "
        "the debouncer is executed (real debounce loop with a blocking push function; push gates), bootstrap's waitForCacheSync is read",
        "the handler-level theorems assume a non-nil generator result: with a nil result (a generator that has nothing to say: SDS without a served "
        "secret, a type the proxy kind is not served) nothing is sent on the first request of a reconnected stream exactly as on a brand-new one, "
        "the watch is created and what the proxy retained for that type is left alone (reconnect_nil_generator_silent; reconn case flag z)",
        "e2e verdicts compare the reconnected client with a brand-new client of the SAME server (shared xDS cache) unless a second server is "
        "used: state that is stale for both compares equal; the T-diff oracles compare with the world",
        "not exercised: SDS served by istiod (gateway secrets), the Authorization type in the ztunnel e2e (wds T-diff only), knative warm-up refusal, "
        "authorize failure, OnConnect error path of initializeProxy, a ProxyUpdate that arrives between initializeProxy and MarkInitialized, waypoint proxies",
    ]
    ctx.trusted.append("pilot/pkg/xds/zz_verif_c01.go (push queue / push channel counters used for quiescence), zz_verif_c02.go (VerifC02ServerState: push "
                       "semaphore and queue tables; VerifDebounce: the real debounce loop), zz_verif_c03.go, zz_verif_c04.go, zz_verif_c05.go (readiness flag), "
                       "zz_verif_e2e.go (verif-tagged accessors; gate points init:after-lastpushcontext, init:after-addcon, push:after-publish, "
                       "push:after-enqueue and the request gate `configupdate` at the entry of ConfigUpdate; empty functions without the tag)")
    ctx.lean_prove(THEOREMS)
    if not ctx.build_drv():
        return
    if not ctx.go_build(pkg="c03", out_name="c05"):
        return
    ctx.diff_stream("reconn", ctx.n(1500, 40000), oracle=c03check.oracle)
    # ztunnel reconnects with initial_resource_versions against the REAL workload generator
    ctx.diff_stream("wds", ctx.n(1000, 30000), oracle=c03check.oracle)
    tdiff_counters(ctx)
    for stream in ("reconn", "wds"):
        g = os.path.join(ctx.work, "%s.gen.ops" % stream)
        if os.path.exists(g):
            out = g + ".verdict"
            rc, log = ctx.harness("oracle", stream, g, out)
            if rc == 0 and os.path.exists(out):
                vs = ctx.read_lines(out)
                ctx.count("oracle.%s.cases" % stream, len(vs))
                if any(v.startswith("FAIL") for v in vs):
                    found = c03check.oracle(ctx, stream, ["case 0 %s" % stream], None)
                    if found:
                        ctx.violation(found[0], found[1], found[2], True)
    # clause "a response to every re-sent subscription so that nothing stays warming": the scripted reconnect order
    # EDS-before-CDS with a changed cluster set on the real ShouldRespond/Send/NewWatchedResource (harness c04, stream
    # `warm`), against the C04 model (theorem eds_after_cds_answered_any_names) and the clause oracle
    # + the receive side (harness c04, stream `recv`): the real Receive / receiveDelta with scripted first requests,
    # among them a HealthInformation probe BEFORE the first xDS request (a VM proxy with health checks): the next
    # request must still initialise the connection
    c04_streams(ctx, [("warm", 600, 12000), ("recv", 300, 3000)])
    # the statement itself on the REAL generators (harness/e2e): cuts at every kind of point, changes while away,
    # reconnect to the same or a second server with the retained state; and the registration window of initConnection
    # (+ reconnects that overlap the not yet terminated old stream, changes after the reconnect)
    # round 3: health probe first, reconnect into a non-quiescent server, a second fault during the resync, first request =
    # queued NACK, NDS / ECDS compared, stream dead before any response, push slots free after a cut, fresh watch table;
    # ztunnel flavour with initial cut / overlap / changes afterwards / retained nonce; 23 corpus cases (every first type
    # x with/without the old nonce); round 4: labels of the proxies' pods change while old and new stream are both registered
    # (fix 234a295), server-side Connection.Stop, old instance shut down with live streams, non-quiescent second instance,
    # ingress-gateway (router) flavour
    e2e_common.run(ctx, "c05", ctx.n(24, 400))
    # initConnection parked inside the registration window, Push parked between / after its two halves while a whole
    # connection initialises, and a proxy meeting an instance that is still starting (not ready / context never initialised)
    # (+ the gated client may be a RECONNECTING one that retained state, or a ztunnel; admission refusals: rate limit, ztunnel
    # without ambient; readiness accounting: the real debounce loop with a blocking push function, CommittedUpdates behind
    # InboundUpdates while Push is parked)
    e2e_common.run(ctx, "initrace", ctx.n(14, 120))


def replay(ctx, path):
    import json
    rep = json.load(open(path)).get("replay", {})
    if e2e_common.is_e2e_replay(rep):
        return e2e_common.replay(ctx, rep)
    if rep.get("stream") in ("warm", "recv"):
        import checks.C04 as c04check
        ctx.lc = "c04"  # these streams run on the C04 harness and driver
        try:
            return c04check.replay(ctx, path)
        finally:
            ctx.lc = "c05"
    return c03check.replay(ctx, path)


MANIFEST = {
    "level_text": ("Lean 4 proof: a reconnect is a fresh watch table facing arbitrary retained client state; theorems: every re-sent subscription is answered "
                   "(SotW and delta, any retained nonce, with or without error_detail - a NACK queued when the stream broke, fix a581d69 with a witness for the old code), "
                   "the ACK-shaped EDS request after CDS is answered (warming), the first delta answer brings a wildcard-type "
                   "client exactly to the current set from ANY retained state with explicit removal of what was deleted while away - at the level of the whole "
                   "request handler for LDS/NDS, for CDS with its forced EDS push and for the ztunnel Authorization type -, delta named types (EDS/RDS/SDS) and "
                   "on-demand WDS with retained versions, "
                   "WDS version-skip soundness on the exact generator model; registration vs. publication with Push split into publish and enqueue (no-miss for "
                   "every interleaving, witnesses for the unrepaired registration and for the reverse order inside Push); start-up model (never served before "
                   "ready / from a never-initialised context, with witnesses). Tied to /repo by differential streams through the real request/push handlers "
                   "(every delivered response is compared, not only what the clients hold), the real workload generators and the real receive loop (health probe "
                   "before the first request); the registration and start-up models and the real xDS generators are observed end-to-end on a real "
                   "DiscoveryServer (gate points with fresh and reconnecting clients, cold-start emulation, admission refusals, reconnects overlapping the old "
                   "stream, into a non-quiescent server, with a second fault; push slots returned after a cut)."),
    "level_note": ("Trusted: Lean kernel + {propext, Classical.choice, Quot.sound}; hand-written models tied by differential testing (reconn, wds, warm, recv streams on the real "
                   "handlers / workload generators / receive loop); CDS/EDS/LDS/RDS generators are abstract in the theorems (full-set / always-answer classes) and only observed by the "
                   "e2e stream; the Reg (initConnection vs Push) and Boot (start-up) models are modelled from reading and tied only by scripted observations on a fake "
                   "server (verif gate points; start-up is emulated on a synced server, bootstrap's waitForCacheSync is read, not executed) - partial for those parts; "
                   "the Authorization type is covered through the C03 model of WorkloadRBACGenerator (wds stream, WauthTheorems.lean), the Workload type only by the wds stream; "
                   "not exercised: SDS served by istiod (gateways), knative warm-up refusal, authorize failure; the e2e reference client shares the server's xDS cache with the "
                   "reconnected one unless a second server is used; hooks pilot/pkg/xds/zz_verif_c03.go, zz_verif_c04.go, zz_verif_c05.go, "
                   "zz_verif_e2e.go and four verifGate lines in ads.go / discovery.go."),
    "technique": "Lean 4 theorems over the shared C03/C04 models of delta/SotW bookkeeping with a reconnect operation + differential correspondence with the real Go handlers + scripted end-to-end observation",
    "design_ref": "DESIGN.md section 5 C05",
}
