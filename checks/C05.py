"""C05 - A reconnecting proxy is fully resynchronised, whatever it retained.

Proof: lean/IstioModel/C05/Theorems.lean (every re-sent subscription answered, SotW and delta, any retained
nonce; EDS-after-CDS warming answer; delta wildcard resync from any retained state incl. explicit removal of
what was deleted while away; WDS version-skip soundness; registration-vs-publication: witness of the missed
snapshot window and registration_no_miss for the repaired order) + the C03/C04 theorems it builds on.
Tie: T-diff stream `reconn` - histories with stream cuts and reconnects through the real processDeltaRequest /
pushConnectionDelta / processRequest / pushConnection (harness/c03, model lean/IstioModel/C03/Clients.lean);
end-to-end streams with the real generators (harness/e2e: c05, initrace) are exploration of the real server.
"""
import json
import os

from checks import e2e_common

import importlib
c03check = importlib.import_module("checks.C03")  # shares the harness, the system model and the oracle plumbing

THEOREMS = ["IstioModel.C05.Theorems", "IstioModel.C05.ReconnectTheorems", "IstioModel.C05.RegTheorems"]


def warm(ctx):
    import checks.C04 as c04check
    rc, out = ctx.lake_build(["drv_c04"])
    drv = os.path.join(os.path.dirname(ctx.drv_path), "drv_c04")
    if rc != 0 or not os.path.exists(drv):
        ctx.tie_broken("lean-driver-build", out)
        return
    keep = (ctx.drv_path, ctx.bin_path)
    try:
        if not ctx.go_build(pkg="c04", out_name="c05w"):
            return
        ctx.drv_path = drv
        ctx.diff_stream("warm", ctx.n(600, 12000), oracle=c04check.oracle)
        g = os.path.join(ctx.work, "warm.gen.ops")
        if os.path.exists(g):
            outp = g + ".verdict"
            rc, log = ctx.harness("oracle", "warm", g, outp)
            if rc == 0 and os.path.exists(outp):
                vs = ctx.read_lines(outp)
                ctx.count("oracle.warm.cases", len(vs))
                if any(v.startswith("FAIL") for v in vs):
                    found = c04check.oracle(ctx, "warm", ["case 0 warm"], None)
                    if found:
                        ctx.violation(found[0], found[1], found[2], True)
    finally:
        ctx.drv_path, ctx.bin_path = keep


def run(ctx):
    ctx.rule = ("reconn: random histories of world changes, (re)subscriptions, pushes and stream cuts with reconnects (retained resources, nonces and "
                "subscriptions kept by the clients; fresh watch tables on the server) for 7 types; e2e: histories on a real FakeDiscoveryServer; "
                "distinct = hash of (ops, implementation outputs); non-trivial = at least one op")
    ctx.assumptions = [
        "generators are abstract in the theorems (full-set / always-answer classes); the real ones are observed by the e2e streams",
        "a conformant client reports everything it retained in initial_resource_versions and re-sends its subscriptions",
        "WDS versions are content hashes (equal version = equal content)",
        "Reg model of initConnection vs Push: atomic steps read-snapshot / addCon / initialize / publish+enqueue",
    ]
    ctx.trusted.append("pilot/pkg/xds/zz_verif_c03.go, zz_verif_c04.go (verif-tagged accessors)")
    ctx.lean_prove(THEOREMS)
    if not ctx.build_drv():
        return
    if not ctx.go_build(pkg="c03", out_name="c05"):
        return
    ctx.diff_stream("reconn", ctx.n(1500, 40000), oracle=c03check.oracle)
    # ztunnel reconnects with initial_resource_versions against the REAL workload generator
    ctx.diff_stream("wds", ctx.n(1000, 30000), oracle=c03check.oracle)
    for stream in ("reconn", "wds"):
        g = os.path.join(ctx.work, "%s.gen.ops" % stream)
        if os.path.exists(g):
            out = g + ".verdict"
            rc, log = ctx.harness("oracle", stream, g, out)
            if rc == 0 and os.path.exists(out):
                vs = ctx.read_lines(out)
                ctx.count("oracle.%s.cases" % stream, len(vs))
                if any(v.startswith("FAIL") for v in vs):
                    found = c03check.oracle(ctx, stream, ["case 0 %s" % stream], None)
                    if found:
                        ctx.violation(found[0], found[1], found[2], True)
    # clause "a response to every re-sent subscription so that nothing stays warming": the scripted reconnect order
    # EDS-before-CDS with a changed cluster set on the real ShouldRespond/Send/NewWatchedResource (harness c04, stream
    # `warm`), against the C04 model (theorem eds_after_cds_answered_any_names) and the clause oracle
    warm(ctx)
    # the statement itself on the REAL generators (harness/e2e): cuts at every kind of point, changes while away,
    # reconnect to the same or a second server with the retained state; and the registration window of initConnection
    e2e_common.run(ctx, "c05", ctx.n(20, 400))
    e2e_common.run(ctx, "initrace", ctx.n(12, 100))


def replay(ctx, path):
    import json
    rep = json.load(open(path)).get("replay", {})
    if e2e_common.is_e2e_replay(rep):
        return e2e_common.replay(ctx, rep)
    if rep.get("stream") == "warm":
        import checks.C04 as c04check
        ctx.lc = "c04"  # the warm stream runs on the C04 harness and driver
        try:
            return c04check.replay(ctx, path)
        finally:
            ctx.lc = "c05"
    return c03check.replay(ctx, path)


MANIFEST = {
    "level_text": ("Lean 4 proof: a reconnect is a fresh watch table facing arbitrary retained client state; theorems: every re-sent subscription is answered "
                   "(SotW and delta, any nonce), the ACK-shaped EDS request after CDS is answered (warming), the first delta answer brings a wildcard-type client "
                   "exactly to the current set from ANY retained state with explicit removal of what was deleted while away, WDS version-skip soundness, and the "
                   "registration-vs-publication model (witness of the missed-snapshot window; no-miss for every interleaving with the re-read). Tied to /repo by the "
                   "`reconn` differential stream through the real request/push handlers; real generators explored end-to-end."),
    "level_note": ("Trusted: Lean kernel + {propext, Classical.choice, Quot.sound}; hand-written models tied by differential testing (reconn stream on the real handlers, "
                   "shared with C03); generators abstract; WDS generator and initConnection ordering are modelled from reading and exercised only by the e2e exploration "
                   "streams (harness/e2e) - partial for those parts; hooks pilot/pkg/xds/zz_verif_c03.go, zz_verif_c04.go."),
    "technique": "Lean 4 theorems over the shared C03/C04 models of delta/SotW bookkeeping with a reconnect operation + differential correspondence with the real Go handlers",
    "design_ref": "DESIGN.md section 5 C05",
}
