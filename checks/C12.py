"""C12 - Generated routes send each request where the VirtualService says.

Proof: lean/IstioModel/C12/{Theorems,VHostsTheorems,GatewayTheorems,MeshTheorems}.lean - compiler correctness of the
VirtualService -> Envoy route translation (routeMatch_correct, catchall_sound, early_stop_sound, rule_order_preserved,
vs_compile_correct, weights_preserved, cluster_correct, redirect_correct), virtual-host domains (domains_unique,
select_unique, sortVHost_sound, mostSpecific_perm), gateway merge (gateway_merge_correct) and the composed sidecar route
configuration (sidecar_rds_correct), over exact models of route.go / httproute.go / gateway.go pieces and a Lean rendering of
Envoy's documented route semantics.
Tie: T-diff, five streams + two witness streams:
  routes    real route.BuildHTTPRoutesForVirtualService, canonicalised, vs the Lean compiler (structural) + requests
  requests  Go reference Envoy interpreter on the real routes vs the Lean source semantics vsSpec
  vhosts    real generateVirtualHostDomains / dedupeDomains / selectVirtualServices (hook), MostSpecificHostMatch, SortVHostRoutes
  rds       end to end: real ConfigGenerator.BuildHTTPRoutes with a real XdsCache for several sidecars per case (listener
            ports incl. 80, Sidecar resources with catch-all and port-specific egress listeners, ~ exclusions and
            outboundTrafficPolicy, colliding names, mixed-case hostnames, ExternalName aliases, multi-host VirtualServices
            with hosts outside the registry and short names, host:port authorities): virtual-host TABLE
            (+ IgnorePortInHostMatching) and decisions vs the full Lean model sidecarRDSFull, checked against meshSpecF;
            the hypotheses of sidecar_rds_correct are evaluated on every build / request and counted (cert_stats)
  gw        end to end: one or two Gateway resources on one router, real BuildHTTPRoutes -> buildGatewayHTTPRouteConfig:
            virtual-host table (incl. collapseDuplicateRoutes, RequireTls) and decisions vs gwVHosts, checked against gwSpec;
            mesh-external hosts are real ServiceEntry resources (one hostname in several namespaces)
  known-*   corpus witnesses of the known findings (must keep reproducing)
On break: harness `oracle` evaluates the property statement on the real code (Go spec vs Go interpreter), one failure per
distinct clause and case; known-finding classes only when the finding's own deviation reproduces the real answer.
"""
import os

THEOREMS = ["IstioModel.C12.Theorems", "IstioModel.C12.VHostsTheorems", "IstioModel.C12.GatewayTheorems",
            "IstioModel.C12.MeshTheorems"]
STREAMS = ("routes", "requests", "vhosts", "rds", "gw")

WHAT = {
    "withoutHeaders-pattern-accepts-empty-and-header-absent":
        "withoutHeaders entry whose value pattern accepts the empty string: a request WITHOUT that header should satisfy the "
        "block (API: 'opposite meaning' of headers) but the generated matcher (invert_match + treat_missing_header_as_empty) rejects it",
    "destination-port-of-service-not-on-listener-port":
        "sidecar path: a VirtualService destination without explicit port whose (single-port) service does not expose the listener "
        "port is resolved against a registry restricted to the listener port, so the cluster gets the LISTENER port instead of the "
        "service's only port (API: 'if a service exposes only a single port it is not required to explicitly select the port')",
    "gateway-decision": "gateway route configuration (host intersection, merged VirtualServices, SortVHostRoutes, httpsRedirect) decides a "
                        "request differently from the gateway spec",
    "wildcard-host-younger-virtualservice-ignored":
        "sidecar path: when several VirtualServices list the same wildcard host, only the oldest is ever considered for a service "
        "(wildcardVirtualServiceHostIndex never overwrites); if it has no rule for this proxy the service gets the default route even "
        "though a younger VirtualService with the same host applies - unlike exact hosts, where the next applicable one is used",
    "alias-import-decided-by-concrete-service-entry":
        "sidecar path with a Sidecar resource: an ExternalName alias of a service is honoured iff the egress entries that imported "
        "the CONCRETE service also match the alias hostname, not iff the Sidecar imports the ExternalName service: an alias imported "
        "through another entry is unreachable (502 under REGISTRY_ONLY), an alias that is not imported is routed",
    "table-service-vhost": "sidecar route configuration: a service the proxy sees on the listener port (HTTP, not an Alias) is not "
                           "reachable by its FQDN - no virtual host carries it as a domain",
    "table-catch-all": "sidecar route configuration: not exactly one virtual host with the domain \"*\"",
    "mesh-decision": "end to end (virtual-host selection by authority, then first matching route) the real sidecar route configuration "
                     "decides a request differently from the applicable VirtualService / default route",
    "alt-host-sound":
        "generateVirtualHostDomains emits an alternate host that is not a DNS abbreviation of the service hostname from the proxy's "
        "domain (e.g. the empty string for a service above the proxy domain)",
    "domains-unique": "a lower-cased domain occurs in two virtual hosts after dedupeDomains",
    "most-specific-host": "MostSpecificHostMatch does not return the exact / longest matching wildcard host",
    "select-exact": "an authority equal to a kept domain does not select the virtual host owning that domain",
    "sortvhost-sound": "SortVHostRoutes changed the decision for a request satisfying the sortSafe side condition",
    "catchall-sound": "a route IsCatchAllRoute accepts does not match a request",
    "redirect-code-unsupported":
        "a validated VirtualService with a redirect code ApplyRedirect does not support yields a route without action",
}


def case_slices(lines):
    starts = [k for k, l in enumerate(lines) if l.startswith("case")]
    return [(s, starts[i + 1] if i + 1 < len(starts) else len(lines)) for i, s in enumerate(starts)]


def run_oracle(ctx, stream, ops):
    """Returns list of (clause, verdict, case_ops), one entry per distinct failing clause."""
    out = os.path.join(ctx.work, os.path.basename(ops) + ".verdict")
    if os.path.exists(out):
        os.remove(out)
    rc, log = ctx.harness("oracle", stream, ops, out)
    if rc != 0 or not os.path.exists(out):
        return None
    verdicts = ctx.read_lines(out)
    lines = ctx.read_lines(ops)
    sl = case_slices(lines)
    found = {}
    for i, line in enumerate(verdicts):
        if line.startswith("FAIL") and i < len(sl):
            # one entry per distinct clause of the case ("FAIL c1 ... ;; FAIL c2 ...")
            for v in line.split(" ;; "):
                clause = v.split()[1]
                if clause not in found:
                    found[clause] = (clause, v, lines[sl[i][0]:sl[i][1]])
    ctx.count("oracle.%s.cases" % stream, len(verdicts))
    ctx.count("oracle.%s.fail" % stream, sum(1 for v in verdicts if v.startswith("FAIL")))
    return list(found.values())


def report(ctx, stream, fails, rep=None):
    for clause, v, ops in fails:
        ctx.violation(clause,
                      WHAT.get(clause, "the generated routes decide a request differently from the VirtualService (clause '%s')" % clause),
                      {"stream": stream, "ops": ops, "oracle_verdict": v, "correspondence": rep}, True)


def oracle(ctx, stream, case_lines, rep):
    """Called by diff_stream on a mismatch: property-level search on the implementation, first on the
    shrunk case, then on everything generated."""
    p = os.path.join(ctx.work, "%s.oracle.ops" % stream)
    with open(p, "w") as f:
        f.write("\n".join(case_lines) + "\n")
    cands = [p]
    g = os.path.join(ctx.work, "%s.gen.ops" % stream)
    if os.path.exists(g):
        cands.append(g)
    known = {k.get("fingerprint") for k in ctx.known if k.get("status") == "known"}
    for n, ops in enumerate(cands):
        fails = run_oracle(ctx, stream, ops)
        if fails and (n > 0 or not stream.startswith("known-")):
            # outside the witness streams an already known finding does not explain a mismatch (its class is
            # reported as KNOWN-FINDING, the search goes on); the oracle classifies a failure as known only
            # when the finding's deviation reproduces exactly what the real code did
            report(ctx, stream, [f for f in fails if f[0] in known], rep)
            fails = [f for f in fails if f[0] not in known]
        if fails:
            clause, v, cops = fails[0]
            report(ctx, stream, fails[1:], rep)
            return (clause, WHAT.get(clause, "the generated routes decide a request differently from the VirtualService (clause '%s')" % clause),
                    {"stream": stream, "ops": cops, "oracle_verdict": v, "correspondence": rep})
    return None


def cert_stats(ctx):
    """On how many generated rds builds / requests do the hypotheses of sidecar_rds_correct hold, and what do the
    generated requests exercise?  The driver (stream name `certs-rds`, nothing is compared with the implementation)
    evaluates rdsCert, certVSHosts, certRegistry per build and meshSide per request; on EVERY build where they hold it
    compares the theorem's model sidecarRDS with the full model sidecarRDSFull that the rds stream ties to the real
    code (`models=1/0`; `-` = hypotheses do not hold = build not covered by the theorem).  It also names, per request,
    the clause of the spec that answers it (`why=`) and per build the policy in force, port 80, Sidecar scope and the
    number of VirtualService hosts outside the registry."""
    g = os.path.join(ctx.work, "rds.gen.ops")
    if not os.path.exists(g):
        return
    out = os.path.join(ctx.work, "rds.certs.model")
    rc, err = ctx.drv("certs-rds", g, out)
    if rc != 0:
        ctx.tie_broken("certs-rds", "the driver did not evaluate the hypotheses of sidecar_rds_correct: %s" % str(err)[-500:])
        return
    ops = ctx.read_lines(g)
    cert = False
    T = "thm.sidecar_rds_correct."
    for op, l in zip(ops, ctx.read_lines(out)):
        if l.startswith("cert="):
            kv = dict(x.split("=") for x in l.split())
            cert = kv["cert"] == "1"
            ctx.count(T + "builds")
            ctx.count(T + "builds_hyp_true", int(cert))
            ctx.count(T + "builds_certNoDrop_true", int(kv["noDrop"] == "1"))
            ctx.count(T + "builds_certVSHosts_true", int(kv["vsHosts"] == "1"))
            ctx.count(T + "builds_model_eq_full_model", int(kv["models"] == "1"))
            ctx.count(T + "builds_not_covered", int(kv["models"] == "-"))
            if kv["models"] == "0" or (cert and kv["models"] != "1"):
                ctx.tie_broken("certs-rds:model", "hypotheses of sidecar_rds_correct hold but its model sidecarRDS and the full "
                               "model sidecarRDSFull (the one tied to the real code) build different virtual-host tables", {"op": op})
            ctx.count("rds.builds.port80", int(kv.get("port80") == "1"))
            ctx.count("rds.builds.policy_" + kv.get("policy", "?"))
            ctx.count("rds.builds.under_sidecar_resource", int(kv.get("sidecar") == "1"))
            ctx.count("rds.builds.with_hosts_outside_registry", int(kv.get("stray", "0") != "0"))
        elif l.startswith("side="):
            kv = dict(x.split("=") for x in l.split())
            ctx.count(T + "requests")
            ctx.count(T + "requests_meshSide_true", int(kv["side"] == "1"))
            ctx.count(T + "requests_all_hyp_true", int(kv["side"] == "1" and cert))
            # which clause of the spec answers: vs-rule / vs-404 (a VirtualService serves the addressed service: a rule
            # fires / none does), default route, stray-* (VirtualService host outside the registry), policy, silent
            ctx.count("rds.requests.spec_" + kv.get("why", "?"))


def decision_stats(ctx, stream, req_op):
    """Decision distribution of an end-to-end stream as the REAL code answered (first token of the decision)."""
    g = os.path.join(ctx.work, "%s.gen.ops" % stream)
    impl = os.path.join(ctx.work, "%s.run.impl" % stream)
    if not (os.path.exists(g) and os.path.exists(impl)):
        return
    for op, l in zip(ctx.read_lines(g), ctx.read_lines(impl)):
        if op.startswith(req_op + " "):
            d = l.split(" ")[0]
            kind = d.split(":")[0][:12] if ":" in d else d[:12]
            if kind == "fwd":
                kind = "fwd_passthrough" if "PassthroughCluster" in d else "fwd_cluster"
            ctx.count("%s.decision.%s" % (stream, kind))


def nontrivial(case_ops, outs):
    return any(l.startswith(("build", "req", "dom", "sel", "sortv", "msh", "rds", "rreq", "grds", "greq")) for l in case_ops)


def run(ctx):
    ctx.rule = ("cases = routes/requests: one generated VirtualService each (1-4 http rules x 0-3 match blocks over uri exact/prefix/regex, "
                "ignoreUriCase, headers, withoutHeaders, queryParams, method, authority, scheme, port, sourceLabels, sourceNamespace, "
                "gateways; weighted destinations with subsets/ports, redirect, directResponse; plain / gateway / ingress semantics) "
                "accepted by the REAL validation.ValidateVirtualService, registry services, 1-2 proxies (sidecar or router, TLS or not) "
                "and listener ports, 6-11 requests per proxy built from the rule literals and near misses; vhosts: service hostnames "
                "(incl. wildcard, prefix-related namespaces, IPs) x proxy DNS domains x ports, dedupe sequences, authority selection, "
                "route lists for SortVHostRoutes, most-specific-host lookups; rds: listener port 80/8000/8080/9080, a mesh of 2-7 services "
                "(prefix-related namespaces, colliding names, shared and IPv6 VIPs, mixed-case ServiceEntry hosts, ExternalName alias "
                "with or without its concrete service), 0-4 VirtualServices of 1-3 hosts (exact / wildcard / repeated / mixed-case / "
                "short names / hosts outside the registry or not on the listener port), optional Sidecar resource (catch-all and "
                "port-specific egress listener, ~ exclusions, ALLOW_ANY / REGISTRY_ONLY / egress proxy), 1-3 sidecars served from one "
                "generator + XdsCache, 4-8 requests each addressed to service names (FQDN, short, VIP, alias, VirtualService hosts, "
                "host:port incl. wrong port, near misses); gw: 1-2 Gateway resources (HTTP/HTTPS servers, ns/ */ ./ qualified and "
                "wildcard hosts, httpsRedirect), registry incl. one ServiceEntry hostname in up to three namespaces, 1-4 VirtualServices "
                "bound to one/both/another gateway with match.gateways and JWT-claim keys, every route name, 5-9 requests mostly aimed "
                "at a VirtualService and its hosts; "
                "distinct = hash of (ops, implementation outputs); non-trivial = at least one build/req/domain/rds op")
    ctx.assumptions = [
        "Envoy's router behaves as its v3 API documentation says (lean/IstioModel/C12/Envoy.lean; no Envoy binary in the sandbox); "
        "cross-checked only against an independent Go re-implementation of the same documentation",
        "a regex is an opaque predicate text -> (string -> Bool) shared by source and target semantics; the table is computed by Go's RE2 "
        "engine (full match) at generation time; the only fact used about it is DotStar (`.*` accepts every path)",
        "requests are origin-form (path starts with '/'), header names are lower-case and single-valued; header keys uri/scheme/method/"
        "authority (documented as ignored, but translated literally by the code) and :path are outside the grammar; JWT-claim keys "
        "(@request.auth.claims...) are modelled as dynamic-metadata matchers and generated for gateway-bound VirtualServices only",
        "inputs are post-merge VirtualServices (delegates resolved, gateway names resolved to ns/name); short host names ARE resolved by "
        "the real code in stream rds (spec: relative to the VirtualService's namespace); a VirtualService is identified by name AND "
        "namespace (the same name in two namespaces is generated on both end-to-end paths), never two with the same name in one namespace",
        "sidecar_rds_correct is a statement about meshes satisfying certVSHosts: outbound traffic policy in force = plain ALLOW_ANY, no "
        "Resolution: Alias and no headless service, HTTP ports only, lower-case hostnames, listener port other than 80, every "
        "VirtualService host names or matches a service of the port; certVSHosts / certRegistry are not used by the proof - they delimit "
        "where its model is claimed to be the code's behaviour, which the driver checks on every generated build that satisfies them; "
        "m.proxyDomain is not tied to c.proxyNamespace by a hypothesis (the driver sets both from the proxy's namespace)",
        "CODE-DERIVED parts of the end-to-end specs (no API text): which VirtualService hosts outside the registry get a virtual host "
        "(strayHosts: port 80, or the VirtualService also serves an HTTP service of the port); precedence among competing VirtualServices "
        "by export class before age (exported to own namespace only > exported to the proxy's namespace by name > public); merge order of "
        "several VirtualServices on one gateway host (mergedSpec follows SortVHostRoutes); alias handling under a Sidecar (F-C12-9)",
        "end-to-end streams: proxies are IPv4-only sidecars / routers, at most one Sidecar resource per mesh (own namespace with or without "
        "workloadSelector, or root namespace), service ports are HTTP or TCP (no sniffing, no HTTP_PROXY / port 0 listeners), no exportTo on "
        "services, no delegates; BuildHTTPRoutes is called directly (not through the discovery server's generator wrapper)",
        "side conditions of vs_compile_correct: no withoutHeaders pattern that accepts \"\" for an absent header (finding F-C12-1), "
        "redirect code in {0,301,302,303,307,308} (enforced by the validator after the F-C12-2 fix), no gateway-semantics prefix '//'",
    ]
    ctx.trusted.append("lean/IstioModel/C12/Envoy.lean: Envoy route-matching semantics written from the API documentation")
    ctx.trusted.append("harness/c12/interp.go: Go reference Envoy route interpreter (same documentation, independent code); Go regexp as RE2")
    ctx.trusted.append("pilot/pkg/networking/core/zz_verif_c12.go (verif-tagged accessors for dedupeDomains, generateVirtualHostDomains, selectVirtualServices)")
    proved = ctx.lean_prove(THEOREMS)
    if not ctx.build_drv():
        return
    if not ctx.go_build():
        return
    # hand-written corpus must consist of VirtualServices the real validator accepts (except *.invalid.* files)
    cdir = os.path.join(os.path.dirname(os.path.dirname(os.path.abspath(__file__))), "harness", "corpus", ctx.pid)
    if os.path.isdir(cdir):
        for f in sorted(os.listdir(cdir)):
            if f.endswith(".ops") and ".invalid." not in f and not f.startswith(("vhosts.", "rds.", "known-rds.", "gw.")):
                rc, out = ctx.harness("validate", os.path.join(cdir, f))
                last = out.strip().split("\n")[-1] if out.strip() else ""
                if rc != 0 or not last.endswith("invalid 0"):
                    ctx.tie_broken("corpus-validity:" + f, "corpus file contains a VirtualService the real validator rejects:\n" + out[-2000:])
    # the end-to-end streams build a real push context per shrink step: cap the delta-debugging rounds
    full_shrink = ctx.shrink
    ctx.shrink = lambda stream, lines, max_rounds=200: full_shrink(
        stream, lines, max_rounds=60 if stream.endswith(("rds", "gw")) else max_rounds)
    ctx.diff_stream("routes", ctx.n(3000, 150000), oracle=oracle, nontrivial=nontrivial)
    ctx.diff_stream("requests", ctx.n(4000, 200000), oracle=oracle, nontrivial=nontrivial)
    ctx.diff_stream("vhosts", ctx.n(2500, 100000), oracle=oracle, nontrivial=nontrivial)
    ctx.diff_stream("rds", ctx.n(1000, 25000), oracle=oracle, nontrivial=nontrivial)
    ctx.diff_stream("gw", ctx.n(800, 25000), oracle=oracle, nontrivial=nontrivial)
    cert_stats(ctx)
    decision_stats(ctx, "rds", "rreq")
    decision_stats(ctx, "gw", "greq")
    # witnesses of the known findings (corpus only): each must still reproduce, as KNOWN-FINDING
    ctx.diff_stream("known-requests", 0, oracle=oracle, nontrivial=nontrivial)
    ctx.diff_stream("known-rds", 0, oracle=oracle, nontrivial=nontrivial)
    # ... also when model and implementation agree on them (the Lean side is silent for known classes)
    cdir2 = os.path.join(os.path.dirname(os.path.dirname(os.path.abspath(__file__))), "harness", "corpus", ctx.pid)
    for f in sorted(os.listdir(cdir2)):
        if f.startswith("known-") and f.endswith(".ops"):
            fails = run_oracle(ctx, f.split(".")[0], os.path.join(cdir2, f))
            if fails:
                report(ctx, f.split(".")[0], fails)
    # second line: the property oracle on every generated case, independent of the Lean model
    for stream in STREAMS:
        g = os.path.join(ctx.work, "%s.gen.ops" % stream)
        if os.path.exists(g):
            fails = run_oracle(ctx, stream, g)
            ctx.log("oracle %s done" % stream)
            if fails is None:
                ctx.tie_broken("oracle-run:" + stream, "the property oracle did not run")
            else:
                report(ctx, stream, fails)
            st = g + ".stats"
            if os.path.exists(st):
                for l in ctx.read_lines(st):
                    k, v = l.split()
                    ctx.count("gen.%s.vs_%s" % (stream, k), int(v))
    # decision distribution of the request-level stream
    impl = os.path.join(ctx.work, "requests.run.impl")
    if os.path.exists(impl):
        for l in ctx.read_lines(impl):
            if l != "ok":
                ctx.count("requests.decision." + l.split(":")[0].split(" ")[0][:8])


def replay(ctx, path):
    import json
    obj = json.load(open(path))
    rep = obj.get("replay", {})
    ops = rep.get("ops") or (rep.get("extra") or {}).get("ops")
    stream = rep.get("stream") or (rep.get("extra") or {}).get("stream") or "requests"
    if not ops:
        ctx.log("replay file has no ops; re-running the full check")
        return run(ctx)
    if not (ctx.build_drv() and ctx.go_build()):
        return
    p = os.path.join(ctx.work, "replay.ops")
    with open(p, "w") as f:
        f.write("\n".join(ops) + "\n")
    ok, impl, model, log = ctx.run_pair(stream, p, "replay")
    m = ctx.compare(stream, p, impl, model)[2] if ok else None
    fails = run_oracle(ctx, stream, p)
    if fails:
        report(ctx, stream, fails, m.to_json() if m else None)
    elif m is not None:
        ctx.tie_broken("correspondence:%s" % stream, "replayed case still differs", m.to_json())
    ctx.account(stream, p, impl)


MANIFEST = {
    "level_text": ("Lean 4 proof of compiler correctness for the VirtualService -> Envoy route translation and of the route "
                   "configuration built around it: an exact model of BuildHTTPRoutesForVirtualService / TranslateRoute / "
                   "TranslateRouteMatch (incl. JWT-claim metadata matchers) / IsCatchAllRoute / destination and redirect translation, a "
                   "Lean rendering of Envoy's documented route semantics, and source semantics written from the API docs; theorems "
                   "routeMatch_correct, catchall_sound, early_stop_sound, rule_order_preserved, vs_compile_correct, weights_preserved, "
                   "cluster_correct, redirect_correct; domains_unique, select_unique, sortVHost_sound, mostSpecific_perm; "
                   "gateway_merge_correct (several VirtualServices merged on one gateway host, no side condition on the sort); and "
                   "sidecar_rds_correct: evaluating the composed sidecar route configuration (virtual host by authority, then first "
                   "matching route) equals the end-to-end spec (applicable VirtualService by most specific host, default route, "
                   "passthrough) under decidable hypotheses (rdsCert, certVSHosts, certRegistry, meshSide). Tied to /repo on every run by "
                   "five differential streams, two of them end to end through the real BuildHTTPRoutes (sidecars with a real XdsCache, "
                   "gateway routers); the sidecar stream runs the FULL model sidecarRDSFull (VirtualService hosts outside the registry, "
                   "case folding, aliases, outbound traffic policy); that the theorem's model sidecarRDS builds the same table as the full "
                   "model wherever the hypotheses hold is checked by the driver on every such build (counted), not proved."),
    "level_note": ("Trusted: Lean kernel + {propext, Classical.choice, Quot.sound}; the hand-written models (tied by differential "
                   "testing, ~11000 cases quick / 500000 thorough); Envoy semantics taken from documentation (Envoy.lean) and "
                   "cross-checked only against an independent Go interpreter; regexes opaque (Go RE2 table); hook file "
                   "pilot/pkg/networking/core/zz_verif_c12.go. sidecar_rds_correct is a theorem about the meshes that satisfy its "
                   "hypotheses only: the driver evaluates them on every generated build / request and the evidence counts how often "
                   "they hold (counters thm.sidecar_rds_correct.*: listener port 80, mixed-case names, VirtualService hosts outside "
                   "the registry and dropped duplicate domains fall outside); outside them the end-to-end claim rests on the "
                   "differential stream (full model = real code) plus the spec comparison the driver and the Go oracle run per "
                   "request - tested, not proved. The gateway spec is MODEL-SHAPED where it merges VirtualServices: mergedSpec "
                   "orders the rules of several VirtualServices of one host the way SortVHostRoutes does (the API text only fixes the "
                   "order inside one VirtualService); gateway_merge_correct therefore shows model = code-derived merge, and only "
                   "mergedSpec_single reduces it to vsSpec; the gateway virtual-host table (gwDomains) is compared by the driver, not "
                   "proved. Also code-derived: which VirtualService hosts outside the registry get a virtual host (strayHosts: port 80, "
                   "or the VirtualService also serves a service of the port). Not modelled: retries/timeouts/fault/mirror/header "
                   "manipulation/rewrite, delegate merge, Gateway API conversion and the gateway-semantics branches (incl. the gwMatch "
                   "ordering loop of SelectVirtualServices), listener port 0 / HTTP_PROXY and mergeAllVirtualHosts, sniffed route names "
                   "and protocol sniffing, proxyless-gRPC host:port domains (end to end; the domain generator is covered piecewise by "
                   "stream vhosts), exportTo on services, several Sidecar resources in one mesh, IPv6 / dual-stack proxies, the "
                   "discovery server's RDS generator wrapper (BuildHTTPRoutes is called directly); DestinationRule objects are present "
                   "in a quarter of the rds cases only to show they do not change a decision (hash policies are not compared). "
                   "Known findings F-C12-1 (withoutHeaders pattern accepting the empty string), F-C12-4 "
                   "(destination port resolved against the port-restricted registry), F-C12-6 (younger VirtualService with the same "
                   "wildcard host ignored), F-C12-9 (alias import decided by the concrete service's egress entry); fixed F-C12-2, -3, "
                   "-5, -7, -8."),
    "technique": "Lean 4 compiler-correctness and composition theorems over exact models of the route translation and route-configuration assembly + structural, request-level and end-to-end differential correspondence with the real Go functions",
    "design_ref": "DESIGN.md section 5 C12",
}
