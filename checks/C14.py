"""C14 - Every xDS snapshot sent to a proxy is closed and well-formed.   (PARTIAL - see MANIFEST)

Proof (Lean 4):
  lean/IstioModel/C14/MonitorTheorems.lean  the snapshot monitor `wellFormedB` / `firstViolation` is sound AND
                                            complete for `WellFormed` (the property statement over an abstract snapshot)
  lean/IstioModel/C14/KernelTheorems.lean   exact models of the conflict-resolution kernels (dedupeDomains, normalizeClusters,
                                            "always answer requested names", outbound listener conflict table) and their theorems
Tie:
  T-mon  stream `snapshot`: random meshes (valid objects chosen to collide + objects mutated past validation) are loaded
         into a REAL discovery server (pilot/test/xds.NewFakeDiscoveryServer); the real CDS/EDS/LDS/RDS generators produce
         the full snapshot of sidecar / router / waypoint proxies; the harness prints a Go re-statement of well-formedness on
         the Envoy protos (+ protoc-gen-validate of every message), reduces the snapshot to the abstract form, and the
         verified Lean monitor judges that; the two verdicts must agree AND be `ok`.
  T-diff kernel streams: real functions (through pilot/pkg/networking/core/zz_verif_c12.go, zz_verif_c14.go,
         pilot/pkg/xds EdsGenerator) vs the Lean models, line by line.
What is NOT proved: that generation as a whole yields a WellFormed snapshot - that part is explored (counters in evidence).
"""
import json
import os
import re

THEOREMS = ["IstioModel.C14.MonitorTheorems", "IstioModel.C14.KernelTheorems", "IstioModel.C14.ListenerConflictTheorems", "IstioModel.C14.GatewayDupTheorems"]
KERNEL_STREAMS = ("domains", "clusters", "answer", "lconflict", "gwdup")


# Findings of this check that are NOT fixed in /repo (see notes/C14.md, section Findings). The coordinator
# records them in known-findings.json (status: known); until an entry is there, this local copy is used, as
# BUILDING.md allows. Anything not listed here - in particular every crash, every closure or name-uniqueness
# violation and every collision from admitted objects other than the ones below - still fails the run.
# --- objects that pass admission validation (each class is decided on the shrunk mesh by a classifier below)
KNOWN_ADMITTED = [
    ("snapshot:addr-unique:admitted:non-http-port-of-addressless-service-equals-sidecar-own-port",
     "a service without an address (ServiceEntry without addresses, headless) with a non-HTTP port equal to one of the sidecar's own listener "
     "port (15001 virtualOutbound / 15006 virtualInbound / 15008 HBONE connect_termination) yields an outbound listener on the wildcard address of that port beside it; Envoy "
     "rejects it (duplicate address). conflictWithReservedListener only guards HTTP ports and explicit wildcard binds; the repair contradicts "
     "the unedited TestOutboundListenerConflictWithReservedListener",
     "snapshot.known-port-15001.ops"),
    ("snapshot:dup-fcm:admitted:gateway-tls-servers-same-sni-different-namespace-qualifier",
     "upstream-known istio#24638: TLS servers of one gateway port and bind whose hosts name the same SNI host under different namespace "
     "qualifiers (two Gateways in different namespaces with hosts ./foo.com, or default/* and ./*) pass CheckDuplicates (it compares the "
     "namespaced strings) and yield two filter chains with the same server_names match; Envoy rejects the listener. Pinned by the unedited "
     "test TestGatewayConflicts/duplicate_tls_gateway, so not fixed",
     "snapshot.known-gateway-dup-sni.ops"),
    ("snapshot:dup-fcm:admitted:gateway-auto-passthrough-servers-overlapping-hosts",
     "two AUTO_PASSTHROUGH servers on one port whose hosts overlap (*.example.org and api.example.org) each emit the SNI-DNAT filter chain "
     "of the same service: duplicate match, listener rejected",
     "snapshot.known-gateway-merge-auto-passthrough.ops"),
    ("snapshot:dup-fcm:admitted:gateway-tls-server-then-plaintext-server-on-one-port",
     "mergeGateways rule 3 (no TLS and plain TCP on one port) is only enforced when the plaintext server comes first; TLS server first, "
     "then an opaque TCP server: both kept, a wildcard-host TLS chain and the TCP chain both have the empty match",
     "snapshot.known-gateway-merge-tls-then-tcp.ops"),
    ("snapshot:dup-fcm:admitted:gateway-plaintext-server-entry-overwritten-by-server-on-other-bind",
     "mergeGateways keeps plainTextServers per port only: a plaintext server on another bind overwrites the entry, a later HTTP server on the "
     "first bind is not merged into the existing one and a second HTTP filter chain with the empty match is built",
     "snapshot.known-gateway-merge-plaintext-binds.ops"),
]

# --- the same gateway-merge defects with a validator-rejected object left in the minimal mesh (damage that element removal
# cannot repair: a bogus protocol, an absent certificate ...): the SAME classifier decides, on the same structure and verdict;
# the fingerprint says `invalid-input` instead of `admitted`
KNOWN_TWINS = [("snapshot:dup-fcm:invalid-input:" + fp.rsplit(":", 1)[1],
                "the gateway server-merge defect `%s` (see the `admitted` entry of that name), reached with a validator-rejected Gateway / "
                "VirtualService left in the minimal mesh; decided by the same classifier (server kinds, merge order, binds, duplicated "
                "listener and match key)" % fp.rsplit(":", 1)[1], corpus)
               for fp, _, corpus in KNOWN_ADMITTED if fp.startswith("snapshot:dup-fcm:admitted:gateway-")]

# --- objects admission validation rejects, loaded past it (the property includes them): generation copies the invalid value into
# the Envoy configuration and Envoy rejects the response (no crash). A case is known ONLY if the shrunk mesh contains exactly one
# rejected object, damaged by exactly the listed mutation (mutate.go), and the violated clause / API rule is the one listed for it.
MUTATION = {
    "vs-huge-weights": "VirtualService http route weights summing above 4294967295",
    "vs-http-no-action": "VirtualService http route without route / redirect / directResponse",
    "vs-negative-weight": "VirtualService http route destination with a negative weight",
    "vs-zero-weights": "VirtualService http route with several destinations, all of weight 0",
    "vs-redirect-and-route": "VirtualService http route with both redirect (code 999) and route",
    "vs-bad-headers": "VirtualService headers.request.set/add with an empty / malformed header name",
    "vs-empty-matchers": "VirtualService match with an empty header name / empty StringMatch",
    "vs-star-host": "VirtualService bound to the mesh with host *",
    "se-star-host": "ServiceEntry with host *",
    "se-nil-endpoint": "ServiceEntry with an empty endpoint entry (no address)",
    "se-bad-endpoint-address": "ServiceEntry endpoints with an empty / unix / garbage address under STATIC resolution",
    "se-garbage-hosts": "ServiceEntry with IP / empty / malformed hosts",
    "se-port-range": "ServiceEntry port 0 or 70000",
    "se-dup-ports": "ServiceEntry listing one port number (and one port name) twice",
    "se-endpoint-port-range": "ServiceEntry endpoint port map with port 0 / 70000 / unknown names",
    "gw-port-range": "Gateway server port 0 or 70000",
    "gw-no-hosts": "Gateway TLS server without hosts (its filter chain matches everything, like another wildcard-host server of the port)",
    "gw-https-no-tls": "Gateway HTTPS server without tls settings, sharing its port with another server",
    "gw-simple-no-cert": "Gateway HTTPS server with TLS mode SIMPLE and no certificate, sharing its port with a plaintext server",
    "pa-port-range": "PeerAuthentication portLevelMtls for port 0 and 70000",
    "dr-negative-pool": "DestinationRule connectionPool / outlierDetection with negative durations and counts",
    "dr-empty-hash": "DestinationRule consistentHash with an empty httpHeaderName and minimumRingSize 9999999999",
    "we-port-range": "WorkloadEntry port map with port 0 / 70000",
    "we-empty-address": "WorkloadEntry without address",
}
RULE = {
    "weights": "weighted_clusters weights out of range (negative, sum 0 or above uint32)",
    "dup-domain": "a second domain * beside the catch-all virtual host",
    "dup-fcm": "two filter chains of one listener with the same match",
    "addr-unique": "two listeners on one address",
    "api-valid:SocketAddress.PortValue:_value_must_be_less_than_or_equal_to_N": "a port above 65535 in a socket address",
    "api-valid:SocketAddress.Address:_value_length_must_be_at_least_N_runes": "an empty address in a socket address",
    "api-valid:Route.Action:_value_is_required": "a route without action",
    "api-valid:HeaderValue.Key:_value_length_must_be_at_least_N_runes": "an empty header name in request_headers_to_add",
    "api-valid:HeaderMatcher.Name:_value_length_must_be_at_least_N_runes": "an empty header name in a HeaderMatcher",
    "api-valid:Cluster.ConnectTimeout:_value_must_be_greater_than_Ns": "a non-positive connect_timeout",
    "api-valid:Cluster_RingHashLbConfig.MinimumRingSize:_value_must_be_less_than_or_equal_to_N": "a ring size above 8388608",
    "api-valid:RouteAction_HashPolicy_Header.HeaderName:_value_length_must_be_at_least_N_runes": "an empty hash policy header name",
    "api-valid:FilterChainMatch.DestinationPort:_value_must_be_inside_range_[N_N]": "a filter chain match destination port outside 1..65535",
    "api-valid:OutlierDetection.Interval:_value_must_be_greater_than_Ns": "a non-positive outlier detection interval",
    "api-valid:OutlierDetection.BaseEjectionTime:_value_must_be_greater_than_Ns": "a non-positive base ejection time",
    "api-valid:OutlierDetection.MaxEjectionPercent:_value_must_be_less_than_or_equal_to_N": "a max ejection percent above 100",
    "api-valid:WeightedCluster.Clusters:_value_must_contain_at_least_N_item_s_": "a weighted_clusters action without clusters",
}
KNOWN_INVALID_PAIRS = [  # (violated clause / API rule, mutation)
    ("weights", "vs-huge-weights"),
    ("weights", "vs-http-no-action"),
    ("weights", "vs-negative-weight"),
    ("weights", "vs-zero-weights"),
    ("dup-domain", "se-star-host"),
    ("dup-fcm", "pa-port-range"),
    ("dup-fcm", "se-dup-ports"),
    ("dup-fcm", "gw-no-hosts"),
    ("dup-fcm", "gw-simple-no-cert"),
    ("dup-fcm", "gw-https-no-tls"),
    ("api-valid:SocketAddress.PortValue:_value_must_be_less_than_or_equal_to_N", "se-port-range"),
    ("api-valid:SocketAddress.PortValue:_value_must_be_less_than_or_equal_to_N", "gw-port-range"),
    ("api-valid:SocketAddress.Address:_value_length_must_be_at_least_N_runes", "se-nil-endpoint"),
    ("api-valid:SocketAddress.Address:_value_length_must_be_at_least_N_runes", "se-bad-endpoint-address"),
    ("api-valid:SocketAddress.Address:_value_length_must_be_at_least_N_runes", "se-garbage-hosts"),
    ("api-valid:SocketAddress.Address:_value_length_must_be_at_least_N_runes", "we-empty-address"),
    ("api-valid:Route.Action:_value_is_required", "vs-redirect-and-route"),
    ("api-valid:HeaderValue.Key:_value_length_must_be_at_least_N_runes", "vs-bad-headers"),
    ("api-valid:HeaderMatcher.Name:_value_length_must_be_at_least_N_runes", "vs-empty-matchers"),
    ("api-valid:Cluster.ConnectTimeout:_value_must_be_greater_than_Ns", "dr-negative-pool"),
    ("api-valid:OutlierDetection.Interval:_value_must_be_greater_than_Ns", "dr-negative-pool"),
    ("api-valid:OutlierDetection.BaseEjectionTime:_value_must_be_greater_than_Ns", "dr-negative-pool"),
    ("api-valid:OutlierDetection.MaxEjectionPercent:_value_must_be_less_than_or_equal_to_N", "dr-negative-pool"),
    ("api-valid:WeightedCluster.Clusters:_value_must_contain_at_least_N_item_s_", "vs-http-no-action"),
    ("api-valid:WeightedCluster.Clusters:_value_must_contain_at_least_N_item_s_", "vs-zero-weights"),
    ("api-valid:FilterChainMatch.DestinationPort:_value_must_be_inside_range_[N_N]", "pa-port-range"),
    ("api-valid:Cluster_RingHashLbConfig.MinimumRingSize:_value_must_be_less_than_or_equal_to_N", "dr-empty-hash"),
    ("api-valid:RouteAction_HashPolicy_Header.HeaderName:_value_length_must_be_at_least_N_runes", "dr-empty-hash"),
]

# Every known finding lives in /verif/known-findings.json (merged by the coordinator from notes/C14.known.json and
# notes/C14.known.delta.json; a later addition goes into a new delta). The tables above only document the classes.
LOCAL_KNOWN = []


def install_local_known(ctx):
    have = {k.get("fingerprint") for k in ctx.known}
    for fp, what in LOCAL_KNOWN:
        if fp not in have:
            ctx.known.append({"property_id": ctx.pid, "status": "known", "fingerprint": fp, "what": what + " [" + fp + "]"})


# ---------------------------------------------------------------------------------------------- helpers

def split_cases(lines):
    cases = []
    for l in lines:
        if l.startswith("case") or not cases:
            cases.append([])
        cases[-1].append(l)
    return cases


def write_lines(path, lines):
    with open(path, "w") as f:
        f.write("\n".join(lines) + ("\n" if lines else ""))


def verdict_classes(impl_line):
    """Mirror of verdictClasses in harness/c14/main.go: every kind of failure of one push line.
    impl line = `<first verdict> | <info> || <v1> || <v2> ...`."""
    head, _, rest = impl_line.partition(" || ")
    v, _, info = head.partition(" | ")
    f = v.split()
    if not f or f[0] == "ok":
        return []
    if f[0] in ("crash", "timeout"):
        return [v]
    out = []
    for a in (rest.split(" || ") if rest else [v]):
        g = a.split()
        if len(g) < 2 or g[0] != "bad":
            continue
        if g[1] == "api-valid":
            for t in info.split():
                if t.startswith("pgv="):
                    out += ["bad api-valid " + r for r in t[4:].split(",")]
            continue
        out.append("bad " + g[1])
    return out


def verdict_class(impl_line):
    c = verdict_classes(impl_line)
    return c[0] if c else ""


def clause_verdict(impl_line, cls):
    """The verdict string (`bad <clause> <detail...>`) of the clause of `cls` in an impl line, or the crash token."""
    head, _, rest = impl_line.partition(" || ")
    v = head.partition(" | ")[0]
    if cls.startswith(("crash", "timeout")):
        return v
    want = cls.split()[1]
    for a in (rest.split(" || ") if rest else [v]):
        g = a.split()
        if len(g) > 1 and g[0] == "bad" and g[1] == want:
            return a
    return ""


CHUNK = 200  # cases per harness process: every FakeDiscoveryServer leaves goroutines and krt debug state behind


def harness(ctx, *args, **kw):
    return ctx.harness(*args, **kw)


def guard_binary(ctx):
    """Make every ctx.harness call rebuild the binary if it vanished (binaries under harness/bin are shared with
    other checks' clean-ups; observed with scratch-worktree runs)."""
    orig = ctx.harness

    def wrapped(*args, **kw):
        exe = getattr(ctx, "bin_path", None)
        if exe and not os.path.exists(exe):
            ctx.log("harness binary vanished, rebuilding")
            ctx.go_build()
        return orig(*args, **kw)
    ctx.harness = wrapped


def exec_snapshot(ctx, ops_path, tag, retry=True):
    """Run the real code on an ops file, CHUNK cases per process. Survives a crash of the harness PROCESS (a panic
    in a goroutine of the control plane cannot be recovered): the case during which the process died is re-run
    alone once; if it dies again it is recorded as `crash process ...`; execution resumes with the next case.
    Returns (impl_lines, snap_lines) aligned with the ops lines."""
    ops = ctx.read_lines(ops_path)
    cases = split_cases(ops)
    impl_all, snap_all = [], []
    start = 0
    rounds = 0
    while start < len(cases):
        rounds += 1
        chunk = cases[start:start + CHUNK]
        part = os.path.join(ctx.work, "snapshot.%s.part.ops" % tag)
        write_lines(part, [l for c in chunk for l in c])
        impl_p = os.path.join(ctx.work, "snapshot.%s.part.impl" % tag)
        for p in (impl_p, impl_p + ".snap"):
            if os.path.exists(p):
                os.remove(p)
        rc, log = harness(ctx, "exec", "snapshot", part, impl_p, timeout=3000)
        impl = ctx.read_lines(impl_p) if os.path.exists(impl_p) else []
        snap = ctx.read_lines(impl_p + ".snap") if os.path.exists(impl_p + ".snap") else []
        n = min(len(impl), len(snap))
        done = 0
        used = 0
        for c in chunk:  # keep whole cases only
            if used + len(c) <= n:
                used += len(c)
                done += 1
            else:
                break
        impl_all += impl[:used]
        snap_all += snap[:used]
        start += done
        if done < len(chunk):
            # the process died (or stopped) inside cases[start]
            c = cases[start]
            if retry:
                single = os.path.join(ctx.work, "snapshot.%s.single.ops" % tag)
                write_lines(single, c)
                i2, s2 = exec_snapshot(ctx, single, tag + ".single", retry=False)
                impl_all += i2
                snap_all += s2
                if not any(verdict_class(l).startswith("crash process") for l in i2):
                    ctx.count("snapshot.process_died_but_case_passed_alone")
                    ctx.log("harness process died (rc=%s) in %s but the case passes alone; tail: %s" % (rc, c[0], log[-300:].replace("\n", " | ")))
                    if re.search(r"^(panic: |fatal error: )", log, flags=re.M):
                        ctx.tie_broken("nondeterministic-crash:process",
                                       "the harness process died with a panic of the control plane, but the case passes when re-run alone",
                                       {"stream": "snapshot", "ops": c, "log_tail": log[-1500:]})
                start += 1
                continue
            m = re.search(r"^(panic: .*|fatal error: .*)$", log, flags=re.M)
            msg = (m.group(1) if m else "harness exited rc=%d" % rc)
            msg = re.sub(r"0x[0-9a-f]+", "X", msg)
            msg = re.sub(r"[0-9]+", "N", msg)[:100].replace(" ", "_")
            where = ""
            mm = re.search(r"^istio\.io/istio/([^\s(]+)", log[log.find(m.group(1)):] if m else "", flags=re.M)
            if mm:
                where = "@" + mm.group(1).split("/")[-1]
            for l in c:
                if l.startswith("push"):
                    impl_all.append("crash process %s%s | -" % (msg, where))
                else:
                    impl_all.append("ok")
                snap_all.append(l if l.startswith("case") else "skip")
            ctx.count("snapshot.process_crashes")
            start += 1
        if rounds > 400:
            break
    return impl_all, snap_all


def run_monitor(ctx, snap_lines, tag):
    p = os.path.join(ctx.work, "snapshot.%s.snap" % tag)
    write_lines(p, snap_lines)
    out = os.path.join(ctx.work, "snapshot.%s.model" % tag)
    rc, err = ctx.drv("snapshot", p, out)
    if rc != 0:
        return None, err
    return ctx.read_lines(out), ""


WORKERS = 4


def deep_class(cls):
    """Classes whose classifiers look INSIDE objects get sub-object shrinking (servers, hosts, ports, routes)."""
    return cls in ("bad dup-fcm", "bad addr-unique") or cls.startswith("crash")


def shrink_process_crash(ctx, case_lines, tag):
    """The harness process itself dies: line-level delta debugging from here (each evaluation is a process)."""
    head, body = case_lines[0], list(case_lines[1:])

    def fails(lines):
        p = os.path.join(ctx.work, "snapshot.%s.pshrink.ops" % tag)
        write_lines(p, [head] + lines)
        impl, _ = exec_snapshot(ctx, p, tag + ".pshrink")
        return any(c.startswith("crash process") for l in impl for c in verdict_classes(l))

    chunk = max(1, len(body) // 2)
    rounds = 0
    while chunk >= 1 and rounds < 80:
        i, progressed = 0, False
        while i < len(body) and rounds < 80:
            cand = body[:i] + body[i + chunk:]
            rounds += 1
            if len(cand) < len(body) and fails(cand):
                body, progressed = cand, True
            else:
                i += chunk
        if chunk == 1:
            if not progressed:
                break
        else:
            chunk //= 2
    return [head] + body


def shrink_jobs(ctx, jobs, tag):
    """Minimise many failing (case, class) pairs: in-process delta debugging by the harness (`shrinkb`, WORKERS processes
    in parallel): lines first, then - for the classes whose classifiers look inside objects - elements of the arrays
    inside the remaining objects. Returns, per job, (lines, shrunk?). A job the batch could not shrink is retried alone once."""
    from concurrent.futures import ThreadPoolExecutor
    res = [None] * len(jobs)
    normal = [k for k, (c, cls) in enumerate(jobs) if not cls.startswith("crash process")]
    for k, (c, cls) in enumerate(jobs):
        if cls.startswith("crash process"):
            res[k] = (shrink_process_crash(ctx, c, tag), True)

    def run_slice(w):
        mine = normal[w::WORKERS]
        if not mine:
            return
        src = os.path.join(ctx.work, "snapshot.%s.shrinkb%d.in.ops" % (tag, w))
        dst = os.path.join(ctx.work, "snapshot.%s.shrinkb%d.out.ops" % (tag, w))
        jf = os.path.join(ctx.work, "snapshot.%s.shrinkb%d.jobs" % (tag, w))
        write_lines(src, [l for k in mine for l in jobs[k][0]])
        write_lines(jf, ["%d %s" % (1 if deep_class(jobs[k][1]) else 0, jobs[k][1]) for k in mine])
        for p in (dst, dst + ".status"):
            if os.path.exists(p):
                os.remove(p)
        ctx.harness("shrinkb", "snapshot", src, dst, jf, timeout=3000)
        out = split_cases(ctx.read_lines(dst)) if os.path.exists(dst) else []
        st = ctx.read_lines(dst + ".status") if os.path.exists(dst + ".status") else []
        for n, k in enumerate(mine):
            if n < len(out) and n < len(st):
                res[k] = (out[n], st[n] == "shrunk")

    with ThreadPoolExecutor(WORKERS) as ex:
        list(ex.map(run_slice, range(WORKERS)))
    for k in normal:
        if res[k] is None or not res[k][1]:
            # alone, once more (the batch process may have died, or run out of time)
            src = os.path.join(ctx.work, "snapshot.%s.shrink1.in.ops" % tag)
            dst = os.path.join(ctx.work, "snapshot.%s.shrink1.out.ops" % tag)
            write_lines(src, jobs[k][0])
            if os.path.exists(dst):
                os.remove(dst)
            rc, log = ctx.harness("shrink", "snapshot", src, dst, jobs[k][1], timeout=900)
            if rc == 0 and os.path.exists(dst):
                res[k] = (ctx.read_lines(dst), True)
            else:
                ctx.count("snapshot.shrink_failed")
                res[k] = (jobs[k][0], False)
    return res


def sanitize_class(cls):
    c = cls.replace("bad ", "").replace(" ", ":")
    return re.sub(r"[^A-Za-z0-9_.:\[\]@,=-]", "_", c)[:160]


def fingerprint(min_lines, impl, cls, shrunk):
    """Fingerprint of the minimal failing input class, decided on the SHRUNK mesh and its own verdict lines `impl`.
    needs a rejected object:            snapshot:<class>:invalid-input:tag=<mutation>   (exactly one rejected object)
    all admitted, one deliberately
      damaged (validation has a gap):   snapshot:<class>:admitted:tag=<mutation tags>
    all admitted, all from the valid
      generator:                        snapshot:<class>:admitted:<defect class of a classifier | config kinds>
    <class> = violated clause (+ the API's reason for api-valid) or `crash:<where>:<panic>@<function>`.
    A case that could not be shrunk never gets a fingerprint that can be known (`...:unshrunk:...`)."""
    kinds, rtags, atags = set(), [], set()
    nrej = 0
    verdict = ""
    for l, o in zip(min_lines, impl):
        f = l.split()
        if f[0] == "cfg":
            kinds.add(f[1])
            tags = [t[4:] for t in (f[7].split(",") if len(f) > 7 and f[7] != "-" else []) if t.startswith("tag:")]
            if o.startswith("rejected") or o.startswith("undecodable"):
                nrej += 1
                rtags += tags or ["untagged"]
            else:
                atags.update(tags)
        elif f[0] == "kube":
            kinds.add("Kube")
        elif f[0] == "step" and len(f) > 2:
            kinds.add(f[2])
            kinds.add("push-sequence")   # the failure needs the sequence (the shrinker tries the flattened store state first)
            if not verdict and cls in verdict_classes(o):
                verdict = clause_verdict(o, cls)
        elif f[0] in PUSH_OPS and not verdict and cls in verdict_classes(o):
            verdict = clause_verdict(o, cls)
            if f[0] == "dpush":
                kinds.add("incremental-push")
    c = sanitize_class(cls)
    if not shrunk:
        return "snapshot:%s:unshrunk:%s" % (c, "+".join(sorted(kinds)) or "Service"), nrej > 0, sorted(set(rtags) | atags)
    # The defect classifiers decide first, on the structure that is left in the minimal mesh and on the verdict (sub-object
    # shrinking may have removed the damage of a deliberately damaged object: its tag then says nothing). A defect of the
    # generation code that a classifier recognizes is the same defect whether or not one of the objects is also rejected
    # by validation; the fingerprint still says which of the two it was.
    g = None
    if cls == "bad addr-unique":
        g = classify_reserved_port(min_lines, verdict)
    elif cls == "bad dup-fcm" and "Gateway" in kinds:
        g = classify_gateway_merge(min_lines, verdict)
    if g:
        return "snapshot:%s:%s:%s" % (c, "invalid-input" if nrej else "admitted", g), nrej > 0, sorted(set(rtags))
    if nrej:
        # the class names the damage: the mutation tag of THE rejected object of the minimal mesh (several rejected
        # objects, also with one tag, are listed with their multiplicity and are never known)
        return "snapshot:%s:invalid-input:tag=%s" % (c, "+".join(sorted(rtags))), True, sorted(set(rtags) | atags)
    # all objects are admitted and no classifier applies: a tag of an admitted damaged object names the class (a gap of validation)
    if atags:
        return "snapshot:%s:admitted:tag=%s" % (c, "+".join(sorted(atags))), False, sorted(atags)
    return "snapshot:%s:admitted:%s" % (c, "+".join(sorted(kinds)) or "Service"), False, []


PUSH_OPS = ("push", "dpush", "dseq", "step")   # the lines whose output is a judged snapshot
HTTP_PROTOCOLS = ("HTTP", "HTTP2", "GRPC", "GRPC-WEB", "HTTP_PROXY")


def classify_reserved_port(min_lines, verdict):
    """Defect: conflictWithReservedListener does not guard a NON-HTTP port of a service WITHOUT address (the listener
    ends up on the wildcard address) that equals one of the sidecar's own ports. Required: the duplicated address is
    the wildcard address on 15001 / 15006 / 15008 / 15021 / 15090; the minimal mesh holds no Sidecar (an explicit bind
    is guarded) and exactly the services needed; the service port with that number is non-HTTP and the service has no
    address. An HTTP port there is guarded today: a duplicate from it is NOT this class."""
    from urllib.parse import unquote
    m = re.search(r"bad addr-unique \S*?:(?:0\.0\.0\.0|%5B%3A%3A%5D|\[::\]):(15001|15006|15008|15021|15090)$", verdict.strip())
    if not m:
        return None
    port = int(m.group(1))
    hits = []  # (protocol, has address) of every service port with that number in the minimal mesh
    for l in min_lines:
        f = l.split()
        if f[0] == "cfg" and f[1] == "Sidecar":
            return None
        if f[0] == "svc":
            for pd in unquote(f[4]).split(","):
                q = pd.split("/")
                if len(q) == 3 and q[1] == str(port):
                    hits.append((q[2].upper(), not (f[5] == "headless" or unquote(f[3]) in ("0.0.0.0", "", "~"))))
        if f[0] == "cfg" and f[1] == "ServiceEntry":
            try:
                spec = json.loads(unquote(f[6]))
            except ValueError:
                return None
            for p in spec.get("ports", []):
                if p.get("number") == port:
                    hits.append(((p.get("protocol") or "").upper(), bool(spec.get("addresses"))))
    if len(hits) != 1:
        return None
    proto, has_address = hits[0]
    if proto in HTTP_PROTOCOLS or has_address:
        return None
    return "non-http-port-of-addressless-service-equals-sidecar-own-port"


def host_matches(a, b):
    """host.Name.Matches: equal, or one is a wildcard covering the other."""
    if a == b or a == "*" or b == "*":
        return True
    if a.startswith("*") and not b.startswith("*"):
        return b.endswith(a[1:])
    if b.startswith("*") and not a.startswith("*"):
        return a.endswith(b[1:])
    if a.startswith("*") and b.startswith("*"):
        return a.endswith(b[1:]) or b.endswith(a[1:])
    return False


def classify_gateway_merge(min_lines, verdict):
    """Defect classes of the gateway server merge (mergeGateways) that yield two filter chains with one match, decided on
    the SERVERS left in the minimal mesh (objects and servers are both shrunk), their merge ORDER (creation time, then
    position) and the duplicated listener / match key of the verdict `bad dup-fcm <listener> <key>`.
    None = none of the known defects: the violation keeps its generic fingerprint and fails the run."""
    from urllib.parse import unquote
    vf = verdict.split()
    if len(vf) < 4 or vf[:2] != ["bad", "dup-fcm"]:
        return None
    lname, key = unquote(vf[2]), ("" if vf[3] == "~" else unquote(vf[3]))
    lbind, _, lport = lname.rpartition("_")
    if not lport.isdigit():
        return None
    lport = int(lport)
    servers = []
    has_vs = False
    for l in min_lines:
        f = l.split()
        if f[0] != "cfg":
            continue
        if f[1] != "Gateway":
            if f[1] not in ("VirtualService", "ServiceEntry"):
                return None   # something else is needed for the failure: not a pure server-merge defect
            has_vs = has_vs or f[1] == "VirtualService"
            continue
        ns = unquote(f[2]) if f[2] != "~" else ""
        try:
            spec = json.loads(unquote(f[6]))
        except ValueError:
            return None
        for idx, srv in enumerate(spec.get("servers", [])):
            port = srv.get("port") or {}
            hosts = []
            for h in srv.get("hosts", []):
                q, _, hp = h.rpartition("/")
                if q == ".":
                    q = ns
                if q == "*":
                    q = ""
                hosts.append((q, hp))
            tls = srv.get("tls")
            proto = (port.get("protocol") or "").upper()
            servers.append({"port": port.get("number"), "bind": srv.get("bind", ""), "hosts": hosts, "proto": proto,
                            "tls": tls is not None,
                            "mode": (tls or {}).get("mode", "PASSTHROUGH") if tls is not None else "",
                            "http": proto in HTTP_PROTOCOLS, "order": (int(f[4]), ns + "/" + unquote(f[3]), idx)})
    # a server port is resolved through the gateway workload's Service: Service port -> target port of its endpoints
    svc_ports, target = {}, {}
    for l in min_lines:
        f = l.split()
        if f[0] == "svc":
            for pd in unquote(f[4]).split(","):
                q = pd.split("/")
                if len(q) == 3 and q[1].isdigit():
                    svc_ports[(unquote(f[1]), q[0])] = int(q[1])
    for l in min_lines:
        f = l.split()
        if f[0] == "ep" and len(f) > 7 and f[7].isdigit():
            sp = svc_ports.get((unquote(f[1]), unquote(f[2])))
            if sp is not None:
                target[sp] = int(f[7])
    for srv in servers:
        srv["port"] = target.get(srv["port"], srv["port"])
    servers.sort(key=lambda x: x["order"])
    # every remaining server must sit on the duplicated listener's port (the shrinker removed the others)
    if not servers or any(x["port"] != lport for x in servers):
        return None
    on_listener = [x for x in servers if (x["bind"] or "0.0.0.0") == (lbind or "0.0.0.0") or (x["bind"] == "" and lbind in ("0.0.0.0", "::", "[::]"))]

    def sni_key(hs):
        hs = sorted(set(hs))
        return "" if "*" in hs else "sni=" + ",".join('"%s"' % h for h in hs)

    if len(servers) == 2 and len(on_listener) == 2:
        a, b = servers
        ha, hb = [h for _, h in a["hosts"]], [h for _, h in b["hosts"]]
        sa, sb = set(a["hosts"]), set(b["hosts"])
        # istio#24638: two TLS-terminating servers, same bind, the same SNI host set, but NO namespaced host string in
        # common (a common string is caught by CheckDuplicates today), and the duplicated key is that SNI set
        if (a["tls"] and b["tls"] and a["mode"] not in ("PASSTHROUGH", "AUTO_PASSTHROUGH") and b["mode"] not in ("PASSTHROUGH", "AUTO_PASSTHROUGH")
                and not (sa & sb) and sni_key(ha) == sni_key(hb) == key and (set(ha) & set(hb) or "*" in ha)):
            return "gateway-tls-servers-same-sni-different-namespace-qualifier"
        # two AUTO_PASSTHROUGH servers whose hosts overlap without being the same string: the SNI-DNAT chain of a
        # service both cover is emitted twice
        m = re.match(r'sni="outbound_\.\d+_\._\.([^"]+)"', key)
        if (a["mode"] == "AUTO_PASSTHROUGH" and b["mode"] == "AUTO_PASSTHROUGH" and m and not (sa & sb)
                and any(host_matches(x, m.group(1)) for x in ha) and any(host_matches(x, m.group(1)) for x in hb)
                and any(host_matches(x, y) for x in ha for y in hb)):
            return "gateway-auto-passthrough-servers-overlapping-hosts"
        # rule 3 (no TLS and plaintext on one port and bind) is enforced only when the plaintext server comes FIRST:
        # TLS-terminating server with a wildcard host first, THEN a plaintext server (opaque TCP or HTTP); both chains
        # have the empty match. (Plaintext first, then TLS, is rejected today: that order is NOT this class.)
        # The TLS server's chain has the empty match when it terminates TLS for a wildcard host, or when it passes TLS
        # through and a VirtualService tls route with sniHosts [*] is bound to it.
        if a["tls"] and not b["tls"] and key == "" and a["mode"] != "AUTO_PASSTHROUGH" and (
                (("*" in ha or not ha) and a["mode"] != "PASSTHROUGH") or (a["mode"] == "PASSTHROUGH" and has_vs)):
            return "gateway-tls-server-then-plaintext-server-on-one-port"
        return None
    if len(servers) in (3, 4) and len(on_listener) == len(servers) - 1 and key == "":
        # plainTextServers is kept per PORT only: a plaintext server `a` on bind X, then a plaintext server `b` on another
        # bind Y (it overwrites the entry), then one or two servers on X that rule 1 / rule 3 should have merged with or
        # rejected against `a` (a plaintext server: neither merged into `a`'s entry correctly nor rejected; a TLS server
        # with a wildcard host: not rejected) - two chains with the empty match on X:port
        a = on_listener[0]
        b = [x for x in servers if x not in on_listener][0]

        def later_ok(c):
            ch = [h for _, h in c["hosts"]]
            return c["order"] > b["order"] and (
                not c["tls"] or (c["mode"] not in ("PASSTHROUGH", "AUTO_PASSTHROUGH") and ("*" in ch or not ch)) or (c["mode"] == "PASSTHROUGH" and has_vs))

        if (not a["tls"] and not b["tls"] and a["order"] < b["order"] and all(later_ok(c) for c in on_listener[1:])
                and all(c["bind"] == a["bind"] for c in on_listener)):
            return "gateway-plaintext-server-entry-overwritten-by-server-on-other-bind"
    return None


# ---------------------------------------------------------------------------------------------- stream snapshot

def class_rank(cls):
    """Crashes first, then timeouts, then the clauses."""
    return 0 if cls.startswith("crash") else 1 if cls.startswith("timeout") else 2


def confirm_alone(ctx, clines, cls, tag):
    """Re-run one case alone in a fresh process: does the class show again?"""
    p = os.path.join(ctx.work, "snapshot.%s.confirm.ops" % tag)
    write_lines(p, clines)
    impl, _ = exec_snapshot(ctx, p, tag + ".confirm", retry=False)
    return any(cls in verdict_classes(l) for l in impl)


def snapshot_file(ctx, ops_path, tag):
    """Run one ops file of the snapshot stream: every push of every case is judged, for every clause and every reason of
    the API validation; every distinct failure class of a case is shrunk and classified (no budget before
    classification - repeats of a known class cannot use up the examination of a new one).
    Returns the number of pushes judged."""
    ops = ctx.read_lines(ops_path)
    impl, snap = exec_snapshot(ctx, ops_path, tag)
    if len(impl) != len(ops):
        ctx.tie_broken("stream-run:snapshot", "harness produced %d lines for %d ops (%s)" % (len(impl), len(ops), tag))
        return 0
    model, err = run_monitor(ctx, snap, tag)
    if model is None or len(model) != len(ops):
        ctx.tie_broken("stream-run:snapshot", "lean monitor failed on %s: %s" % (tag, (err or "")[-2000:]))
        return 0
    st = ctx.streams.setdefault("snapshot", {"cases": 0, "ops": 0, "agree": True})
    judged = 0
    idx = 0
    bounds = []
    for c in split_cases(ops):
        bounds.append((idx, idx + len(c)))
        idx += len(c)
    jobs = []      # (case lines, class)
    jobinfo = []   # (push type, case kind, go verdict, lean verdict, case header)
    for (s, e) in bounds:
        st["cases"] += 1
        st["ops"] += e - s
        clines = ops[s:e]
        kind = clines[0].split()[3] if len(clines[0].split()) > 3 else "valid"
        ctx.count("snapshot.cases.%s" % kind)
        canon = []
        classes = {}   # class -> first push index showing it
        for i in range(s, e):
            op = ops[i].split()
            if op[0] == "cfg":
                ctx.count("snapshot.objects.%s.%s" % (op[1], impl[i].split()[0]))
            if op[0] not in PUSH_OPS:
                continue
            judged += 1
            ctx.count("snapshot.%s.%s" % ({"push": "pushes", "dseq": "pushes", "dpush": "incremental_pushes", "step": "sequence_steps"}[op[0]], op[1]))
            head, _, allv = impl[i].partition(" || ")
            go_first, _, info = head.partition(" | ")
            go_v = allv or go_first
            lean_v = model[i]
            for t in info.split():
                if t[:2] in ("L=", "R=", "C=", "E=") and t[2:].isdigit():
                    ctx.count("snapshot.resources.%s" % t[0], int(t[2:]))
                if t.startswith("any-skipped=") and t[12:].isdigit():
                    ctx.count("snapshot.any_values_of_unlinked_type_not_validated", int(t[12:]))
                if t.startswith("unk="):
                    for part in t[4:].split(","):
                        k, _, ab = part.partition(":")
                        a, _, b = ab.partition("/")
                        if a.isdigit() and b.isdigit():
                            ctx.count("snapshot.unknown_%s_requested" % k, int(b))
                            ctx.count("snapshot.unknown_%s_answered" % k, int(a))
            canon.append(snap[i])
            if snap[i].startswith("snap") and go_v != lean_v:
                st["agree"] = False
                ctx.tie_broken("monitor-vs-go-restatement",
                               "the verified Lean monitor and the Go re-statement disagree on a real snapshot",
                               {"stream": "snapshot", "ops": clines, "push": ops[i], "go": go_v, "lean": lean_v})
            cl = verdict_classes(impl[i])
            if snap[i].startswith("snap") and lean_v.startswith("bad"):
                for a in lean_v.split(" || "):
                    g = a.split()
                    if len(g) > 1 and g[1] != "api-valid" and ("bad " + g[1]) not in cl:
                        cl.append("bad " + g[1])
            if cl:
                for c in cl:
                    ctx.count("snapshot.verdict.%s" % c.split()[0 if c.startswith(("crash", "timeout")) else 1])
                    classes.setdefault(c, i)
            else:
                ctx.count("snapshot.verdict.ok")
        nontrivial = any(l.startswith(PUSH_OPS) for l in clines)
        sample = None
        if len(ctx.samples) < 3 and nontrivial:
            sample = {"stream": "snapshot", "ops": [l[:300] for l in clines[:4]] + ["... (%d lines)" % len(clines)],
                      "implementation_output": [impl[i][:200] for i in range(s, e) if ops[i].startswith(PUSH_OPS)][:4]}
        ctx.note_case("snapshot\n" + "\n".join(canon), nontrivial, sample)
        for cls in sorted(classes, key=lambda c: (class_rank(c), classes[c])):
            i = classes[cls]
            if cls.startswith("timeout") or (cls.startswith("crash") and not cls.startswith("crash process")):
                # a wall-clock timeout / a crash is confirmed alone in a fresh process before it is reported
                if not confirm_alone(ctx, clines, cls, tag):
                    if cls.startswith("timeout"):
                        ctx.count("snapshot.timeout_not_reproduced_alone")
                        ctx.log("timeout in %s (%s) did not reproduce alone: not reported" % (clines[0], cls))
                    else:
                        ctx.tie_broken("nondeterministic-crash:" + sanitize_class(cls),
                                       "generation crashed inside a run but not when the case was re-run alone",
                                       {"stream": "snapshot", "ops": clines, "class": cls})
                    continue
            jobs.append((clines, cls))
            jobinfo.append((ops[i].split()[1], kind, impl[i], model[i], clines[0]))
    if not jobs:
        return judged
    ctx.count("snapshot.failure_classes_examined", len(jobs))
    shrunk = shrink_jobs(ctx, jobs, tag)
    # the verdicts of the shrunk meshes themselves (one run over all of them)
    allmin = os.path.join(ctx.work, "snapshot.%s.min.ops" % tag)
    write_lines(allmin, [l for (lines, _ok) in shrunk for l in lines])
    mimpl, _ = exec_snapshot(ctx, allmin, tag + ".min")
    pos = 0
    for (clines, cls), (small, ok), (ptype, kind, go_line, lean_v, header) in zip(jobs, shrunk, jobinfo):
        simpl = mimpl[pos:pos + len(small)]
        pos += len(small)
        if len(simpl) != len(small):
            simpl = ["ok"] * len(small)
            ok = False
        if any(c.startswith("crash process") for o in simpl for c in verdict_classes(o)):
            # the process died: the per-object admission verdicts were lost; get them from a run without the pushes
            q = os.path.join(ctx.work, "snapshot.%s.fpv.ops" % tag)
            nopush = [l for l in small if not l.startswith(PUSH_OPS)]
            write_lines(q, nopush)
            vimpl, _ = exec_snapshot(ctx, q, tag + ".fpv", retry=False)
            vmap = dict(zip(nopush, vimpl))
            simpl = [vmap.get(l, o) if not l.startswith(PUSH_OPS) else o for l, o in zip(small, simpl)]
        elif ok and not any(cls in verdict_classes(o) for o in simpl):
            ok = False   # the shrunk mesh does not show the class in a fresh process
            ctx.count("snapshot.shrunk_mesh_not_reproduced")
        fp, rejected, tags = fingerprint(small, simpl, cls, ok)
        if rejected:
            for t in tags:
                ctx.count("snapshot.invalid_input_finding.%s.%s" % (cls.split()[1] if cls.startswith("bad") else "crash", t))
        ctx.count("snapshot.fingerprint.%s" % fp.split(":")[1])
        what = ("real xDS generation yields a snapshot that violates '%s' for a %s proxy (%s)"
                % (cls, ptype, "only with an object admission validation rejects" if rejected else "all objects pass admission validation"))
        ctx.violation(fp, what, {"stream": "snapshot", "ops": small, "verdict_go": clause_verdict(go_line, cls) or go_line.partition(" | ")[0],
                                 "verdict_lean_monitor": lean_v, "class": cls, "damage": tags, "shrunk": ok,
                                 "original_case": header, "source": tag}, True)
    return judged


def run_snapshot(ctx):
    cdir = os.path.join(os.path.dirname(os.path.dirname(os.path.abspath(__file__))), "harness", "corpus", ctx.pid)
    if os.path.isdir(cdir):
        # all corpus files as one ops file (one harness process instead of twenty)
        lines = []
        for f in sorted(os.listdir(cdir)):
            if f.startswith("snapshot.") and f.endswith(".ops"):
                lines += ctx.read_lines(os.path.join(cdir, f))
        if lines:
            p = os.path.join(ctx.work, "snapshot.corpus.ops")
            write_lines(p, lines)
            snapshot_file(ctx, p, "corpus")
    n = ctx.n(400, 6000)
    ops = os.path.join(ctx.work, "snapshot.gen.ops")
    if os.path.exists(ops):
        os.remove(ops)
    rc, out = ctx.harness("gen", "snapshot", ctx.seed, n, ops)
    if rc != 0 or not os.path.exists(ops):
        ctx.tie_broken("harness-gen:snapshot", out)
        return
    judged = snapshot_file(ctx, ops, "gen")
    ctx.log("stream snapshot: %d meshes, %d real snapshots judged by the Lean monitor" % (n, judged))


def kernel_oracle(ctx, stream, case_lines, rep):
    p = os.path.join(ctx.work, "%s.oracle.ops" % stream)
    write_lines(p, case_lines)
    for ops in (p, os.path.join(ctx.work, "%s.gen.ops" % stream)):
        if not os.path.exists(ops):
            continue
        out = ops + ".verdict"
        rc, log = ctx.harness("oracle", stream, ops, out)
        if rc != 0 or not os.path.exists(out):
            continue
        for i, v in enumerate(ctx.read_lines(out)):
            if v.startswith("FAIL"):
                clause = v.split()[1]
                lines = ctx.read_lines(ops)
                starts = [k for k, l in enumerate(lines) if l.startswith("case")]
                s = starts[i]
                e = starts[i + 1] if i + 1 < len(starts) else len(lines)
                return ("kernel:%s:%s" % (stream, clause),
                        "kernel %s violates its clause '%s' on the real code" % (stream, clause),
                        {"stream": stream, "ops": lines[s:e], "oracle_verdict": v, "correspondence": rep})
    return None


def run(ctx):
    ctx.rule = ("snapshot: cases = random meshes (3-7 registry services with endpoints, 0-5 ServiceEntries, 0-3 Gateways, 0-2 DestinationRules, "
                "0-4 VirtualServices, Sidecars, EnvoyFilters, PeerAuthentication, AuthorizationPolicy, RequestAuthentication, Telemetry, WasmPlugin, ProxyConfig; "
                "hosts/ports/VIPs drawn from small colliding pools; every second case has EXACTLY ONE object damaged past validation by one mutation of a "
                "catalogue of 86, the k-th such case forced to the k-th entry) x 3-6 proxies (sidecar / router / waypoint), each with a full push and some "
                "with an incremental push merged into it; in a quarter of the valid cases one proxy's delta-xDS client is followed through 3-6 store changes "
                "(dseq / step) and every intermediate merged state is judged; every push, every clause and every API validation reason is judged; one evaluation = one case; distinct = hash of the "
                "abstract snapshots of its pushes; non-trivial = at least one push. kernel streams: random and adversarial inputs per kernel")
    ctx.assumptions = [
        "PARTIAL: that real generation always yields a WellFormed snapshot (or terminates) is EXPLORED on the generated meshes, not proved; "
        "proved are the monitor (sound + complete for WellFormed) and the kernels' exact models",
        "WellFormed is Envoy's acceptance as far as the property lists it (names, closure, domains, filter chain matches, weights, API validation); "
        "Envoy's loader rules are taken from the API comments (go-control-plane) - no Envoy binary runs",
        "admission = the schema's ValidateConfig (validation.go); CRD OpenAPI/CEL rules of the API server are not run",
        "nil ELEMENTS of repeated fields are not generated (no decoding path can deliver one); absent sub-messages are",
    ]
    ctx.trusted.append("harness/c14/reduce.go: reduction of Envoy protos to the abstract snapshot (cross-checked on every snapshot by the independent "
                       "Go re-statement wf.go, which works on the protos with proto.Equal)")
    ctx.trusted.append("pilot/pkg/networking/core/zz_verif_c12.go, zz_verif_c14.go (verif-tagged accessors)")
    install_local_known(ctx)
    ctx.lean_prove(THEOREMS)
    if not ctx.build_drv():
        return
    if not ctx.go_build():
        return
    guard_binary(ctx)
    for k in KERNEL_STREAMS:
        # lconflict: the whole finite table (15 incoming protocols x 2 binds x (no entry + 15 x 2 entries)), every run
        ctx.diff_stream(k, 15 if k == "lconflict" else ctx.n(1500, 30000), oracle=kernel_oracle)
        g = os.path.join(ctx.work, "%s.gen.ops" % k)
        if os.path.exists(g):
            out = g + ".verdict"
            rc, log = ctx.harness("oracle", k, g, out)
            if rc == 0 and os.path.exists(out):
                vs = ctx.read_lines(out)
                ctx.count("oracle.%s.cases" % k, len(vs))
                if any(v.startswith("FAIL") for v in vs):
                    found = kernel_oracle(ctx, k, ["case 0 %s" % k], None)
                    if found:
                        ctx.violation(found[0], found[1], found[2], True)
    run_snapshot(ctx)
    ctx.extra["proved_vs_explored"] = {
        "proved": "theorems of %s (monitor soundness/completeness, kernel models)" % ", ".join(THEOREMS),
        "explored": {k: v for k, v in ctx.counters.items() if k.startswith("snapshot.")},
    }


def replay(ctx, path):
    obj = json.load(open(path))
    rep = obj.get("replay", {})
    ops = rep.get("ops") or (rep.get("extra") or {}).get("ops")
    stream = rep.get("stream") or (rep.get("extra") or {}).get("stream") or "snapshot"
    if not ops:
        ctx.log("replay file has no ops; re-running the full check")
        return run(ctx)
    install_local_known(ctx)
    if not (ctx.build_drv() and ctx.go_build()):
        return
    guard_binary(ctx)
    p = os.path.join(ctx.work, "replay.ops")
    write_lines(p, ops)
    if stream == "snapshot":
        snapshot_file(ctx, p, "replay")
        return
    ok, impl, model, log = ctx.run_pair(stream, p, "replay")
    _, _, m = ctx.compare(stream, p, impl, model)
    found = kernel_oracle(ctx, stream, ops, m.to_json() if m else None)
    if found:
        ctx.violation(found[0], found[1], found[2], True)
    elif m is not None:
        ctx.tie_broken("correspondence:%s" % stream, "replayed case still differs", m.to_json())
    ctx.account(stream, p, impl)


MANIFEST = {
    "level_text": ("PARTIAL. Lean 4 proof of (a) a snapshot monitor: `WellFormed` states the property over an abstract xDS snapshot (names unique per "
                   "type, no two listeners on one address, every RDS/EDS name that is referenced and requested is produced, virtual-host names and "
                   "case-insensitive domains unique per route configuration, filter-chain matches distinct per listener, weights in range, every "
                   "resource valid for the API's own validation) and `wellFormedB` / `firstViolation` / `allViolations` are proved sound AND complete for it "
                   "(wellFormedB_iff, firstViolation_sound, firstViolation_first, mem_allViolations_iff); (b) exact models of the conflict-resolution kernels with their "
                   "uniqueness theorems for ALL inputs: dedupeDomains (domains_unique_after_dedupe), normalizeClusters "
                   "(clusters_unique_after_normalize, normalize_first_wins), always-answer (requested_names_answered), the outbound listener conflict "
                   "rule (listener_conflict_total, one_entry_per_key, locked_frozen), the gateway TLS-host duplicate filter (accepted_hosts_unique), "
                   "each linked to the monitor clause it establishes (the link theorems are conditional on 'the snapshot's list IS the kernel's output', which no run "
                   "establishes for a full push). NOT proved: that xDS generation as a whole always yields a WellFormed snapshot "
                   "or terminates - that is explored: the verified monitor runs on real full and incremental pushes and on the merged client state after every step of push sequences (create / update / delete of objects in the running server; real FakeDiscoveryServer, real CDS/EDS/LDS/RDS "
                   "generators) of random meshes from colliding valid objects and from objects mutated past validation, for sidecar, router and "
                   "waypoint proxies, and must agree with an independent Go re-statement and accept."),
    "level_note": ("Weakest fit of the 20 properties: proof covers the monitor and five kernels, not generation (~100k lines); evidence separates proved "
                   "obligations (theorems) from explored snapshots (coverage.proved_vs_explored, counters snapshot.*; ~2600 real snapshots per quick "
                   "run, ~35000 thorough). Trusted: Lean kernel + {propext, Classical.choice, Quot.sound}; the hand-written kernel models (tied by "
                   "differential streams domains/clusters/answer/gwdup and the exhaustive 930-row table lconflict on the real functions); the "
                   "reduction of Envoy protos to the abstract snapshot (cross-checked on every snapshot by the Go re-statement on the protos); hooks "
                   "pilot/pkg/networking/core/zz_verif_c14.go, zz_verif_c12.go; Envoy's acceptance rules taken from the API comments (no Envoy "
                   "runs; dup-fcm is match equality, not Envoy's stronger overlap check); admission = schema ValidateConfig (CRD CEL rules not "
                   "run); nil elements of repeated fields not generated; ambient cases toggle features.EnableAmbient* in-process. 20 defects found "
                   "and fixed in /repo (15 with admitted objects); 5 admitted known findings (a non-HTTP port of an address-less service on one of the "
                   "sidecar's own ports; four gateway server-merge defects incl. istio#24638), each decided by a classifier on the shrunk mesh and the "
                   "verdict (protocol, server order, binds, duplicated listener and match key), and the family 'invalid input reaches Envoy config "
                   "unsanitised' as 28 explicit (rule, mutation) pairs are listed as known; every crash, every other clause, every other combination "
                   "and everything that could not be shrunk still fails the run."),
    "technique": "Lean 4: verified snapshot monitor (sound+complete) run on real full pushes (T-mon) + exact kernel models with differential / exhaustive correspondence (T-diff)",
    "design_ref": "DESIGN.md section 5 C14",
}
