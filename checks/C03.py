"""C03 - Delta xDS leaves a client in the same state as state-of-the-world xDS.

Proof (lean/IstioModel/C03):
  Theorems.lean     bookkeeping of pushDeltaXds (removed = watched - generated, record update, never-remove), one-push
                    synchronisation per generator class; delta_aware_sync DISCHARGED for the model's delta-aware CDS generator
                    (delta_cds_gen_sync) + witness that a keyed delta is wrong when the keys are behind the state
  History.lean      delta_eq_sotw_history: the closed system of ONE wildcard type whose server decisions are taken by the tied
                    handlers processDelta / pushDeltaOne / processSotw / pushSotwOne (ACK round trips, arbitrary subscription
                    changes, lost pushes, reconnects presenting retained state): after every prefix of every history delta = SotW = world
  WdsTheorems.lean  the real WorkloadGenerator model: requests and pushes, wildcard and on-demand, version skip, alias rule,
                    Workload type; WorkloadRBACGenerator: forced resync, keyed push; witnesses of the known on-demand class
  WdsHistory.lean   wds_wildcard_history: the wildcard ztunnel client over wdsProcessT / wdsPushOneT holds exactly the index
Tie: T-diff on the real processDeltaRequest / pushConnectionDelta / pushDeltaXds / processRequest / pushConnection
(verif hooks, bare DiscoveryServer):
  book   - scripted generator outputs; responses and watch table vs lean/IstioModel/C03/Server.lean
  equiv  - world-based plain generators, SotW client and delta client on the same history
  equivd - same with a delta-aware CDS generator (BuildDeltaClusters-like)
  wds    - the REAL WorkloadGenerator (Address and Workload types) and the REAL WorkloadRBACGenerator (Authorization type)
           over a stub ambient index (workloads whose address is not indexed, shared addresses, Service addresses, policies)
  e2e/c03 - the statement itself on a real DiscoveryServer with the real generators (no model): sidecar, router and ztunnel clients
On break: harness `oracle` evaluates the property on the real code (what the clients hold; nothing still needed is removed).
"""
import json
import os

from checks import e2e_common

THEOREMS = ["IstioModel.C03.Theorems", "IstioModel.C03.WdsTheorems", "IstioModel.C03.History", "IstioModel.C03.WdsHistory"]
STREAMS = ("book", "equiv", "equivd", "wds")


def oracle(ctx, stream, case_lines, rep):
    cands = []
    p = os.path.join(ctx.work, "%s.oracle.ops" % stream)
    with open(p, "w") as f:
        f.write("\n".join(case_lines) + "\n")
    cands.append(p)
    g = os.path.join(ctx.work, "%s.gen.ops" % stream)
    if os.path.exists(g):
        cands.append(g)
    for ops in cands:
        out = ops + ".verdict"
        rc, log = ctx.harness("oracle", stream, ops, out)
        if rc != 0 or not os.path.exists(out):
            continue
        for i, v in enumerate(ctx.read_lines(out)):
            if v.startswith("FAIL"):
                clause = v.split()[1]
                lines = ctx.read_lines(ops)
                starts = [k for k, l in enumerate(lines) if l.startswith("case")]
                s = starts[i]
                e = starts[i + 1] if i + 1 < len(starts) else len(lines)
                return ("%s:%s" % (stream, clause),
                        "delta xDS client state differs from the SotW client's on the real server plumbing (%s, clause %s)" % (stream, clause),
                        {"stream": stream, "ops": lines[s:e], "oracle_verdict": v, "correspondence": rep})
    return None


# Known findings of C03 that known-findings.json does not carry yet (sent to the coordinator, notes/C03.md "Review
# round 2"); a local copy is used until it does, so that exactly this input class is a KNOWN-FINDING line and anything
# else still fails (BUILDING.md: "test with a local copy of the entry").
LOCAL_KNOWN = []  # every known finding lives in /verif/known-findings.json


def add_local_known(ctx):
    have = {k.get("fingerprint") for k in ctx.known}
    for k in LOCAL_KNOWN:
        if k["fingerprint"] not in have:
            ctx.known.append(k)


def run(ctx):
    add_local_known(ctx)
    ctx.rule = ("book: random scripts of generator outputs (plain / delta-aware, nil / empty / resources, deleted, usedDelta, incremental), "
                "delta and SotW requests (subscribe/unsubscribe/initial versions, nonce current/stale/empty, NACK), pushes and send failures over 10 xDS types; "
                "equiv/equivd: random histories of world changes, client (re)subscriptions and pushes for 7 types with world-based generators; "
                "wds: one ztunnel-like client per case on the Address / Workload / Authorization type: index and policy changes with the pushes that name them, "
                "forced pushes, subscription changes by name and by address, reconnects presenting retained versions, failed sends; "
                "e2e/c03: corpus + generated histories of mesh changes (ServiceEntry, DestinationRule, VirtualService, Sidecar, PeerAuthentication, EnvoyFilter, Gateway, "
                "memory-registry services, kube pods/services) played to a SotW and a delta client of one proxy (sidecar / router) or to ztunnel clients; "
                "distinct = hash of (ops, implementation outputs); non-trivial = at least one op")
    ctx.assumptions = [
        "history theorems: the generator is full and not delta-aware (CDS on forced pushes, LDS, NDS) or the exact model of the real WorkloadGenerator; that the real "
        "CDS/EDS/LDS/RDS/ECDS generators keep the two clients equal is observed end-to-end (e2e/c03), not proved; delta-aware CDS is proved correct only for the model's "
        "generator and only when the keys of a push name every differing resource (the known class events-behind-state is exactly the failure of that condition)",
        "xDS for a request is generated from proxy.LastPushContext (the snapshot of the last push to the connection); endpoints are live - modelled as the visibility rule of the equiv streams",
        "the delta client applies resources and removed_resources of a response; the Lean client lets a resource win over a removal of the same name, the Go harness clients apply "
        "removals last - the two agree because no modelled response names a resource in both lists (applyDelta_order_irrelevant, removed_disjoint_plain, removed_disjoint_delta_cds, "
        "wds_removed_disjoint, wauth_removed_disjoint); the SotW client replaces wildcard types and upserts named types (xDS protocol document); snapshots contain no resource named '*'",
        "wds_wildcard_history assumes changeOK: every index change is announced by a push whose AddressesUpdated names (by resource name, not by address) every resource that differs",
        "e2e/c03: ECDS is compared too (never-remove: both clients keep an extension config the generator no longer answers while a listener refers to it); forceEDSPush with the real "
        "generators is reached by the `creconn` client op (both clients reconnect mid-history) and judged in depth by C05's e2e stream; long-lived vs fresh is C01's statement - only one "
        "hand-written corpus history compares the delta client's endpoints with a client connected at the end (clause delta-eds-ne-fresh)",
        "wds stream: the ambient index behind the real generators is a stub with the contract of ambientindex.go AddressInformation / AdditionalPodSubscriptions (node-local part) / "
        "authorization.go Policies; the real index runs in the ztunnel cases of e2e/c03",
    ]
    ctx.trusted.append("pilot/pkg/xds/zz_verif_c03.go, zz_verif_c04.go (verif-tagged accessors: bare server, processDeltaRequest, processRequest, pushConnection[Delta], pushDeltaXds)")
    ctx.lean_prove(THEOREMS)
    if not ctx.build_drv():
        return
    if not ctx.go_build():
        return
    ctx.diff_stream("book", ctx.n(1200, 30000), oracle=oracle)
    ctx.diff_stream("equiv", ctx.n(1200, 30000), oracle=oracle)
    ctx.diff_stream("equivd", ctx.n(800, 20000), oracle=oracle)
    # the REAL WorkloadGenerator (Address / Workload types; wildcard + on-demand, version skip) and the REAL WorkloadRBACGenerator over a stub ambient index
    ctx.diff_stream("wds", ctx.n(1500, 40000), oracle=oracle)
    # second line: the property oracle on every generated case, independent of the model
    for stream in STREAMS:
        g = os.path.join(ctx.work, "%s.gen.ops" % stream)
        if os.path.exists(g):
            out = g + ".verdict"
            rc, log = ctx.harness("oracle", stream, g, out)
            if rc == 0 and os.path.exists(out):
                vs = ctx.read_lines(out)
                ctx.count("oracle.%s.cases" % stream, len(vs))
                if any(v.startswith("FAIL") for v in vs):
                    found = oracle(ctx, stream, ["case 0 %s" % stream], None)
                    if found:
                        ctx.violation(found[0], found[1], found[2], True)
    # the statement itself on the REAL generators: one history played to a SotW and a delta client of the same proxy
    # on a real DiscoveryServer (CDS/EDS/LDS/RDS; ztunnel flavour: WDS vs fresh clients), compared at every step
    # (3/5 sidecar incl. inbound services, PeerAuthentication, EnvoyFilter / ECDS; 1/5 router with gateway-filtered
    # clusters; 1/4 ztunnel); the shards are processes playing every n-th case side by side
    e2e_common.run(ctx, "c03", ctx.n(60, 400), shards=ctx.n(3, 4))


def replay(ctx, path):
    add_local_known(ctx)
    obj = json.load(open(path))
    rep = obj.get("replay", {})
    if e2e_common.is_e2e_replay(rep):
        return e2e_common.replay(ctx, rep)
    ops = rep.get("ops") or (rep.get("extra") or {}).get("ops")
    stream = rep.get("stream") or (rep.get("extra") or {}).get("stream") or "book"
    if not ops:
        return run(ctx)
    if not (ctx.build_drv() and ctx.go_build()):
        return
    p = os.path.join(ctx.work, "replay.ops")
    with open(p, "w") as f:
        f.write("\n".join(ops) + "\n")
    ok, impl, model, log = ctx.run_pair(stream, p, "replay")
    _, _, m = ctx.compare(stream, p, impl, model)
    found = oracle(ctx, stream, ops, m.to_json() if m else None)
    if found:
        ctx.violation(found[0], found[1], found[2], True)
    elif m is not None:
        ctx.tie_broken("correspondence:%s" % stream, "replayed case still differs", m.to_json())
    ctx.account(stream, p, impl)


MANIFEST = {
    "level_text": ("Lean 4 proof over an exact model of the server-side delta bookkeeping (pushDeltaXds narrowing, removed = watched - generated, record update, "
                   "never-remove, sendDelta, processDeltaRequest with forceEDSPush), of both client kinds, of the real WorkloadGenerator (Address / Workload types) and "
                   "of WorkloadRBACGenerator. History theorems: delta_eq_sotw_history - for a wildcard, not generator-managed type with a full generator, in the closed "
                   "system (only that type is watched; the `fullGen` premise is what the real code does for LDS, NDS and for CDS on forced pushes and requests - non-forced CDS pushes and the "
                   "Authorization type are delta-aware and covered by one-step theorems) whose every server decision is taken by the tied handlers (processDelta, pushDeltaOne, processSotw, pushSotwOne; every response ACKed through "
                   "them; arbitrary subscription changes, lost pushes, reconnects presenting retained state and nonce) the delta client holds exactly what the SotW client "
                   "holds after every prefix of every history, from any retained state; wds_wildcard_history - the same for the wildcard ztunnel client against the index "
                   "over the real generator's model. One-step theorems: removed_exact, ceased_resources_removed, needed_not_removed, ecds_never_removed, named types, "
                   "delta-aware generators (hypotheses discharged for the model's delta CDS generator when the keys cover the change; witness when they do not), on-demand "
                   "WDS requests and pushes, the alias rule, the Authorization type (a reconnect removes retained policies deleted while away). The abstract per-type run "
                   "`wstep` (delta_eq_sotw_wild) is kept; the handler-level theorem supersedes the two one-step refinement lemmas. The models are tied to /repo on every run "
                   "by four differential streams (book, equiv, equivd, wds) through the real request / push handlers and generators, and the statement itself is evaluated "
                   "on a real DiscoveryServer with the real CDS/EDS/LDS/RDS/ECDS/WDS generators by the e2e stream (sidecar, router and ztunnel clients)."),
    "level_note": ("Trusted: Lean kernel + {propext, Classical.choice, Quot.sound}; hand-written models tied by differential testing (book/equiv/equivd/wds streams on the real "
                   "processDeltaRequest/pushConnectionDelta/pushDeltaXds/processRequest/pushConnection, wds with the real WorkloadGenerator and WorkloadRBACGenerator over a "
                   "stub index); the real BuildDeltaClusters / EDS / LDS / RDS / ECDS generators are not modelled: their contribution to the property is observed by e2e/c03 "
                   "only (3 known classes, see known-findings); no history theorem for named types (one-step named_push_sync, which covers full EDS / RDS answers; the real partial EDS push "
                   "is delta-aware: only the undischarged delta_aware_sync applies) nor for the on-demand ztunnel client (one-step "
                   "request / push theorems; its known classes are stated as false FullStatements with witnesses); visibility rule 'requests are served from "
                   "proxy.LastPushContext' is an assumption of the equiv model; hooks pilot/pkg/xds/zz_verif_c03.go, zz_verif_c04.go, zz_verif_e2e.go."),
    "technique": "Lean 4 theorems over an exact model of delta-xDS bookkeeping, both client kinds and the ztunnel generators + differential correspondence with the real Go handlers + end-to-end evaluation of the statement on a real DiscoveryServer",
    "design_ref": "DESIGN.md section 5 C03",
}
