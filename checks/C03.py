"""C03 - Delta xDS leaves a client in the same state as state-of-the-world xDS.

Proof: lean/IstioModel/C03/Theorems.lean (bookkeeping of pushDeltaXds: removed = watched - generated,
record update, never-remove; one-push synchronisation for wildcard / named / delta-aware generator
classes; delta = SotW after every prefix of every history for wildcard types, from any retained state).
Tie: T-diff on the real processDeltaRequest / pushConnectionDelta / processRequest / pushConnection
(verif hooks, bare DiscoveryServer with harness generators):
  book   - scripted generator outputs; responses and watch table vs lean/IstioModel/C03/Server.lean
  equiv  - world-based plain generators, SotW client and delta client on the same history
  equivd - same with a delta-aware CDS generator (BuildDeltaClusters-like)
  wds    - the real WorkloadGenerator (GenerateDeltas / generateDeltasOndemand / appendAddress) over a stub ambient index
On break: harness `oracle` compares what the two real clients hold (the property itself).
"""
import json
import os

from checks import e2e_common

THEOREMS = ["IstioModel.C03.Theorems", "IstioModel.C03.WdsTheorems", "IstioModel.C03.History", "IstioModel.C03.WdsHistory"]
STREAMS = ("book", "equiv", "equivd", "wds")


def oracle(ctx, stream, case_lines, rep):
    cands = []
    p = os.path.join(ctx.work, "%s.oracle.ops" % stream)
    with open(p, "w") as f:
        f.write("\n".join(case_lines) + "\n")
    cands.append(p)
    g = os.path.join(ctx.work, "%s.gen.ops" % stream)
    if os.path.exists(g):
        cands.append(g)
    for ops in cands:
        out = ops + ".verdict"
        rc, log = ctx.harness("oracle", stream, ops, out)
        if rc != 0 or not os.path.exists(out):
            continue
        for i, v in enumerate(ctx.read_lines(out)):
            if v.startswith("FAIL"):
                clause = v.split()[1]
                lines = ctx.read_lines(ops)
                starts = [k for k, l in enumerate(lines) if l.startswith("case")]
                s = starts[i]
                e = starts[i + 1] if i + 1 < len(starts) else len(lines)
                return ("%s:%s" % (stream, clause),
                        "delta xDS client state differs from the SotW client's on the real server plumbing (%s, clause %s)" % (stream, clause),
                        {"stream": stream, "ops": lines[s:e], "oracle_verdict": v, "correspondence": rep})
    return None


# Known findings of C03 that known-findings.json does not carry yet (sent to the coordinator, notes/C03.md "Review
# round 2"); a local copy is used until it does, so that exactly this input class is a KNOWN-FINDING line and anything
# else still fails (BUILDING.md: "test with a local copy of the entry").
LOCAL_KNOWN = [{
    "property_id": "C03",
    "status": "known",
    "fingerprint": "e2e:delta-ne-fresh:ondemand:service-member-added-after-subscribe",
    "what": ("known: property=C03 an on-demand WDS client that subscribed to a SERVICE (namespace/hostname or VIP) was answered with the "
             "service and its workloads of that moment; a workload that becomes a member later (selector / label change, pod created) is "
             "never pushed to it: the Service resource itself does not change, and pushes match subscriptions by resource name only "
             "(AddressesUpdated intersected with ResourceNames), where the new member's name is not. A fresh client with the same "
             "subscription gets the member (same root cause as alias-key-created-after-subscribe)"),
    "witness": {"corpus": "harness/e2e/corpus/c03.zt-ondemand-service-member-added-after-subscribe.json"},
}]


def add_local_known(ctx):
    have = {k.get("fingerprint") for k in ctx.known}
    for k in LOCAL_KNOWN:
        if k["fingerprint"] not in have:
            ctx.known.append(k)


def run(ctx):
    add_local_known(ctx)
    ctx.rule = ("book: random scripts of generator outputs (plain / delta-aware, nil / empty / resources, deleted, usedDelta, incremental), "
                "delta and SotW requests (subscribe/unsubscribe/initial versions, nonce current/stale/empty, NACK), pushes and send failures over 10 xDS types; "
                "equiv/equivd: random histories of world changes, client (re)subscriptions and pushes for 7 types with world-based generators; "
                "distinct = hash of (ops, implementation outputs); non-trivial = at least one op")
    ctx.assumptions = [
        "generators are abstract: theorems hold for any generator in the stated class (full-set / always-answer / correct-delta); that the real CDS/EDS/LDS/RDS generators are in those classes is observed end-to-end, not proved",
        "xDS for a request is generated from proxy.LastPushContext (the snapshot of the last push to the connection); endpoints are live - modelled as the visibility rule of the equiv streams",
        "the delta client applies resources then removed_resources; the SotW client replaces wildcard types and upserts named types (xDS protocol document)",
    ]
    ctx.trusted.append("pilot/pkg/xds/zz_verif_c03.go, zz_verif_c04.go (verif-tagged accessors: bare server, processDeltaRequest, processRequest, pushConnection[Delta])")
    ctx.lean_prove(THEOREMS)
    if not ctx.build_drv():
        return
    if not ctx.go_build():
        return
    ctx.diff_stream("book", ctx.n(1200, 30000), oracle=oracle)
    ctx.diff_stream("equiv", ctx.n(1200, 30000), oracle=oracle)
    ctx.diff_stream("equivd", ctx.n(800, 20000), oracle=oracle)
    # the REAL workload generator (wildcard + on-demand, version skip) over a stub ambient index
    ctx.diff_stream("wds", ctx.n(1500, 40000), oracle=oracle)
    # second line: the property oracle on every generated case, independent of the model
    for stream in STREAMS:
        g = os.path.join(ctx.work, "%s.gen.ops" % stream)
        if os.path.exists(g):
            out = g + ".verdict"
            rc, log = ctx.harness("oracle", stream, g, out)
            if rc == 0 and os.path.exists(out):
                vs = ctx.read_lines(out)
                ctx.count("oracle.%s.cases" % stream, len(vs))
                if any(v.startswith("FAIL") for v in vs):
                    found = oracle(ctx, stream, ["case 0 %s" % stream], None)
                    if found:
                        ctx.violation(found[0], found[1], found[2], True)
    # the statement itself on the REAL generators: one history played to a SotW and a delta client of the same proxy
    # on a real DiscoveryServer (CDS/EDS/LDS/RDS; ztunnel flavour: WDS vs fresh clients), compared at every step
    # (3/5 sidecar incl. inbound services, PeerAuthentication, EnvoyFilter / ECDS; 1/5 router with gateway-filtered
    # clusters; 1/4 ztunnel); the shards are processes playing every n-th case side by side
    e2e_common.run(ctx, "c03", ctx.n(60, 400), shards=ctx.n(3, 4))


def replay(ctx, path):
    add_local_known(ctx)
    obj = json.load(open(path))
    rep = obj.get("replay", {})
    if e2e_common.is_e2e_replay(rep):
        return e2e_common.replay(ctx, rep)
    ops = rep.get("ops") or (rep.get("extra") or {}).get("ops")
    stream = rep.get("stream") or (rep.get("extra") or {}).get("stream") or "book"
    if not ops:
        return run(ctx)
    if not (ctx.build_drv() and ctx.go_build()):
        return
    p = os.path.join(ctx.work, "replay.ops")
    with open(p, "w") as f:
        f.write("\n".join(ops) + "\n")
    ok, impl, model, log = ctx.run_pair(stream, p, "replay")
    _, _, m = ctx.compare(stream, p, impl, model)
    found = oracle(ctx, stream, ops, m.to_json() if m else None)
    if found:
        ctx.violation(found[0], found[1], found[2], True)
    elif m is not None:
        ctx.tie_broken("correspondence:%s" % stream, "replayed case still differs", m.to_json())
    ctx.account(stream, p, impl)


MANIFEST = {
    "level_text": ("Lean 4 proof: the server-side delta bookkeeping (pushDeltaXds narrowing, removed = watched - generated, record update, "
                   "never-remove, sendDelta, processDeltaRequest with forceEDSPush) and both client kinds are modelled exactly; theorems: removed_exact, "
                   "ceased_resources_removed, needed_not_removed, ecds_never_removed, one-push synchronisation for wildcard / named / delta-aware generator "
                   "classes, and delta_eq_sotw_wild - delta client = SotW client after every prefix of every history from any retained state. "
                   "The model is tied to /repo on every run by three differential streams through the real request/push handlers."),
    "level_note": ("Trusted: Lean kernel + {propext, Classical.choice, Quot.sound}; hand-written model tied by differential testing (book/equiv/equivd streams on the real "
                   "processDeltaRequest/pushConnectionDelta/processRequest/pushConnection with harness generators); generators are abstract in the theorems "
                   "(real BuildDeltaClusters etc. observed only); visibility rule 'requests are served from proxy.LastPushContext' is an assumption of the equiv model; "
                   "hooks pilot/pkg/xds/zz_verif_c03.go, zz_verif_c04.go."),
    "technique": "Lean 4 theorems over an exact model of delta-xDS bookkeeping and both client kinds + differential correspondence with the real Go handlers",
    "design_ref": "DESIGN.md section 5 C03",
}
