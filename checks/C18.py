"""C18 - The agent always serves a valid, matching, unexpired workload key and cert.

Proof: lean/IstioModel/C18/RotateTheorems.lean (rotation arithmetic of rotateTime, for all lifetimes, ratios,
jitter values) + Theorems.lean (SecretManagerClient state machine at atomic-step granularity, all schedules).
Tie: T-diff - stream `rotate`: the real rotateTime (verif hook) observed on random certificates; the Lean model
decides whether every observed delay lies in the interval of admissible delays (rand and the clock are not
controllable, floats compared by tolerance only); streams `cache` / `conc`: a real SecretManagerClient with a
scripted fake CA vs the Lean state machine, line by line.
On break: harness `oracle` states the property on the real results (delay <= time to expiry, key/cert match, ...).
"""
import os

THEOREMS = ["IstioModel.C18.RotateTheorems", "IstioModel.C18.Invariants", "IstioModel.C18.Reach", "IstioModel.C18.Theorems"]


def split_cases(lines):
    """[(start, end)] index ranges of the cases of an ops file."""
    starts = [k for k, l in enumerate(lines) if l.startswith("case")]
    return [(s, starts[i + 1] if i + 1 < len(starts) else len(lines)) for i, s in enumerate(starts)]


_ORACLE_MEMO = {}


def run_oracle(ctx, stream, ops):
    """Run the harness oracle on an ops file; the verdicts of one file content are computed once per check run
    (the oracles execute the real code for seconds: the generated file is looked at by the mismatch path and by
    oracle_all)."""
    import hashlib
    key = (stream, hashlib.sha1(open(ops, "rb").read()).hexdigest())
    if key in _ORACLE_MEMO:
        return _ORACLE_MEMO[key]
    out = ops + ".verdict"
    if os.path.exists(out):
        os.remove(out)
    rc, log = ctx.harness("oracle", stream, ops, out)
    res = ctx.read_lines(out) if rc == 0 and os.path.exists(out) else None
    if res is None:
        ctx.log("oracle %s on %s failed rc=%d: %s" % (stream, os.path.basename(ops), rc, log[-500:]))
    _ORACLE_MEMO[key] = res
    return res


def oracle(ctx, stream, case_lines, rep):
    """Property-level search on the implementation: first the given case, then everything generated."""
    cands = []
    p = os.path.join(ctx.work, "%s.oracle.ops" % stream)
    with open(p, "w") as f:
        f.write("\n".join(case_lines) + "\n")
    cands.append(p)
    g = os.path.join(ctx.work, "%s.gen.ops" % stream)
    if os.path.exists(g):
        cands.append(g)
    for ops in cands:
        verdicts = run_oracle(ctx, stream, ops)
        if verdicts is None:
            continue
        lines = ctx.read_lines(ops)
        cases = split_cases(lines)
        for i, v in enumerate(verdicts):
            if v.startswith("FAIL") and i < len(cases):
                clause = v.split()[1]
                s, e = cases[i]
                return ("%s:%s" % (stream, clause),
                        "node agent %s: clause '%s' of the property fails on the real code" % (stream, clause),
                        {"stream": stream, "ops": lines[s:e], "oracle_verdict": v, "correspondence": rep})
    return None


def timer_oracle(ctx, stream, case_lines, rep):
    """Stream `timer`: two observations are verdicts about the real delayed queue by themselves and need no
    reproduction (they are rare schedule events): a rotation task that never ran within 60 s, and the queue
    stress reporting tasks that never ran.  Everything else goes to the generic property oracle."""
    impl = (rep or {}).get("implementation", "")
    if impl == "scheduled-after-expiry":
        return ("timer:rotation-scheduled-after-expiry",
                "a certificate's renewal was scheduled for after the NotAfter of its leaf (registerSecret / rotateTime / ExpireTime)",
                {"stream": stream, "ops": case_lines, "observed": impl, "correspondence": rep})
    if impl == "timeout":
        return ("timer:rotation-never-fired",
                "a scheduled certificate rotation was never run by the real delayed queue (pkg/queue/delay.go)",
                {"stream": stream, "ops": case_lines, "observed": impl, "correspondence": rep})
    if impl.startswith("lost-rotations=") and impl != "lost-rotations=0":
        return ("timer:rotation-lost-task-before-store",
                "on the client's own delayed queue a zero-delay rotation task ran before its certificate was stored and was a "
                "no-op: the certificate is never renewed (" + impl + ")",
                {"stream": stream, "ops": case_lines, "observed": impl, "correspondence": rep})
    if impl.startswith("lost=") and impl != "lost=0 burst:lost-delayed=0,lost=0,early=0 pairs:lost=0 far-near:misordered=0,lost=0 retry:bad=0":
        return ("timer:queue-task-stranded",
                "the real delayed queue (DelayQueueBuffer(0), as the node agent uses it) left pushed tasks on the heap: " + impl,
                {"stream": stream, "ops": case_lines, "observed": impl, "correspondence": rep})
    return oracle(ctx, stream, case_lines, rep)


def rotate_stream(ctx, ncases):
    """T-diff for rotateTime. The real function draws its jitter from math/rand and reads the clock, so its
    result is an observation, not a reproducible value: exec prints `obs (d w0 w1)*`, the observations are
    joined to the op line (`rotobs ...`) and the Lean model answers `in` iff every observed delay lies in the
    model's interval of admissible delays (hull over the jitter range and the time window of the call,
    widened by the float tolerance `tol`).  Anything but `in` is a broken correspondence."""
    stream = "rotate"
    st = {"cases": 0, "ops": 0, "agree": True}
    ctx.streams[stream] = st
    files = []
    cdir = os.path.join(os.path.dirname(os.path.dirname(os.path.abspath(__file__))), "harness", "corpus", ctx.pid)
    if os.path.isdir(cdir):
        for f in sorted(os.listdir(cdir)):
            if f.startswith(stream + ".") and f.endswith(".ops"):
                files.append(("corpus:" + f, os.path.join(cdir, f)))
    if ncases > 0:
        ops = os.path.join(ctx.work, "%s.gen.ops" % stream)
        if os.path.exists(ops):
            os.remove(ops)
        rc, out = ctx.harness("gen", stream, ctx.seed, ncases, ops)
        if rc != 0 or not os.path.exists(ops):
            ctx.tie_broken("harness-gen:" + stream, out)
            st["agree"] = False
            return False
        files.append(("generated", ops))
    all_ok = True
    for tag, ops in files:
        impl = os.path.join(ctx.work, "%s.run.impl" % stream)
        joined = os.path.join(ctx.work, "%s.run.joined.ops" % stream)
        model = os.path.join(ctx.work, "%s.run.model" % stream)
        for p in (impl, joined, model):
            if os.path.exists(p):
                os.remove(p)
        rc, out = ctx.harness("exec", stream, ops, impl)
        if rc != 0:
            ctx.tie_broken("stream-run:" + stream, "harness exec rc=%d: %s" % (rc, out[-3000:]), {"ops_file": tag})
            st["agree"] = False
            all_ok = False
            continue
        lines = ctx.read_lines(ops)
        obs = ctx.read_lines(impl)
        with open(joined, "w") as f:
            for i, l in enumerate(lines):
                o = obs[i] if i < len(obs) else "missing"
                if l.startswith("rot ") and o.startswith("obs "):
                    f.write("rotobs " + l[4:] + " " + o[4:] + "\n")
                elif l.startswith("case") and o == "ok":
                    f.write(l + "\n")
                else:
                    f.write("implementation-said " + o.replace(" ", "_") + "\n")
        rc, err = ctx.drv(stream, joined, model)
        if rc != 0:
            ctx.tie_broken("stream-run:" + stream, "lean driver rc=%d: %s" % (rc, err[-3000:]), {"ops_file": tag})
            st["agree"] = False
            all_ok = False
            continue
        verdicts = ctx.read_lines(model)
        cases = split_cases(lines)
        st["cases"] += len(cases)
        st["ops"] += len(lines)
        # coverage accounting: the observations are timing dependent, hash the inputs only
        for s, e in cases:
            body = lines[s + 1:e]
            ctx.note_case(stream + "\n" + "\n".join(body), len(body) > 0,
                          {"stream": stream, "ops": lines[s:e], "implementation_output": obs[s:e],
                           "model_verdict": verdicts[s:e]}
                          if not any(x.get("stream") == stream for x in ctx.samples) else None)
            for l in body:
                ctx.count("%s.op.%s" % (stream, l.split(" ", 1)[0]))
        bad = None
        for i, l in enumerate(lines):
            want = "ok" if l.startswith("case") else "in"
            got = verdicts[i] if i < len(verdicts) else "<missing: model driver stopped>"
            if got != want:
                bad = i
                break
        if bad is None:
            continue
        all_ok = False
        st["agree"] = False
        s, e = [c for c in cases if c[0] <= bad < c[1]][0]
        rep = {"stream": stream, "source": tag, "ops": [lines[s], lines[bad]],
               "implementation": obs[bad] if bad < len(obs) else "<missing>",
               "model": verdicts[bad] if bad < len(verdicts) else "<missing>"}
        ctx.log("stream rotate (%s): observation outside the model interval\n   op   : %s\n   impl : %s\n   model: %s"
                % (tag, lines[bad], rep["implementation"], rep["model"]))
        found = oracle(ctx, stream, [lines[s], lines[bad]], rep)
        if found:
            ctx.violation(found[0], found[1], found[2], True)
        else:
            ctx.tie_broken("correspondence:" + stream,
                           "the real rotateTime returned a delay outside the model's admissible interval; "
                           "the property oracle found no failing input", rep)
    ctx.log("stream %s: %d cases, %d ops, %s" % (stream, st["cases"], st["ops"], "agree" if all_ok else "DIFFER"))
    return all_ok


def oracle_all(ctx, streams):
    """Second line, independent of the model: the property oracle over every generated case."""
    for stream in streams:
        g = os.path.join(ctx.work, "%s.gen.ops" % stream)
        if not os.path.exists(g):
            continue
        verdicts = run_oracle(ctx, stream, g)
        if verdicts is None:
            ctx.tie_broken("oracle-run:" + stream, "the harness oracle did not run")
            continue
        ctx.count("oracle.%s.cases" % stream, len(verdicts))
        if any(v.startswith("FAIL") for v in verdicts):
            found = oracle(ctx, stream, ["case 0 %s" % stream], None)
            if found:
                ctx.violation(found[0], found[1], found[2], True)


def class_counters(ctx):
    """Branch / class counters of the generated cases (evidence `counters`): which branches of the real code the run
    went through, read from the ops and the implementation's own output lines."""
    from fractions import Fraction

    def pair(stream):
        g = os.path.join(ctx.work, "%s.gen.ops" % stream)
        i = os.path.join(ctx.work, "%s.run.impl" % stream)
        if not (os.path.exists(g) and os.path.exists(i)):
            return []
        return list(zip(ctx.read_lines(g), ctx.read_lines(i)))

    def c(key, by=1):
        ctx.count("class." + key, by)

    for stream in ("cache", "citadel"):
        prev_ca = 0
        for op, out in pair(stream):
            t = op.split()
            if t[0] == "case":
                prev_ca = 0
                if len(t) >= 7:
                    r, j = Fraction(int(t[3]), int(t[4])), Fraction(int(t[5]), int(t[6]))
                    c("%s.config.%s" % (stream, "bucketable" if (j <= Fraction(1, 16) and (r * 4).denominator == 1) else "jitter-spans-buckets"))
                    c("%s.config.ratio-%s-jitter" % (stream, "gt" if r > j else "le"))
                if len(t) == 8:
                    c("%s.variant.%s" % (stream, t[7]))
                continue
            f = dict(x.split("=", 1) for x in out.split() if "=" in x)
            ca = int(f.get("ca", prev_ca) or 0)
            if t[0] in ("gen", "cgen"):
                res = "default" if t[1] == "w" else "ROOTCA"
                if ca == prev_ca:
                    c("%s.gen.%s.%s" % (stream, res, "hit" if out.startswith("ok") else "error-without-ca"))
                elif out.startswith("ok"):
                    c("%s.gen.%s.miss-ok" % (stream, res))
                    if t[0] == "gen" and len(t) > 3 and int(t[3]) <= 0:
                        c("%s.gen.ttl<=0" % stream)
                    if t[0] == "gen" and len(t) > 5 and t[5] != "-":
                        c("%s.gen.published-bundle" % stream)
                else:
                    c("%s.gen.%s.miss-error.%s" % (stream, res, t[2]))
                if "R" in f.get("ev", ""):
                    c("%s.gen.root-change-announced" % stream)
                if f.get("push") == "P":
                    c("%s.gen.task-pushed" % stream)
            elif t[0] == "fire":
                c("%s.fire.%s" % (stream, {"clear": "own-task-clears", "noop": "stale-task-noop"}.get(out.split()[0], "absent-or-already-run")))
            elif t[0] == "bundle":
                c("%s.bundle.%s" % (stream, "changed" if out.startswith("changed=1") else "same-skipped"))
            prev_ca = ca
    for op, out in pair("rotate"):
        t = op.split()
        if t[0] != "rot":
            continue
        life = int(t[2]) - int(t[1])
        r, j = Fraction(int(t[3]), int(t[4])), Fraction(int(t[5]), int(t[6]))
        c("rotate.lifetime.%s" % ("negative" if life < 0 else "zero" if life == 0 else "sub-microsecond" if life < 1000 else "positive"))
        c("rotate.ratio.%s" % ("below-0" if r < 0 else "above-1" if r > 1 else "in-[0,1]"))
        c("rotate.jitter.%s" % ("zero" if j == 0 else "ratio<=jitter" if r <= j else "ratio>jitter"))
        c("rotate.created.%s" % ("in-future" if int(t[1]) > 0 else "now-or-past"))
    for op, out in pair("conc"):
        t = op.split()
        if t[0] == "conc":
            n, k = int(t[1]), int(t[2])
            c("conc.%s" % ("all-calls-fail" if k >= n else "some-calls-fail" if k > 0 else "ca-healthy"))
            c("conc.kinds.%s" % ("mixed" if ("w" in t[4] and "r" in t[4]) else "default-only" if "w" in t[4] else "ROOTCA-only"))
        # (stress / outdir are counted per op by the stream accounting: conc.op.stress, conc.op.outdir)
    for op, out in pair("sds"):
        t = op.split()
        if t[0] == "case":
            continue
        f = out.split()
        ev = f[0][3:] if f and f[0].startswith("ev=") else ""
        if "R" in ev and t[0] in ("rotate", "sub", "resub"):
            c("sds.root-change-pushed")
        if ":closed:" in out:
            c("sds.stream-ended-by-failing-ca(lines)")
        if t[0] == "sub":
            c("sds.sub.%s" % t[2])
        if t[0] == "rotate":
            c("sds.rotate.%s" % ("cache-empty" if ev == "-" else "with-subscribers" if ":n=" in out else "no-subscriber"))
    for op, out in pair("file"):
        t = op.split()
        if t[0] == "case":
            c("file.volume.%s" % ({"kube": "kube-symlink", "link": "re-pointed-symlinks"}.get(t[3], t[3]) if len(t) == 4 else "regular-files"))
        elif t[0] in ("fgen", "fwrite"):
            c("file.%s.%s" % (t[0], t[1]))
    # what the uncontrolled concurrent ops actually exercised (side files written by the harness next to the exec output)
    for stream in ("conc", "file", "timer"):
        sp = os.path.join(ctx.work, "%s.run.impl.stats" % stream)
        if not os.path.exists(sp):
            continue
        for line in ctx.read_lines(sp):
            t = line.split()
            if not t:
                continue
            c("exercised.%s.runs" % t[0])
            for kv in t[1:]:
                if "=" in kv:
                    k, v = kv.split("=", 1)
                    if v.lstrip("-").isdigit():
                        c("exercised.%s.%s" % (t[0], k), int(v))
    for op, out in pair("timer"):
        t = op.split()
        if t[0] == "rt":
            c("timer.%s.ttl%s" % ("stale-scenario" if t[4] == "1" else "fresh-scenario", t[1]))
        elif t[0] == "rt3":
            c("timer.three-pending-tasks-last-due-first")
    for op, out in pair("citadel"):
        t = op.split()
        if t[0] == "case":
            c("citadel.transport.%s" % ("tls-root-file" if len(t) == 8 else "plaintext"))
        elif t[0] == "cgen":
            c("citadel.ca-answer.%s" % t[2])
        elif t[0] == "rootfile" and t[1] == "hide":
            c("citadel.reconnect-while-root-file-unreadable")


def run(ctx):
    ctx.rule = ("rotate: random (created, expire, ratio, jitter bound) incl. boundary lifetimes 0/1/2/3 ns .. 10 y and 2^53+1 ns, "
                "ratios/jitters from tables, random, ratio = jitter +- 1 ulp, out-of-range; 3 real calls each. "
                "cache: random scripts (1-30 ops) of GenerateSecret(default|ROOTCA) with per-call CA behaviour (TTL -1h..90d, signer, "
                "published bundle, 4 error kinds), UpdateConfigTrustBundle, rotation callbacks aimed at current/stale/used/absent entries; "
                "ratio in {0, .1, .25, 1/3, .5, .6, .75, .9, 1} x jitter in {0, .01, 1/16, .3, .5, 1}; client variants: OUTPUT_CERTS = directory "
                "of the cert paths, RSA keys, PKCS#8 keys, no CA client. conc: N=1..12 goroutines, 0-3 failing CA calls, slow CA; 2-3 stress ops "
                "(GenerateSecret || rotation tasks, some inside a slow PushDelayed || bundle updates incl. repeated and empty ones; failing CA, "
                "alternating roots, published bundles, TTL < 0; ratio/jitter by seed) and 1 outdir op (OutputKeyCertToDir, bundle updates, "
                "failing CA). citadel: real CitadelClient against an in-process gRPC CA (normal / three-element / leaf-only / empty chain, gRPC "
                "error), ratios as cache. file: file-mounted key/cert/root as regular files or a kubelet-style ..data symlink volume; "
                "GenerateSecret under the default, file-cert: and file-root: names, atomic replacement, bundle; one fstress (replacement "
                "concurrent with GenerateSecret, half-written certificates). sds: real sds.Server with 0-5 gRPC subscribers: subscribe (one or "
                "two resources), unsubscribe, changed resource set, drop, rotate, stale task, bundle (with / without default subscriber), "
                "failing CA, changing root. timer: real delayed queue, 3-6 s lifetimes (first delay > 1 s, one shape with jitter 0.1), a queue "
                "stress in two shapes, 1500 zero-delay rotations on the client's own queue. distinct = hash of (ops, implementation "
                "outputs) (rotate: inputs only); non-trivial = at least one op. Branch / class counts: counters class.*")
    ctx.assumptions = [
        "float64 rounding in rotateTime is not modelled; real results are accepted within tol(L) = |L|/2^50 + 2 ns of the exact interval",
        "sync.Mutex / RWMutex give atomic critical sections; time.Now() is monotone non-decreasing",
        "CreatedTime values of different CA responses differ (explicit hypothesis DistinctCreated of timer_clears_only_own_cert; witness without it)",
        "the CA client signs the CSR it is given (certificate public key = CSR public key); CA behaviour is otherwise arbitrary input",
        "the jitter value drawn by rand is admissible for the configured bound (hypothesis of scheduled_strictly_before_expiry_step; the model's step accepts any value)",
        "the scheduled delay is counted from the instant rotateTime read the clock; the delayed queue adds its own enqueue latency",
        "specific interleavings are not forced on the real code (no gate hooks): concurrency is tied by uncontrolled stress runs asserting the invariants' observables",
        "the model has one clock input per step; the real code mixes the wall-clock NotAfter of the certificate (second granularity) with the monotonic clock of timers: expiry-related clauses are judged on the real code against the leaf's NotAfter, not proved about that mix",
        "timer stream shapes: at most three pending tasks with lifetimes of 3-9 s (first delay > 1 s); other queue shapes only through the qs stress (single, burst, pairs, far-far-near, retry)",
        "the Citadel client runs over plaintext in 2/3 and over TLS with a root file in 1/3 of the citadel cases; client certificates (Key / Cert of TLSOptions) are not exercised",
        "file-mounted certificates, OutputKeyCertToDir, the SDS server, the Citadel client and the delayed queue are observed (streams file / outdir / sds / citadel / timer), not modelled line by line; file paths are modelled as 'returns the file pair'",
        "almost all runs use ECDSA P-256 keys (RSA 2048 and PKCS#8 only in a few cache-stream cases)",
        "not exercised: sdsservice toEnvoySecret cryptomb / QAT / CRL branches, FileMountedCerts / ServeOnlyFiles, FileRootSystemCACert; a removed / empty file makes the agent fall back to the CA (seen in fflicker, not judged); mixed mode (root file mounted, key/cert from the CA) only checked once by hand (notes)",
    ]
    ctx.trusted.append("security/pkg/nodeagent/cache/zz_verif_c18.go (verif-tagged accessors: rotateTime, queue injection, cache reads)")
    ctx.trusted.append("the fake CA (real x509 signing of the real CSR), the recording delayed queue and the recording secret handler of harness/c18")
    ctx.trusted.append("the in-process gRPC IstioCertificateService behind the real CitadelClient, and the plain gRPC SDS test client (ACK / unsubscribe / resubscribe conventions) of harness/c18")
    ctx.trusted.append("Linux inotify / fsnotify behaviour for atomic replacement and ..data symlink swaps (stream file), x509 second-granularity NotAfter")
    ctx.lean_prove(THEOREMS)
    if not ctx.build_drv():
        return
    if not ctx.go_build():
        return
    rotate_stream(ctx, ctx.n(8000, 200000))
    ctx.diff_stream("cache", ctx.n(1600, 40000), oracle=oracle)
    ctx.diff_stream("conc", ctx.n(100, 2500), oracle=oracle)
    ctx.diff_stream("citadel", ctx.n(150, 6000), oracle=oracle)
    ctx.diff_stream("file", ctx.n(40, 2000), oracle=oracle)
    ctx.diff_stream("sds", ctx.n(32, 1500), oracle=oracle)
    ctx.diff_stream("timer", ctx.n(8, 300), oracle=timer_oracle)
    class_counters(ctx)
    oracle_all(ctx, ["rotate", "cache", "conc", "citadel", "file", "sds", "timer"])


def replay(ctx, path):
    import json
    obj = json.load(open(path))
    rep = obj.get("replay", {})
    ops = rep.get("ops") or (rep.get("extra") or {}).get("ops")
    stream = rep.get("stream") or (rep.get("extra") or {}).get("stream") or "rotate"
    if not ops:
        ctx.log("replay file has no ops; re-running the full check")
        return run(ctx)
    if not (ctx.build_drv() and ctx.go_build()):
        return
    found = oracle(ctx, stream, ops, None)
    if found:
        ctx.violation(found[0], found[1], found[2], True)
        return
    if stream == "rotate":
        ctx.log("replayed case passes the property oracle")
        return
    p = os.path.join(ctx.work, "replay.ops")
    with open(p, "w") as f:
        f.write("\n".join(ops) + "\n")
    ok, impl, model, log = ctx.run_pair(stream, p, "replay")
    m = ctx.compare(stream, p, impl, model)[2] if ok else None
    if m is not None:
        ctx.tie_broken("correspondence:%s" % stream, "replayed case still differs", m.to_json())
    else:
        ctx.log("replayed case agrees with the model and passes the property oracle")


MANIFEST = {
    "level_text": ("Lean 4 proof. (1) rotateTime is modelled exactly over Int nanoseconds and exact fractions; for every lifetime, ratio and "
                   "jitter value: delay >= 0, now + delay <= expire (rotate_not_after_expiry), strictly before expiry under the exact side "
                   "condition floor(clamp(r-J)*L) >= 1 ns (rotate_strictly_before_expiry; strictness_needs_margin shows it is needed), "
                   "monotonicity, and the hull of admissible delays used by the tie. (2) SecretManagerClient is modelled as processes "
                   "interleaving at atomic steps (GenerateSecret for both resources, rotation callbacks, UpdateConfigTrustBundle, arbitrary CA "
                   "behaviour); pairs of writes whose order matters to a subscriber are separate steps (store then push the task, empty the "
                   "cache then notify, store the root / the bundle then announce). Fifteen invariants are proved for every schedule "
                   "(inv_reachable) and give: single_flight (<= 1 successful CA call between two cache clears, same pair for all calls inside "
                   "one epoch; with a failing CA the text's 'at most one signing request' is false - witness - and the exact bound is one plus "
                   "the failed ones); every cached certificate has its renewal queued, still pending, with delay <= time to expiry, or its "
                   "storer is between store and push (cached_cert_has_rotation_scheduled, store_then_push); the `default` callback never sees "
                   "the certificate to be rotated (rotation_event_after_clear); `ROOTCA` callbacks are made with certRoot / configTrustBundle "
                   "already updated (root_change_announced_step, bundle_event_after_store); failure_not_sticky; root_change_announced (both "
                   "resources); failure_not_sticky and root_includes_ca for sequential callers (Quiet); for the interleaved two-read ROOTCA path only "
                   "rootca_answer_interleaved: the answer is the union of the roots of the certificate cached at the call's FIRST read with the "
                   "anchors configured at its second read - a certificate stored in between is not reflected "
                   "(rootca_answer_can_be_stale_witness). A certificate obtained before a bundle update and stored after its clear is not "
                   "re-signed (lost_resign_witness; no theorem claims a re-sign). 'Stale callbacks are no-ops' is proved under the "
                   "explicit hypothesis that CreatedTime values are distinct (timer_clears_only_own_cert; witness without it). Strictness at "
                   "system level holds when the drawn jitter is admissible for the configured bound (scheduled_strictly_before_expiry_step). "
                   "pair_consistent is structural in the model; that the REAL key and leaf belong together rests on the oracle's public-key "
                   "comparison. Both models are tied to /repo on every run by differential execution of the real code."),
    "level_note": ("Trusted: Lean kernel + {propext, Classical.choice, Quot.sound}; the hand-written models (tied by differential testing, quick "
                   "tier: real rotateTime 3x on 8000 random certificates judged by the model's interval, float tolerance |L|/2^50 + 2 ns; a real "
                   "SecretManagerClient with a signing fake CA, recording queue (notes the cache state at PushDelayed) and handler (notes the "
                   "cache / bundle / root state at every callback) on 1600 random scripts with ratio and jitter over [0,1]^2; 100 concurrent "
                   "runs + 3 uncontrolled stress runs (GenerateSecret || rotation tasks, some run inside PushDelayed || bundle updates, "
                   "failing CA, changing roots, one or two bundle updaters) asserting the observables of the invariants - what they exercised is "
                   "counted under class.exercised.*; OutputKeyCertToDir under concurrency; 150 scripts through the real CitadelClient and an "
                   "in-process gRPC CA (one third over TLS with a root file that is made unreadable around failing calls; retried gRPC codes); "
                   "40 scripts on file-mounted certificates with real fsnotify events (plain files, kubelet volumes, a re-pointed symlink, "
                   "replacement under load, a file that vanishes while its watch is added); 32 scripts through the real sds.Server with gRPC "
                   "subscribers; the real delayed queue: 8 timed scenarios incl. three pending tasks with the last due first, a stress in five "
                   "shapes (60000 single pushes, delayed-then-burst, 60000 back-to-back / concurrent pushes, two far tasks then a near one, a "
                   "failing task that is retried), and 1500 zero-delay rotations on the queue NewSecretManagerClient creates itself); the "
                   "verif-tagged accessor "
                   "file security/pkg/nodeagent/cache/zz_verif_c18.go. Assumed: mutexes give atomic sections, the CA signs the CSR it is given, "
                   "CreatedTime values of different CA responses differ (explicit hypothesis of the stale-callback theorem), float64 rounding "
                   "stays within the tolerance. Observed but not modelled line by line: sdsservice.go, citadel/client.go, pkg/queue/delay.go, "
                   "nodeagent/util OutputKeyCertToDir, the file-mounted paths (modelled as 'returns the file pair'). Specific interleavings are not forced on the real code (no gate hooks). The scheduled delay is proved <= time "
                   "to expiry from the instant rotateTime read the clock; the queue's enqueue latency comes on top (lateness is observed "
                   "against the leaf's NotAfter)."),
    "technique": "Lean 4 theorems over an exact model of rotateTime and an atomic-step interleaving model of SecretManagerClient + differential correspondence with the real Go code",
    "design_ref": "DESIGN.md section 5 C18",
}
